(* Aggregate.v — src/bartiq/transform.py: add_aggregated_resources, over exact rationals
   (multipliers and resource values are evaluated at a point before the model runs).
   Definitions only. *)
From Coq Require Import List String QArith ZArith Bool Qreduction.
From Bq Require Import Expr StdSem Routine Compile.
Import ListNotations.
Open Scope string_scope.

Definition mapping := list (string * Q).
Definition adict := list (string * mapping).

Definition get0 (k : string) (m : mapping) : Q := match lookup k m with Some v => v | None => 0 end.

(* m[k] = m[k] + v if present, else m[k] = v (appended) *)
Fixpoint add_to (k : string) (v : Q) (m : mapping) : mapping :=
  match m with
  | [] => [(k, v)]
  | (k', w) :: m' => if String.eqb k k' then (k', Qred (w + v)) :: m' else (k', w) :: add_to k v m'
  end.

Definition is_key (d : adict) (k : string) : bool := mem k (keys d).

(* _topological_sort: sub-resources that are themselves decomposed come first; None on a cycle *)
Definition agg_preds (d : adict) (a : string) : list string :=
  match lookup a d with Some m => filter (is_key d) (keys m) | None => [] end.
Definition agg_order (d : adict) : option (list string) :=
  kahn (List.length (keys d)) (keys d) (agg_preds d) [].

(* _expand_resource *)
Definition expand_resource (d : adict) (expanded : adict) (a : string) : mapping :=
  let m0 := match lookup a d with Some m => m | None => [] end in
  fold_left
    (fun m current =>
       let subs := match lookup current expanded with Some e => e | None => [] end in
       let m' := fold_left (fun m2 sm => add_to (fst sm) (Qred (get0 current m2 * snd sm)) m2) subs m in
       if is_key d current then remove_key current m' else m')
    (keys m0) m0.

(* _expand_aggregation_dict *)
Definition expand_dict (d : adict) : option adict :=
  match agg_order d with
  | None => None
  | Some order => Some (fold_left (fun e a => (e ++ [(a, expand_resource d e a)])%list) order [])
  end.

Definition rlist := list (string * (rtype * Q)).

Fixpoint update_res (k : string) (f : rtype * Q -> rtype * Q) (l : rlist) : rlist :=
  match l with
  | [] => []
  | (k', v) :: l' => if String.eqb k k' then (k', f v) :: l' else (k', v) :: update_res k f l'
  end.

(* the loop of _add_aggregated_resources_to_subroutine over one routine's resources *)
Definition aggregate_node (resources : rlist) (expanded : adict) (remove_decomposed : bool) : rlist :=
  fold_left
    (fun acc nr =>
       let '(name, (ty, val)) := nr in
       match lookup name expanded with
       | None => acc
       | Some mp =>
           let acc1 := fold_left
                         (fun acc2 sm =>
                            match lookup (fst sm) acc2 with
                            | Some _ => update_res (fst sm) (fun tv => (fst tv, Qred (snd tv + snd sm * val))) acc2
                            | None => (acc2 ++ [(fst sm, (ty, Qred (snd sm * val)))])%list
                            end) mp acc in
           if remove_decomposed then remove_key name acc1
           else update_res name (fun tv => (ROther, snd tv)) acc1
       end)
    resources resources.

(* ---------- specification: total multiplier along all decomposition paths ---------- *)
Fixpoint paths (fuel : nat) (d : adict) (a b : string) : Q :=
  match fuel with
  | O => 0
  | S f =>
      match lookup a d with
      | None => 0
      | Some m =>
          fold_right (fun cm acc => Qred (acc + (if is_key d (fst cm) then snd cm * paths f d (fst cm) b
                                                 else if String.eqb (fst cm) b then snd cm else 0)))
                     0 m
      end
  end.

(* new value of every resource name of interest, straight from C15's statement *)
Definition spec_value (d : adict) (resources : rlist) (b : string) : Q :=
  let old := match lookup b resources with Some (_, v) => v | None => 0 end in
  Qred (old + fold_right (fun nr acc => if is_key d (fst nr)
                                         then acc + snd (snd nr) * paths (S (List.length d)) d (fst nr) b
                                         else acc) 0 resources).

(* ---------- one case, at one point ---------- *)
(* impl_ok = None: the implementation raised; Some l: its resources for this node *)
Definition check_agg_node (d : adict) (resources : rlist) (remove_decomposed : bool)
           (impl : option rlist) (names : list string) : list nat * list nat :=
  match expand_dict d, impl with
  | None, None => ([0%nat], [0%nat])                     (* cyclic: rejected *)
  | None, Some _ => ([1%nat], [1%nat])                   (* cyclic but a result came back *)
  | Some _, None => ([1%nat], [1%nat])                   (* acyclic but rejected *)
  | Some e, Some got =>
      let model := aggregate_node resources e remove_decomposed in
      let tie := (if Nat.eqb (List.length model) (List.length got) then 0%nat else 1%nat)
                   :: map (fun nr => match lookup (fst nr) got with
                                     | Some (ty, v) => if rtype_eqb ty (fst (snd nr)) && Qeq_bool v (snd (snd nr)) then 0%nat else 1%nat
                                     | None => 1%nat
                                     end) model in
      let spec := flat_map (fun b =>
                              match lookup b got with
                              | Some (ty, v) =>
                                  [if Qeq_bool v (if is_key d b then (match lookup b resources with Some (_, o) => o | None => 0 end)
                                                  else spec_value d resources b) then 0%nat else 1%nat;
                                   (* decomposed resources: removed, or kept with type other *)
                                   if is_key d b then (if remove_decomposed then 1%nat else if rtype_eqb ty ROther then 0%nat else 1%nat)
                                   else match lookup b resources with
                                        | Some (oty, _) => if rtype_eqb ty oty then 0%nat else 1%nat   (* untouched type *)
                                        | None => 0%nat
                                        end]
                              | None =>
                                  (* absent: must be a decomposed resource that was removed, or one that was never there and receives nothing *)
                                  [if is_key d b then (if remove_decomposed || negb (mem b (keys resources)) then 0%nat else 1%nat)
                                   else if mem b (keys resources) then 1%nat
                                   else if existsb (fun nr => is_key d (fst nr)
                                                              && mem b (match lookup (fst nr) e with Some m => keys m | None => [] end)) resources
                                        then 1%nat else 0%nat]
                              end) names in
      (tie, spec)
  end.


(* ---------- one case: symbolic dictionary and resources, evaluated at each point ---------- *)
Definition eval_pairs {T} (r : string -> Q) (m : list (string * (T * expr))) : option (list (string * (T * Q))) :=
  all_some (map (fun kv => match evalQ r (snd (snd kv)) with
                           | Some v => Some (fst kv, (fst (snd kv), v))
                           | None => None
                           end) m).
Definition eval_mapping (r : string -> Q) (m : list (string * expr)) : option mapping :=
  all_some (map (fun kv => match evalQ r (snd kv) with Some v => Some (fst kv, v) | None => None end) m).
Definition eval_adict (r : string -> Q) (d : list (string * list (string * expr))) : option adict :=
  all_some (map (fun kv => match eval_mapping r (snd kv) with Some m => Some (fst kv, m) | None => None end) d).

Definition check_agg_case (d : list (string * list (string * expr))) (remove_decomposed : bool)
           (nodes : list (list (string * (rtype * expr))))
           (impl : option (list (list (string * (rtype * expr)))))
           (names : list string) (pts : list (list (string * Q))) : list nat * list nat :=
  let per_point (p : list (string * Q)) :=
      let r := envQ p (dfltQ 0) in
      match eval_adict r d with
      | None => [([2%nat], [2%nat])]
      | Some dq =>
          map (fun k =>
                 match eval_pairs r (nth k nodes []) with
                 | None => ([2%nat], [2%nat])
                 | Some res =>
                     match impl with
                     | None => check_agg_node dq res remove_decomposed None names
                     | Some il => match eval_pairs r (nth k il []) with
                                  | Some got => check_agg_node dq res remove_decomposed (Some got) names
                                  | None => ([2%nat], [2%nat])
                                  end
                     end
                 end) (seq 0 (List.length nodes))
      end in
  let rs := flat_map per_point pts in
  (flat_map fst rs, flat_map snd rs).
