(* AggregateFacts.v — order of expansion and rejection of cyclic dictionaries (C15). *)
From Coq Require Import List String QArith Permutation.
From Bq Require Import Expr Compile TopoFacts Aggregate.
Import ListNotations.
Open Scope string_scope.

Theorem cyclic_dict_rejected (d : adict) (cycle : list string) :
  NoDup (keys d) -> cycle <> [] ->
  (forall x, In x cycle -> In x (keys d)) ->
  (forall x, In x cycle -> exists p, In p (agg_preds d x) /\ In p cycle) ->
  expand_dict d = None.
Proof.
  intros Hnd Hne Hsub Hcyc. unfold expand_dict, agg_order.
  rewrite (kahn_rejects_cycle (agg_preds d) (keys d) cycle Hnd Hne Hsub Hcyc). reflexivity.
Qed.

Theorem expansion_order (d : adict) (order : list string) :
  NoDup (keys d) -> agg_order d = Some order ->
  Permutation order (keys d) /\
  (forall l1 x l2, order = (l1 ++ x :: l2)%list -> forall p, In p (agg_preds d x) -> In p l1).
Proof.
  intros Hnd H. unfold agg_order in H. split.
  - exact (kahn_perm _ _ _ Hnd H).
  - exact (kahn_topological _ _ _ Hnd H).
Qed.
