(* QrefModelFacts.v — C13, the naming layer: importing the export of a routine gives the routine back, for every
   hierarchy (any depth, any number of children, connections and links), provided child, port and parameter names
   contain no dot (paths to deeper children may). *)
From Coq Require Import List String Ascii Bool.
From Bq Require Import Expr StdSem RepModel Routine QrefFacts QrefModel.
Import ListNotations.
Open Scope string_scope.

Lemma app_empty_r (s : string) : s ++ "" = s.
Proof. induction s as [|a s IH]; cbn; [reflexivity|f_equal; exact IH]. Qed.

Lemma app_assoc_s (a b c : string) : (a ++ b) ++ c = a ++ (b ++ c).
Proof. induction a as [|x a IH]; cbn; [reflexivity|f_equal; exact IH]. Qed.

Lemma split_dots_aux_nonempty acc s : split_dots_aux acc s <> [].
Proof. revert acc. induction s as [|c s IH]; intro acc; cbn; [discriminate|]. destruct (Ascii.eqb c "."%char); [discriminate|apply IH]. Qed.

Lemma join_dots_cons a l : l <> [] -> join_dots (a :: l) = a ++ "." ++ join_dots l.
Proof. destruct l; [congruence|reflexivity]. Qed.

(* joining what was split gives the string back *)
Lemma join_split_aux s : forall acc, join_dots (split_dots_aux acc s) = acc ++ s.
Proof.
  induction s as [|c s IH]; intro acc; cbn [split_dots_aux].
  - cbn. rewrite app_empty_r. reflexivity.
  - destruct (Ascii.eqb c "."%char) eqn:E.
    + apply Ascii.eqb_eq in E. subst c.
      rewrite join_dots_cons by apply split_dots_aux_nonempty. rewrite IH. reflexivity.
    + rewrite IH, app_assoc_s. reflexivity.
Qed.

Lemma join_split s : join_dots (split_dots s) = s.
Proof. unfold split_dots. rewrite join_split_aux. reflexivity. Qed.

Lemma split_dots_aux_no_dot s : forall acc, no_dot s = true -> split_dots_aux acc s = [acc ++ s].
Proof.
  induction s as [|c s IH]; intros acc H; cbn in *.
  - rewrite app_empty_r. reflexivity.
  - apply andb_true_iff in H. destruct H as [Hc Hs]. apply negb_true_iff in Hc. rewrite Hc.
    rewrite (IH _ Hs), app_assoc_s. reflexivity.
Qed.

Lemma split_dots_no_dot s : no_dot s = true -> split_dots s = [s].
Proof. intro H. unfold split_dots. rewrite (split_dots_aux_no_dot s "" H). reflexivity. Qed.

(* splitting a ++ "." ++ b: the parts of a, then the parts of b *)
Lemma split_dots_aux_app a b : forall acc, split_dots_aux acc (a ++ "." ++ b) = (split_dots_aux acc a ++ split_dots b)%list.
Proof.
  induction a as [|c a IH]; intro acc; cbn [append split_dots_aux].
  - cbn. reflexivity.
  - destruct (Ascii.eqb c "."%char); [cbn [app]; f_equal; apply IH|apply IH].
Qed.

Lemma split_dots_app a b : split_dots (a ++ "." ++ b) = (split_dots a ++ split_dots b)%list.
Proof. apply split_dots_aux_app. Qed.

Definition endpoint_ok (e : endpoint) : bool :=
  no_dot (snd e) && match fst e with Some c => no_dot c | None => true end.

Lemma dec_enc_endpoint e : endpoint_ok e = true -> dec_endpoint (enc_endpoint e) = Some e.
Proof.
  destruct e as [[c|] p]; unfold endpoint_ok; cbn [fst snd]; intro H; apply andb_true_iff in H; destruct H as [Hp Hc].
  - unfold dec_endpoint, enc_endpoint, dot. rewrite split_dots_app, (split_dots_no_dot c Hc), (split_dots_no_dot p Hp). reflexivity.
  - unfold dec_endpoint, enc_endpoint. rewrite (split_dots_no_dot p Hp). reflexivity.
Qed.

Lemma dec_enc_target path param : no_dot param = true -> dec_target (enc_target (path, param)) = Some (path, param).
Proof.
  intro H. unfold dec_target, enc_target, dot. cbn [fst snd].
  rewrite split_dots_app, (split_dots_no_dot param H), rev_app_distr. cbn [rev app].
  destruct (rev (split_dots path)) as [|x l] eqn:E.
  - exfalso. apply (f_equal (@rev string)) in E. rewrite rev_involutive in E. cbn in E.
    exact (split_dots_aux_nonempty "" path E).
  - rewrite <- E, rev_involutive, join_split. reflexivity.
Qed.

Lemma all_some_round {A B} (f : A -> B) (g : B -> option A) (l : list A) :
  (forall x, In x l -> g (f x) = Some x) -> all_some (map g (map f l)) = Some l.
Proof.
  induction l as [|a l IH]; intro H; cbn; [reflexivity|].
  rewrite (H a (or_introl eq_refl)), IH; [reflexivity|]. intros x Hx. apply H. right. exact Hx.
Qed.

(* an induction principle that reaches into the children *)
Section RoutineInd.
  Variable P : routine -> Prop.
  Hypothesis HR : forall n t ips lo li ps rs cn rp cs ch, Forall P ch -> P (Routine n t ips lo li ps rs cn rp cs ch).
  Fixpoint routine_ind' (r : routine) : P r :=
    match r with
    | Routine n t ips lo li ps rs cn rp cs ch =>
        HR n t ips lo li ps rs cn rp cs ch
           ((fix go (l : list routine) : Forall P l :=
               match l with
               | [] => Forall_nil _
               | c :: l' => Forall_cons _ (routine_ind' c) (go l')
               end) ch)
    end.
End RoutineInd.

(* names as QREF requires them: no dot in a child, port or parameter name (a link's path may be dotted) *)
Fixpoint names_ok (r : routine) : bool :=
  match r with
  | Routine _ _ _ _ li _ _ cn _ _ ch =>
      forallb (fun st => endpoint_ok (fst st) && endpoint_ok (snd st)) cn
      && forallb (fun l => forallb (fun t => no_dot (snd t)) (snd l)) li
      && forallb names_ok ch
  end.

(* C13, naming layer: import (export r) = r *)
Theorem of_q_to_q : forall r, names_ok r = true -> of_q (to_q r) = Some r.
Proof.
  induction r as [n t ips lo li ps rs cn rp cs ch IH] using routine_ind'. intro H.
  cbn [names_ok] in H. apply andb_true_iff in H. destruct H as [H Hch]. apply andb_true_iff in H. destruct H as [Hcn Hli].
  cbn [to_q of_q].
  assert (E1 : all_some (map dec_link (map (fun l : string * list (string * string) => (fst l, map enc_target (snd l))) li)) = Some li).
  { apply all_some_round. intros [src ts] Hin. unfold dec_link. cbn [fst snd].
    rewrite all_some_round; [reflexivity|]. intros [path param] Ht.
    apply dec_enc_target. rewrite forallb_forall in Hli. specialize (Hli _ Hin). cbn in Hli.
    rewrite forallb_forall in Hli. exact (Hli _ Ht). }
  assert (E2 : all_some (map dec_conn (map (fun st : endpoint * endpoint => (enc_endpoint (fst st), enc_endpoint (snd st))) cn)) = Some cn).
  { apply all_some_round. intros [a b] Hin. unfold dec_conn. cbn [fst snd].
    rewrite forallb_forall in Hcn. specialize (Hcn _ Hin). cbn in Hcn. apply andb_true_iff in Hcn. destruct Hcn as [Ha Hb].
    rewrite (dec_enc_endpoint a Ha), (dec_enc_endpoint b Hb). reflexivity. }
  assert (E3 : all_some (map of_q (map to_q ch)) = Some ch).
  { apply all_some_round. intros c Hc. rewrite Forall_forall in IH. apply IH; [exact Hc|].
    rewrite forallb_forall in Hch. exact (Hch _ Hc). }
  rewrite E1, E2, E3. reflexivity.
Qed.

(* ... and an endpoint or target that is NOT of this form is refused rather than misread: a name with a dot in it
   cannot be confused with a path *)
Lemma dec_endpoint_three a b c : no_dot a = true -> no_dot b = true -> no_dot c = true ->
  dec_endpoint (a ++ "." ++ b ++ "." ++ c) = None.
Proof.
  intros Ha Hb Hc. unfold dec_endpoint.
  rewrite split_dots_app, (split_dots_no_dot a Ha), split_dots_app, (split_dots_no_dot b Hb), (split_dots_no_dot c Hc).
  reflexivity.
Qed.

Lemma dec_target_plain s : no_dot s = true -> dec_target s = None.
Proof. intro H. unfold dec_target. rewrite (split_dots_no_dot s H). reflexivity. Qed.

(* merging the entries of a link list that share a source: a list whose sources are already distinct (every internal
   Routine: the links are a mapping) is left as it is, and the result always has distinct sources *)
Lemma add_link_fresh {T} (acc : list (string * list T)) s ts :
  ~ In s (map fst acc) -> add_link acc s ts = (acc ++ [(s, ts)])%list.
Proof.
  induction acc as [|[s' ts'] acc IH]; cbn; intro H; [reflexivity|].
  destruct (String.eqb s' s) eqn:E.
  - apply String.eqb_eq in E. exfalso. apply H. left. exact E.
  - rewrite IH; [reflexivity|]. intro Hin. apply H. right. exact Hin.
Qed.

Lemma merge_links_aux {T} (li : list (string * list T)) : forall acc,
  NoDup (map fst (acc ++ li)%list) ->
  fold_left (fun a l => add_link a (fst l) (snd l)) li acc = (acc ++ li)%list.
Proof.
  induction li as [|[s ts] li IH]; intros acc H; cbn [fold_left fst snd].
  - rewrite app_nil_r. reflexivity.
  - rewrite add_link_fresh.
    + rewrite IH; rewrite <- app_assoc; [reflexivity|exact H].
    + rewrite map_app in H. cbn in H. apply NoDup_remove_2 in H. intro Hin. apply H. apply in_or_app. left. exact Hin.
Qed.

Theorem merge_links_distinct {T} (li : list (string * list T)) : NoDup (map fst li) -> merge_links li = li.
Proof. intro H. unfold merge_links. rewrite merge_links_aux; [reflexivity|exact H]. Qed.

Lemma add_link_keys {T} (acc : list (string * list T)) s ts :
  map fst (add_link acc s ts) = if existsb (String.eqb s) (map fst acc) then map fst acc else (map fst acc ++ [s])%list.
Proof.
  induction acc as [|[s' ts'] acc IH]; cbn; [reflexivity|].
  rewrite (String.eqb_sym s s'). destruct (String.eqb s' s) eqn:E; cbn; [reflexivity|].
  rewrite IH. destruct (existsb (String.eqb s) (map fst acc)); reflexivity.
Qed.

Lemma add_link_nodup {T} (acc : list (string * list T)) s ts : NoDup (map fst acc) -> NoDup (map fst (add_link acc s ts)).
Proof.
  intro H. rewrite add_link_keys. destruct (existsb (String.eqb s) (map fst acc)) eqn:E; [exact H|].
  assert (Hnot : ~ In s (map fst acc)).
  { intro Hin. assert (X : existsb (String.eqb s) (map fst acc) = true) by (apply existsb_exists; exists s; split; [exact Hin|apply String.eqb_refl]).
    congruence. }
  clear E. induction (map fst acc) as [|a l IHl]; cbn.
  - constructor; [intros []|constructor].
  - inversion H as [|? ? Ha Hl]; subst. constructor.
    + intro Hin. apply in_app_or in Hin. destruct Hin as [Hin|[Hin|[]]]; [exact (Ha Hin)|]. subst a. apply Hnot. left. reflexivity.
    + apply IHl; [exact Hl|]. intro Hin. apply Hnot. right. exact Hin.
Qed.

Theorem merge_links_nodup {T} (li : list (string * list T)) : NoDup (map fst (merge_links li)).
Proof.
  unfold merge_links.
  assert (G : forall acc, NoDup (map fst acc) -> NoDup (map fst (fold_left (fun a l => add_link a (fst l) (snd l)) li acc))).
  { induction li as [|l li IH]; intros acc H; cbn [fold_left]; [exact H|]. apply IH, add_link_nodup, H. }
  apply G. constructor.
Qed.

(* nothing is lost: the targets reachable from a source after merging are all the targets listed for it, in order *)
Definition targets_of {T} (s : string) (li : list (string * list T)) : list T :=
  flat_map (fun l => if String.eqb (fst l) s then snd l else []) li.

Lemma targets_of_notin {T} (li : list (string * list T)) s : ~ In s (map fst li) -> targets_of s li = [].
Proof.
  induction li as [|[s' ts'] li IH]; cbn [targets_of flat_map map fst snd]; intro H; [reflexivity|].
  destruct (String.eqb s' s) eqn:E.
  - apply String.eqb_eq in E. exfalso. apply H. left. exact E.
  - apply IH. intro Hin. apply H. right. exact Hin.
Qed.

Lemma add_link_targets {T} (acc : list (string * list T)) s ts s0 : NoDup (map fst acc) ->
  targets_of s0 (add_link acc s ts) = (targets_of s0 acc ++ (if String.eqb s s0 then ts else []))%list.
Proof.
  induction acc as [|[s' ts'] acc IH]; intro ND; cbn [add_link targets_of flat_map fst snd].
  - rewrite app_nil_r. reflexivity.
  - cbn [map fst] in ND. inversion ND as [|? ? Hnot ND']; subst.
    destruct (String.eqb s' s) eqn:E; cbn [flat_map fst snd].
    + apply String.eqb_eq in E. subst s'. destruct (String.eqb s s0) eqn:E0.
      * apply String.eqb_eq in E0. subst s0. fold (targets_of s acc).
        rewrite (targets_of_notin acc s Hnot). rewrite !app_nil_r. reflexivity.
      * rewrite app_nil_r. reflexivity.
    + fold (targets_of s0 (add_link acc s ts)). fold (targets_of s0 acc). rewrite (IH ND'), app_assoc. reflexivity.
Qed.

Theorem merge_links_targets {T} (li : list (string * list T)) s0 : targets_of s0 (merge_links li) = targets_of s0 li.
Proof.
  unfold merge_links.
  assert (G : forall acc, NoDup (map fst acc) ->
            targets_of s0 (fold_left (fun a l => add_link a (fst l) (snd l)) li acc) = (targets_of s0 acc ++ targets_of s0 li)%list).
  { induction li as [|[s ts] li IH]; intros acc H; cbn [fold_left fst snd].
    - cbn. rewrite app_nil_r. reflexivity.
    - rewrite IH by (apply add_link_nodup; exact H). rewrite add_link_targets by exact H.
      cbn [targets_of flat_map fst snd]. rewrite <- app_assoc. reflexivity. }
  rewrite G by constructor. reflexivity.
Qed.
