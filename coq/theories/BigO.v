(* BigO.v — the generated _get_leading_terms keeps exactly the dominant power (C19). *)
From Coq Require Import List Arith Bool Lia String QArith.
From Bq Require Import Expr StdSem.
From BqGen Require Import GenBigO.
Import ListNotations.
Open Scope nat_scope.

(* Poly(expr, x).terms() for one generator: exponent 1-tuples in strictly descending order *)
Definition single (e : nat) : list nat := [e].

Lemma le_all_single e d : gen_term_le_all (single e) [single d] = Nat.leb e d.
Proof. unfold gen_term_le_all, gen_less_than, single. cbn. rewrite !andb_true_r. reflexivity. Qed.

Lemma leading_fold_stable d rest :
  (forall e, In e rest -> e <= d) ->
  fold_left (fun lead t => if negb (gen_term_le_all t lead) then (lead ++ [t])%list else lead) (map single rest) [single d]
  = [single d].
Proof.
  induction rest as [|e rest IH]; intro H; [reflexivity|].
  cbn [map fold_left]. rewrite le_all_single.
  assert (He : Nat.leb e d = true) by (apply Nat.leb_le; apply H; left; reflexivity).
  rewrite He. cbn [negb]. apply IH. intros e' Hin. apply H. right. exact Hin.
Qed.

(* the dominant power, and only it, is returned: lower-order terms never appear, the leading one is never dropped *)
Theorem leading_power d rest :
  (forall e, In e rest -> e <= d) ->
  gen_leading_terms (map single (d :: rest)) = [single d].
Proof.
  intro H. unfold gen_leading_terms. cbn [map fold_left].
  change (gen_term_le_all (single d) []) with false. cbn [negb app].
  apply leading_fold_stable. exact H.
Qed.

(* without any assumption on the order: the first term listed is never dropped *)
Lemma fold_keeps_head rest : forall t l0, exists l,
    fold_left (fun lead u => if negb (gen_term_le_all u lead) then (lead ++ [u])%list else lead) rest (t :: l0) = t :: l.
Proof.
  induction rest as [|u rest IH]; intros t l0; cbn [fold_left].
  - exists l0. reflexivity.
  - destruct (negb (gen_term_le_all u (t :: l0))).
    + change ((t :: l0) ++ [u])%list with (t :: (l0 ++ [u]))%list. apply IH.
    + apply IH.
Qed.

Theorem first_term_kept t rest : exists l, gen_leading_terms (t :: rest) = t :: l.
Proof.
  unfold gen_leading_terms. cbn [fold_left]. change (gen_term_le_all t []) with false. cbn [negb app].
  apply fold_keeps_head.
Qed.

