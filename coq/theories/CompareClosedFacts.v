(* Completeness of the size comparison on CLOSED arithmetic terms.

   CompareFacts says what the three verdicts mean (satisfied: equal under every assignment; violated: different, by
   the same non-zero integer, under every assignment).  This file says when a verdict is REACHED: two closed
   arithmetic terms (numbers under + - * / // % ** max min floor ceiling, no symbol, no function call) are always
   compared by value -- the normal form of such a term is a bare constant -- so a constraint between them is never
   left undecided when the difference is an integer: a mismatch between two worked-out sizes is detected whatever
   the shape they were written in (`2 + ceiling(7/2)**3` against `4`), not only between two literals. *)
From Coq Require Import List String QArith ZArith Bool Qreduction Qpower Ring Field Lia Setoid.
From Bq Require Import Expr ExprFacts StdSem StdSemFacts Routine Compare CompareFacts.
Import ListNotations.
Local Open Scope Q_scope.

(* a polynomial without any atom: nothing, or one constant *)
Definition cshape (p : poly) : bool :=
  match p with
  | [] => true
  | [([], _)] => true
  | _ => false
  end.

Lemma cshape_add_term c p : cshape p = true -> cshape (poly_add_term [] c p) = true.
Proof. destruct p as [|[[|ak m] c'] [|x p']]; intro H; try discriminate; reflexivity. Qed.

Lemma cshape_add p q : cshape p = true -> cshape q = true -> cshape (poly_add p q) = true.
Proof.
  intros Hp Hq. unfold poly_add. destruct q as [|[[|ak m] c] [|x q']]; try discriminate; cbn [fold_left fst snd].
  - exact Hp.
  - apply cshape_add_term. exact Hp.
Qed.

Lemma cshape_scale c p : cshape p = true -> cshape (poly_scale c p) = true.
Proof. destruct p as [|[[|ak m] c'] [|x p']]; intro H; try discriminate; reflexivity. Qed.

Lemma cshape_mul p q : cshape p = true -> cshape q = true -> cshape (poly_mul p q) = true.
Proof.
  intros Hp Hq. unfold poly_mul.
  destruct p as [|[[|ak m] c] [|x p']]; try discriminate; cbn [fold_left fst snd]; [reflexivity|].
  destruct q as [|[[|bk n] d] [|y q']]; try discriminate; cbn [fold_left fst snd]; reflexivity.
Qed.

Lemma cshape_pow p n : cshape p = true -> cshape (poly_pow p n) = true.
Proof. intro H. induction n as [|n IH]; cbn [poly_pow]; [reflexivity|]. apply cshape_mul; assumption. Qed.

Lemma cshape_clean p : cshape p = true -> cshape (poly_clean p) = true.
Proof.
  destruct p as [|[[|ak m] c] [|x p']]; intro H; try discriminate; [reflexivity|].
  unfold poly_clean. cbn [filter snd]. destruct (negb (Z.eqb (Qnum c) 0)); reflexivity.
Qed.

Lemma cshape_aoc e q : cfold e = Some q -> cshape (atom_or_const e) = true.
Proof. intro H. unfold atom_or_const. rewrite H. reflexivity. Qed.

Lemma all_some_Forall {A} (f : expr -> option A) args vs :
  all_some (map f args) = Some vs -> Forall (fun a => exists v, f a = Some v) args.
Proof.
  revert vs. induction args as [|a args IH]; intros vs H; [constructor|].
  cbn [map all_some] in H. destruct (f a) as [v|] eqn:Ev; [|discriminate].
  destruct (all_some (map f args)) as [r|] eqn:Er; [|discriminate].
  constructor; [exists v; exact Ev | apply (IH r eq_refl)].
Qed.

Lemma maxp_in b p0 : forall ps m, maxp b p0 ps = Some m -> m = p0 \/ In m ps.
Proof.
  induction ps as [|q ps IH]; intros m H; cbn [maxp] in H.
  - inversion H. left. reflexivity.
  - destruct (maxp b p0 ps) as [m'|] eqn:Em; [|discriminate].
    destruct (poly_is_const (poly_add q (poly_scale (-1) m'))) as [c|]; [|discriminate].
    destruct (IH m' eq_refl) as [Hm|Hm];
      destruct (Qle_bool 0 c), b; inversion H; subst; auto; right; try (left; reflexivity); right; exact Hm.
Qed.

(* the normal form of a folded term carries no atom *)
Theorem normalize_closed e : forall q, cfold e = Some q -> cshape (normalize e) = true.
Proof.
  induction e as [q0|x|o args IH|k i b lo hi _ _ _] using expr_ind'; intros q H.
  - reflexivity.
  - discriminate.
  - assert (Hall : Forall (fun a => cshape (normalize a) = true) args).
    { cbn [cfold] in H. destruct (all_some (map cfold args)) as [vs|] eqn:Ea; [|discriminate].
      pose proof (all_some_Forall cfold args vs Ea) as Hs.
      clear - IH Hs. induction args as [|a args IHa]; [constructor|].
      inversion IH as [|? ? Ha IH']; subst. inversion Hs as [|? ? [v Hv] Hs']; subst.
      constructor; [apply (Ha v Hv) | apply IHa; assumption]. }
    pose proof (cshape_aoc _ _ H) as Haoc.
    destruct o; try exact Haoc.
    + (* OAdd *) cbn [normalize]. clear - Hall. induction args as [|a args IHa]; cbn [fold_right]; [reflexivity|].
      inversion Hall; subst. apply cshape_add; [assumption | apply IHa; assumption].
    + (* OMul *) cbn [normalize]. clear - Hall. induction args as [|a args IHa]; cbn [fold_right]; [reflexivity|].
      inversion Hall; subst. apply cshape_mul; [assumption | apply IHa; assumption].
    + (* OSub *) destruct args as [|a [|b [|c rest]]]; try exact Haoc.
      cbn [normalize]. inversion Hall as [|? ? Ha Hall']; subst. inversion Hall' as [|? ? Hb _]; subst.
      apply cshape_add; [exact Ha | apply cshape_scale; exact Hb].
    + (* ODiv *) destruct args as [|a [|b [|c rest]]]; try exact Haoc.
      cbn [normalize]. inversion Hall as [|? ? Ha Hall']; subst.
      destruct (poly_is_const (normalize b)) as [c|]; [|exact Haoc].
      destruct (Z.eqb (Qnum c) 0); [exact Haoc | apply cshape_scale; exact Ha].
    + (* OPow *) destruct args as [|a [|b [|c rest]]]; try exact Haoc.
      cbn [normalize]. inversion Hall as [|? ? Ha Hall']; subst.
      destruct (poly_is_const (normalize b)) as [c|]; [|exact Haoc].
      destruct (q_int c) as [z|]; [|exact Haoc].
      destruct (Z.leb 0 z && Z.leb z 12); [apply cshape_pow; exact Ha | exact Haoc].
    + (* ONeg *) destruct args as [|a [|b rest]]; try exact Haoc.
      cbn [normalize]. inversion Hall as [|? ? Ha _]; subst. apply cshape_scale; exact Ha.
    + (* OMax *) destruct args as [|a rest]; [exact Haoc|].
      cbn [normalize]. inversion Hall as [|? ? Ha Hrest]; subst.
      destruct (maxp true (normalize a) (map normalize rest)) as [m|] eqn:Em; [|exact Haoc].
      destruct (maxp_in _ _ _ _ Em) as [->|Hin]; [exact Ha|].
      apply in_map_iff in Hin. destruct Hin as [r [<- Hr]]. rewrite Forall_forall in Hrest. exact (Hrest r Hr).
    + (* OMin *) destruct args as [|a rest]; [exact Haoc|].
      cbn [normalize]. inversion Hall as [|? ? Ha Hrest]; subst.
      destruct (maxp false (normalize a) (map normalize rest)) as [m|] eqn:Em; [|exact Haoc].
      destruct (maxp_in _ _ _ _ Em) as [->|Hin]; [exact Ha|].
      apply in_map_iff in Hin. destruct Hin as [r [<- Hr]]. rewrite Forall_forall in Hrest. exact (Hrest r Hr).
  - discriminate.
Qed.

Lemma q_int_compat a b : a == b -> q_int a = q_int b.
Proof. intro H. unfold q_int. rewrite (Qred_complete _ _ H). reflexivity. Qed.

(* two closed arithmetic terms are compared by value *)
Theorem statusE_closed l r a b :
  cfold l = Some a -> cfold r = Some b ->
  statusE l r = if Qeq_bool a b then CSatisfied
                else match q_int (a - b) with Some _ => CViolated | None => CInconclusive end.
Proof.
  intros Hl Hr.
  assert (Hs : cshape (difference l r) = true).
  { unfold difference. apply cshape_clean, cshape_add; [apply (normalize_closed _ _ Hl)|].
    apply cshape_scale, (normalize_closed _ _ Hr). }
  pose proof (difference_sound (fun _ => 0) l r) as Hd.
  rewrite (cfold_sound _ _ _ Hl), (cfold_sound _ _ _ Hr) in Hd.
  unfold statusE.
  destruct (difference l r) as [|[[|ak m] c] [|x p]] eqn:Ed; try discriminate.
  - cbn in Hd. assert (Hab : a == b) by (setoid_replace a with (b + (a - b)) by ring; rewrite <- Hd; ring).
    apply Qeq_bool_iff in Hab. rewrite Hab. reflexivity.
  - assert (Hc : c == a - b) by (rewrite <- Hd; cbn; ring).
    assert (Hnz : ~ a == b).
    { intro Hab. assert (Hin : In ([], c) (difference l r)) by (rewrite Ed; left; reflexivity).
      unfold difference, poly_clean in Hin. apply filter_In in Hin. destruct Hin as [_ Hn]. cbn [snd] in Hn.
      assert (H0 : c == 0) by (rewrite Hc, Hab; ring).
      unfold Qeq in H0. cbn in H0. rewrite Z.mul_1_r in H0. rewrite H0 in Hn. discriminate. }
    destruct (Qeq_bool a b) eqn:E; [apply Qeq_bool_iff in E; contradiction|].
    rewrite (q_int_compat _ _ Hc). reflexivity.
Qed.

(* hence: between two closed arithmetic terms of integer value the verdict is never "undecided" *)
Corollary closed_integer_sizes_decided l r (x y : Z) :
  cfold l = Some (inject_Z x) -> cfold r = Some (inject_Z y) ->
  statusE l r = if Z.eqb x y then CSatisfied else CViolated.
Proof.
  intros Hl Hr. rewrite (statusE_closed _ _ _ _ Hl Hr).
  destruct (Z.eqb x y) eqn:E.
  - apply Z.eqb_eq in E. subst. assert (H : Qeq_bool (inject_Z y) (inject_Z y) = true) by (apply Qeq_bool_iff; reflexivity).
    rewrite H. reflexivity.
  - destruct (Qeq_bool (inject_Z x) (inject_Z y)) eqn:Eq.
    + apply Qeq_bool_iff in Eq. unfold Qeq in Eq. cbn in Eq. apply Z.eqb_neq in E. lia.
    + assert (Hd : inject_Z x - inject_Z y == inject_Z (x - y)) by (unfold Qeq; cbn; lia).
      rewrite (q_int_compat _ _ Hd). unfold q_int. rewrite Qred_int. cbn. reflexivity.
Qed.

(* the hypothesis is met by a genuinely compound pair: 2 + ceiling(7/2)**3 against 4 *)
Example closed_sizes_example :
  statusE (EOp OAdd [ENum 2; EOp OPow [EOp OCeil [EOp ODiv [ENum 7; ENum 2]]; ENum 3]]) (ENum 4) = CViolated.
Proof. vm_compute. reflexivity. Qed.
