(* Checks.v — executable statements of C02, C04, C10 on compiled trees (the
   implementation's or the model's), used by the case files.  Definitions only. *)
From Coq Require Import List String Ascii QArith ZArith Bool.
From Bq Require Import Expr StdSem RepModel Routine Compile Preprocess Compare CompileTop DenSrc Scoped Derived.
Import ListNotations.
Open Scope string_scope.

(* ---------- C02: the two ends of every connection carry the same size ---------- *)
Definition port_size_at (t : ctree expr) (e : endpoint) : option expr :=
  match e with
  | (None, p) => option_map snd (lookup p (ct_ports t))
  | (Some c, p) => match find_ct c (ct_children t) with
                   | Some k => option_map snd (lookup p (ct_ports k))
                   | None => None
                   end
  end.

Fixpoint wires_ok (fuel : nat) (inexact : bool) (pts : list (string -> Q)) (t : ctree expr) : list nat :=
  match fuel with
  | O => [1%nat]
  | S f =>
      (flat_map (fun st => match port_size_at t (fst st), port_size_at t (snd st) with
                           | Some a, Some b => map (fun r => cmpx inexact r a b) pts
                           | _, _ => [1%nat]
                           end) (ct_connections t)
       ++ flat_map (wires_ok f inexact pts) (ct_children t))%list
  end.

(* ---------- C04: closed over the input parameters ---------- *)
Definition dseq_fv (q : dseq expr) : list string :=
  match q with
  | DConst m => fv m
  | DArith a d => (fv a ++ fv d)%list
  | DGeom x => fv x
  | DClosed su pr n =>
      (* the num_terms symbol is bound in the two formulas *)
      let b := fv n in
      (filter (fun x => negb (mem x b)) (match su with Some e => fv e | None => [] end)
       ++ filter (fun x => negb (mem x b)) (match pr with Some e => fv e | None => [] end))%list
  | DCustom t it => remove_str it (fv t)
  end.

Definition node_symbols (t : ctree expr) : list string :=
  (flat_map (fun p => fv (snd (snd p))) (ct_resources t)
   ++ flat_map (fun p => fv (snd (snd p))) (ct_ports t)
   ++ match ct_rep t with Some (c, q) => (fv c ++ dseq_fv q)%list | None => [] end
   ++ flat_map (fun c => (fv (fst (fst c)) ++ fv (snd (fst c)))%list) (ct_constraints t))%list.

Definition subset (a b : list string) : bool := forallb (fun x => mem x b) a.

(* every symbol used in a node is among that node's input_params and among the root's *)
Fixpoint closed_ok (fuel : nat) (root_params : list string) (t : ctree expr) : list nat :=
  match fuel with
  | O => [1%nat]
  | S f =>
      (if subset (node_symbols t) (ct_src_params t) then 0%nat else 1%nat)
        :: (if subset (node_symbols t) root_params then 0%nat else 1%nat)
        :: flat_map (closed_ok f root_params) (ct_children t)
  end.

Definition is_internal_name (x : string) : bool :=
  match x with String c _ => Ascii.eqb c "#"%char | EmptyString => false end.

(* ---------- C10: structure ---------- *)
Definition opt_str_eqb (a b : option string) : bool :=
  match a, b with Some x, Some y => String.eqb x y | None, None => true | _, _ => false end.

Definition conn_eqb (a b : endpoint * endpoint) : bool := ep_eqb (fst a) (fst b) && ep_eqb (snd a) (snd b).

Definition same_set {A} (eqb : A -> A -> bool) (a b : list A) : bool :=
  Nat.eqb (List.length a) (List.length b) && forallb (fun x => existsb (eqb x) b) a && forallb (fun x => existsb (eqb x) a) b.

Fixpoint structure_ok (fuel : nat) (r : routine) (t : ctree expr) : list nat :=
  match fuel with
  | O => [1%nat]
  | S f =>
      let b2n (b : bool) := if b then 0%nat else 1%nat in
      [ b2n (String.eqb (rname r) (ct_name t));
        b2n (opt_str_eqb (rtype_of r) (ct_type t));
        (* same ports with the same directions *)
        b2n (same_set (fun (a b : string * dir) => String.eqb (fst a) (fst b) && dir_eqb (snd a) (snd b))
                      (map (fun p => (p_name p, p_dir p)) (rports r))
                      (map (fun p => (fst p, fst (snd p))) (ct_ports t)));
        (* same connections *)
        b2n (same_set conn_eqb (rconnections r) (ct_connections t));
        (* every source resource is present with the same name and type *)
        b2n (forallb (fun rs => match lookup (r_name rs) (ct_resources t) with
                                | Some (ty, _) => rtype_eqb ty (r_type rs)
                                | None => false
                                end) (rresources r));
        (* anything added is an additive / multiplicative resource some child has
           (under a repetition: the repeated child's resources) *)
        b2n (forallb (fun nr => match find (fun rs => String.eqb (r_name rs) (fst nr)) (rresources r) with
                                | Some _ => true
                                | None => (rtype_eqb (fst (snd nr)) RAdditive || rtype_eqb (fst (snd nr)) RMultiplicative)
                                          && existsb (fun k => match lookup (fst nr) (ct_resources k) with
                                                               | Some (ty, _) => rtype_eqb ty (fst (snd nr))
                                                               | None => false
                                                               end) (ct_children t)
                                end) (ct_resources t));
        (* exactly the same children *)
        b2n (same_set String.eqb (map rname (rchildren r)) (map (@ct_name expr) (ct_children t))) ]
      ++ flat_map (fun c => match find_ct (rname c) (ct_children t) with
                            | Some k => structure_ok f c k
                            | None => [1%nat]
                            end) (rchildren r)
  end.

(* ---------- wrappers in the (tie, spec) shape of the case files ---------- *)
Definition check_wires (r : routine) (impl : impl_result) (inexact : bool) (pts : list (list (string * Q))) : list nat * list nat :=
  (tie_compile r impl inexact pts,
   match impl with
   | IOk t => (wires_ok (S (ct_height t)) inexact (points_of pts) t ++ spec_compile r impl inexact pts)%list
   | IErr _ => []
   end).

(* the hypothesis of the whole-tree closure theorem is met: whenever the compile model answers, so does the
   scoped one (compiled_tree_closed then says both give the same tree and that it is closed) *)
Definition scoped_ok (r : routine) : list nat :=
  match compile_routine r with
  | Ok _ => match compile_scoped r with Ok _ => [0%nat] | _ => [1%nat] end
  | _ => []
  end.

Definition check_closed (r : routine) (impl : impl_result) (inexact : bool) (pts : list (list (string * Q))) : list nat * list nat :=
  ((tie_compile r impl inexact pts ++ scoped_ok r)%list,
   match impl with
   | IOk t => closed_ok (S (ct_height t)) (ct_src_params t) t
   | IErr _ => []
   end).

Definition check_structure (r : routine) (impl : impl_result) (inexact : bool) (pts : list (list (string * Q))) : list nat * list nat :=
  (tie_compile r impl inexact pts
     ++ match compile_routine r with Ok m => structure_ok (S (height r)) r m | _ => [] end,
   match impl with
   | IOk t => structure_ok (S (height r)) r t
   | IErr _ => []
   end)%list.


(* ---------- C08: when only leaves define an additive resource, the root value is the sum over all leaves of
   the leaf value weighted by the repetition sums of its repeated ancestors ---------- *)
Fixpoint only_leaves_define (fuel : nat) (x : string) (r : routine) : bool :=
  match fuel with
  | O => false
  | S f =>
      match rchildren r with
      | [] => true
      | ch => negb (existsb (fun rs => String.eqb (r_name rs) x) (rresources r)) && forallb (only_leaves_define f x) ch
      end
  end.

Fixpoint all_additive (fuel : nat) (x : string) (v : vtree) : bool :=
  match fuel with
  | O => false
  | S f => match lookup x (vt_resources v) with Some (ty, _) => rtype_eqb ty RAdditive | None => true end
           && forallb (all_additive f x) (vt_children v)
  end.

Fixpoint leaf_sum (fuel : nat) (x : string) (v : vtree) : option Q :=
  match fuel with
  | O => None
  | S f =>
      match vt_children v with
      | [] => match lookup x (vt_resources v) with Some (_, q) => q | None => Some 0 end
      | ch => omul (vt_weight v) (bigsum (map (leaf_sum f x) ch))
      end
  end.

Fixpoint resource_names (fuel : nat) (r : routine) : list string :=
  match fuel with
  | O => []
  | S f => (map r_name (rresources r) ++ flat_map (resource_names f) (rchildren r))%list
  end.

Definition check_accumulate (r : routine) (impl : impl_result) (inexact : bool) (pts : list (list (string * Q))) : list nat * list nat :=
  (tie_compile r impl inexact pts,
   match impl with
   | IOk t =>
       (spec_compile r impl inexact pts
        ++ flat_map (fun p =>
                       let rho := envQ p (dfltQ 0) in
                       let v := den_src rho (S (height r)) true "" r [] [] [] in
                       flat_map (fun x =>
                                   if only_leaves_define (S (height r)) x r && all_additive (S (height r)) x v && vt_ok v
                                   then match lookup x (ct_resources t), leaf_sum (S (height r)) x v with
                                        | Some (_, e), Some q => [cmp inexact (evalQ rho e) (Some q)]
                                        | Some _, None => [2%nat]
                                        | None, Some q => [if Qeq_bool q 0 then 0%nat else 1%nat]
                                        | None, None => [2%nat]
                                        end
                                   else []) (sort_dedup (resource_names (S (height r)) r))) pts)%list
   | IErr _ => []
   end).

(* ---------- C06: size mismatches are detected, consistent sizes are never rejected ---------- *)
(* evals: total integer assignments of the top-level inputs with the implementation's outcome class for each
   ("ok", "BartiqCompilationError", or another class); impl: the implementation's compile outcome *)
Definition check_mismatch_case (r : routine) (impl : impl_result) (evals : list (list (string * Q) * string))
  : list nat * list nat :=
  let b2n (b : bool) := if b then 0%nat else 1%nat in
  let model := compile_routine r in
  let tie_compile_cls :=
      match model, impl with
      | Ok _, IOk _ => 0%nat
      | res, IErr cls => b2n (String.eqb (err_class res) cls)
      | _, IOk _ => 1%nat
      end in
  let tie_evals :=
      match model, impl with
      | Ok m, IOk t =>
          map (fun ac => let s : env := map (fun kv => (fst kv, ENum (snd kv))) (fst ac) in
                         b2n (String.eqb (err_class (evaluate s t)) (snd ac))) evals
      | _, _ => []
      end in
  let spec :=
      map (fun ac =>
             let rho := envQ (fst ac) (dfltQ 0) in
             let v := den_src rho (S (height r)) true "" r [] [] [] in
             let outcome := match impl with IErr cls => cls | IOk _ => snd ac end in
             match any_mismatch (S (height r)) v with
             | Some true => b2n (String.eqb outcome "BartiqCompilationError")     (* must be detected *)
             | Some false => match impl with
                             | IOk _ => b2n (String.eqb outcome "ok")             (* must not be rejected *)
                             | IErr _ => 1%nat                                    (* compilation may fail only if sizes differ for every assignment *)
                             end
             | None => 2%nat
             end) evals in
  (tie_compile_cls :: tie_evals, spec).

(* ---------- C13: two routines that must be equivalent (same structure, mathematically equal expressions) ---------- *)
Definition seq_exprs (s : sequence) : list (option expr) * list string :=
  match s with
  | SConst m => ([Some m], ["constant"])
  | SArith a d => ([Some a; Some d], ["arithmetic"])
  | SGeom q => ([Some q], ["geometric"])
  | SClosed su pr n => ([su; pr], ["closed_form"; n])
  | SCustom t it => ([Some t], ["custom"; it])
  end.

Definition oexpr_cmp (inexact : bool) (pts : list (string -> Q)) (a b : option expr) : list nat :=
  match a, b with
  | Some x, Some y =>
      (* equal values at the points, and the same free symbols (an iterator that escapes its binder shows here even
         where the value is undecided) *)
      ((if same_set String.eqb (fv x) (fv y) then 0%nat else 1%nat) :: map (fun r => cmpx inexact r x y) pts)
  | None, None => [0%nat]
  | _, _ => [1%nat]
  end.

Fixpoint routine_equiv (fuel : nat) (inexact : bool) (pts : list (string -> Q)) (a b : routine) : list nat :=
  match fuel with
  | O => [1%nat]
  | S f =>
      let b2n (x : bool) := if x then 0%nat else 1%nat in
      let links (r : routine) := flat_map (fun l => map (fun t => (fst l, dot (fst t) (snd t))) (snd l)) (rlinks r) in
      [ b2n (String.eqb (rname a) (rname b)); b2n (opt_str_eqb (rtype_of a) (rtype_of b));
        b2n (same_set String.eqb (rparams a) (rparams b));
        b2n (same_set conn_eqb (rconnections a) (rconnections b));
        b2n (same_set (fun (x y : string * string) => String.eqb (fst x) (fst y) && String.eqb (snd x) (snd y)) (links a) (links b));
        b2n (same_set String.eqb (keys (rlocals a)) (keys (rlocals b)));
        b2n (same_set String.eqb (map p_name (rports a)) (map p_name (rports b)));
        b2n (same_set String.eqb (map r_name (rresources a)) (map r_name (rresources b)));
        b2n (same_set String.eqb (map rname (rchildren a)) (map rname (rchildren b))) ]
      ++ flat_map (fun kv => oexpr_cmp inexact pts (Some (snd kv)) (lookup (fst kv) (rlocals b))) (rlocals a)
      ++ flat_map (fun p => match find (fun q => String.eqb (p_name q) (p_name p)) (rports b) with
                            | Some q => b2n (dir_eqb (p_dir p) (p_dir q)) :: oexpr_cmp inexact pts (Some (p_size p)) (Some (p_size q))
                            | None => [1%nat]
                            end) (rports a)
      ++ flat_map (fun x => match find (fun y => String.eqb (r_name y) (r_name x)) (rresources b) with
                            | Some y => b2n (rtype_eqb (r_type x) (r_type y)) :: oexpr_cmp inexact pts (Some (r_value x)) (Some (r_value y))
                            | None => [1%nat]
                            end) (rresources a)
      ++ match rrep a, rrep b with
         | None, None => []
         | Some ra, Some rb =>
             (oexpr_cmp inexact pts (Some (rep_count ra)) (Some (rep_count rb))
              ++ b2n (str_list_eqb (snd (seq_exprs (rep_seq ra))) (snd (seq_exprs (rep_seq rb))))
              :: flat_map (fun xy => oexpr_cmp inexact pts (fst xy) (snd xy))
                          (combine (fst (seq_exprs (rep_seq ra))) (fst (seq_exprs (rep_seq rb)))))%list
         | _, _ => [1%nat]
         end
      ++ flat_map (fun c => match find_child (rname c) (rchildren b) with
                            | Some c' => routine_equiv f inexact pts c c'
                            | None => [1%nat]
                            end) (rchildren a)
  end.

(* repetition fields of two compiled trees *)
Definition dseq_exprs (s : dseq expr) : list (option expr) * list string :=
  match s with
  | DConst m => ([Some m], ["constant"])
  | DArith a d => ([Some a; Some d], ["arithmetic"])
  | DGeom q => ([Some q], ["geometric"])
  | DClosed su pr n => ([su; pr; Some n], ["closed_form"])
  | DCustom t it => ([Some t], ["custom"; it])
  end.

Fixpoint ctree_equiv (fuel : nat) (inexact : bool) (pts : list (string -> Q)) (a b : ctree expr) : list nat :=
  match fuel with
  | O => [1%nat]
  | S f =>
      let b2n (x : bool) := if x then 0%nat else 1%nat in
      [ b2n (String.eqb (ct_name a) (ct_name b)); b2n (opt_str_eqb (ct_type a) (ct_type b));
        b2n (same_set String.eqb (ct_src_params a) (ct_src_params b));
        b2n (same_set conn_eqb (ct_connections a) (ct_connections b));
        b2n (same_set String.eqb (map (@ct_name expr) (ct_children a)) (map (@ct_name expr) (ct_children b))) ]
      ++ match ct_rep a, ct_rep b with
         | None, None => []
         | Some (ca, sa), Some (cb, sb) =>
             (oexpr_cmp inexact pts (Some ca) (Some cb)
              ++ b2n (str_list_eqb (snd (dseq_exprs sa)) (snd (dseq_exprs sb)))
              :: flat_map (fun xy => oexpr_cmp inexact pts (fst xy) (snd xy)) (combine (fst (dseq_exprs sa)) (fst (dseq_exprs sb))))%list
         | _, _ => [1%nat]
         end
      ++ flat_map (fun k => match find_ct (ct_name k) (ct_children b) with
                            | Some k' => ctree_equiv f inexact pts k k'
                            | None => [1%nat]
                            end) (ct_children a)
  end.

Definition check_ctree_pair (inexact : bool) (pts : list (list (string * Q))) (a b : ctree expr) : list nat :=
  let ps := points_of pts in
  (cmp_trees (S (ct_height a)) inexact ps a b ++ cmp_trees (S (ct_height a)) inexact ps b a
   ++ ctree_equiv (S (ct_height a)) inexact ps a b)%list.

(* ---------- a derived resource computed on the leaves only (compile_routine(..., derived_resources=[...]) with a
   calculator that answers for childless routines and says None elsewhere) ----------
   The compiled hierarchy is the one obtained from the routine in which every leaf DECLARES that resource, except that
   the resource reaches a node only through repetitions: a leaf has it; a repeated routine has it when its (single)
   child has it; no other routine has it (nothing propagates a resource that appears after preprocessing). *)
Fixpoint keeps_derived (fuel : nat) (r : routine) : bool :=
  match fuel with
  | O => false
  | S f =>
      match rchildren r, rrep r with
      | [], _ => true
      | [k], Some _ => keeps_derived f k
      | _, _ => false
      end
  end.

Definition drop_res {V} (x : string) (l : list (string * V)) : list (string * V) :=
  filter (fun nr => negb (String.eqb (fst nr) x)) l.

Fixpoint prune_ct (fuel : nat) (x : string) (r : routine) (t : ctree expr) : ctree expr :=
  match fuel with
  | O => t
  | S f =>
      match t with
      | CT n ty ins sp ports res conns rep cs kids =>
          CT n ty ins sp ports (if keeps_derived (S (height r)) r then res else drop_res x res) conns rep cs
             (map (fun k => match find_child (ct_name k) (rchildren r) with
                            | Some c => prune_ct f x c k
                            | None => k
                            end) kids)
      end
  end.

Fixpoint prune_vt (fuel : nat) (x : string) (r : routine) (v : vtree) : vtree :=
  match fuel with
  | O => v
  | S f =>
      match v with
      | VT n res ports kids ok w mism =>
          VT n (if keeps_derived (S (height r)) r then res else drop_res x res) ports
             (map (fun k => match find_child (vt_name k) (rchildren r) with
                            | Some c => prune_vt f x c k
                            | None => k
                            end) kids) ok w mism
      end
  end.

(* compile_routine(..., derived_resources=calcs): the model of the code (Derived.go_d) *)
Definition compile_routine_d (calcs : list (calc expr)) (r : routine) : result (ctree expr) :=
  do ir <- preprocess r; go_d ev_subst statusE fv calcs (S (height ir)) ir [].

(* r : the routine as handed over; x ty of a b : the leaf calculator (x := a * <resource `of`> + b on childless routines);
   r' : the routine with that resource DECLARED on its leaves.
   tie: the real compilation with the derived resource against the model of `_add_derived_resources`;
   spec: against the bottom-up denotation of r', the resource kept where it can reach (leaves, repetitions of such) *)
Definition check_derived_leaf (r r' : routine) (x : string) (ty : rtype) (of : string) (a b : Q)
           (impl : impl_result) (inexact : bool) (pts : list (list (string * Q)))
  : list nat * list nat :=
  (match compile_routine_d [leaf_calc_e x ty of a b] r, impl with
   | Ok m, IOk t =>
       (cmp_trees (S (ct_height m)) inexact
                  (filter (fun rho => counts_natural (S (ct_height m)) rho m) (points_of pts)) m t
        ++ cmp_params (S (ct_height m)) m t
        (* ... and the model of the code agrees with the declared-on-the-leaves reading, pruned *)
        ++ match compile_routine r' with
           | Ok m0 => let mp := prune_ct (S (ct_height m0)) x r' m0 in
                      cmp_trees (S (ct_height mp)) false
                                (filter (fun rho => counts_natural (S (ct_height mp)) rho mp) (points_of pts)) mp m
           | _ => [1%nat]
           end)%list
   | Ok m, IErr cls => [if String.eqb cls "BartiqCompilationError" && undecided_but_violated (S (ct_height m)) (points_of pts) m
                        then 0%nat else 1%nat]
   | res, IErr cls => [if String.eqb (err_class res) cls then 0%nat else 1%nat]
   | res, IOk _ => [1%nat]
   end,
   match impl with
   | IOk t =>
       flat_map (fun p => let rho := envQ p (dfltQ 0) in
                          let v := prune_vt (S (height r')) x r' (den_src rho (S (height r')) true "" r' [] [] []) in
                          if vt_ok v then cmp_vtree (S (height r')) inexact rho v t else [1%nat]) pts
       (* C04: whatever put a resource there, every symbol of the compiled hierarchy is an input of its node and of the root *)
       ++ closed_ok (S (ct_height t)) (ct_src_params t) t
   | IErr _ => []
   end)%list.

(* C03 with a derived resource: the renamed routine compiled with the same calculator *)
Definition check_rename_case_d (x : string) (ty : rtype) (of : string) (a b : Q)
           (r' : routine) (i i' : impl_result) (back : list (string * string))
           (inexact : bool) (pts : list (list (string * Q))) : list nat * list nat :=
  (tie_model (compile_routine_d [leaf_calc_e x ty of a b] r') i' inexact pts, rename_spec i i' back inexact pts).

(* ---------- C16: the hierarchy whose highwater is taken is the hierarchy that was handed over ----------
   every port size of the real compilation against the compile model (the resources are other properties' business) *)
Fixpoint cmp_port_sizes (fuel : nat) (inexact : bool) (pts : list (string -> Q)) (a b : ctree expr) : list nat :=
  match fuel with
  | O => [1%nat]
  | S f =>
      (flat_map (fun p => match lookup (fst p) (ct_ports b) with
                          | Some (d, v) => (if dir_eqb d (fst (snd p)) then 0%nat else 1%nat)
                                             :: map (fun r => cmpx inexact r (snd (snd p)) v) pts
                          | None => [1%nat]
                          end) (ct_ports a)
       ++ [if Nat.eqb (List.length (ct_ports a)) (List.length (ct_ports b)) then 0%nat else 1%nat]
       ++ flat_map (fun k => match find_ct (ct_name k) (ct_children b) with
                             | Some k' => cmp_port_sizes f inexact pts k k'
                             | None => [1%nat]
                             end) (ct_children a))%list
  end.

Definition tie_ports (r : routine) (impl : impl_result) (inexact : bool) (pts : list (list (string * Q))) : list nat * list nat :=
  (match compile_routine r, impl with
   | Ok m, IOk t => cmp_port_sizes (S (ct_height m)) inexact (points_of pts) m t
   | _, _ => []
   end, []).
