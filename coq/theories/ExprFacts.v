(* ExprFacts.v — lemmas about substitution and evaluation, for every carrier
   and every interpretation of the operators. *)
From Coq Require Import List String QArith ZArith Bool Permutation Lia.
From Bq Require Import Expr.
Import ListNotations.
Open Scope string_scope.

(* ---------- association-list lemmas ---------- *)

Lemma lookup_app {A} x (a b : list (string * A)) :
  lookup x (a ++ b) = match lookup x a with Some v => Some v | None => lookup x b end.
Proof.
  induction a as [|[y v] a IH]; cbn; [reflexivity|].
  destruct (String.eqb x y); [reflexivity|exact IH].
Qed.

Lemma lookup_over {A} x (a b : list (string * A)) :
  lookup x (over a b) = match lookup x b with Some v => Some v | None => lookup x a end.
Proof. unfold over. apply lookup_app. Qed.

Lemma lookup_remove_same {A} x (s : list (string * A)) : lookup x (remove_key x s) = None.
Proof.
  induction s as [|[y v] s IH]; cbn; [reflexivity|].
  destruct (String.eqb x y) eqn:E; [exact IH|]. cbn. rewrite E. exact IH.
Qed.

Lemma lookup_remove_other {A} x i (s : list (string * A)) :
  String.eqb x i = false -> lookup x (remove_key i s) = lookup x s.
Proof.
  intro Hxi. induction s as [|[y v] s IH]; cbn; [reflexivity|].
  destruct (String.eqb i y) eqn:E.
  - apply String.eqb_eq in E. subst y. rewrite Hxi. exact IH.
  - cbn. destruct (String.eqb x y); [reflexivity|exact IH].
Qed.

Lemma lookup_map_snd {A B} (f : A -> B) x (s : list (string * A)) :
  lookup x (map (fun kv => (fst kv, f (snd kv))) s) = option_map f (lookup x s).
Proof.
  induction s as [|[y v] s IH]; cbn; [reflexivity|].
  destruct (String.eqb x y); [reflexivity|exact IH].
Qed.

Lemma lookup_None_notin {A} x (s : list (string * A)) :
  lookup x s = None <-> ~ In x (keys s).
Proof.
  induction s as [|[y v] s IH]; cbn; [tauto|].
  destruct (String.eqb x y) eqn:E.
  - apply String.eqb_eq in E. subst. split; [discriminate|]. intro H. exfalso. apply H. left. reflexivity.
  - apply String.eqb_neq in E. rewrite IH. split.
    + intros H [H1|H1]; [congruence|tauto].
    + intros H H1. apply H. right. exact H1.
Qed.

Lemma lookup_Some_in {A} x v (s : list (string * A)) : lookup x s = Some v -> In (x, v) s.
Proof.
  induction s as [|[y w] s IH]; cbn; [discriminate|].
  destruct (String.eqb x y) eqn:E.
  - apply String.eqb_eq in E. subst. intro H. inversion H. left. reflexivity.
  - intro H. right. apply IH. exact H.
Qed.

Lemma lookup_in_nodup {A} x v (s : list (string * A)) :
  NoDup (keys s) -> In (x, v) s -> lookup x s = Some v.
Proof.
  induction s as [|[y w] s IH]; cbn; [tauto|].
  intros Hnd [H|H].
  - inversion H. subst. rewrite String.eqb_refl. reflexivity.
  - inversion Hnd as [|? ? Hnot Hnd']. subst.
    destruct (String.eqb x y) eqn:E.
    + apply String.eqb_eq in E. subst. exfalso. apply Hnot.
      change (In (fst (y, v)) (map fst s)). apply in_map. exact H.
    + apply IH; assumption.
Qed.

Lemma lookup_perm {A} x (s s' : list (string * A)) :
  NoDup (keys s) -> Permutation s s' -> lookup x s = lookup x s'.
Proof.
  intros Hnd Hp.
  assert (Hnd' : NoDup (keys s')).
  { unfold keys. eapply Permutation_NoDup; [|exact Hnd]. apply Permutation_map. exact Hp. }
  destruct (lookup x s) as [v|] eqn:E.
  - symmetry. apply lookup_in_nodup; [exact Hnd'|].
    eapply Permutation_in; [exact Hp|]. apply lookup_Some_in. exact E.
  - symmetry. apply lookup_None_notin. apply lookup_None_notin in E.
    intro H. apply E. unfold keys in *. eapply Permutation_in; [|exact H].
    apply Permutation_map. apply Permutation_sym. exact Hp.
Qed.

Lemma mem_In x l : mem x l = true <-> In x l.
Proof.
  induction l as [|y l IH]; cbn; [split; [discriminate|tauto]|].
  rewrite orb_true_iff, IH, String.eqb_eq. split; intros [H|H]; auto.
Qed.

Lemma mem_false_notin x l : mem x l = false <-> ~ In x l.
Proof. rewrite <- mem_In. destruct (mem x l); split; congruence. Qed.

Lemma in_remove_str x i l : In x (remove_str i l) <-> In x l /\ x <> i.
Proof.
  induction l as [|y l IH]; cbn; [tauto|].
  destruct (String.eqb i y) eqn:E.
  - apply String.eqb_eq in E. subst. rewrite IH. split.
    + intros [H1 H2]. auto.
    + intros [[H1|H1] H2]; [congruence|auto].
  - apply String.eqb_neq in E. cbn. rewrite IH. split.
    + intros [H|[H1 H2]]; [subst; split; [auto|congruence]|auto].
    + intros [[H1|H1] H2]; auto.
Qed.

Lemma keys_remove_key {A} i (s : list (string * A)) x :
  In x (keys (remove_key i s)) <-> In x (keys s) /\ x <> i.
Proof.
  induction s as [|[y v] s IH]; cbn; [tauto|].
  destruct (String.eqb i y) eqn:E.
  - apply String.eqb_eq in E. subst. rewrite IH. split.
    + intros [H1 H2]. auto.
    + intros [[H1|H1] H2]; [congruence|auto].
  - apply String.eqb_neq in E. cbn. rewrite IH. split.
    + intros [H|[H1 H2]]; [subst; split; [auto|congruence]|auto].
    + intros [[H1|H1] H2]; auto.
Qed.

(* ---------- evaluation ---------- *)

Section Sem.
  Variable V : Type.
  Variable ofQ : Q -> V.
  Variable I : op -> list V -> V.
  Variable B : bigop -> (V -> V) -> V -> V -> V.
  Hypothesis B_ext : forall k f g lo hi, (forall v, f v = g v) -> B k f lo hi = B k g lo hi.

  Notation ev := (eval ofQ I B).

  Lemma eval_ext_fv e : forall r1 r2,
      (forall x, In x (fv e) -> r1 x = r2 x) -> ev r1 e = ev r2 e.
  Proof.
    induction e as [q|x|o args IH|k i b lo hi IHb IHlo IHhi] using expr_ind'; intros r1 r2 H; cbn.
    - reflexivity.
    - apply H. cbn. auto.
    - f_equal. apply map_ext_in. intros a Ha.
      rewrite Forall_forall in IH. apply IH; [exact Ha|].
      intros x Hx. apply H. cbn. apply in_flat_map. exists a. auto.
    - cbn in H.
      rewrite (IHlo r1 r2), (IHhi r1 r2).
      + apply B_ext. intro v. apply IHb. intros x Hx. unfold upd.
        destruct (String.eqb x i) eqn:E; [reflexivity|].
        apply H. apply in_or_app. left. apply in_remove_str. split; [exact Hx|].
        apply String.eqb_neq. exact E.
      + intros x Hx. apply H. apply in_or_app. right. apply in_or_app. right. exact Hx.
      + intros x Hx. apply H. apply in_or_app. right. apply in_or_app. left. exact Hx.
  Qed.

  Lemma eval_ext e r1 r2 : (forall x, r1 x = r2 x) -> ev r1 e = ev r2 e.
  Proof. intro H. apply eval_ext_fv. intros x _. apply H. Qed.

  (* THE substitution lemma: evaluating a substituted expression is evaluating
     the original in the environment where assigned names read their values. *)
  Lemma eval_subst e : forall s r,
      captures s e = false -> ev r (subst s e) = ev (env_after ofQ I B r s) e.
  Proof.
    induction e as [q|x|o args IH|k i b lo hi IHb IHlo IHhi] using expr_ind'; intros s r Hc; cbn.
    - reflexivity.
    - unfold env_after. destruct (lookup x s); reflexivity.
    - f_equal. rewrite map_map. apply map_ext_in. intros a Ha.
      rewrite Forall_forall in IH. apply IH; [exact Ha|].
      cbn in Hc. destruct (captures s a) eqn:E; [|reflexivity].
      exfalso. assert (existsb (captures s) args = true) by (apply existsb_exists; eauto). congruence.
    - cbn in Hc. apply orb_false_iff in Hc. destruct Hc as [Hc Hx].
      apply orb_false_iff in Hc. destruct Hc as [Hc Hb].
      apply orb_false_iff in Hc. destruct Hc as [Hlo Hhi].
      rewrite (IHlo _ _ Hlo), (IHhi _ _ Hhi). apply B_ext. intro v.
      rewrite (IHb _ _ Hb). apply eval_ext_fv. intros x Hxb.
      unfold env_after, upd. destruct (String.eqb x i) eqn:E.
      + apply String.eqb_eq in E. subst x. rewrite lookup_remove_same.
        rewrite ?String.eqb_refl. reflexivity.
      + rewrite (lookup_remove_other _ _ _ E).
        destruct (lookup x s) as [w|] eqn:Ew.
        * apply eval_ext_fv. intros y Hy.
          destruct (String.eqb y i) eqn:Eyi; [|reflexivity].
          apply String.eqb_eq in Eyi. subst y. exfalso.
          assert (Hex : existsb (fun x => match lookup x (remove_key i s) with
                                          | Some v => mem i (fv v) | None => false end) (fv b) = true).
          { apply existsb_exists. exists x. split; [exact Hxb|].
            rewrite (lookup_remove_other _ _ _ E), Ew. apply mem_In. exact Hy. }
          congruence.
        * rewrite ?E. reflexivity.
  Qed.

  Lemma captures_nil e : captures [] e = false.
  Proof.
    induction e as [q|x|o args IH|k i b lo hi IHb IHlo IHhi] using expr_ind'; cbn; auto.
    - destruct (existsb (captures []) args) eqn:E; [|reflexivity].
      apply existsb_exists in E. destruct E as [a [Ha Hc]].
      rewrite Forall_forall in IH. rewrite (IH a Ha) in Hc. discriminate.
    - rewrite IHlo, IHhi, IHb. cbn.
      destruct (existsb _ (fv b)) eqn:E; [|reflexivity].
      apply existsb_exists in E. destruct E as [x [_ H]]. discriminate.
  Qed.

  (* an environment given as a numeric dictionary over a base environment *)
  Definition valenv (r : string -> V) (s : env) : list (string * V) :=
    map (fun kv => (fst kv, ev r (snd kv))) s.

  Lemma lookup_valenv r x s : lookup x (valenv r s) = option_map (ev r) (lookup x s).
  Proof. unfold valenv. apply lookup_map_snd. Qed.

  Lemma env_after_valenv r s x : env_after ofQ I B r s x = env_of r (valenv r s) x.
  Proof.
    unfold env_after, env_of. rewrite lookup_valenv. destruct (lookup x s); reflexivity.
  Qed.

  Lemma valenv_app r (a b : env) : valenv r (a ++ b)%list = (valenv r a ++ valenv r b)%list.
  Proof. apply map_app. Qed.

  Corollary eval_subst_env e s r :
    captures s e = false -> ev r (subst s e) = ev (env_of r (valenv r s)) e.
  Proof.
    intro H. rewrite eval_subst by exact H. apply eval_ext. apply env_after_valenv.
  Qed.
End Sem.

(* ---------- purely syntactic facts about simultaneous substitution ---------- *)

Lemma remove_key_nil_lookup {A} (s : list (string * A)) :
  (forall x, lookup x s = None) -> forall i x, lookup x (remove_key i s) = None.
Proof.
  intros H i x. destruct (String.eqb x i) eqn:E.
  - apply String.eqb_eq in E. subst. apply lookup_remove_same.
  - rewrite lookup_remove_other by exact E. apply H.
Qed.

Lemma subst_noop e : forall s, (forall x, In x (fv e) -> lookup x s = None) -> subst s e = e.
Proof.
  induction e as [q|x|o args IH|k i b lo hi IHb IHlo IHhi] using expr_ind'; intros s H; cbn.
  - reflexivity.
  - rewrite H; [reflexivity|cbn; auto].
  - f_equal. rewrite <- (map_id args) at 2. apply map_ext_in. intros a Ha.
    rewrite Forall_forall in IH. apply IH; [exact Ha|].
    intros x Hx. apply H. cbn. apply in_flat_map. eauto.
  - cbn in H. rewrite IHb, IHlo, IHhi; [reflexivity| | |].
    + intros x Hx. apply H. apply in_or_app. right. apply in_or_app. auto.
    + intros x Hx. apply H. apply in_or_app. right. apply in_or_app. auto.
    + intros x Hx. destruct (String.eqb x i) eqn:E.
      * apply String.eqb_eq in E. subst. apply lookup_remove_same.
      * rewrite lookup_remove_other by exact E. apply H. apply in_or_app. left.
        apply in_remove_str. split; [exact Hx|]. apply String.eqb_neq. exact E.
Qed.

Lemma subst_nil e : subst [] e = e.
Proof. apply subst_noop. reflexivity. Qed.

(* substitution only looks at lookups: two association lists with the same
   lookups (e.g. two listings of the same duplicate-free assignment) agree *)
Lemma subst_lookup_ext e : forall s s',
    (forall x, lookup x s = lookup x s') -> subst s e = subst s' e.
Proof.
  induction e as [q|x|o args IH|k i b lo hi IHb IHlo IHhi] using expr_ind'; intros s s' H; cbn.
  - reflexivity.
  - rewrite H. reflexivity.
  - f_equal. apply map_ext_in. intros a Ha. rewrite Forall_forall in IH. apply IH; auto.
  - rewrite (IHlo s s' H), (IHhi s s' H). f_equal. apply IHb. intro x.
    destruct (String.eqb x i) eqn:E.
    + apply String.eqb_eq in E. subst. rewrite !lookup_remove_same. reflexivity.
    + rewrite !lookup_remove_other by exact E. apply H.
Qed.

Theorem subst_perm e s s' :
  NoDup (keys s) -> Permutation s s' -> subst s e = subst s' e.
Proof. intros Hnd Hp. apply subst_lookup_ext. intro x. apply lookup_perm; assumption. Qed.

(* free symbols after substitution *)
Lemma fv_subst e : forall s x,
    In x (fv (subst s e)) ->
    (In x (fv e) /\ lookup x s = None) \/
    (exists y v, In y (fv e) /\ lookup y s = Some v /\ In x (fv v)).
Proof.
  induction e as [q|z|o args IH|k i b lo hi IHb IHlo IHhi] using expr_ind'; intros s x H; cbn in *.
  - tauto.
  - destruct (lookup z s) as [v|] eqn:E.
    + right. exists z, v. auto.
    + cbn in H. destruct H as [H|[]]. subst. left. auto.
  - rewrite flat_map_concat_map, map_map, <- flat_map_concat_map in H.
    apply in_flat_map in H. destruct H as [a [Ha Hx]].
    rewrite Forall_forall in IH. destruct (IH a Ha s x Hx) as [[H1 H2]|[y [v [H1 [H2 H3]]]]].
    + left. split; [|exact H2]. apply in_flat_map. eauto.
    + right. exists y, v. split; [|auto]. apply in_flat_map. eauto.
  - apply in_app_or in H. destruct H as [H|H].
    + apply in_remove_str in H. destruct H as [H Hxi].
      destruct (IHb _ _ H) as [[H1 H2]|[y [v [H1 [H2 H3]]]]].
      * left. split.
        -- apply in_or_app. left. apply in_remove_str. auto.
        -- rewrite lookup_remove_other in H2; [exact H2|]. apply String.eqb_neq. exact Hxi.
      * right. destruct (String.eqb y i) eqn:E.
        -- apply String.eqb_eq in E. subst. rewrite lookup_remove_same in H2. discriminate.
        -- rewrite lookup_remove_other in H2 by exact E. exists y, v. split; [|auto].
           apply in_or_app. left. apply in_remove_str. split; [exact H1|]. apply String.eqb_neq. exact E.
    + apply in_app_or in H. destruct H as [H|H].
      * destruct (IHlo _ _ H) as [[H1 H2]|[y [v [H1 [H2 H3]]]]].
        -- left. split; [|exact H2]. apply in_or_app. right. apply in_or_app. auto.
        -- right. exists y, v. split; [|auto]. apply in_or_app. right. apply in_or_app. auto.
      * destruct (IHhi _ _ H) as [[H1 H2]|[y [v [H1 [H2 H3]]]]].
        -- left. split; [|exact H2]. apply in_or_app. right. apply in_or_app. auto.
        -- right. exists y, v. split; [|auto]. apply in_or_app. right. apply in_or_app. auto.
Qed.

(* an unassigned symbol occurs after substitution iff it occurred before, as
   long as no assigned value mentions it and no assigned value is captured *)
Lemma fv_subst_keeps e : forall s x,
    captures s e = false -> In x (fv e) -> lookup x s = None -> In x (fv (subst s e)).
Proof.
  induction e as [q|z|o args IH|k i b lo hi IHb IHlo IHhi] using expr_ind'; intros s x Hc H Hl; cbn in *.
  - tauto.
  - destruct H as [H|[]]. subst. rewrite Hl. cbn. auto.
  - rewrite flat_map_concat_map, map_map, <- flat_map_concat_map.
    apply in_flat_map in H. destruct H as [a [Ha Hx]]. apply in_flat_map. exists a. split; [exact Ha|].
    rewrite Forall_forall in IH. apply IH; auto.
    destruct (captures s a) eqn:E; [|reflexivity].
    assert (existsb (captures s) args = true) by (apply existsb_exists; eauto). congruence.
  - apply orb_false_iff in Hc. destruct Hc as [Hc Hx].
    apply orb_false_iff in Hc. destruct Hc as [Hc Hb].
    apply orb_false_iff in Hc. destruct Hc as [Hlo Hhi].
    apply in_app_or in H. destruct H as [H|H].
    + apply in_remove_str in H. destruct H as [H Hxi]. apply in_or_app. left.
      apply in_remove_str. split; [|exact Hxi]. apply IHb; auto.
      rewrite lookup_remove_other; [exact Hl|]. apply String.eqb_neq. exact Hxi.
    + apply in_or_app. right. apply in_app_or in H. apply in_or_app. destruct H as [H|H]; [left|right]; auto.
Qed.

(* ---------- sequential substitution is NOT simultaneous substitution ---------- *)

Definition stdQ_I (o : op) (args : list Q) : Q :=
  match o, args with
  | OAdd, _ => fold_right Qplus 0 args
  | OMul, _ => fold_right Qmult 1 args
  | _, _ => 0
  end.

(* witness used by the *_refuted theorems: T = N + 2*M with {N := M, M := N} *)
Definition swap_expr : expr := eadd (ESym "N") (emul (EZ 2) (ESym "M")).
Definition swap_env : env := [("N", ESym "M"); ("M", ESym "N")].

Lemma subst_seq_not_simultaneous :
  subst_seq swap_env swap_expr <> subst swap_env swap_expr.
Proof. vm_compute. discriminate. Qed.

Definition BQ0 (k : bigop) (f : Q -> Q) (lo hi : Q) : Q := 0.
Definition idQ (q : Q) : Q := q.

Lemma subst_seq_refuted :
  exists (s : env) (e : expr) (r : string -> Q),
    captures s e = false /\
    ~ (eval idQ stdQ_I BQ0 r (subst_seq s e) == eval idQ stdQ_I BQ0 (env_after idQ stdQ_I BQ0 r s) e).
Proof.
  exists swap_env, swap_expr, (fun x => if String.eqb x "N" then 1 else 5).
  split; [reflexivity|]. vm_compute. intro H. discriminate H.
Qed.
