(* StructureFacts.v — what the traversal keeps: names, nesting, types, ports with
   directions, connections, resource names and types (C10); the wire law for one
   step of the parameter map (C02); closure under total assignments (C04).
   Everything about [go] is for an arbitrary carrier D. *)
From Coq Require Import List String QArith ZArith Bool Lia.
From Bq Require Import Expr ExprFacts RepModel Routine Compare Compile CompileFacts CompileTop.
Import ListNotations.
Open Scope string_scope.

Lemma mapM_map_fst {A B C} (f : A -> result B) (ka : A -> C) (kb : B -> C) l :
  (forall a b, f a = Ok b -> kb b = ka a) ->
  forall bs, mapM f l = Ok bs -> map kb bs = map ka l.
Proof.
  intro Hk. induction l as [|a l IH]; intros bs H; cbn in H.
  - inversion H. reflexivity.
  - inv_bind H. inv_bind H. inversion H; subst. cbn. rewrite (Hk _ _ Hb), (IH _ Hb0). reflexivity.
Qed.

Definition ostr_dec (a b : option string) : {a = b} + {a <> b}.
Proof. decide equality. apply string_dec. Defined.

Section Structure.
  Variable D : Type.
  Variable ev : list (string * D) -> expr -> result D.
  Variable statusD : D -> D -> cstatus.
  Variable fvD : D -> list string.

  Definition port_sig (p : port) : string * dir := (p_name p, p_dir p).
  Definition cport_sig (p : string * (dir * D)) : string * dir := (fst p, fst (snd p)).
  Definition res_sig (r : resource) : string * rtype := (r_name r, r_type r).

  Lemma eval_ports_sig env ps cps :
    eval_ports ev env ps = Ok cps -> map cport_sig cps = map port_sig ps.
  Proof.
    unfold eval_ports. apply mapM_map_fst. intros p b H. inv_bind H. inversion H. reflexivity.
  Qed.

  Section Children.
    Variable rec : routine -> list (string * D) -> result (ctree D).
    Hypothesis Hrec : forall c ins t, rec c ins = Ok t -> ct_name t = rname c.

    Lemma find_child_name n cs c : find_child n cs = Some c -> rname c = n.
    Proof.
      induction cs as [|x cs IH]; cbn; [discriminate|].
      destruct (String.eqb (rname x) n) eqn:E; [|exact IH].
      intro H. inversion H; subst. apply String.eqb_eq. exact E.
    Qed.

    Lemma compile_children_names names children conns : forall pm acc pm' kids,
        compile_children rec names children conns pm acc = Ok (pm', kids) ->
        map (@ct_name D) kids = (rev (map (@ct_name D) acc) ++ names)%list.
    Proof.
      induction names as [|n names IH]; intros pm acc pm' kids H; cbn [compile_children] in H.
      - inversion H; subst. rewrite map_rev, app_nil_r. reflexivity.
      - inv_bind H. inv_bind H. inv_bind H. inv_bind H.
        rewrite (IH _ _ _ _ H). cbn [map rev]. rewrite <- app_assoc. cbn [app].
        rewrite (Hrec _ _ _ Hb1). apply of_opt_Ok in Hb; [|intros b Hx; discriminate].
        rewrite (find_child_name _ _ _ Hb). reflexivity.
    Qed.

    (* one node: everything that is structure is copied from the source routine *)
    Lemma go_node_structure r inputs t :
      go_node ev statusD fvD rec r inputs = Ok t ->
      ct_name t = rname r /\ ct_type t = rtype_of r /\ ct_connections t = rconnections r /\
      map cport_sig (ct_ports t) = map port_sig (filter non_output (rports r) ++ filter is_output (rports r)) /\
      (rrep r = None -> names_types (ct_resources t) = map res_sig (rresources r)) /\
      (exists order, children_order (rchildren r) (rconnections r) = Some order /\ map (@ct_name D) (ct_children t) = order).
    Proof.
      destruct r as [name type ips locals links ports resources conns rep constraints children].
      cbn [go_node]. intro H.
      inv_bind H. inv_bind H. inv_bind H. inv_bind H. inv_bind H. inv_bind H. inv_bind H. inv_bind H.
      destruct x6 as [pm3 kids]. inv_bind H. inv_bind H. inv_bind H. inv_bind H. inversion H; subst; clear H.
      cbn. repeat split.
      - rewrite map_app, map_app, (eval_ports_sig _ _ _ Hb3), (eval_ports_sig _ _ _ Hb10). reflexivity.
      - intro Hrep. subst rep. inversion Hb7; subst.
        unfold names_types.
        eapply (mapM_map_fst _ res_sig (fun nr : string * (rtype * D) => (fst nr, fst (snd nr)))); [|exact Hb9].
        intros a b Ha. inv_bind Ha. inversion Ha. reflexivity.
      - exists x5. split.
        + apply of_opt_Ok in Hb5; [exact Hb5|intros b Hx; discriminate].
        + rewrite (compile_children_names _ _ _ _ _ _ _ Hb6). reflexivity.
    Qed.
  End Children.

  Theorem go_structure fuel : forall r inputs t,
      go ev statusD fvD fuel r inputs = Ok t ->
      ct_name t = rname r /\ ct_type t = rtype_of r /\ ct_connections t = rconnections r /\
      map cport_sig (ct_ports t) = map port_sig (filter non_output (rports r) ++ filter is_output (rports r)) /\
      (rrep r = None -> names_types (ct_resources t) = map res_sig (rresources r)) /\
      (exists order, children_order (rchildren r) (rconnections r) = Some order /\ map (@ct_name D) (ct_children t) = order).
  Proof.
    induction fuel as [|fuel IH]; intros r inputs t H; [discriminate|].
    cbn [go] in H. apply (go_node_structure (go ev statusD fvD fuel)) with (inputs := inputs); [|exact H].
    intros c ins t' Hc. apply IH in Hc. tauto.
  Qed.

  (* the order in which children are processed is a listing of exactly the children *)
  (* ---------- C02: one step of the wire law ---------- *)

  Definition pm_get (tgt : option string) (k : string) (pm : pmap D) : option D :=
    match tgt with
    | None => lookup k (fst pm)
    | Some c => match lookup c (snd pm) with Some d => lookup k d | None => None end
    end.

  Definition pm_has (tgt : option string) (pm : pmap D) : Prop :=
    match tgt with None => True | Some c => exists d, lookup c (snd pm) = Some d end.

  Lemma lookup_pmc_update c k (v : D) n pmc :
    lookup n (map (fun nd : string * list (string * D) => if String.eqb (fst nd) c then (fst nd, (k, v) :: snd nd) else nd) pmc)
    = match lookup n pmc with
      | Some d => Some (if String.eqb n c then (k, v) :: d else d)
      | None => None
      end.
  Proof.
    induction pmc as [|[m d] pmc IH]; cbn; [reflexivity|].
    destruct (String.eqb m c) eqn:Emc; cbn; destruct (String.eqb n m) eqn:Enm.
    - apply String.eqb_eq in Enm. subst. rewrite Emc. reflexivity.
    - exact IH.
    - apply String.eqb_eq in Enm. subst. rewrite Emc. reflexivity.
    - exact IH.
  Qed.

  Lemma pm_get_put_same tgt k v pm : pm_has tgt pm -> pm_get tgt k (pm_put tgt k v pm) = Some v.
  Proof.
    destruct pm as [pmn pmc]. destruct tgt as [c|]; cbn.
    - intros [d Hd]. rewrite lookup_pmc_update, Hd, String.eqb_refl. cbn. rewrite String.eqb_refl. reflexivity.
    - intros _. rewrite String.eqb_refl. reflexivity.
  Qed.

  Lemma pm_get_put_other tgt k tgt' k' v pm :
    (tgt <> tgt' \/ k <> k') -> pm_get tgt k (pm_put tgt' k' v pm) = pm_get tgt k pm.
  Proof.
    destruct pm as [pmn pmc]. destruct tgt as [c|], tgt' as [c'|]; cbn; intro Hne; try reflexivity.
    - rewrite lookup_pmc_update. destruct (lookup c pmc) as [d|]; [|reflexivity].
      destruct (String.eqb c c') eqn:E; [|reflexivity]. cbn.
      apply String.eqb_eq in E. subst. destruct Hne as [Hne|Hne]; [congruence|].
      destruct (String.eqb k k') eqn:Ek; [apply String.eqb_eq in Ek; congruence|reflexivity].
    - destruct Hne as [Hne|Hne]; [congruence|].
      destruct (String.eqb k k') eqn:Ek; [apply String.eqb_eq in Ek; congruence|reflexivity].
  Qed.

  Lemma pm_has_put tgt tgt' k v pm : pm_has tgt pm -> pm_has tgt (pm_put tgt' k v pm).
  Proof.
    destruct pm as [pmn pmc]. destruct tgt as [c|], tgt' as [c'|]; cbn; auto.
    intros [d Hd]. rewrite lookup_pmc_update, Hd. eauto.
  Qed.

  Lemma hash_name_inj a b : hash_name a = hash_name b -> a = b.
  Proof. unfold hash_name. cbn. intro H. inversion H. reflexivity. Qed.

  (* after the sizes of a routine's ports have been merged into the parameter map, the variable `#p`
     of every wired target port holds exactly the compiled size of the port at the other end of the wire,
     provided no port is the target of two wires *)
  Theorem put_port_sizes_wire cs cports : forall pm pm',
      put_port_sizes cs cports pm = Ok pm' ->
      NoDup (map snd cs) ->
      forall sp tr tp, In (sp, (tr, tp)) cs -> pm_has tr pm ->
                       pm_get tr (hash_name tp) pm' = option_map snd (lookup sp cports).
  Proof.
    induction cs as [|[sp0 [tr0 tp0]] cs IH]; intros pm pm' H Hnd sp tr tp Hin Hhas; [destruct Hin|].
    cbn [put_port_sizes] in H. inv_bind H. cbn [map] in Hnd. inversion Hnd as [|? ? Hnotin Hnd']; subst.
    destruct Hin as [Heq|Hin].
    - inversion Heq; subst. clear Heq.
      apply of_opt_Ok in Hb; [|intros b Hx; discriminate]. rewrite Hb. cbn [option_map].
      (* later puts go to other targets *)
      assert (Hkeep : forall cs' pmA pmB, put_port_sizes cs' cports pmA = Ok pmB ->
                                          ~ In (tr, tp) (map snd cs') ->
                                          pm_get tr (hash_name tp) pmB = pm_get tr (hash_name tp) pmA).
      { induction cs' as [|[s1 [t1 p1]] cs' IHc]; intros pmA pmB HA Hn.
        - inversion HA. reflexivity.
        - cbn [put_port_sizes] in HA. inv_bind HA. rewrite (IHc _ _ HA).
          + apply pm_get_put_other. cbn [map snd] in Hn.
            destruct (ostr_dec tr t1) as [E1|E1]; [|left; exact E1].
            right. intro E2. apply hash_name_inj in E2. subst. apply Hn. left. reflexivity.
          + intro Hx. apply Hn. right. exact Hx. }
      rewrite (Hkeep _ _ _ H Hnotin). apply pm_get_put_same. exact Hhas.
    - eapply IH; eauto. apply pm_has_put. exact Hhas.
  Qed.
End Structure.

(* a port variable compiles to exactly what the parameter map holds for it *)
Lemma ev_subst_sym env x v : lookup x env = Some v -> ev_subst env (ESym x) = Ok v.
Proof. intro H. unfold ev_subst, subst_chk. cbn. rewrite H. reflexivity. Qed.

(* ---------- C04: total assignments close every expression ---------- *)
Definition closed_env (s : env) : Prop := forall x v, lookup x s = Some v -> fv v = [].

Lemma subst_closed s e :
  (forall x, In x (fv e) -> In x (keys s)) -> closed_env s -> fv (subst s e) = [].
Proof.
  intros Hfv Hc. destruct (fv (subst s e)) as [|y l] eqn:E; [reflexivity|]. exfalso.
  assert (Hy : In y (fv (subst s e))) by (rewrite E; cbn; auto).
  destruct (fv_subst _ _ _ Hy) as [[H1 H2]|[z [v [H1 [H2 H3]]]]].
  - apply lookup_None_notin in H2. apply H2. apply Hfv. exact H1.
  - rewrite (Hc _ _ H2) in H3. destruct H3.
Qed.

(* every symbol of a compiled expression comes from a value of the dictionary when the
   expression's own symbols are all defined by it (the node is well-scoped) *)
Lemma subst_symbols_from_values s e y :
  (forall x, In x (fv e) -> In x (keys s)) -> In y (fv (subst s e)) ->
  exists k v, lookup k s = Some v /\ In y (fv v).
Proof.
  intros Hfv Hy. destruct (fv_subst _ _ _ Hy) as [[H1 H2]|[z [v [H1 [H2 H3]]]]].
  - exfalso. apply lookup_None_notin in H2. apply H2. apply Hfv. exact H1.
  - eauto.
Qed.
