(* LatexFacts.v — C18: with the fallback in place no name makes the formatting raise, and every port direction has a section. *)
From Coq Require Import List String Ascii Bool Arith.
From Bq Require Import Latex.
From BqGen Require Import GenLatex.
Import ListNotations.
Open Scope string_scope.

Theorem no_name_raises p : gen_latex_empty_part_guard = true -> p <> "" -> name_raises p = false.
Proof.
  intros Hg Hne. unfold name_raises, local_raises, math_raises. rewrite Hg.
  destruct (Nat.eqb (count_us p) 0) eqn:E.
  - destruct p; [contradiction|]. cbn. destruct (Nat.leb _ 1); reflexivity.
  - destruct (Nat.leb (count_us p) 1); reflexivity.
Qed.

(* without the fallback, exactly the names with an empty part around the first underscore raise (x_, _x, _) *)
Theorem raising_names_characterised p :
  gen_latex_empty_part_guard = false -> (count_us p = 1)%nat ->
  name_raises p = (is_empty (fst (split_us p)) || is_empty (snd (split_us p))).
Proof.
  intros Hg Hc. unfold name_raises, local_raises, math_raises. rewrite Hg, Hc. cbn [Nat.eqb Nat.leb].
  destruct (split_us p) as [a b]. cbn [fst snd]. destruct (is_empty a || is_empty b); reflexivity.
Qed.
