(* StdSemFacts.v — the standard rational interpretation is an instance of the
   generic semantics (so every generic lemma applies to evalT). *)
From Coq Require Import List String QArith ZArith Bool Qreduction.
From Bq Require Import Expr ExprFacts StdSem.
Import ListNotations.
Open Scope string_scope.

Lemma bigQ_ext k f g lo n : (forall v, f v = g v) -> bigQ k f lo n = bigQ k g lo n.
Proof.
  intro H. induction n as [|n IH]; cbn [bigQ]; [reflexivity|]. rewrite IH, H. reflexivity.
Qed.

Lemma stdB_ext k f g lo hi : (forall v, f v = g v) -> stdB k f lo hi = stdB k g lo hi.
Proof.
  intro H. unfold stdB. destruct (is_int lo && is_int hi); [|reflexivity]. apply bigQ_ext. exact H.
Qed.

Lemma evalT_subst e s r :
  captures s e = false -> evalT r (subst s e) = evalT (env_after idQ stdI stdB r s) e.
Proof. intro H. unfold evalT. apply eval_subst; [exact stdB_ext|exact H]. Qed.

Lemma evalT_ext_fv e r1 r2 :
  (forall x, In x (fv e) -> r1 x = r2 x) -> evalT r1 e = evalT r2 e.
Proof. apply eval_ext_fv. exact stdB_ext. Qed.

Lemma evalT_ext e r1 r2 : (forall x, r1 x = r2 x) -> evalT r1 e = evalT r2 e.
Proof. apply eval_ext. exact stdB_ext. Qed.

Lemma Qred_int z : Qred (inject_Z z) = inject_Z z.
Proof.
  unfold Qred, inject_Z.
  generalize (Z.ggcd_gcd z 1) (Z.ggcd_correct_divisors z 1).
  destruct (Z.ggcd z 1) as [g [a b]]. cbn [fst snd]. intros Hg [Ha Hb].
  rewrite Z.gcd_1_r in Hg. subst g. rewrite Z.mul_1_l in Ha, Hb. subst. reflexivity.
Qed.

Lemma is_int_inject z : is_int (inject_Z z) = true.
Proof. unfold is_int. rewrite Qred_int. reflexivity. Qed.
Lemma to_int_inject z : to_int (inject_Z z) = z.
Proof. unfold to_int. rewrite Qred_int. reflexivity. Qed.
Lemma is_int_compat a b : a == b -> is_int a = is_int b.
Proof. intro H. unfold is_int. rewrite (Qred_complete _ _ H). reflexivity. Qed.
Lemma to_int_compat a b : a == b -> to_int a = to_int b.
Proof. intro H. unfold to_int. rewrite (Qred_complete _ _ H). reflexivity. Qed.
