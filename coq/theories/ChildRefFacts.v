(* ChildRefFacts.v — C08 / C01 for a whole node of the compile model:
   (1) while a routine's own resources are compiled, the reference `c.x` stands for exactly the compiled value of
       resource x of child c (the child's OWN value: it shadows anything of the same spelling handed down);
   (2) hence a propagated additive (multiplicative) resource -- the sum (product) of the references `c.x` that
       preprocessing installs -- compiles to an expression whose value, at every point, is the sum (product) of the
       children's compiled values. *)
From Coq Require Import List String Ascii QArith ZArith Bool.
From Bq Require Import Expr ExprFacts StdSem StdSemFacts RepModel Routine Compare Compile CompileFacts StructureFacts
     QrefFacts QrefModel QrefModelFacts.
Import ListNotations.
Open Scope string_scope.

(* `child.resource` names are unambiguous when child names have no dot *)
Lemma dot_inj c c' x y : no_dot c = true -> no_dot c' = true -> dot c x = dot c' y -> c = c' /\ x = y.
Proof.
  intros Hc Hc' H.
  pose proof (split_first_dot_dot c x Hc) as H1. pose proof (split_first_dot_dot c' y Hc') as H2.
  rewrite H in H1. rewrite H1 in H2. inversion H2. auto.
Qed.

Definition cvars_of (kids : list (ctree expr)) : list (string * expr) :=
  flat_map (fun t => map (fun nr => (dot (ct_name t) (fst nr), snd (snd nr))) (ct_resources t)) kids.

Lemma lookup_map_dot c x (rs : list (string * (rtype * expr))) :
  lookup (dot c x) (map (fun nr => (dot c (fst nr), snd (snd nr))) rs) = option_map snd (lookup x rs).
Proof.
  induction rs as [|[y [ty v]] rs IH]; cbn; [reflexivity|].
  destruct (String.eqb x y) eqn:E.
  - apply String.eqb_eq in E. subst. rewrite String.eqb_refl. reflexivity.
  - assert (Hne : String.eqb (dot c x) (dot c y) = false).
    { apply String.eqb_neq. intro H. unfold dot in H. apply String.eqb_neq in E. apply E.
      clear - H. induction c as [|a c IHc]; cbn in H; [inversion H; reflexivity|]. inversion H. auto. }
    rewrite Hne. exact IH.
Qed.

Lemma lookup_map_dot_other c c' x (rs : list (string * (rtype * expr))) :
  no_dot c = true -> no_dot c' = true -> c <> c' ->
  lookup (dot c x) (map (fun nr => (dot c' (fst nr), snd (snd nr))) rs) = None.
Proof.
  intros Hc Hc' Hne. induction rs as [|[y [ty v]] rs IH]; cbn; [reflexivity|].
  destruct (String.eqb (dot c x) (dot c' y)) eqn:E; [|exact IH].
  apply String.eqb_eq in E. destruct (dot_inj c c' x y Hc Hc' E). congruence.
Qed.

Lemma lookup_cvars_none (kids : list (ctree expr)) c x :
  (forall k, In k kids -> no_dot (ct_name k) = true) -> no_dot c = true ->
  ~ In c (map (@ct_name expr) kids) -> lookup (dot c x) (cvars_of kids) = None.
Proof.
  intros Hnd Hc Hnot. unfold cvars_of. induction kids as [|k kids IH]; [reflexivity|].
  cbn [flat_map]. rewrite lookup_app, lookup_map_dot_other.
  - apply IH; [intros k0 Hk0; apply Hnd; right; exact Hk0|intro Hx; apply Hnot; right; exact Hx].
  - exact Hc.
  - apply Hnd. left. reflexivity.
  - intro Heq. apply Hnot. left. symmetry. exact Heq.
Qed.

(* (1) the reference c.x finds the value of x in the kid named c *)
Lemma lookup_cvars (kids : list (ctree expr)) c x tc :
  (forall k, In k kids -> no_dot (ct_name k) = true) ->
  NoDup (map (@ct_name expr) kids) -> In tc kids -> ct_name tc = c ->
  lookup (dot c x) (cvars_of kids) = option_map snd (lookup x (ct_resources tc)).
Proof.
  intros Hnd Hnodup Hin Hname.
  induction kids as [|k kids IH]; [destruct Hin|].
  unfold cvars_of. cbn [flat_map]. fold (cvars_of kids). rewrite lookup_app.
  cbn [map] in Hnodup. inversion Hnodup as [|? ? Hnot Hnodup']; subst.
  destruct Hin as [->|Hin].
  - rewrite lookup_map_dot. destruct (lookup x (ct_resources tc)) as [[ty v]|] eqn:E; cbn; [reflexivity|].
    apply lookup_cvars_none; [intros k0 Hk0; apply Hnd; right; exact Hk0|apply Hnd; left; reflexivity|exact Hnot].
  - rewrite lookup_map_dot_other.
    + apply IH; [intros k0 Hk0; apply Hnd; right; exact Hk0|exact Hnodup'|exact Hin].
    + apply Hnd. right. exact Hin.
    + apply Hnd. left. reflexivity.
    + intro Heq. apply Hnot. rewrite <- Heq. apply in_map. exact Hin.
Qed.

(* what the resources of a non-repeated node are compiled with *)
Lemma go_node_resources fuel r inputs t :
  go ev_subst statusE fv fuel r inputs = Ok t -> rrep r = None ->
  exists pmn0,
    (forall k v, lookup k (cvars_of (ct_children t)) = Some v -> lookup k (over pmn0 (cvars_of (ct_children t))) = Some v) /\
    mapM (fun rs => do v <- ev_subst (over pmn0 (cvars_of (ct_children t))) (r_value rs); Ok (r_name rs, (r_type rs, v)))
         (rresources r) = Ok (ct_resources t).
Proof.
  destruct fuel as [|fuel]; [discriminate|]. cbn [go].
  destruct r as [name type ips locals links ports resources conns rep constraints children].
  cbn [go_node rrep rresources]. intros H Hrep. subst rep.
  inv_bind H. inv_bind H. inv_bind H. inv_bind H. inv_bind H. inv_bind H. inv_bind H. inv_bind H.
  destruct x6 as [pm3 kids]. inv_bind H. inv_bind H. inv_bind H. inv_bind H. inversion H; subst; clear H.
  inversion Hb7; subst. cbn [ct_children ct_resources].
  exists (fst pm3). split.
  - intros k v Hk. unfold over. rewrite lookup_app. unfold cvars_of in *. rewrite Hk. reflexivity.
  - exact Hb9.
Qed.

Lemma mapM_lookup_first {A} (f : A -> result (string * (rtype * expr))) (key : A -> string) (l : list A) out a b :
  (forall a' b', f a' = Ok b' -> fst b' = key a') ->
  mapM f l = Ok out -> NoDup (map key l) -> In a l -> f a = Ok b -> lookup (key a) out = Some (snd b).
Proof.
  intros Hkey. revert out. induction l as [|a0 l IH]; intros out H Hnd Hin Hfa; [destruct Hin|].
  cbn [mapM] in H. inv_bind H. inv_bind H. inversion H; subst. clear H.
  cbn [map] in Hnd. inversion Hnd as [|? ? Hnot Hnd']; subst.
  destruct Hin as [->|Hin].
  - rewrite Hfa in Hb. inversion Hb; subst. destruct x as [k v]. cbn. pose proof (Hkey _ _ Hfa) as Hk. cbn in Hk. subst k.
    rewrite String.eqb_refl. reflexivity.
  - destruct x as [k v]. cbn. pose proof (Hkey _ _ Hb) as Hk. cbn in Hk. subst k.
    destruct (String.eqb (key a) (key a0)) eqn:E.
    + apply String.eqb_eq in E. exfalso. apply Hnot. rewrite <- E. apply in_map. exact Hin.
    + apply IH; assumption.
Qed.

Section Accumulate.
  Variable fuel : nat.
  Variable r : routine.
  Variable inputs : list (string * expr).
  Variable t : ctree expr.
  Hypothesis Hgo : go ev_subst statusE fv fuel r inputs = Ok t.
  Hypothesis Hrep : rrep r = None.
  Hypothesis Hres_nodup : NoDup (map r_name (rresources r)).
  Hypothesis Hkid_names : forall k, In k (ct_children t) -> no_dot (ct_name k) = true.
  Hypothesis Hkid_nodup : NoDup (map (@ct_name expr) (ct_children t)).

  (* the value the compile model gives to child c's resource x *)
  Definition child_value (c x : string) : option expr :=
    match find (fun k => String.eqb (ct_name k) c) (ct_children t) with
    | Some k => option_map snd (lookup x (ct_resources k))
    | None => None
    end.

  Lemma find_kid c tc : In tc (ct_children t) -> ct_name tc = c ->
    find (fun k => String.eqb (ct_name k) c) (ct_children t) = Some tc.
  Proof.
    intros Hin Hn. clear Hgo Hkid_names. induction (ct_children t) as [|k ks IH]; [destruct Hin|].
    cbn [map] in Hkid_nodup. inversion Hkid_nodup as [|? ? Hnot Hnd]; subst. cbn [find].
    destruct Hin as [->|Hin]; [rewrite String.eqb_refl; reflexivity|].
    destruct (String.eqb (ct_name k) (ct_name tc)) eqn:E.
    - apply String.eqb_eq in E. exfalso. apply Hnot. rewrite E. apply in_map. exact Hin.
    - apply IH; assumption.
  Qed.

  (* (2) additive: the sum of the references compiles to something whose value is the sum of the children's values *)
  Theorem propagated_sum_is_sum_of_children x ty (cs : list string) :
    In (Build_resource x ty (EOp OAdd (map (fun c => ESym (dot c x)) cs))) (rresources r) ->
    (forall c, In c cs -> exists v, child_value c x = Some v) ->
    exists V, lookup x (ct_resources t) = Some (ty, V) /\
              forall rho, evalT rho V == fold_right Qplus 0 (map (fun c => match child_value c x with
                                                                             | Some v => evalT rho v
                                                                             | None => 0
                                                                             end) cs).
  Proof.
    intros Hin Hcs.
    destruct (go_node_resources fuel r inputs t Hgo Hrep) as [pmn0 [Hlk Hm]].
    set (env := over pmn0 (cvars_of (ct_children t))) in *.
    set (rs := Build_resource x ty (EOp OAdd (map (fun c => ESym (dot c x)) cs))) in *.
    (* the substitution is capture-free (no binder in a sum of symbols) *)
    assert (Hev : ev_subst env (r_value rs) = Ok (subst env (r_value rs))).
    { unfold ev_subst, subst_chk. replace (captures env (r_value rs)) with false; [reflexivity|].
      cbn. symmetry. clear. induction cs as [|c cs IH]; cbn; [reflexivity|exact IH]. }
    pose proof (mapM_lookup_first
                  (fun rs0 : resource => do v <- ev_subst env (r_value rs0); Ok (r_name rs0, (r_type rs0, v)))
                  r_name (rresources r) (ct_resources t) rs
                  (x, (ty, subst env (r_value rs)))) as Hl.
    assert (Hl' : lookup (r_name rs) (ct_resources t) = Some (ty, subst env (r_value rs))).
    { apply Hl; [|exact Hm|exact Hres_nodup|exact Hin|cbn [bind]; rewrite Hev; reflexivity].
      intros a' b' Hf. inv_bind Hf. inversion Hf. reflexivity. }
    exists (subst env (r_value rs)). split; [exact Hl'|].
    intro rho. cbn [r_value rs subst]. rewrite map_map. unfold evalT. cbn [eval]. rewrite map_map. cbn [stdI].
    clear Hl Hl' Hev Hm Hin.
    induction cs as [|c cs IH]; cbn [map fold_right]; [reflexivity|].
    assert (Hc : exists v, child_value c x = Some v) by (apply Hcs; left; reflexivity).
    destruct Hc as [v Hv]. rewrite Hv.
    assert (Hsub : subst env (ESym (dot c x)) = v).
    { cbn [subst]. unfold child_value in Hv.
      destruct (find (fun k => String.eqb (ct_name k) c) (ct_children t)) as [k|] eqn:Ef; [|discriminate].
      apply find_some in Ef. destruct Ef as [Hk Hn]. apply String.eqb_eq in Hn.
      assert (Hlc : lookup (dot c x) (cvars_of (ct_children t)) = Some v).
      { rewrite (lookup_cvars (ct_children t) c x k Hkid_names Hkid_nodup Hk Hn). exact Hv. }
      rewrite (Hlk _ _ Hlc). reflexivity. }
    rewrite Hsub. cbn [fold_right]. apply Qplus_comp; [reflexivity|].
    apply IH. intros c' Hc'. apply Hcs. right. exact Hc'.
  Qed.

  (* ... multiplicative: the product of the references has the product of the children's values *)
  Theorem propagated_product_is_product_of_children x ty (cs : list string) :
    In (Build_resource x ty (EOp OMul (map (fun c => ESym (dot c x)) cs))) (rresources r) ->
    (forall c, In c cs -> exists v, child_value c x = Some v) ->
    exists V, lookup x (ct_resources t) = Some (ty, V) /\
              forall rho, evalT rho V == fold_right Qmult 1 (map (fun c => match child_value c x with
                                                                             | Some v => evalT rho v
                                                                             | None => 1
                                                                             end) cs).
  Proof.
    intros Hin Hcs.
    destruct (go_node_resources fuel r inputs t Hgo Hrep) as [pmn0 [Hlk Hm]].
    set (env := over pmn0 (cvars_of (ct_children t))) in *.
    set (rs := Build_resource x ty (EOp OMul (map (fun c => ESym (dot c x)) cs))) in *.
    (* the substitution is capture-free (no binder in a sum of symbols) *)
    assert (Hev : ev_subst env (r_value rs) = Ok (subst env (r_value rs))).
    { unfold ev_subst, subst_chk. replace (captures env (r_value rs)) with false; [reflexivity|].
      cbn. symmetry. clear. induction cs as [|c cs IH]; cbn; [reflexivity|exact IH]. }
    pose proof (mapM_lookup_first
                  (fun rs0 : resource => do v <- ev_subst env (r_value rs0); Ok (r_name rs0, (r_type rs0, v)))
                  r_name (rresources r) (ct_resources t) rs
                  (x, (ty, subst env (r_value rs)))) as Hl.
    assert (Hl' : lookup (r_name rs) (ct_resources t) = Some (ty, subst env (r_value rs))).
    { apply Hl; [|exact Hm|exact Hres_nodup|exact Hin|cbn [bind]; rewrite Hev; reflexivity].
      intros a' b' Hf. inv_bind Hf. inversion Hf. reflexivity. }
    exists (subst env (r_value rs)). split; [exact Hl'|].
    intro rho. cbn [r_value rs subst]. rewrite map_map. unfold evalT. cbn [eval]. rewrite map_map. cbn [stdI].
    clear Hl Hl' Hev Hm Hin.
    induction cs as [|c cs IH]; cbn [map fold_right]; [reflexivity|].
    assert (Hc : exists v, child_value c x = Some v) by (apply Hcs; left; reflexivity).
    destruct Hc as [v Hv]. rewrite Hv.
    assert (Hsub : subst env (ESym (dot c x)) = v).
    { cbn [subst]. unfold child_value in Hv.
      destruct (find (fun k => String.eqb (ct_name k) c) (ct_children t)) as [k|] eqn:Ef; [|discriminate].
      apply find_some in Ef. destruct Ef as [Hk Hn]. apply String.eqb_eq in Hn.
      assert (Hlc : lookup (dot c x) (cvars_of (ct_children t)) = Some v).
      { rewrite (lookup_cvars (ct_children t) c x k Hkid_names Hkid_nodup Hk Hn). exact Hv. }
      rewrite (Hlk _ _ Hlc). reflexivity. }
    rewrite Hsub. cbn [fold_right]. apply Qmult_comp; [reflexivity|].
    apply IH. intros c' Hc'. apply Hcs. right. exact Hc'.
  Qed.
End Accumulate.
