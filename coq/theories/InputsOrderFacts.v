(* InputsOrderFacts.v — C09: the order in which a dictionary of values is listed never matters to compilation.
   For any carrier and any expression step that reads its dictionary through lookups only (both instances do), compiling a
   routine with two listings of the same inputs dictionary gives the same tree: the same resources, port sizes, constraints,
   repetition and -- identically -- the same children; only the stored copy of the inputs is listed as it was given.
   Consequences: the listing order of input parameters / link entries (which only decides the order in which a child's
   inputs dictionary is filled) cannot influence any compiled value. *)
From Coq Require Import List String Bool Permutation.
From Bq Require Import Expr ExprFacts RepModel Routine Compare Compile CompileFacts LocalsOrderFacts.
Import ListNotations.
Open Scope string_scope.

Section Sim.
  Variable D : Type.

  (* two listings of one dictionary: the same value for every key, the same keys, the same values *)
  Definition env_sim (a b : list (string * D)) : Prop :=
    (forall k, lookup k a = lookup k b) /\
    (forall k, In k (keys a) <-> In k (keys b)) /\
    (forall v, In v (map snd a) <-> In v (map snd b)).

  Lemma env_sim_refl a : env_sim a a.
  Proof. repeat split; auto. Qed.

  Lemma env_sim_app_r a b c : env_sim a b -> env_sim (a ++ c) (b ++ c).
  Proof.
    intros (L & K & V). split; [|split].
    - intro k. rewrite !lookup_app, L. reflexivity.
    - intro k. unfold keys in *. rewrite !map_app, !in_app_iff, K. tauto.
    - intro v. rewrite !map_app, !in_app_iff, V. tauto.
  Qed.

  Lemma env_sim_app_l a b c : env_sim a b -> env_sim (c ++ a) (c ++ b).
  Proof.
    intros (L & K & V). split; [|split].
    - intro k. rewrite !lookup_app, L. reflexivity.
    - intro k. unfold keys in *. rewrite !map_app, !in_app_iff, K. tauto.
    - intro v. rewrite !map_app, !in_app_iff, V. tauto.
  Qed.

  Lemma env_sim_cons kv a b : env_sim a b -> env_sim (kv :: a) (kv :: b).
  Proof. intro H. apply (env_sim_app_l a b [kv]). exact H. Qed.

  Lemma lookup_perm_nodup (a b : list (string * D)) : Permutation a b -> NoDup (keys a) -> forall k, lookup k a = lookup k b.
  Proof. intros P N k. apply lookup_perm; assumption. Qed.

  Theorem perm_nodup_sim a b : Permutation a b -> NoDup (keys a) -> env_sim a b.
  Proof.
    intros P N. split; [|split].
    - apply lookup_perm_nodup; assumption.
    - intro k. split; intro H.
      + eapply Permutation_in; [apply Permutation_map; exact P|exact H].
      + eapply Permutation_in; [apply Permutation_map, Permutation_sym; exact P|exact H].
    - intro v. split; intro H.
      + eapply Permutation_in; [apply Permutation_map; exact P|exact H].
      + eapply Permutation_in; [apply Permutation_map, Permutation_sym; exact P|exact H].
  Qed.
End Sim.
Arguments env_sim {D}.

Section GoSim.
  Variable D : Type.
  Variable ev : list (string * D) -> expr -> result D.
  Variable statusD : D -> D -> cstatus.
  Variable fvD : D -> list string.
  (* the expression step reads its dictionary through lookups *)
  Hypothesis Hev : forall env env' e, (forall k, lookup k env = lookup k env') -> ev env e = ev env' e.

  Lemma ev_sim env env' e : env_sim env env' -> ev env e = ev env' e.
  Proof. intros (L & _). apply Hev. exact L. Qed.

  Lemma mapM_ext_in {A B} (f g : A -> result B) l : (forall a, In a l -> f a = g a) -> mapM f l = mapM g l.
  Proof.
    induction l as [|a l IH]; intro H; cbn [mapM]; [reflexivity|].
    rewrite (H a (or_introl eq_refl)), IH; [reflexivity|]. intros x Hx. apply H. right. exact Hx.
  Qed.

  Lemma eval_ports_sim env env' ps : env_sim env env' -> eval_ports ev env ps = eval_ports ev env' ps.
  Proof. intro S. unfold eval_ports. apply mapM_ext_in. intros p _. rewrite (ev_sim _ _ _ S). reflexivity. Qed.

  Lemma eval_constraints_sim env env' cs : env_sim env env' -> eval_constraints ev statusD env cs = eval_constraints ev statusD env' cs.
  Proof.
    intro S. unfold eval_constraints. apply mapM_ext_in. intros c _.
    rewrite (ev_sim _ _ (c_lhs c) S), (ev_sim _ _ (c_rhs c) S). reflexivity.
  Qed.

  Lemma existsb_sim (P : D -> bool) (env env' : list (string * D)) :
    (forall v, In v (map snd env) <-> In v (map snd env')) ->
    existsb (fun kv => P (snd kv)) env = existsb (fun kv => P (snd kv)) env'.
  Proof.
    intro V. apply eq_true_iff_eq. rewrite !existsb_exists. split; intros [[k v] [Hin Hp]]; cbn [snd] in Hp.
    - assert (Hv : In v (map snd env')) by (apply V; apply in_map_iff; exists (k, v); split; [reflexivity|exact Hin]).
      apply in_map_iff in Hv. destruct Hv as [[k' v'] [E Hin']]. cbn in E. subst v'. exists (k', v). split; [exact Hin'|exact Hp].
    - assert (Hv : In v (map snd env)) by (apply V; apply in_map_iff; exists (k, v); split; [reflexivity|exact Hin]).
      apply in_map_iff in Hv. destruct Hv as [[k' v'] [E Hin']]. cbn in E. subst v'. exists (k', v). split; [exact Hin'|exact Hp].
  Qed.

  Lemma mem_sim x (a b : list string) : (forall k, In k a <-> In k b) -> mem x a = mem x b.
  Proof. intro H. apply eq_true_iff_eq. rewrite !mem_In. apply H. Qed.

  Lemma eval_seq_sim env env' s : env_sim env env' -> eval_seq ev fvD env s = eval_seq ev fvD env' s.
  Proof.
    intros S. pose proof S as (L & K & V). destruct s as [m|a d|q|su pr nts|t it]; cbn [eval_seq].
    - rewrite (ev_sim _ _ m S). reflexivity.
    - rewrite (ev_sim _ _ a S), (ev_sim _ _ d S). reflexivity.
    - rewrite (ev_sim _ _ q S). reflexivity.
    - rewrite (ev_sim _ _ (ESym nts) S). destruct su as [x|], pr as [y|]; rewrite ?(ev_sim _ _ x S), ?(ev_sim _ _ y S); reflexivity.
    - rewrite (mem_sim it _ _ K), (existsb_sim (fun v => mem it (fvD v)) _ _ V), (ev_sim _ _ t S). reflexivity.
  Qed.

  Lemma eval_rep_sim env env' rp : env_sim env env' -> eval_rep ev fvD env rp = eval_rep ev fvD env' rp.
  Proof.
    intro S. destruct rp as [r|]; cbn [eval_rep]; [|reflexivity].
    rewrite (ev_sim _ _ (rep_count r) S), (eval_seq_sim _ _ (rep_seq r) S). reflexivity.
  Qed.

  Lemma compile_locals_sim names locals : forall ext ext' acc,
      env_sim ext ext' -> compile_locals ev names locals ext acc = compile_locals ev names locals ext' acc.
  Proof.
    induction names as [|x rest IH]; intros ext ext' acc S; cbn [compile_locals]; [reflexivity|].
    destruct (of_opt (EInternal 3) (lookup x locals)) as [e| | | | |]; cbn [bind]; try reflexivity.
    rewrite (ev_sim _ _ e S). destruct (ev ext' e) as [v| | | | |]; cbn [bind]; try reflexivity.
    apply IH. apply env_sim_cons. exact S.
  Qed.

  (* the parameter map: the routine's own dictionary may be listed differently, the children's are identical *)
  Definition pm_sim (pm pm' : pmap D) : Prop := env_sim (fst pm) (fst pm') /\ snd pm = snd pm'.

  Lemma pm_put_sim tgt k v pm pm' : pm_sim pm pm' -> pm_sim (pm_put tgt k v pm) (pm_put tgt k v pm').
  Proof.
    destruct pm as [pmn pmc], pm' as [pmn' pmc']. intros [S E]. cbn [fst snd] in *. subst pmc'.
    destruct tgt as [c|]; cbn [pm_put]; split; cbn [fst snd]; try reflexivity; try exact S.
    apply env_sim_cons. exact S.
  Qed.

  Lemma fold_put_sim (targets : list (string * string)) v : forall pm pm',
      pm_sim pm pm' ->
      pm_sim (fold_left (fun acc cp => pm_put (Some (fst cp)) (snd cp) v acc) targets pm)
             (fold_left (fun acc cp => pm_put (Some (fst cp)) (snd cp) v acc) targets pm').
  Proof.
    induction targets as [|t ts IH]; intros pm pm' S; cbn [fold_left]; [exact S|]. apply IH. apply pm_put_sim. exact S.
  Qed.

  Lemma compile_links_sim pmn0 pmn0' links : env_sim pmn0 pmn0' -> forall pm pm' r,
      pm_sim pm pm' -> compile_links ev pmn0 links pm = Ok r ->
      exists r', compile_links ev pmn0' links pm' = Ok r' /\ pm_sim r r'.
  Proof.
    intro S0. induction links as [|[src targets] rest IH]; intros pm pm' r S H; cbn [compile_links] in *.
    - inversion H; subst. exists pm'. split; [reflexivity|exact S].
    - rewrite <- (ev_sim _ _ (ESym src) S0). inv_bind H. rewrite Hb. cbn [bind].
      eapply IH; [|exact H]. apply fold_put_sim. exact S.
  Qed.

  Lemma put_port_sizes_sim cs cports : forall pm pm' r,
      pm_sim pm pm' -> put_port_sizes cs cports pm = Ok r ->
      exists r', put_port_sizes cs cports pm' = Ok r' /\ pm_sim r r'.
  Proof.
    induction cs as [|[sp [tr tp]] rest IH]; intros pm pm' r S H; cbn [put_port_sizes] in *.
    - inversion H; subst. exists pm'. split; [reflexivity|exact S].
    - inv_bind H. rewrite Hb. cbn [bind]. eapply IH; [|exact H]. apply pm_put_sim. exact S.
  Qed.

  Section Node.
    Variable rec : routine -> list (string * D) -> result (ctree D).

    Lemma compile_children_sim names children conns : forall pm pm' acc r,
        pm_sim pm pm' -> compile_children rec names children conns pm acc = Ok r ->
        exists pm2, compile_children rec names children conns pm' acc = Ok (pm2, snd r) /\ pm_sim (fst r) pm2.
    Proof.
      induction names as [|n rest IH]; intros pm pm' acc r S H; cbn [compile_children] in *.
      - inversion H; subst. exists pm'. split; [reflexivity|exact S].
      - inv_bind H. inv_bind H. inv_bind H. inv_bind H.
        rewrite Hb. cbn [bind]. destruct S as [S1 S2]. rewrite <- S2, Hb0. cbn [bind]. rewrite Hb1. cbn [bind].
        destruct (put_port_sizes_sim _ _ pm pm' x2 (conj S1 S2) Hb2) as [pmB [HB SB]]. rewrite HB. cbn [bind].
        eapply IH; [exact SB|exact H].
    Qed.

    Definition set_inputs (t : ctree D) (ins : list (string * D)) : ctree D :=
      match t with CT n ty _ sp ports res conns rep cs kids => CT n ty ins sp ports res conns rep cs kids end.

    (* one node: with another listing of the same inputs dictionary the node compiles to the same tree, children included *)
    Lemma go_node_sim r inputs inputs' t :
      env_sim inputs inputs' -> go_node ev statusD fvD rec r inputs = Ok t ->
      go_node ev statusD fvD rec r inputs' = Ok (set_inputs t inputs').
    Proof.
      intros S H. destruct r as [name type ips locals links ports resources conns rep constraints children].
      cbn [go_node] in *.
      inv_bind H. rewrite Hb. cbn [bind].
      inv_bind H. rewrite <- (compile_locals_sim x locals inputs inputs' [] S), Hb0. cbn [bind].
      assert (S0 : env_sim (over x0 inputs) (over x0 inputs')) by (unfold over; apply env_sim_app_r; exact S).
      inv_bind H. rewrite <- (eval_constraints_sim _ _ constraints S0), Hb1. cbn [bind].
      inv_bind H.
      destruct (compile_links_sim _ _ links S0 (over x0 inputs, map (fun c => (rname c, [])) children)
                                  (over x0 inputs', map (fun c => (rname c, [])) children) x2 (conj S0 eq_refl) Hb2) as [pm1' [H1 S1]].
      rewrite H1. cbn [bind].
      inv_bind H. rewrite <- (eval_ports_sim _ _ (filter non_output ports) S0), Hb3. cbn [bind].
      inv_bind H. destruct (put_port_sizes_sim _ _ x2 pm1' x4 S1 Hb4) as [pm2' [H2 S2]]. rewrite H2. cbn [bind].
      inv_bind H. rewrite Hb5. cbn [bind].
      inv_bind H. destruct x6 as [pm3 kids].
      destruct (compile_children_sim _ _ _ x4 pm2' [] (pm3, kids) S2 Hb6) as [pm3' [H3 S3]]. cbn [fst snd] in H3, S3.
      rewrite H3. cbn [bind].
      set (cvars := flat_map (fun t0 => map (fun nr => (dot (ct_name t0) (fst nr), snd (snd nr))) (ct_resources t0)) kids) in *.
      assert (Sn : env_sim (over (fst pm3) cvars) (over (fst pm3') cvars)) by (unfold over; apply env_sim_app_l; exact (proj1 S3)).
      inv_bind H. rewrite Hb7. cbn [bind].
      inv_bind H. rewrite <- (eval_rep_sim _ _ rep Sn), Hb8. cbn [bind].
      inv_bind H.
      match type of Hb9 with mapM _ ?l = Ok ?o =>
        assert (E9 : mapM (fun rs => do v <- ev (over (fst pm3') cvars) (r_value rs); Ok (r_name rs, (r_type rs, v))) l = Ok o)
      end.
      { rewrite <- Hb9. apply mapM_ext_in. intros a _. rewrite (ev_sim _ _ (r_value a) Sn). reflexivity. }
      rewrite E9. cbn [bind].
      inv_bind H. rewrite <- (eval_ports_sim _ _ (filter is_output ports) Sn), Hb10. cbn [bind].
      inversion H; subst. reflexivity.
    Qed.
  End Node.

  Theorem go_sim fuel : forall r inputs inputs' t,
      env_sim inputs inputs' -> go ev statusD fvD fuel r inputs = Ok t ->
      go ev statusD fvD fuel r inputs' = Ok (set_inputs t inputs').
  Proof.
    destruct fuel as [|fuel]; intros r inputs inputs' t S H; [discriminate|].
    cbn [go] in *. eapply go_node_sim; eassumption.
  Qed.

  (* two listings (any permutation) of an inputs dictionary with distinct keys *)
  Corollary go_inputs_listing_free fuel r inputs inputs' t :
    Permutation inputs inputs' -> NoDup (keys inputs) -> go ev statusD fvD fuel r inputs = Ok t ->
    go ev statusD fvD fuel r inputs' = Ok (set_inputs t inputs').
  Proof. intros P N H. eapply go_sim; [apply perm_nodup_sim; eassumption|exact H]. Qed.
End GoSim.

(* ---------- both instances read their dictionary through lookups ---------- *)
Lemma lookup_remove_key_ext {A} i (s s' : list (string * A)) :
  (forall k, lookup k s = lookup k s') -> forall k, lookup k (remove_key i s) = lookup k (remove_key i s').
Proof.
  intros H k. destruct (String.eqb k i) eqn:E.
  - apply String.eqb_eq in E. subst. rewrite !lookup_remove_same. reflexivity.
  - rewrite !lookup_remove_other by exact E. apply H.
Qed.

Lemma existsb_ext_in {A} (f g : A -> bool) l : (forall a, In a l -> f a = g a) -> existsb f l = existsb g l.
Proof.
  induction l as [|a l IH]; intro H; cbn; [reflexivity|].
  rewrite (H a (or_introl eq_refl)), IH; [reflexivity|]. intros x Hx. apply H. right. exact Hx.
Qed.

Lemma captures_ext e : forall s s', (forall k, lookup k s = lookup k s') -> captures s e = captures s' e.
Proof.
  induction e as [q|x|o args IH|k i b lo hi IHb IHlo IHhi] using expr_ind'; intros s s' H; cbn [captures].
  - reflexivity.
  - reflexivity.
  - apply existsb_ext_in. intros a Ha. rewrite Forall_forall in IH. apply IH; assumption.
  - rewrite (IHlo s s' H), (IHhi s s' H), (IHb _ _ (lookup_remove_key_ext i s s' H)).
    f_equal. apply existsb_ext_in. intros x _. rewrite (lookup_remove_key_ext i s s' H x). reflexivity.
Qed.

Lemma subst_ext e s s' : (forall k, lookup k s = lookup k s') -> subst s e = subst s' e.
Proof. intro H. apply LocalsOrderFacts.subst_ext_fv. intros x _. apply H. Qed.

Lemma ev_subst_lookup env env' e : (forall k, lookup k env = lookup k env') -> ev_subst env e = ev_subst env' e.
Proof. intro H. unfold ev_subst, subst_chk. rewrite (captures_ext e _ _ H), (subst_ext e _ _ H). reflexivity. Qed.

(* C09 for the compile model: any two listings of the inputs dictionary *)
Theorem compile_inputs_listing_free fuel r (inputs inputs' : list (string * expr)) t :
  Permutation inputs inputs' -> NoDup (keys inputs) -> go ev_subst statusE fv fuel r inputs = Ok t ->
  go ev_subst statusE fv fuel r inputs' = Ok (set_inputs expr t inputs').
Proof. apply go_inputs_listing_free. exact ev_subst_lookup. Qed.

(* ... and for the denotation (any carrier of values whose big operators are extensional) *)
Section DenInst.
  Variable V : Type.
  Variable ofQ : QArith_base.Q -> V.
  Variable I : op -> list V -> V.
  Variable B : bigop -> (V -> V) -> V -> V -> V.
  Hypothesis B_ext : forall k f g lo hi, (forall v, f v = g v) -> B k f lo hi = B k g lo hi.
  Variable rho : string -> V.

  Lemma ev_val_lookup env env' e : (forall k, lookup k env = lookup k env') -> ev_val V ofQ I B rho env e = ev_val V ofQ I B rho env' e.
  Proof.
    intro H. unfold ev_val. f_equal. apply (eval_ext V ofQ I B B_ext). intro x. unfold env_of. rewrite H. reflexivity.
  Qed.

  Theorem den_inputs_listing_free fuel r (inputs inputs' : list (string * V)) t :
    Permutation inputs inputs' -> NoDup (keys inputs) -> den V ofQ I B rho fuel r inputs = Ok t ->
    den V ofQ I B rho fuel r inputs' = Ok (set_inputs V t inputs').
  Proof. unfold den. apply go_inputs_listing_free. exact ev_val_lookup. Qed.
End DenInst.
