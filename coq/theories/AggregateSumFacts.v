(* AggregateSumFacts.v — C15, the expansion is the path sum.
   For an acyclic aggregation dictionary, `expand_dict` (the model of _expand_aggregation_dict) maps every
   decomposed resource to a mapping that (a) mentions no decomposed resource any more and (b) gives every base
   resource the TOTAL multiplier along all decomposition paths (`paths`, the specification).  Unbounded: any
   number of names, any nesting depth, any rational multipliers. *)
From Coq Require Import List String QArith ZArith Bool Qreduction Permutation Lia Setoid.
From Bq Require Import Expr ExprFacts RepModel Routine Compile TopoFacts Aggregate AggregateFacts.
Import ListNotations.
Open Scope string_scope.
Open Scope Q_scope.

(* ---------- association lists over Q ---------- *)
Lemma get0_absent k (m : mapping) : ~ In k (keys m) -> get0 k m = 0.
Proof.
  unfold get0. induction m as [|[y w] m IH]; cbn; intro H; [reflexivity|].
  destruct (String.eqb k y) eqn:E.
  - apply String.eqb_eq in E. subst. exfalso. apply H. left. reflexivity.
  - apply IH. intro Hin. apply H. right. exact Hin.
Qed.

Lemma get0_cons_same k v (m : mapping) : get0 k ((k, v) :: m) = v.
Proof. unfold get0. cbn. rewrite String.eqb_refl. reflexivity. Qed.

Lemma get0_cons_other k k' v (m : mapping) : k <> k' -> get0 k ((k', v) :: m) = get0 k m.
Proof. unfold get0. cbn. intro H. apply String.eqb_neq in H. rewrite H. reflexivity. Qed.

Lemma get0_add_to_same k v (m : mapping) : get0 k (add_to k v m) == get0 k m + v.
Proof.
  induction m as [|[y w] m IH]; cbn [add_to].
  - rewrite get0_cons_same. unfold get0. cbn. ring.
  - destruct (String.eqb k y) eqn:E.
    + apply String.eqb_eq in E. subst. rewrite !get0_cons_same. apply Qred_correct.
    + apply String.eqb_neq in E. rewrite !get0_cons_other by exact E. exact IH.
Qed.

Lemma get0_add_to_other k k' v (m : mapping) : k' <> k -> get0 k' (add_to k v m) = get0 k' m.
Proof.
  intro Hne. induction m as [|[y w] m IH]; cbn [add_to].
  - rewrite get0_cons_other by exact Hne. reflexivity.
  - destruct (String.eqb k y) eqn:E.
    + apply String.eqb_eq in E. subst. rewrite !get0_cons_other by exact Hne. reflexivity.
    + destruct (String.eqb k' y) eqn:E'.
      * apply String.eqb_eq in E'. subst. rewrite !get0_cons_same. reflexivity.
      * apply String.eqb_neq in E'. rewrite !get0_cons_other by exact E'. exact IH.
Qed.

Lemma keys_add_to k v (m : mapping) x : In x (keys (add_to k v m)) <-> x = k \/ In x (keys m).
Proof.
  induction m as [|[y w] m IH]; cbn [add_to keys map fst In].
  - split; [intros [H|[]]; left; auto|intros [H|[]]; left; auto].
  - destruct (String.eqb k y) eqn:E.
    + apply String.eqb_eq in E. subst. cbn [keys map fst In]. intuition (subst; auto).
    + cbn [keys map fst In]. fold (keys (add_to k v m)). fold (keys m). rewrite IH. intuition (subst; auto).
Qed.

Lemma NoDup_add_to k v (m : mapping) : NoDup (keys m) -> NoDup (keys (add_to k v m)).
Proof.
  induction m as [|[y w] m IH]; cbn [add_to]; intro H.
  - cbn. constructor; [intros []|constructor].
  - destruct (String.eqb k y) eqn:E.
    + exact H.
    + inversion H as [|? ? Hn Hnd]; subst. cbn. constructor.
      * fold (keys (add_to k v m)). rewrite keys_add_to. intros [Hx|Hx]; [|exact (Hn Hx)].
        subst. rewrite String.eqb_refl in E. discriminate.
      * apply IH. exact Hnd.
Qed.

Lemma keys_remove_key_in k (m : mapping) x : In x (keys (remove_key k m)) <-> x <> k /\ In x (keys m).
Proof.
  induction m as [|[y w] m IH]; cbn [remove_key keys map fst In]; [tauto|].
  destruct (String.eqb k y) eqn:E.
  - apply String.eqb_eq in E. subst. fold (keys (remove_key y m)). fold (keys m). rewrite IH.
    split; [intros [H1 H2]; auto|]. intros [H1 [H2|H2]]; [congruence|auto].
  - apply String.eqb_neq in E. cbn [keys map fst In]. fold (keys (remove_key k m)). fold (keys m). rewrite IH.
    split.
    + intros [H|[H1 H2]]; [subst; split; [congruence|left; reflexivity]|split; [exact H1|right; exact H2]].
    + intros [H1 [H2|H2]]; [left; exact H2|right; split; assumption].
Qed.

Lemma NoDup_remove_key k (m : mapping) : NoDup (keys m) -> NoDup (keys (remove_key k m)).
Proof.
  induction m as [|[y w] m IH]; cbn [remove_key]; intro H; [exact H|].
  inversion H as [|? ? Hn Hnd]; subst.
  destruct (String.eqb k y); [apply IH; exact Hnd|].
  cbn. constructor; [|apply IH; exact Hnd].
  fold (keys (remove_key k m)). rewrite keys_remove_key_in. intros [_ Hx]. exact (Hn Hx).
Qed.

Lemma get0_remove_key_other k k' (m : mapping) : k' <> k -> get0 k' (remove_key k m) = get0 k' m.
Proof.
  intro Hne. induction m as [|[y w] m IH]; cbn [remove_key]; [reflexivity|].
  destruct (String.eqb k y) eqn:E.
  - apply String.eqb_eq in E. subst. rewrite get0_cons_other by exact Hne. exact IH.
  - destruct (String.eqb k' y) eqn:E'.
    + apply String.eqb_eq in E'. subst. rewrite !get0_cons_same. reflexivity.
    + apply String.eqb_neq in E'. rewrite !get0_cons_other by exact E'. exact IH.
Qed.

(* ---------- sums over key lists ---------- *)
Definition ksum (f : string -> Q) (l : list string) : Q := fold_right (fun c acc => f c + acc) 0 l.

Lemma ksum_ext f g l : (forall c, In c l -> f c == g c) -> ksum f l == ksum g l.
Proof.
  induction l as [|c l IH]; cbn; intro H; [reflexivity|].
  rewrite (H c (or_introl eq_refl)), IH; [reflexivity|]. intros c' Hc'. apply H. right. exact Hc'.
Qed.

(* ---------- the loops of _expand_resource ---------- *)
Section Expand.
  Variable d : adict.
  Notation isk := (is_key d).

  Definition inner (c : string) (subs : mapping) (m : mapping) : mapping :=
    fold_left (fun m2 sm => add_to (fst sm) (Qred (get0 c m2 * snd sm)) m2) subs m.

  Lemma inner_get0 c subs : NoDup (keys subs) -> ~ In c (keys subs) -> forall m b,
      get0 b (inner c subs m) == get0 b m + get0 c m * get0 b subs.
  Proof.
    unfold inner. induction subs as [|[k v] subs IH]; intros Hnd Hc m b; cbn [fold_left fst snd].
    - unfold get0 at 4. cbn. ring.
    - inversion Hnd as [|? ? Hk Hnd']; subst.
      assert (Hck : c <> k) by (intro; subst; apply Hc; left; reflexivity).
      assert (Hc' : ~ In c (keys subs)) by (intro Hin; apply Hc; right; exact Hin).
      rewrite (IH Hnd' Hc').
      rewrite (get0_add_to_other k c _ m Hck).
      destruct (String.eqb b k) eqn:E.
      + apply String.eqb_eq in E. subst b. rewrite get0_add_to_same, get0_cons_same.
        rewrite (get0_absent k subs Hk). rewrite (Qred_correct (get0 c m * v)). ring.
      + apply String.eqb_neq in E. rewrite (get0_add_to_other k b _ m E), (get0_cons_other b k v subs E). reflexivity.
  Qed.

  Lemma inner_keys c subs : forall m x, In x (keys (inner c subs m)) -> In x (keys m) \/ In x (keys subs).
  Proof.
    unfold inner. induction subs as [|[k v] subs IH]; intros m x H; cbn [fold_left fst snd] in H; [left; exact H|].
    apply IH in H. destruct H as [H|H]; [|right; right; exact H].
    apply keys_add_to in H. destruct H as [->|H]; [right; left; reflexivity|left; exact H].
  Qed.

  Lemma inner_nodup c subs : forall m, NoDup (keys m) -> NoDup (keys (inner c subs m)).
  Proof.
    unfold inner. induction subs as [|[k v] subs IH]; intros m H; cbn [fold_left fst snd]; [exact H|].
    apply IH. apply NoDup_add_to. exact H.
  Qed.

  Variable expanded : adict.
  Definition Eof (c : string) : mapping := match lookup c expanded with Some e => e | None => [] end.
  Hypothesis E_nonkey : forall c, isk c = false -> Eof c = [].
  Hypothesis E_clean : forall c x, In x (keys (Eof c)) -> isk x = false.
  Hypothesis E_nodup : forall c, NoDup (keys (Eof c)).

  Definition step (m : mapping) (c : string) : mapping :=
    let m' := inner c (Eof c) m in if isk c then remove_key c m' else m'.

  Lemma outer_loop (w : string -> Q) : forall ks m,
      NoDup ks -> NoDup (keys m) ->
      (forall c, In c ks -> isk c = true -> get0 c m == w c) ->
      (forall x, In x (keys m) -> isk x = true -> In x ks) ->
      let mf := fold_left step ks m in
      NoDup (keys mf)
      /\ (forall x, In x (keys mf) -> isk x = false)
      /\ (forall b, isk b = false ->
                    get0 b mf == get0 b m + ksum (fun c => if isk c then w c * get0 b (Eof c) else 0) ks).
  Proof.
    induction ks as [|c ks IH]; intros m Hks Hm A1 A2; cbn [fold_left].
    - split; [exact Hm|]. split.
      + intros x Hx. destruct (isk x) eqn:E; [|reflexivity]. destruct (A2 x Hx E).
      + intros b _. cbn. ring.
    - inversion Hks as [|? ? Hc Hks']; subst.
      assert (Hclean : ~ (exists x, In x (keys (Eof c)) /\ isk x = true)).
      { intros [x [Hx Hk]]. rewrite (E_clean c x Hx) in Hk. discriminate. }
      destruct (isk c) eqn:Ec.
      + (* c is decomposed: its expansion is added, then c is removed *)
        assert (Hcs : ~ In c (keys (Eof c))) by (intro Hin; apply Hclean; exists c; auto).
        assert (Hstep : step m c = remove_key c (inner c (Eof c) m)) by (unfold step; rewrite Ec; reflexivity).
        specialize (IH (step m c) Hks').
        assert (Hnd1 : NoDup (keys (step m c))).
        { rewrite Hstep. apply NoDup_remove_key. apply inner_nodup. exact Hm. }
        assert (B1 : forall c', In c' ks -> isk c' = true -> get0 c' (step m c) == w c').
        { intros c' Hc' Hk'. assert (Hne : c' <> c) by (intro; subst; exact (Hc Hc')).
          rewrite Hstep, (get0_remove_key_other c c' _ Hne), (inner_get0 c (Eof c) (E_nodup c) Hcs).
          rewrite (get0_absent c' (Eof c)).
          - rewrite (A1 c' (or_intror Hc') Hk'). ring.
          - intro Hin. rewrite (E_clean c c' Hin) in Hk'. discriminate. }
        assert (B2 : forall x, In x (keys (step m c)) -> isk x = true -> In x ks).
        { intros x Hx Hk. rewrite Hstep in Hx. apply keys_remove_key_in in Hx. destruct Hx as [Hne Hx].
          apply inner_keys in Hx. destruct Hx as [Hx|Hx].
          - destruct (A2 x Hx Hk) as [Heq|Hin]; [congruence|exact Hin].
          - rewrite (E_clean c x Hx) in Hk. discriminate. }
        destruct (IH Hnd1 B1 B2) as [R1 [R2 R3]].
        split; [exact R1|]. split; [exact R2|].
        intros b Hb. rewrite (R3 b Hb). cbn [ksum fold_right]. rewrite Ec.
        assert (Hne : b <> c) by (intro; subst; congruence).
        rewrite Hstep, (get0_remove_key_other c b _ Hne), (inner_get0 c (Eof c) (E_nodup c) Hcs).
        rewrite (A1 c (or_introl eq_refl) Ec). unfold ksum. ring.
      + (* c is a base resource: nothing happens *)
        assert (Hstep : step m c = m).
        { unfold step. rewrite Ec, (E_nonkey c Ec). reflexivity. }
        rewrite Hstep.
        assert (B1 : forall c', In c' ks -> isk c' = true -> get0 c' m == w c').
        { intros c' Hc' Hk'. apply A1; [right; exact Hc'|exact Hk']. }
        assert (B2 : forall x, In x (keys m) -> isk x = true -> In x ks).
        { intros x Hx Hk. destruct (A2 x Hx Hk) as [Heq|Hin]; [subst; congruence|exact Hin]. }
        destruct (IH m Hks' Hm B1 B2) as [R1 [R2 R3]].
        split; [exact R1|]. split; [exact R2|].
        intros b Hb. rewrite (R3 b Hb). cbn [ksum fold_right]. rewrite Ec. unfold ksum. ring.
  Qed.

  Lemma expand_resource_is_fold a :
    expand_resource d expanded a
    = fold_left step (keys (match lookup a d with Some m => m | None => [] end))
                (match lookup a d with Some m => m | None => [] end).
  Proof. reflexivity. Qed.
End Expand.

(* ---------- the specification unfolded once ---------- *)
Lemma paths_unfold d a m0 b f :
  lookup a d = Some m0 -> NoDup (keys m0) -> is_key d b = false ->
  paths (S f) d a b == get0 b m0 + ksum (fun c => if is_key d c then get0 c m0 * paths f d c b else 0) (keys m0).
Proof.
  intros Ha Hnd Hb. cbn [paths]. unfold adict, mapping in *. rewrite Ha. clear Ha.
  induction m0 as [|[c w] m IH]; cbn [fold_right keys map fst ksum].
  - unfold get0. cbn. reflexivity.
  - inversion Hnd as [|? ? Hc Hnd']; subst. rewrite Qred_correct. fold (keys m). cbn [fst snd].
    rewrite (IH Hnd'). rewrite get0_cons_same.
    assert (Hext : ksum (fun c0 => if is_key d c0 then get0 c0 ((c, w) :: m) * paths f d c0 b else 0) (keys m)
                   == ksum (fun c0 => if is_key d c0 then get0 c0 m * paths f d c0 b else 0) (keys m)).
    { apply ksum_ext. intros c0 Hc0. assert (c0 <> c) by (intro; subst; exact (Hc Hc0)).
      rewrite (get0_cons_other c0 c w m H). reflexivity. }
    unfold ksum in Hext |- *. rewrite Hext. clear Hext.
    destruct (is_key d c) eqn:Ec.
    + assert (Hne : b <> c) by (intro; subst; congruence).
      rewrite (get0_cons_other b c w m Hne). ring.
    + destruct (String.eqb c b) eqn:Ecb.
      * apply String.eqb_eq in Ecb. subst. rewrite get0_cons_same, (get0_absent b m Hc). ring.
      * apply String.eqb_neq in Ecb. assert (Hne : b <> c) by congruence.
        rewrite (get0_cons_other b c w m Hne). ring.
Qed.

Lemma NoDup_app_snoc {A} (l : list A) a : NoDup l -> ~ In a l -> NoDup (l ++ [a]).
Proof.
  induction l as [|x l IH]; cbn; intros Hnd Hna.
  - constructor; [intros []|constructor].
  - inversion Hnd as [|? ? Hx Hnd']; subst. constructor.
    + intro Hin. apply in_app_or in Hin. destruct Hin as [Hin|[Hin|[]]]; [exact (Hx Hin)|]. subst. apply Hna. left. reflexivity.
    + apply IH; [exact Hnd'|]. intro Hin. apply Hna. right. exact Hin.
Qed.

(* ---------- the fold over the topological order ---------- *)
Section Dict.
  Variable d : adict.
  Notation isk := (is_key d).
  Hypothesis d_nodup : NoDup (keys d).
  Hypothesis d_entries : forall a m, lookup a d = Some m -> NoDup (keys m).

  (* a finished entry: clean, duplicate-free, and equal to the path sum for every fuel from n on *)
  Definition good (n : nat) (a : string) (m : mapping) : Prop :=
    NoDup (keys m)
    /\ (forall x, In x (keys m) -> isk x = false)
    /\ (forall f b, (n <= f)%nat -> isk b = false -> get0 b m == paths f d a b).

  Definition Inv (e : adict) : Prop :=
    NoDup (keys e)
    /\ (forall a, In a (keys e) -> isk a = true)
    /\ (forall a m, lookup a e = Some m -> good (List.length e) a m).

  Lemma good_mono n n' a m : (n <= n')%nat -> good n a m -> good n' a m.
  Proof. intros Hle [H1 [H2 H3]]. repeat split; auto. intros f b Hf. apply H3. lia. Qed.

  Lemma lookup_snoc {A} x (e : list (string * A)) a v :
    lookup x (e ++ [(a, v)]) = match lookup x e with Some r => Some r | None => if String.eqb x a then Some v else None end.
  Proof. rewrite lookup_app. destruct (lookup x e); [reflexivity|]. cbn. reflexivity. Qed.

  Lemma lookup_keys_some {A} x (e : list (string * A)) : In x (keys e) -> exists v, lookup x e = Some v.
  Proof.
    induction e as [|[y w] e IH]; cbn; [tauto|]. intros [H|H].
    - subst. rewrite String.eqb_refl. eauto.
    - destruct (String.eqb x y); eauto.
  Qed.

  Lemma lookup_notin_none {A} x (e : list (string * A)) : ~ In x (keys e) -> lookup x e = None.
  Proof.
    induction e as [|[y w] e IH]; cbn; [reflexivity|]. intro H.
    destruct (String.eqb x y) eqn:E; [apply String.eqb_eq in E; subst; exfalso; apply H; left; reflexivity|].
    apply IH. intro Hin. apply H. right. exact Hin.
  Qed.

  Lemma is_key_true a : isk a = true <-> In a (keys d).
  Proof. unfold is_key. apply mem_In. Qed.

  Lemma expand_step e a :
    Inv e -> ~ In a (keys e) -> isk a = true ->
    (forall p, In p (agg_preds d a) -> In p (keys e)) ->
    Inv (e ++ [(a, expand_resource d e a)])%list.
  Proof.
    intros [Hnd [Hkeys Hgood]] Hna Hka Hpreds.
    destruct (lookup_keys_some a d (proj1 (is_key_true a) Hka)) as [m0 Hm0].
    pose proof (d_entries a m0 Hm0) as Hm0nd.
    (* the hypotheses of the loop lemma *)
    assert (E_nonkey : forall c, isk c = false -> Eof e c = []).
    { intros c Hc. unfold Eof. destruct (lookup c e) as [x|] eqn:El; [|reflexivity].
      apply lookup_Some_in in El. assert (In c (keys e)) by (apply in_map_iff; exists (c, x); auto).
      rewrite (Hkeys c H) in Hc. discriminate. }
    assert (E_clean : forall c x, In x (keys (Eof e c)) -> isk x = false).
    { intros c x Hx. unfold Eof in Hx. destruct (lookup c e) as [mc|] eqn:El; [|destruct Hx].
      destruct (Hgood c mc El) as [_ [H2 _]]. apply H2. exact Hx. }
    assert (E_nodup : forall c, NoDup (keys (Eof e c))).
    { intros c. unfold Eof. destruct (lookup c e) as [mc|] eqn:El; [|constructor].
      destruct (Hgood c mc El) as [H1 _]. exact H1. }
    pose proof (outer_loop d e E_nonkey E_clean E_nodup (fun c => get0 c m0) (keys m0) m0 Hm0nd Hm0nd
                           (fun c _ _ => Qeq_refl _) (fun x Hx _ => Hx)) as Hloop.
    cbn zeta in Hloop. destruct Hloop as [R1 [R2 R3]].
    assert (Hexp : expand_resource d e a = fold_left (step d e) (keys m0) m0).
    { rewrite expand_resource_is_fold, Hm0. reflexivity. }
    assert (Hnew : good (S (List.length e)) a (expand_resource d e a)).
    { rewrite Hexp. split; [exact R1|]. split; [exact R2|].
      intros f b Hf Hb. destruct f as [|f]; [lia|].
      rewrite (R3 b Hb), (paths_unfold d a m0 b f Hm0 Hm0nd Hb).
      apply Qplus_comp; [reflexivity|]. apply ksum_ext. intros c Hc.
      destruct (isk c) eqn:Ec; [|reflexivity].
      (* c is a decomposed resource listed under a: it was expanded before *)
      assert (Hcp : In c (agg_preds d a)).
      { unfold agg_preds. rewrite Hm0. apply filter_In. split; [exact Hc|exact Ec]. }
      destruct (lookup_keys_some c e (Hpreds c Hcp)) as [mc Hmc].
      destruct (Hgood c mc Hmc) as [_ [_ H3]].
      unfold Eof. rewrite Hmc. rewrite (H3 f b); [reflexivity|lia|exact Hb]. }
    split; [|split].
    - unfold keys. rewrite map_app. cbn. apply NoDup_app_snoc; assumption.
    - intros x Hx. unfold keys in Hx. rewrite map_app in Hx. apply in_app_or in Hx.
      destruct Hx as [Hx|[Hx|[]]]; [apply Hkeys; exact Hx|cbn in Hx; subst; exact Hka].
    - intros x m Hl. rewrite app_length. cbn [List.length]. replace (List.length e + 1)%nat with (S (List.length e)) by lia.
      rewrite lookup_snoc in Hl. destruct (lookup x e) as [r|] eqn:El.
      + inversion Hl; subst. eapply good_mono; [|apply Hgood; exact El]. lia.
      + destruct (String.eqb x a) eqn:Exa; [|discriminate]. apply String.eqb_eq in Exa. inversion Hl; subst. exact Hnew.
  Qed.

  Lemma expand_fold : forall rest done e,
      Inv e -> keys e = done -> NoDup (done ++ rest) ->
      (forall x, In x rest -> isk x = true) ->
      (forall l1 x l2, (done ++ rest)%list = (l1 ++ x :: l2)%list -> forall p, In p (agg_preds d x) -> In p l1) ->
      Inv (fold_left (fun e a => (e ++ [(a, expand_resource d e a)])%list) rest e).
  Proof.
    induction rest as [|a rest IH]; intros done e Hinv Hk Hnd Hkeys Htopo; cbn [fold_left]; [exact Hinv|].
    apply (IH (done ++ [a])%list).
    - apply expand_step.
      + exact Hinv.
      + rewrite Hk. apply NoDup_remove_2 in Hnd. intro Hin. apply Hnd. apply in_or_app. left. exact Hin.
      + apply Hkeys. left. reflexivity.
      + intros p Hp. rewrite Hk. exact (Htopo done a rest eq_refl p Hp).
    - unfold keys. rewrite map_app. cbn. fold (keys e). rewrite Hk. reflexivity.
    - rewrite <- app_assoc. exact Hnd.
    - intros x Hx. apply Hkeys. right. exact Hx.
    - intros l1 x l2 Heq. apply (Htopo l1 x l2). rewrite <- app_assoc in Heq. exact Heq.
  Qed.

  Lemma keys_expand_fold : forall rest e1,
      keys (fold_left (fun e a => (e ++ [(a, expand_resource d e a)])%list) rest e1) = (keys e1 ++ rest)%list.
  Proof.
    induction rest as [|a rest IH]; intro e1; cbn [fold_left]; [rewrite app_nil_r; reflexivity|].
    rewrite IH. unfold keys. rewrite map_app. cbn. rewrite <- app_assoc. reflexivity.
  Qed.

  (* C15: every entry of the expanded dictionary is the path sum, and mentions base resources only *)
  Theorem expand_dict_is_path_sum e :
    expand_dict d = Some e ->
    Permutation (keys e) (keys d)
    /\ forall a m, lookup a e = Some m ->
         NoDup (keys m)
         /\ (forall x, In x (keys m) -> isk x = false)
         /\ (forall b, isk b = false -> get0 b m == paths (List.length d) d a b).
  Proof.
    unfold expand_dict. destruct (agg_order d) as [order|] eqn:Ho; [|discriminate].
    intro H. inversion H; subst. clear H.
    destruct (expansion_order d order d_nodup Ho) as [Hperm Htopo].
    assert (Hndo : NoDup order) by (eapply Permutation_NoDup; [apply Permutation_sym; exact Hperm|exact d_nodup]).
    assert (Hinv0 : Inv []).
    { split; [constructor|]. split; [intros a []|]. intros a m Hl. discriminate. }
    pose proof (expand_fold order [] [] Hinv0 eq_refl Hndo
                            (fun x Hx => proj2 (is_key_true x) (Permutation_in x Hperm Hx)) Htopo) as [Hnd [Hkeys Hgood]].
    pose proof (keys_expand_fold order []) as Hke. cbn [keys map app] in Hke.
    split; [rewrite Hke; exact Hperm|].
    intros a m Hl. destruct (Hgood a m Hl) as [G1 [G2 G3]]. split; [exact G1|]. split; [exact G2|].
    intros b Hb. apply G3; [|exact Hb].
    assert (Hlen : List.length (fold_left (fun e a => (e ++ [(a, expand_resource d e a)])%list) order []) = List.length d).
    { rewrite <- (map_length fst), <- (map_length fst d). fold (keys d).
      change (map fst (fold_left (fun e a => (e ++ [(a, expand_resource d e a)])%list) order []))
        with (keys (fold_left (fun e a => (e ++ [(a, expand_resource d e a)])%list) order [])).
      rewrite Hke. apply Permutation_length. exact Hperm. }
    rewrite Hlen. apply Nat.le_refl.
  Qed.
End Dict.

(* ================================================================== *)
(* applying the expanded dictionary to one routine's resources        *)
Definition rv (b : string) (l : rlist) : Q := match lookup b l with Some tv => snd tv | None => 0 end.

Lemma rv_cons_same b tv (l : rlist) : rv b ((b, tv) :: l) = snd tv.
Proof. unfold rv. cbn. rewrite String.eqb_refl. reflexivity. Qed.
Lemma rv_cons_other b k tv (l : rlist) : b <> k -> rv b ((k, tv) :: l) = rv b l.
Proof. unfold rv. cbn. intro H. apply String.eqb_neq in H. rewrite H. reflexivity. Qed.

Lemma lookup_update_res_same k f (l : rlist) tv :
  lookup k l = Some tv -> lookup k (update_res k f l) = Some (f tv).
Proof.
  induction l as [|[y w] l IH]; cbn; [discriminate|].
  destruct (String.eqb k y) eqn:E; cbn; rewrite E; [intro H; inversion H; reflexivity|exact IH].
Qed.

Lemma lookup_update_res_other k b f (l : rlist) : b <> k -> lookup b (update_res k f l) = lookup b l.
Proof.
  intro Hne. induction l as [|[y w] l IH]; cbn; [reflexivity|].
  destruct (String.eqb k y) eqn:E; cbn.
  - apply String.eqb_eq in E. subst. apply String.eqb_neq in Hne. rewrite Hne. reflexivity.
  - destruct (String.eqb b y); [reflexivity|exact IH].
Qed.

Lemma lookup_update_res_none k f (l : rlist) : lookup k l = None -> update_res k f l = l.
Proof.
  induction l as [|[y w] l IH]; cbn; [reflexivity|].
  destruct (String.eqb k y); [discriminate|]. intro H. rewrite (IH H). reflexivity.
Qed.

Lemma lookup_snoc_r {A} b (l : list (string * A)) k v :
  lookup b (l ++ [(k, v)]) = match lookup b l with Some r => Some r | None => if String.eqb b k then Some v else None end.
Proof. rewrite lookup_app. destruct (lookup b l); reflexivity. Qed.

Lemma lookup_remove_key_other {A} k b (l : list (string * A)) : b <> k -> lookup b (remove_key k l) = lookup b l.
Proof.
  intro Hne. induction l as [|[y w] l IH]; cbn; [reflexivity|].
  destruct (String.eqb k y) eqn:E.
  - apply String.eqb_eq in E. subst. apply String.eqb_neq in Hne. rewrite Hne. exact IH.
  - cbn. destruct (String.eqb b y); [reflexivity|exact IH].
Qed.

Lemma lookup_remove_key_same {A} k (l : list (string * A)) : lookup k (remove_key k l) = None.
Proof.
  induction l as [|[y w] l IH]; cbn; [reflexivity|].
  destruct (String.eqb k y) eqn:E; [exact IH|]. cbn. rewrite E. exact IH.
Qed.

Lemma fold_left_ext_all {A B} (f g : A -> B -> A) : (forall a b, f a b = g a b) ->
  forall l a, fold_left f l a = fold_left g l a.
Proof. intro H. induction l as [|b l IH]; intro a; cbn; [reflexivity|]. rewrite H. apply IH. Qed.

Section Node.
  Variable e : adict.                     (* the expanded dictionary *)
  Hypothesis e_clean : forall a m x, lookup a e = Some m -> In x (keys m) -> lookup x e = None.
  Hypothesis e_nodup : forall a m, lookup a e = Some m -> NoDup (keys m).
  Variable rm : bool.

  (* one sub-resource of one decomposed resource *)
  Definition add_sub (ty : rtype) (val : Q) (acc2 : rlist) (sm : string * Q) : rlist :=
    match lookup (fst sm) acc2 with
    | Some _ => update_res (fst sm) (fun tv => (fst tv, Qred (snd tv + snd sm * val))) acc2
    | None => (acc2 ++ [(fst sm, (ty, Qred (snd sm * val)))])%list
    end.

  Lemma add_sub_lookup_other ty val acc sm b : b <> fst sm -> lookup b (add_sub ty val acc sm) = lookup b acc.
  Proof.
    intro Hne. unfold add_sub. destruct (lookup (fst sm) acc) eqn:El.
    - apply lookup_update_res_other. exact Hne.
    - rewrite lookup_snoc_r. destruct (lookup b acc); [reflexivity|].
      apply String.eqb_neq in Hne. rewrite Hne. reflexivity.
  Qed.

  Lemma add_sub_rv_same ty val acc sm : rv (fst sm) (add_sub ty val acc sm) == rv (fst sm) acc + snd sm * val.
  Proof.
    unfold add_sub, rv. destruct (lookup (fst sm) acc) as [tv|] eqn:El.
    - rewrite (lookup_update_res_same _ _ _ _ El). cbn [snd fst]. apply Qred_correct.
    - rewrite lookup_snoc_r, El, String.eqb_refl. cbn [snd fst]. rewrite Qred_correct. ring.
  Qed.

  Lemma add_subs_lookup_other ty val mp : forall acc b,
      ~ In b (keys mp) -> lookup b (fold_left (add_sub ty val) mp acc) = lookup b acc.
  Proof.
    induction mp as [|sm mp IH]; intros acc b Hb; cbn [fold_left]; [reflexivity|].
    rewrite IH by (intro H; apply Hb; right; exact H).
    apply add_sub_lookup_other. intro H. apply Hb. left. symmetry. exact H.
  Qed.

  Lemma add_subs_rv ty val mp : NoDup (keys mp) -> forall acc b,
      rv b (fold_left (add_sub ty val) mp acc) == rv b acc + get0 b mp * val.
  Proof.
    induction mp as [|[k mult] mp IH]; intros Hnd acc b; cbn [fold_left].
    - unfold get0. cbn. ring.
    - inversion Hnd as [|? ? Hk Hnd']; subst. rewrite (IH Hnd').
      destruct (String.eqb b k) eqn:E.
      + apply String.eqb_eq in E. subst b.
        rewrite (add_sub_rv_same ty val acc (k, mult)). cbn [fst snd].
        rewrite get0_cons_same, (get0_absent k mp Hk). ring.
      + apply String.eqb_neq in E. unfold rv at 1.
        rewrite (add_sub_lookup_other ty val acc (k, mult) b E). fold (rv b acc).
        rewrite (get0_cons_other b k mult mp E). reflexivity.
  Qed.

  (* the body of the loop over the routine's resources *)
  Definition node_step (acc : rlist) (nr : string * (rtype * Q)) : rlist :=
    let '(name, (ty, val)) := nr in
    match lookup name e with
    | None => acc
    | Some mp =>
        let acc1 := fold_left (add_sub ty val) mp acc in
        if rm then remove_key name acc1 else update_res name (fun tv => (ROther, snd tv)) acc1
    end.

  Lemma aggregate_node_is_fold resources : aggregate_node resources e rm = fold_left node_step resources resources.
  Proof.
    unfold aggregate_node. apply fold_left_ext_all. intros acc [name [ty val]]. unfold node_step, add_sub.
    destruct (lookup name e); reflexivity.
  Qed.

  Definition contribution (b : string) (nr : string * (rtype * Q)) : Q :=
    match lookup (fst nr) e with Some mp => snd (snd nr) * get0 b mp | None => 0 end.

  Lemma node_step_rv b acc nr : lookup b e = None -> rv b (node_step acc nr) == rv b acc + contribution b nr.
  Proof.
    intro Hb. destruct nr as [name [ty val]]. unfold node_step, contribution. cbn [fst snd].
    destruct (lookup name e) as [mp|] eqn:El; [|ring].
    assert (Hne : b <> name) by (intro; subst; congruence).
    destruct rm.
    - unfold rv at 1. rewrite (lookup_remove_key_other name b _ Hne). fold (rv b (fold_left (add_sub ty val) mp acc)).
      rewrite (add_subs_rv ty val mp (e_nodup _ _ El)). ring.
    - unfold rv at 1. rewrite (lookup_update_res_other name b _ _ Hne). fold (rv b (fold_left (add_sub ty val) mp acc)).
      rewrite (add_subs_rv ty val mp (e_nodup _ _ El)). ring.
  Qed.

  Lemma node_fold_rv b : lookup b e = None -> forall rs acc,
      rv b (fold_left node_step rs acc) == rv b acc + fold_right (fun nr s => contribution b nr + s) 0 rs.
  Proof.
    intro Hb. induction rs as [|nr rs IH]; intro acc; cbn [fold_left fold_right]; [ring|].
    rewrite IH, (node_step_rv b acc nr Hb). ring.
  Qed.

  (* C15, values: a base resource ends up with its previous value plus, for every decomposed resource present in
     the routine, that resource's previous value times its expanded multiplier *)
  Theorem aggregate_node_value resources b :
    lookup b e = None ->
    rv b (aggregate_node resources e rm)
    == rv b resources + fold_right (fun nr s => contribution b nr + s) 0 resources.
  Proof. intro Hb. rewrite aggregate_node_is_fold. apply node_fold_rv. exact Hb. Qed.

  (* a step for another resource leaves the entry of a decomposed resource alone *)
  Lemma node_step_lookup_other a acc nr :
    (exists m, lookup a e = Some m) -> fst nr <> a -> lookup a (node_step acc nr) = lookup a acc.
  Proof.
    intros [ma Ha] Hne. destruct nr as [name [ty val]]. cbn [fst] in Hne. unfold node_step.
    destruct (lookup name e) as [mp|] eqn:El; [|reflexivity].
    assert (Hnot : ~ In a (keys mp)).
    { intro Hin. rewrite (e_clean _ _ _ El Hin) in Ha. discriminate. }
    destruct rm.
    - rewrite (lookup_remove_key_other name a) by congruence. apply add_subs_lookup_other. exact Hnot.
    - rewrite (lookup_update_res_other name a) by congruence. apply add_subs_lookup_other. exact Hnot.
  Qed.

  Lemma node_fold_lookup_other a : (exists m, lookup a e = Some m) -> forall rs acc,
      ~ In a (keys rs) -> lookup a (fold_left node_step rs acc) = lookup a acc.
  Proof.
    intro Ha. induction rs as [|nr rs IH]; intros acc Hn; cbn [fold_left]; [reflexivity|].
    rewrite IH by (intro H; apply Hn; right; exact H).
    apply node_step_lookup_other; [exact Ha|]. intro H. apply Hn. left. exact H.
  Qed.

  (* C15, decomposed resources: removed, or kept with their value and type `other` *)
  Theorem aggregate_node_decomposed resources a ma ty val :
    NoDup (keys resources) -> lookup a e = Some ma -> lookup a resources = Some (ty, val) ->
    lookup a (aggregate_node resources e rm) = if rm then None else Some (ROther, val).
  Proof.
    intros Hnd Ha Hr. rewrite aggregate_node_is_fold.
    assert (Hex : exists m, lookup a e = Some m) by eauto.
    assert (Hnot : ~ In a (keys ma)).
    { intro Hin. rewrite (e_clean _ _ _ Ha Hin) in Ha. discriminate. }
    (* split the resource list at a *)
    assert (G : forall rs acc, NoDup (keys rs) -> lookup a rs = Some (ty, val) -> lookup a acc = Some (ty, val) ->
                               lookup a (fold_left node_step rs acc) = if rm then None else Some (ROther, val)).
    { induction rs as [|[n [t v]] rs IH]; intros acc Hnd' Hl Hacc; cbn in Hl; [discriminate|].
      inversion Hnd' as [|? ? Hn Hnd'']; subst. cbn [fold_left].
      destruct (String.eqb a n) eqn:E.
      - apply String.eqb_eq in E. subst n. inversion Hl; subst t v.
        rewrite (node_fold_lookup_other a Hex rs _ Hn).
        unfold node_step. rewrite Ha. destruct rm.
        + apply lookup_remove_key_same.
        + rewrite (lookup_update_res_same a _ _ (ty, val)); [reflexivity|].
          rewrite (add_subs_lookup_other ty val ma acc a Hnot). exact Hacc.
      - apply String.eqb_neq in E. apply IH; [exact Hnd''|exact Hl|].
        rewrite (node_step_lookup_other a acc (n, (t, v)) Hex); [exact Hacc|]. cbn. congruence. }
    apply G; assumption.
  Qed.

  (* C15, types: a resource that is not decomposed keeps its type (when it was there before) *)
  Lemma add_sub_type ty val acc sm b tv :
    lookup b acc = Some tv -> exists q, lookup b (add_sub ty val acc sm) = Some (fst tv, q).
  Proof.
    intro Hl. destruct (String.eqb b (fst sm)) eqn:E.
    - apply String.eqb_eq in E. subst b. unfold add_sub. rewrite Hl.
      rewrite (lookup_update_res_same _ _ _ _ Hl). cbn. eauto.
    - apply String.eqb_neq in E. rewrite (add_sub_lookup_other ty val acc sm b E), Hl. destruct tv. cbn. eauto.
  Qed.

  Lemma add_subs_type ty val mp : forall acc b tv,
      lookup b acc = Some tv -> exists q, lookup b (fold_left (add_sub ty val) mp acc) = Some (fst tv, q).
  Proof.
    induction mp as [|sm mp IH]; intros acc b tv Hl; cbn [fold_left]; [destruct tv; cbn; eauto|].
    destruct (add_sub_type ty val acc sm b tv Hl) as [q Hq].
    destruct (IH _ b (fst tv, q) Hq) as [q' Hq']. cbn in Hq'. eauto.
  Qed.

  Theorem aggregate_node_keeps_type resources b tyb vb :
    lookup b e = None -> lookup b resources = Some (tyb, vb) ->
    exists q, lookup b (aggregate_node resources e rm) = Some (tyb, q).
  Proof.
    intros Hb Hr. rewrite aggregate_node_is_fold.
    assert (G : forall rs acc q0, lookup b acc = Some (tyb, q0) -> exists q, lookup b (fold_left node_step rs acc) = Some (tyb, q)).
    { induction rs as [|[n [t v]] rs IH]; intros acc q0 Hacc; cbn [fold_left]; [eauto|].
      assert (Hs : exists q1, lookup b (node_step acc (n, (t, v))) = Some (tyb, q1)).
      { unfold node_step. destruct (lookup n e) as [mp|] eqn:El; [|eauto].
        assert (Hne : b <> n) by (intro; subst; congruence).
        destruct (add_subs_type t v mp acc b (tyb, q0) Hacc) as [q1 Hq1]. cbn in Hq1.
        destruct rm.
        - rewrite (lookup_remove_key_other n b _ Hne). eauto.
        - rewrite (lookup_update_res_other n b _ _ Hne). eauto. }
      destruct Hs as [q1 Hq1]. eapply IH. exact Hq1. }
    eapply G. exact Hr.
  Qed.
End Node.

(* ================================================================== *)
(* C15 end to end, for one routine: expansion composed with application *)
Theorem aggregate_is_linear_path_sum (d e : adict) (resources : rlist) (rm : bool) (b : string) :
  NoDup (keys d) -> (forall a m, lookup a d = Some m -> NoDup (keys m)) ->
  expand_dict d = Some e -> is_key d b = false ->
  rv b (aggregate_node resources e rm)
  == rv b resources
     + fold_right (fun nr s => (if is_key d (fst nr) then snd (snd nr) * paths (List.length d) d (fst nr) b else 0) + s)
                  0 resources.
Proof.
  intros Hnd Hent He Hb.
  destruct (expand_dict_is_path_sum d Hnd Hent e He) as [Hperm Hgood].
  assert (Hnone : forall x, is_key d x = false -> lookup x e = None).
  { intros x Hx. apply lookup_notin_none. intro Hin. apply (Permutation_in x Hperm) in Hin.
    apply (is_key_true d) in Hin. congruence. }
  assert (Hclean : forall a m x, lookup a e = Some m -> In x (keys m) -> lookup x e = None).
  { intros a m x Hl Hx. apply Hnone. destruct (Hgood a m Hl) as [_ [H2 _]]. apply H2. exact Hx. }
  assert (Hnodup : forall a m, lookup a e = Some m -> NoDup (keys m)).
  { intros a m Hl. destruct (Hgood a m Hl) as [H1 _]. exact H1. }
  rewrite (aggregate_node_value e Hnodup rm resources b (Hnone b Hb)).
  apply Qplus_comp; [reflexivity|].
  induction resources as [|nr rs IH]; cbn [fold_right]; [reflexivity|].
  rewrite IH. apply Qplus_comp; [|reflexivity].
  unfold contribution. destruct (is_key d (fst nr)) eqn:Ek.
  - destruct (lookup_keys_some (fst nr) e) as [mp Hmp].
    { apply (Permutation_in _ (Permutation_sym Hperm)). apply (is_key_true d). exact Ek. }
    rewrite Hmp. destruct (Hgood _ _ Hmp) as [_ [_ H3]]. rewrite (H3 b Hb). reflexivity.
  - rewrite (Hnone _ Ek). reflexivity.
Qed.
