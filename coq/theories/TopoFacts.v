(* TopoFacts.v — the processing orders computed by [kahn] are topological; a cycle makes it fail.
   Used for children (sorted_children_order), local variables, and aggregation dictionaries. *)
From Coq Require Import List String Bool Permutation Lia.
From Bq Require Import Expr ExprFacts Compile.
Import ListNotations.
Open Scope string_scope.

Lemma all_in_spec xs done : all_in xs done = true <-> forall x, In x xs -> In x done.
Proof.
  unfold all_in. rewrite forallb_forall. split; intros H x Hx; [apply mem_In|apply mem_In]; auto.
Qed.

Lemma filter_neq_perm x (items : list string) :
  In x items -> NoDup items -> Permutation items (x :: filter (fun y => negb (String.eqb x y)) items).
Proof.
  induction items as [|y items IH]; intros Hin Hnd; [destruct Hin|].
  inversion Hnd as [|? ? Hnot Hnd']; subst. cbn [filter].
  destruct (String.eqb x y) eqn:E; cbn [negb].
  - apply String.eqb_eq in E. subst. apply perm_skip.
    assert (Hf : filter (fun y0 => negb (String.eqb y y0)) items = items).
    { clear - Hnot. induction items as [|z items IH]; [reflexivity|]. cbn.
      destruct (String.eqb y z) eqn:E; cbn.
      - apply String.eqb_eq in E. subst. exfalso. apply Hnot. left. reflexivity.
      - f_equal. apply IH. intro H. apply Hnot. right. exact H. }
    rewrite Hf. apply Permutation_refl.
  - destruct Hin as [Hin|Hin]; [subst; rewrite String.eqb_refl in E; discriminate|].
    eapply perm_trans; [apply perm_skip; apply IH; assumption|]. apply perm_swap.
Qed.

Lemma filter_neq_nodup x (items : list string) : NoDup items -> NoDup (filter (fun y => negb (String.eqb x y)) items).
Proof. apply NoDup_filter. Qed.

Lemma filter_neq_length x (items : list string) :
  In x items -> NoDup items -> S (List.length (filter (fun y => negb (String.eqb x y)) items)) = List.length items.
Proof.
  intros Hin Hnd. pose proof (Permutation_length (filter_neq_perm x items Hin Hnd)) as H. cbn in H. lia.
Qed.

(* every element of the suffix has all its predecessors in [done] or earlier in the suffix *)
Definition topo_suffix (preds : string -> list string) (done suffix : list string) : Prop :=
  forall l1 x l2, suffix = (l1 ++ x :: l2)%list -> forall p, In p (preds x) -> In p done \/ In p l1.

Theorem kahn_sound preds : forall fuel items done out,
    NoDup items ->
    kahn fuel items preds done = Some out ->
    exists suffix, out = (rev done ++ suffix)%list /\ Permutation suffix items /\ topo_suffix preds done suffix.
Proof.
  induction fuel as [|fuel IH]; intros items done out Hnd H; cbn [kahn] in H.
  - destruct items; cbn in H; [|discriminate]. inversion H; subst. exists []. rewrite app_nil_r.
    split; [reflexivity|]. split; [constructor|]. intros l1 x l2 Heq. destruct l1; discriminate.
  - destruct items as [|i0 items'] eqn:Ei.
    + inversion H; subst. exists []. rewrite app_nil_r. split; [reflexivity|]. split; [constructor|].
      intros l1 x l2 Heq. destruct l1; discriminate.
    + rewrite <- Ei in *. destruct (find (fun x => all_in (preds x) done) items) as [x|] eqn:Ef; [|discriminate].
      apply find_some in Ef. destruct Ef as [Hin Hall]. cbn beta in Hall. pose proof (proj1 (all_in_spec _ _) Hall) as Hall'. clear Hall. rename Hall' into Hall.
      destruct (IH _ _ _ (filter_neq_nodup x items Hnd) H) as [s [Hout [Hperm Htopo]]].
      exists (x :: s). split; [|split].
      * rewrite Hout. cbn [rev]. rewrite <- app_assoc. reflexivity.
      * eapply perm_trans; [apply perm_skip; exact Hperm|]. apply Permutation_sym. apply filter_neq_perm; assumption.
      * intros l1 y l2 Heq p Hp. destruct l1 as [|z l1]; cbn in Heq; inversion Heq; subst.
        -- left. apply Hall. exact Hp.
        -- destruct (Htopo l1 y l2 eq_refl p Hp) as [Hd|Hl].
           ++ cbn in Hd. destruct Hd as [Hd|Hd]; [right; left; exact Hd|left; exact Hd].
           ++ right. right. exact Hl.
Qed.

(* the order is complete: it lists exactly the items, once *)
Corollary kahn_perm preds items out :
  NoDup items -> kahn (List.length items) items preds [] = Some out -> Permutation out items.
Proof.
  intros Hnd H. destruct (kahn_sound preds _ _ _ _ Hnd H) as [s [Hout [Hperm _]]]. cbn in Hout. subst. exact Hperm.
Qed.

(* the order is topological: every predecessor (among the items) of an element comes before it *)
Corollary kahn_topological preds items out :
  NoDup items -> kahn (List.length items) items preds [] = Some out ->
  forall l1 x l2, out = (l1 ++ x :: l2)%list -> forall p, In p (preds x) -> In p l1.
Proof.
  intros Hnd H l1 x l2 Heq p Hp. destruct (kahn_sound preds _ _ _ _ Hnd H) as [s [Hout [_ Htopo]]].
  cbn in Hout. subst s. destruct (Htopo l1 x l2 Heq p Hp) as [[]|Hl]. exact Hl.
Qed.

(* a dependency cycle (here: of length one or two, the shapes a cyclic wiring or dictionary reduces to in the
   statement; longer cycles: see kahn_topological, which no order of a cyclic graph can satisfy) makes kahn fail *)
Theorem kahn_rejects_self_loop preds items x :
  NoDup items -> In x items -> In x (preds x) -> kahn (List.length items) items preds [] = None.
Proof.
  intros Hnd Hin Hself. destruct (kahn (List.length items) items preds []) as [out|] eqn:E; [|reflexivity]. exfalso.
  pose proof (kahn_perm _ _ _ Hnd E) as Hperm.
  assert (Hx : In x out) by (eapply Permutation_in; [apply Permutation_sym; exact Hperm|exact Hin]).
  apply in_split in Hx. destruct Hx as [l1 [l2 Heq]].
  pose proof (kahn_topological _ _ _ Hnd E l1 x l2 Heq x Hself) as Hl1.
  assert (Hnd' : NoDup out) by (eapply Permutation_NoDup; [apply Permutation_sym; exact Hperm|exact Hnd]).
  rewrite Heq in Hnd'. apply NoDup_remove_2 in Hnd'. apply Hnd'. apply in_or_app. left. exact Hl1.
Qed.

Theorem kahn_rejects_cycle preds items (cycle : list string) :
  NoDup items -> cycle <> [] ->
  (forall x, In x cycle -> In x items) ->
  (* every element of the cycle has a predecessor inside the cycle *)
  (forall x, In x cycle -> exists p, In p (preds x) /\ In p cycle) ->
  kahn (List.length items) items preds [] = None.
Proof.
  intros Hnd Hne Hsub Hcyc. destruct (kahn (List.length items) items preds []) as [out|] eqn:E; [|reflexivity]. exfalso.
  pose proof (kahn_perm _ _ _ Hnd E) as Hperm.
  assert (Hnd' : NoDup out) by (eapply Permutation_NoDup; [apply Permutation_sym; exact Hperm|exact Hnd]).
  (* the first element of the order that belongs to the cycle has its in-cycle predecessor earlier: contradiction *)
  assert (Hfirst : forall (l : nat), (forall l1 x l2, out = (l1 ++ x :: l2)%list -> forall p, In p (preds x) -> In p l1) ->
                             forall pre post, out = (pre ++ post)%list -> (forall y, In y pre -> ~ In y cycle) ->
                             (forall y, In y post -> ~ In y cycle)).
  { intros _ Htop pre post. revert pre. induction post as [|y post IHp]; intros pre Heq Hpre z Hz; [destruct Hz|].
    destruct Hz as [Hz|Hz].
    - subst z. intro Hyc. destruct (Hcyc y Hyc) as [p [Hp Hpc]].
      pose proof (Htop pre y post Heq p Hp) as Hin. exact (Hpre p Hin Hpc).
    - apply (IHp (pre ++ [y])%list); [rewrite <- app_assoc; exact Heq| |exact Hz].
      intros w Hw. apply in_app_or in Hw. destruct Hw as [Hw|[Hw|[]]]; [apply Hpre; exact Hw|].
      subst w. intro Hyc. destruct (Hcyc y Hyc) as [p [Hp Hpc]].
      pose proof (Htop pre y post Heq p Hp) as Hin. exact (Hpre p Hin Hpc). }
  destruct cycle as [|c cycle']; [congruence|].
  assert (Hc : In c out) by (eapply Permutation_in; [apply Permutation_sym; exact Hperm|apply Hsub; left; reflexivity]).
  apply (Hfirst O (kahn_topological _ _ _ Hnd E) [] out eq_refl (fun y H => match H with end) c Hc). left. reflexivity.
Qed.

(* without any assumption: everything in the order is one of the items *)
Lemma kahn_subset preds : forall fuel items done out,
    kahn fuel items preds done = Some out -> forall x, In x out -> In x done \/ In x items.
Proof.
  induction fuel as [|fuel IH]; intros items done out H x Hx; cbn [kahn] in H.
  - destruct (Nat.eqb (List.length items) 0); [|discriminate]. inversion H; subst. left. apply in_rev. exact Hx.
  - destruct items as [|i0 items'] eqn:Ei.
    + inversion H; subst. left. apply in_rev. exact Hx.
    + rewrite <- Ei in *. destruct (find (fun y => all_in (preds y) done) items) as [y|] eqn:Ef; [|discriminate].
      apply find_some in Ef. destruct Ef as [Hin _].
      destruct (IH _ _ _ H x Hx) as [Hd|Hi].
      * destruct Hd as [Hd|Hd]; [right; subst; exact Hin|left; exact Hd].
      * right. apply filter_In in Hi. tauto.
Qed.

(* the order in which children are processed (and exported) *)
From Bq Require Import Routine.
Theorem children_order_topological children conns order :
  NoDup (map rname children) -> children_order children conns = Some order ->
  Permutation order (map rname children) /\
  (forall l1 x l2, order = (l1 ++ x :: l2)%list -> forall p, In p (child_preds conns x) -> In p l1).
Proof.
  intros Hnd H. unfold children_order in H. split.
  - exact (kahn_perm _ _ _ Hnd H).
  - exact (kahn_topological _ _ _ Hnd H).
Qed.
