(* ParserRoundTrip.v — the specification grammar of C11/C12 reads back what its printer writes, for EVERY tree
   (unbounded: any depth, any operators, any function calls): parse_tokens (ptoks e) = Some e.
   "Eventually" = for all large enough fuel; the parser's fuel is linear in the number of tokens. *)
From Coq Require Import List String Ascii QArith ZArith Bool Lia.
From Bq Require Import Expr StdSem Parser.
Import ListNotations.
Open Scope string_scope.

Definition evb (n : nat) (P : nat -> Prop) : Prop := forall f, (n <= f)%nat -> P f.

Lemma evb_weaken n m (P : nat -> Prop) : (n <= m)%nat -> evb n P -> evb m P.
Proof. intros H HP f Hf. apply HP. lia. Qed.

Lemma evb_and n m P Q : evb n P -> evb m Q -> evb (Nat.max n m) (fun f => P f /\ Q f).
Proof. intros H1 H2 f Hf. split; [apply H1|apply H2]; lia. Qed.

(* from "P f from n on" to "Q (S f) from n on", i.e. Q from S n on *)
Lemma evb_succ n (P Q : nat -> Prop) : (forall f, P f -> Q (S f)) -> evb n P -> evb (S n) Q.
Proof. intros H HP f Hf. destruct f as [|f]; [lia|]. apply H. apply HP. lia. Qed.

(* ---------- which token may follow an expression parsed at a given level ---------- *)
Definition op_level (o : string) : option nat :=
  if String.eqb o "+" || String.eqb o "-" then Some 0%nat
  else if String.eqb o "*" || String.eqb o "/" || String.eqb o "//" || String.eqb o "%" then Some 1%nat
  else if String.eqb o "**" then Some 3%nat
  else None.

Definition safe (lvl : nat) (rest : list token) : Prop :=
  match rest with
  | [] | TRParen :: _ | TComma :: _ => True
  | TOp o :: _ => match op_level o with Some k => (k < lvl)%nat | None => False end
  | _ => False
  end.

Lemma safe_mono l l' rest : (l <= l')%nat -> safe l rest -> safe l' rest.
Proof.
  intros Hle. destruct rest as [|[q|n|o| | |] rest]; cbn; try tauto.
  destruct (op_level o); [lia|tauto].
Qed.

Definition level_of (o : binop) : nat :=
  match o with BAdd | BSub => 0 | BPow => 3 | _ => 1 end%nat.

Lemma op_level_tok o : op_level (op_tok o) = Some (level_of o).
Proof. destruct o; reflexivity. Qed.

Lemma binop_of_tok o : o <> BPow -> binop_of (level_of o) (op_tok o) = Some o.
Proof. destruct o; intro H; try reflexivity. congruence. Qed.

Lemma binop_of_safe L o : (L <= 1)%nat -> match op_level o with Some k => (k < L)%nat | None => False end -> binop_of L o = None.
Proof.
  intros HL H. destruct L as [|[|L]]; [|clear HL|lia].
  - destruct (op_level o); [lia|destruct H].
  - unfold op_level in H.
    destruct (String.eqb o "+") eqn:E1; [apply String.eqb_eq in E1; subst; reflexivity|].
    destruct (String.eqb o "-") eqn:E2; [apply String.eqb_eq in E2; subst; reflexivity|]. cbn [orb] in H.
    destruct (String.eqb o "*" || String.eqb o "/" || String.eqb o "//" || String.eqb o "%"); [lia|].
    destruct (String.eqb o "**"); [lia|destruct H].
Qed.

(* ---------- one step of each parser function ---------- *)
Lemma pe_S_low f L ts : (L <= 1)%nat ->
  pe (S f) L ts = match pe f (S L) ts with Some (l, ts') => chain f L l ts' | None => None end.
Proof. intro H. destruct L as [|[|L]]; [reflexivity|reflexivity|lia]. Qed.

Lemma pe_S2_neg f ts : pe (S f) 2 (TOp "-" :: ts) = match pe f 2 ts with Some (a, r) => Some (PNeg a, r) | None => None end.
Proof. reflexivity. Qed.

Definition starts_with_op (ts : list token) : bool := match ts with TOp _ :: _ => true | _ => false end.

Lemma pe_S2_other f ts : starts_with_op ts = false -> pe (S f) 2 ts = pe f 3 ts.
Proof. destruct ts as [|[q|n|o| | |] ts]; cbn [starts_with_op]; intro H; try reflexivity. discriminate. Qed.

Lemma pe_S3 f ts :
  pe (S f) 3 ts = match pe f 4 ts with
                  | Some (b, TOp o :: ts') =>
                      if String.eqb o "**" then match pe f 2 ts' with Some (e, r) => Some (PBin BPow b e, r) | None => None end
                      else Some (b, TOp o :: ts')
                  | other => other
                  end.
Proof. reflexivity. Qed.

Lemma chain_S f L lhs ts :
  chain (S f) L lhs ts = match ts with
                         | TOp o :: ts' =>
                             match binop_of L o with
                             | Some b => match pe f (S L) ts' with Some (r, ts'') => chain f L (PBin b lhs r) ts'' | None => None end
                             | None => Some (lhs, ts)
                             end
                         | _ => Some (lhs, ts)
                         end.
Proof. reflexivity. Qed.

(* the chain stops at a token that does not continue this level *)
Lemma chain_stop f L e rest : (L <= 1)%nat -> safe L rest -> chain (S f) L e rest = Some (e, rest).
Proof.
  intros HL Hs. rewrite chain_S. destruct rest as [|[q|n|o| | |] rest]; cbn in Hs; try reflexivity; try tauto.
  rewrite (binop_of_safe L o HL Hs). reflexivity.
Qed.

Lemma ev_chain_stop L e rest : (L <= 1)%nat -> safe L rest -> evb 1 (fun f => chain f L e rest = Some (e, rest)).
Proof. intros HL Hs f Hf. destruct f as [|f]; [lia|]. apply chain_stop; assumption. Qed.

(* ---------- lifting a parse from a tighter level to a looser one ---------- *)
Lemma lift_43 n ts e rest :
  safe 3 rest -> evb n (fun f => pe f 4 ts = Some (e, rest)) -> evb (S n) (fun f => pe f 3 ts = Some (e, rest)).
Proof.
  intros Hs. apply evb_succ. intros f H. rewrite pe_S3, H.
  destruct rest as [|[q|m|o| | |] rest]; cbn in Hs; try reflexivity; try tauto.
  destruct (String.eqb o "**") eqn:E; [|reflexivity].
  apply String.eqb_eq in E. subst. cbn in Hs. lia.
Qed.

Lemma lift_32 n ts e rest :
  starts_with_op ts = false -> evb n (fun f => pe f 3 ts = Some (e, rest)) -> evb (S n) (fun f => pe f 2 ts = Some (e, rest)).
Proof. intros Hts. apply evb_succ. intros f H. rewrite (pe_S2_other f ts Hts). exact H. Qed.

Lemma lift_low n L ts e rest : (L <= 1)%nat -> (1 <= n)%nat ->
  safe L rest -> evb n (fun f => pe f (S L) ts = Some (e, rest)) -> evb (S n) (fun f => pe f L ts = Some (e, rest)).
Proof.
  intros HL Hn Hs H f Hf. destruct f as [|f]; [lia|]. rewrite (pe_S_low f L ts HL).
  rewrite (H f ltac:(lia)). destruct f as [|f]; [lia|]. apply chain_stop; assumption.
Qed.

(* from level 4, for tokens that do not begin with an operator, down to any level the follower allows *)
Lemma lift_from_4 n ts e rest lvl :
  starts_with_op ts = false -> (lvl <= 4)%nat -> safe lvl rest -> (1 <= n)%nat ->
  evb n (fun f => pe f 4 ts = Some (e, rest)) -> evb (n + 4) (fun f => pe f lvl ts = Some (e, rest)).
Proof.
  intros Hts Hl Hs Hn H.
  assert (H3 : safe 3 rest -> evb (n + 1) (fun f => pe f 3 ts = Some (e, rest))).
  { intro S3. replace (n + 1)%nat with (S n) by lia. apply lift_43; assumption. }
  assert (H2 : safe 3 rest -> evb (n + 2) (fun f => pe f 2 ts = Some (e, rest))).
  { intro S3. replace (n + 2)%nat with (S (n + 1)) by lia. apply lift_32; [exact Hts|]. apply H3. exact S3. }
  assert (H1 : safe 1 rest -> evb (n + 3) (fun f => pe f 1 ts = Some (e, rest))).
  { intro S1. replace (n + 3)%nat with (S (n + 2)) by lia. apply (lift_low (n + 2) 1); [lia|lia|exact S1|].
    apply H2. eapply safe_mono; [|exact S1]. lia. }
  destruct lvl as [|[|[|[|[|lvl]]]]]; try lia.
  - replace (n + 4)%nat with (S (n + 3)) by lia. apply (lift_low (n + 3) 0); [lia|lia|exact Hs|].
    apply H1. eapply safe_mono; [|exact Hs]. lia.
  - eapply evb_weaken; [|apply H1; exact Hs]. lia.
  - eapply evb_weaken; [|apply H2; eapply safe_mono; [|exact Hs]; lia]. lia.
  - eapply evb_weaken; [|apply H3; exact Hs]. lia.
  - eapply evb_weaken; [|exact H]. lia.
Qed.

(* ================================================================== *)
From Bq Require Import ParserFacts.

Lemma pe_S4_paren f ts :
  pe (S f) 4 (TLParen :: ts) = match pe f 0 ts with Some (e, TRParen :: r) => Some (e, r) | _ => None end.
Proof. reflexivity. Qed.

Lemma pe_S4_num f q rest : pe (S f) 4 (TNum q :: rest) = Some (PNum q, rest).
Proof. reflexivity. Qed.

Lemma pe_S4_name f n rest lvl : safe lvl rest -> pe (S f) 4 (TName n :: rest) = Some (PSym n, rest).
Proof. destruct rest as [|[q|m|o| | |] rest]; cbn; intro H; try reflexivity; tauto. Qed.

Lemma pe_S4_call0 f n rest : pe (S f) 4 (TName n :: TLParen :: TRParen :: rest) = Some (PCall n [], rest).
Proof. reflexivity. Qed.

Lemma pe_S4_call f n t ts : t <> TRParen ->
  pe (S f) 4 (TName n :: TLParen :: t :: ts) = match pargs f (t :: ts) with Some (args, r) => Some (PCall n args, r) | None => None end.
Proof. destruct t; intro H; try reflexivity. congruence. Qed.

Lemma pargs_S f ts :
  pargs (S f) ts = match pe f 0 ts with
                   | Some (a, TComma :: r) => match pargs f r with Some (l, r') => Some (a :: l, r') | None => None end
                   | Some (a, TRParen :: r) => Some ([a], r)
                   | _ => None
                   end.
Proof. reflexivity. Qed.

(* what the printer writes never begins with ")" and begins with an operator only for a negation *)
Lemma ptoks_head e : exists t ts, ptoks e = t :: ts /\ t <> TRParen /\ t <> TComma.
Proof.
  induction e as [q|s|o a b IHa IHb|a IHa|f args IH] using pexpr_ind'.
  - eexists _, _. cbn. repeat split; discriminate.
  - eexists _, _. cbn. repeat split; discriminate.
  - destruct IHa as [t [ts [Ha [H1 H2]]]].
    assert (G : forall c, exists t' ts', (paren c (ptoks a)) = t' :: ts' /\ t' <> TRParen /\ t' <> TComma).
    { intros [|]; cbn; [eexists _, _; repeat split; discriminate|]. rewrite Ha. eexists _, _. repeat split; assumption. }
    destruct o; cbn [ptoks]; match goal with |- context [paren ?c (ptoks a)] => destruct (G c) as [t' [ts' [E [E1 E2]]]]; rewrite E end;
      cbn [app]; eexists _, _; repeat split; assumption.
  - eexists _, _. cbn. repeat split; discriminate.
  - eexists _, _. cbn. repeat split; discriminate.
Qed.

Definition is_neg (e : pexpr) : bool := match e with PNeg _ => true | _ => false end.

Lemma ptoks_no_op_atom e : prec e = 5%nat -> starts_with_op (ptoks e) = false.
Proof. destruct e as [q|s|o a b|a|f args]; cbn; try reflexivity; try discriminate. destruct o; discriminate. Qed.

(* ---------- the statement proved by induction ---------- *)
(* ---------- an explicit fuel bound, linear in the size of the tree ---------- *)
Fixpoint B (e : pexpr) : nat :=
  match e with
  | PNum _ | PSym _ => 7
  | PNeg a => B a + 10
  | PBin BPow a b => B a + B b + 11
  | PBin _ a b => B a + B b + 20
  | PCall _ args => fold_right (fun a acc => B a + 3 + acc) 7 args
  end%nat.

Lemma B_pos e : (7 <= B e)%nat.
Proof.
  induction e as [q|s|o a b IHa IHb|a IHa|f args IH] using pexpr_ind'; cbn [B]; try lia.
  - destruct o; lia.
  - induction args as [|x args IHx]; cbn; [lia|]. inversion IH; subst. specialize (IHx H2). lia.
Qed.

(* ---------- the statement proved by induction ---------- *)
Definition SpecS (e : pexpr) : Prop :=
  forall lvl rest, (lvl < prec e)%nat -> safe lvl rest -> evb (B e + 2) (fun f => pe f lvl (ptoks e ++ rest) = Some (e, rest)).
Definition SpecK (e : pexpr) : Prop :=
  forall L rest out m, (L <= 1)%nat -> (L < prec e)%nat -> safe (S L) rest ->
                       evb m (fun f => chain f L e rest = Some out) -> evb (m + B e + 2) (fun f => pe f L (ptoks e ++ rest) = Some out).

Lemma K_from_S n m L ts e rest out : (L <= 1)%nat ->
  evb n (fun f => pe f (S L) ts = Some (e, rest)) -> evb m (fun f => chain f L e rest = Some out) ->
  evb (S (Nat.max n m)) (fun f => pe f L ts = Some out).
Proof.
  intros HL H1 H2 f Hf. destruct f as [|f]; [lia|].
  rewrite (pe_S_low f L ts HL). rewrite (H1 f ltac:(lia)). apply H2. lia.
Qed.

Lemma prec_pos x : (0 < prec x)%nat.
Proof. destruct x as [q|s|o a b|a|f args]; cbn; try lia; destruct o; lia. Qed.

Lemma paren_parse x rest : SpecS x ->
  evb (B x + 3) (fun f => pe f 4 ((TLParen :: ptoks x ++ [TRParen]) ++ rest) = Some (x, rest)).
Proof.
  intro HS. pose proof (HS 0%nat (TRParen :: rest) (prec_pos x) I) as H.
  replace (B x + 3)%nat with (S (B x + 2)) by lia. revert H. apply evb_succ. intros f H.
  cbn [app]. rewrite <- app_assoc. cbn [app]. rewrite pe_S4_paren, H. reflexivity.
Qed.

(* an operand printed for a position that needs level M: in parentheses unless it is tight enough *)
Lemma operand_parse x M rest : SpecS x -> (M <= 4)%nat -> safe M rest ->
  evb (B x + 7) (fun f => pe f M (paren (Nat.leb (prec x) M) (ptoks x) ++ rest) = Some (x, rest)).
Proof.
  intros HS HM Hs. destruct (Nat.leb (prec x) M) eqn:E.
  - unfold paren. replace (B x + 7)%nat with (B x + 3 + 4)%nat by lia.
    apply (lift_from_4 (B x + 3) _ x rest M); [reflexivity|exact HM|exact Hs|lia|]. apply paren_parse. exact HS.
  - apply Nat.leb_gt in E. unfold paren. eapply evb_weaken; [|apply HS; assumption]. lia.
Qed.

Lemma left_operand_parse a L rest out m : SpecS a -> SpecK a -> (L <= 1)%nat -> safe (S L) rest ->
  evb m (fun f => chain f L a rest = Some out) ->
  evb (m + B a + 8) (fun f => pe f L (paren (Nat.leb (prec a) L) (ptoks a) ++ rest) = Some out).
Proof.
  intros HS HK HL Hs Hc. destruct (Nat.leb (prec a) L) eqn:E.
  - unfold paren. eapply evb_weaken; [|apply (K_from_S (B a + 7) m L _ a rest out HL); [|exact Hc]].
    + lia.
    + replace (B a + 7)%nat with (B a + 3 + 4)%nat by lia.
      apply (lift_from_4 (B a + 3) _ a rest (S L)); [reflexivity|lia|exact Hs|lia|]. apply paren_parse. exact HS.
  - apply Nat.leb_gt in E. unfold paren. eapply evb_weaken; [|apply HK; eassumption]. lia.
Qed.

(* S below the tightest levels, and K, follow from S at levels >= 2 *)
Lemma S_down e : (forall lvl rest, (2 <= lvl)%nat -> (lvl < prec e)%nat -> safe lvl rest ->
                                   evb (B e) (fun f => pe f lvl (ptoks e ++ rest) = Some (e, rest))) ->
                 (3 <= prec e)%nat -> SpecS e /\ SpecK e.
Proof.
  intros H Hp. pose proof (B_pos e) as HB.
  assert (S1 : forall rest, safe 1 rest -> evb (B e + 1) (fun f => pe f 1 (ptoks e ++ rest) = Some (e, rest))).
  { intros rest Hs. replace (B e + 1)%nat with (S (B e)) by lia. apply (lift_low (B e) 1); [lia|lia|exact Hs|].
    apply H; [lia|lia|]. eapply safe_mono; [|exact Hs]. lia. }
  assert (S0 : forall rest, safe 0 rest -> evb (B e + 2) (fun f => pe f 0 (ptoks e ++ rest) = Some (e, rest))).
  { intros rest Hs. replace (B e + 2)%nat with (S (B e + 1)) by lia. apply (lift_low (B e + 1) 0); [lia|lia|exact Hs|].
    apply S1. eapply safe_mono; [|exact Hs]. lia. }
  split.
  - intros lvl rest Hl Hs. destruct lvl as [|[|lvl]]; [apply S0; exact Hs|eapply evb_weaken; [|apply S1; exact Hs]; lia|].
    eapply evb_weaken; [|apply H; [lia|exact Hl|exact Hs]]. lia.
  - intros L rest out m HL Hl Hs Hc.
    destruct L as [|[|L]]; [| |lia].
    + eapply evb_weaken; [|apply (K_from_S (B e + 1) m 0 _ e rest out); [lia|apply S1; exact Hs|exact Hc]]. lia.
    + eapply evb_weaken; [|apply (K_from_S (B e) m 1 _ e rest out); [lia|apply H; [lia|lia|exact Hs]|exact Hc]]. lia.
Qed.

(* ---------- argument lists ---------- *)
Definition args_toks (l : list pexpr) : list token :=
  (fix go (l : list pexpr) : list token :=
     match l with
     | [] => []
     | [a] => ptoks a
     | a :: l' => (ptoks a ++ TComma :: go l')%list
     end) l.

Lemma args_toks_cons a b l : args_toks (a :: b :: l) = (ptoks a ++ TComma :: args_toks (b :: l))%list.
Proof. reflexivity. Qed.

Definition Bargs (args : list pexpr) : nat := fold_right (fun a acc => B a + 3 + acc)%nat 0%nat args.

Lemma pargs_parse args rest : Forall SpecS args -> args <> [] ->
  evb (Bargs args) (fun f => pargs f (args_toks args ++ TRParen :: rest) = Some (args, rest)).
Proof.
  induction args as [|a args IH]; intros HF Hne; [congruence|].
  inversion HF as [|? ? Ha HF']; subst. unfold Bargs. cbn [fold_right]. fold (Bargs args).
  destruct args as [|b args].
  - cbn [args_toks]. pose proof (Ha 0%nat (TRParen :: rest) (prec_pos a) I) as H.
    intros f Hf. cbn in Hf. destruct f as [|f]; [lia|]. rewrite pargs_S, (H f ltac:(lia)). reflexivity.
  - rewrite args_toks_cons, <- app_assoc. cbn [app].
    pose proof (Ha 0%nat (TComma :: args_toks (b :: args) ++ TRParen :: rest) (prec_pos a) I) as H1.
    pose proof (IH HF' ltac:(discriminate)) as H2.
    intros f Hf. destruct f as [|f]; [lia|].
    rewrite pargs_S, (H1 f ltac:(lia)), (H2 f ltac:(lia)). reflexivity.
Qed.

Lemma ptoks_call f args : ptoks (PCall f args) = (TName f :: TLParen :: args_toks args ++ [TRParen])%list.
Proof. reflexivity. Qed.

Lemma args_toks_head a args : exists t ts, args_toks (a :: args) = t :: ts /\ t <> TRParen.
Proof.
  destruct (ptoks_head a) as [t [ts [E [H1 _]]]]. destruct args as [|b args].
  - exists t, ts. split; [cbn; exact E|exact H1].
  - rewrite args_toks_cons, E. cbn [app]. eexists _, _. split; [reflexivity|exact H1].
Qed.

Lemma ptoks_bin o a b : o <> BPow ->
  ptoks (PBin o a b) = (paren (Nat.leb (prec a) (level_of o)) (ptoks a) ++ TOp (op_tok o)
                              :: paren (Nat.leb (prec b) (S (level_of o))) (ptoks b))%list
  /\ prec (PBin o a b) = S (level_of o) /\ (level_of o <= 1)%nat /\ B (PBin o a b) = (B a + B b + 20)%nat.
Proof. destruct o; intro H; try congruence; cbn; repeat split; try lia. Qed.

Lemma safe_3_2 rest : safe 3 rest -> safe 2 rest.
Proof.
  destruct rest as [|[q|n|o| | |] rest]; cbn; try tauto. unfold op_level.
  destruct (String.eqb o "+" || String.eqb o "-"); [lia|].
  destruct (String.eqb o "*" || String.eqb o "/" || String.eqb o "//" || String.eqb o "%"); [lia|].
  destruct (String.eqb o "**"); [lia|tauto].
Qed.

Lemma binop_eq_pow o : o = BPow \/ o <> BPow.
Proof. destruct o; (left; reflexivity) || (right; discriminate). Qed.

(* ---------- the induction ---------- *)
Theorem spec_all e : SpecS e /\ SpecK e.
Proof.
  induction e as [q|s|o a b IHa IHb|a IHa|fn args IH] using pexpr_ind'.
  - (* a number *)
    apply S_down; [|cbn; lia]. intros lvl rest H2 Hl Hs. cbn [ptoks app B].
    eapply evb_weaken; [|apply (lift_from_4 1 _ (PNum q) rest lvl); [reflexivity|cbn in Hl; lia|exact Hs|lia|]]; [lia|].
    intros f Hf. destruct f as [|f]; [lia|]. apply pe_S4_num.
  - (* a name *)
    apply S_down; [|cbn; lia]. intros lvl rest H2 Hl Hs. cbn [ptoks app B].
    eapply evb_weaken; [|apply (lift_from_4 1 _ (PSym s) rest lvl); [reflexivity|cbn in Hl; lia|exact Hs|lia|]]; [lia|].
    intros f Hf. destruct f as [|f]; [lia|]. apply (pe_S4_name f s rest lvl Hs).
  - (* a binary operator *)
    destruct IHa as [Sa Ka]. destruct IHb as [Sb Kb].
    destruct (binop_eq_pow o) as [->|Ho].
    + (* power: atom ** unary *)
      apply S_down; [|cbn; lia]. intros lvl rest H2 Hl Hs. cbn [prec] in Hl.
      assert (Hs2 : safe 2 rest).
      { assert (lvl = 2%nat \/ lvl = 3%nat) as [->| ->] by lia; [exact Hs|apply safe_3_2; exact Hs]. }
      assert (H3 : evb (B a + B b + 8) (fun f => pe f 3 (ptoks (PBin BPow a b) ++ rest) = Some (PBin BPow a b, rest))).
      { cbn [ptoks]. rewrite <- app_assoc. cbn [app].
        change (Nat.ltb (prec b) 3) with (Nat.leb (prec b) 2).
        pose proof (operand_parse a 4 (TOp "**" :: paren (Nat.leb (prec b) 2) (ptoks b) ++ rest) Sa ltac:(lia) ltac:(cbn; lia)) as H4.
        pose proof (operand_parse b 2 rest Sb ltac:(lia) Hs2) as H5.
        intros f Hf. destruct f as [|f]; [lia|].
        rewrite pe_S3, (H4 f ltac:(lia)). cbn [String.eqb Ascii.eqb Bool.eqb]. rewrite (H5 f ltac:(lia)). reflexivity. }
      cbn [B].
      destruct lvl as [|[|[|[|lvl]]]]; try lia; [|eapply evb_weaken; [|exact H3]; lia].
      assert (Hno : starts_with_op (ptoks (PBin BPow a b) ++ rest) = false); [|eapply evb_weaken; [|apply (lift_32 _ _ _ _ Hno H3)]; lia].
      cbn [ptoks]. destruct (Nat.leb (prec a) 4) eqn:E; [reflexivity|]. apply Nat.leb_gt in E.
      unfold paren. assert (Hp : prec a = 5%nat) by (destruct a as [x|x|x y z|x|x y]; cbn in *; try lia; destruct x; cbn in *; lia).
      pose proof (ptoks_no_op_atom a Hp) as Hn. destruct (ptoks_head a) as [t [ts [Et _]]]. rewrite Et in *.
      cbn [app]. destruct t; cbn in *; congruence.
    + (* additive / multiplicative: a left-associative chain *)
      destruct (ptoks_bin o a b Ho) as [Etoks [Eprec [HL EB]]]. set (L := level_of o) in *.
      assert (K : forall rest out m, safe (S L) rest -> evb m (fun f => chain f L (PBin o a b) rest = Some out) ->
                                     evb (m + B (PBin o a b)) (fun f => pe f L (ptoks (PBin o a b) ++ rest) = Some out)).
      { intros rest out m Hs Hc. rewrite Etoks, <- app_assoc. cbn [app]. rewrite EB.
        eapply evb_weaken; [|apply (left_operand_parse a L _ out (S (Nat.max (B b + 7) m)) Sa Ka HL)].
        - lia.
        - cbn. rewrite op_level_tok. fold L. lia.
        - pose proof (operand_parse b (S L) rest Sb ltac:(lia) Hs) as Hb.
          intros f Hf. destruct f as [|f]; [lia|].
          rewrite chain_S. unfold L at 1. rewrite (binop_of_tok o Ho). fold L.
          rewrite (Hb f ltac:(lia)). apply Hc. lia. }
      assert (SL : forall rest, safe L rest -> evb (B (PBin o a b) + 1) (fun f => pe f L (ptoks (PBin o a b) ++ rest) = Some (PBin o a b, rest))).
      { intros rest Hs. replace (B (PBin o a b) + 1)%nat with (1 + B (PBin o a b))%nat by lia.
        apply K; [eapply safe_mono; [|exact Hs]; lia|]. apply ev_chain_stop; assumption. }
      split.
      * intros lvl rest Hl Hs. rewrite Eprec in Hl.
        destruct (Nat.eq_dec lvl L) as [->|Hne]; [eapply evb_weaken; [|apply SL; exact Hs]; lia|].
        assert (lvl = 0%nat /\ L = 1%nat) as [-> EL] by lia.
        replace (B (PBin o a b) + 2)%nat with (S (B (PBin o a b) + 1)) by lia.
        apply (lift_low _ 0); [lia|lia|exact Hs|].
        assert (Hs1 : safe L rest) by (rewrite EL; eapply safe_mono; [|exact Hs]; lia).
        pose proof (SL rest Hs1) as X. rewrite EL in X. exact X.
      * intros L' rest out m HL' Hl Hs Hc. rewrite Eprec in Hl.
        destruct (Nat.eq_dec L' L) as [->|Hne]; [eapply evb_weaken; [|apply K; eassumption]; lia|].
        assert (L' = 0%nat /\ L = 1%nat) as [-> EL] by lia.
        assert (Hs1 : safe L rest) by (rewrite EL; exact Hs).
        pose proof (SL rest Hs1) as X. rewrite EL in X.
        eapply evb_weaken; [|apply (K_from_S (B (PBin o a b) + 1) m 0 _ (PBin o a b) rest out); [lia|exact X|exact Hc]]. lia.
  - (* negation *)
    destruct IHa as [Sa Ka].
    apply S_down; [|cbn; lia]. intros lvl rest H2 Hl Hs. cbn [prec] in Hl. assert (lvl = 2%nat) as -> by lia.
    cbn [ptoks app B]. change (Nat.ltb (prec a) 3) with (Nat.leb (prec a) 2).
    pose proof (operand_parse a 2 rest Sa ltac:(lia) Hs) as H.
    intros f Hf. destruct f as [|f]; [lia|]. rewrite pe_S2_neg, (H f ltac:(lia)). reflexivity.
  - (* a call *)
    apply S_down; [|cbn; lia]. intros lvl rest H2 Hl Hs.
    assert (EB : B (PCall fn args) = (Bargs args + 7)%nat).
    { cbn [B]. unfold Bargs. clear. induction args as [|x xs IHx]; cbn [fold_right]; [reflexivity|]. rewrite IHx. lia. }
    rewrite EB.
    assert (H4 : evb (Bargs args + 3) (fun f => pe f 4 (ptoks (PCall fn args) ++ rest) = Some (PCall fn args, rest))).
    { rewrite ptoks_call. cbn [app]. rewrite <- app_assoc. cbn [app].
      destruct args as [|a args].
      - cbn [args_toks app]. intros f Hf. destruct f as [|f]; [lia|]. apply pe_S4_call0.
      - assert (HF : Forall SpecS (a :: args)) by (eapply Forall_impl; [|exact IH]; intros x [Hx _]; exact Hx).
        pose proof (pargs_parse (a :: args) rest HF ltac:(discriminate)) as H.
        destruct (args_toks_head a args) as [t [ts [Et Hne]]].
        intros f Hf. destruct f as [|f]; [lia|]. rewrite Et in *. cbn [app] in *.
        rewrite (pe_S4_call f fn t _ Hne), (H f ltac:(lia)). reflexivity. }
    replace (Bargs args + 7)%nat with (Bargs args + 3 + 4)%nat by lia.
    apply (lift_from_4 _ _ (PCall fn args) rest lvl); [reflexivity|cbn in Hl; lia|exact Hs|lia|exact H4].
Qed.

(* ---------- the bound is linear in the number of tokens ---------- *)
Lemma paren_length c ts : (List.length ts <= List.length (paren c ts))%nat.
Proof. destruct c; cbn; [rewrite app_length; cbn; lia|lia]. Qed.

Lemma B_le_tokens e : (B e <= 20 * List.length (ptoks e))%nat.
Proof.
  induction e as [q|s|o a b IHa IHb|a IHa|fn args IH] using pexpr_ind'.
  - cbn. lia.
  - cbn. lia.
  - assert (G : forall c1 c2 t, (B a + B b + 20 <= 20 * List.length (paren c1 (ptoks a) ++ t :: paren c2 (ptoks b)))%nat).
    { intros c1 c2 t. rewrite app_length. cbn [List.length].
      pose proof (paren_length c1 (ptoks a)). pose proof (paren_length c2 (ptoks b)). lia. }
    destruct (binop_eq_pow o) as [->|Ho].
    + cbn [B ptoks]. specialize (G (Nat.leb (prec a) 4) (Nat.ltb (prec b) 3) (TOp "**")). lia.
    + destruct (ptoks_bin o a b Ho) as [Et [_ [_ EB]]]. rewrite Et, EB. apply G.
  - cbn [B ptoks]. cbn [List.length]. pose proof (paren_length (Nat.ltb (prec a) 3) (ptoks a)). lia.
  - rewrite ptoks_call. cbn [B List.length]. rewrite app_length. cbn [List.length].
    assert (G : (fold_right (fun a acc => B a + 3 + acc) 0 args <= 20 * List.length (args_toks args) + 3)%nat).
    { induction args as [|x xs IHx]; [cbn; lia|]. inversion IH as [|? ? Hx HF]; subst. specialize (IHx HF).
      destruct xs as [|y ys].
      - cbn [fold_right args_toks]. lia.
      - rewrite args_toks_cons, app_length. cbn [List.length fold_right] in *. lia. }
    assert (E : fold_right (fun a acc => B a + 3 + acc)%nat 7%nat args = (fold_right (fun a acc => B a + 3 + acc) 0 args + 7)%nat).
    { clear. induction args as [|x xs IHx]; cbn; [reflexivity|]. rewrite IHx. lia. }
    rewrite E. lia.
Qed.

(* ---------- the round trip, for every tree ---------- *)
Theorem parse_tokens_ptoks e : parse_tokens (ptoks e) = Some e.
Proof.
  destruct (spec_all e) as [HS _].
  pose proof (HS 0%nat [] (prec_pos e) I) as H. rewrite app_nil_r in H.
  unfold parse_tokens. rewrite (H (20 * List.length (ptoks e) + 8)%nat); [reflexivity|].
  pose proof (B_le_tokens e). lia.
Qed.

(* a printed tree followed by anything that cannot continue it is read back, and the rest is left untouched *)
Theorem pe_ptoks_prefix e lvl rest : (lvl < prec e)%nat -> safe lvl rest ->
  forall f, (B e + 2 <= f)%nat -> pe f lvl (ptoks e ++ rest) = Some (e, rest).
Proof. intros Hl Hs. destruct (spec_all e) as [HS _]. exact (HS lvl rest Hl Hs). Qed.
