(* SkeletonFacts.v — C10, the whole pipeline and the whole tree.
   (1) Every preprocessing stage, and so `preprocess`, keeps the skeleton of the hierarchy: at every node the name,
       type, connections and repetition are unchanged, the ports are the same up to order (same names, same
       directions), every source resource is still there unchanged, the only new resources are additive or
       multiplicative ones under names the node did not define, input parameters and constraints are only appended
       to, and the children are the same children in the same order (recursively).
   (2) `go` (for any carrier) maps a routine to a tree of exactly that shape, at every depth.
   Together: compile_routine r = Ok t relates every node of t to the node of r it came from. *)
From Coq Require Import List String Bool Arith Lia Permutation.
From Bq Require Import Expr ExprFacts RepModel Routine Compare Compile CompileTop CompileFacts StructureFacts Preprocess
     PortVarFacts QrefModelFacts TopoFacts.
From BqGen Require Import GenTables.
Import ListNotations.
Open Scope string_scope.

(* ------------------------------------------------------------------ the relation *)
Definition node_skel (r r' : routine) : Prop :=
  rname r = rname r' /\ rtype_of r = rtype_of r' /\ rconnections r = rconnections r' /\ rrep r = rrep r' /\
  Permutation (map port_sig (rports r)) (map port_sig (rports r')) /\
  incl (rresources r) (rresources r') /\
  (forall x, In x (rresources r') ->
             In x (rresources r) \/
             ((r_type x = RAdditive \/ r_type x = RMultiplicative) /\ ~ In (r_name x) (map r_name (rresources r)))) /\
  (exists extra, rparams r' = (rparams r ++ extra)%list) /\
  (exists extra, rconstraints r' = (rconstraints r ++ extra)%list).

Fixpoint skel (r r' : routine) {struct r} : Prop :=
  node_skel r r' /\
  match r with
  | Routine _ _ _ _ _ _ _ _ _ _ ch =>
      (fix all (l l' : list routine) {struct l} : Prop :=
         match l, l' with
         | [], [] => True
         | c :: l1, c' :: l1' => skel c c' /\ all l1 l1'
         | _, _ => False
         end) ch (rchildren r')
  end.

Lemma all_Forall2 (R : routine -> routine -> Prop) : forall l l',
  (fix all (l l' : list routine) {struct l} : Prop :=
     match l, l' with
     | [], [] => True
     | c :: l1, c' :: l1' => R c c' /\ all l1 l1'
     | _, _ => False
     end) l l' <-> Forall2 R l l'.
Proof.
  intro l. induction l as [|c l IH]; intro l'; destruct l' as [|c' l']; split; intro H.
  - constructor.
  - exact I.
  - destruct H.
  - inversion H.
  - destruct H.
  - inversion H.
  - destruct H as [H1 H2]. constructor; [exact H1|]. apply IH. exact H2.
  - inversion H; subst. split; [assumption|]. apply IH. assumption.
Qed.

Lemma skel_unfold r r' : skel r r' <-> node_skel r r' /\ Forall2 skel (rchildren r) (rchildren r').
Proof.
  destruct r as [n t ips lo li p rs c rp cs ch]. cbn [skel rchildren].
  rewrite (all_Forall2 skel). reflexivity.
Qed.

Lemma node_skel_refl r : node_skel r r.
Proof.
  repeat split; try reflexivity.
  - apply incl_refl.
  - intros x Hx. left. exact Hx.
  - exists []. rewrite app_nil_r. reflexivity.
  - exists []. rewrite app_nil_r. reflexivity.
Qed.

Lemma node_skel_trans a b c : node_skel a b -> node_skel b c -> node_skel a c.
Proof.
  intros (N1 & T1 & C1 & R1 & P1 & I1 & A1 & [e1 E1] & [f1 F1]) (N2 & T2 & C2 & R2 & P2 & I2 & A2 & [e2 E2] & [f2 F2]).
  repeat split; try congruence.
  - eapply Permutation_trans; eassumption.
  - eapply incl_tran; eassumption.
  - intros x Hx. destruct (A2 x Hx) as [Hb|[Hty Hn]].
    + destruct (A1 x Hb) as [Ha|Hnew]; [left; exact Ha|right; exact Hnew].
    + right. split; [exact Hty|]. intro Hin. apply Hn. apply in_map_iff in Hin. destruct Hin as [y [Hy Hyin]].
      apply in_map_iff. exists y. split; [exact Hy|]. apply I1. exact Hyin.
  - exists (e1 ++ e2)%list. rewrite E2, E1, app_assoc. reflexivity.
  - exists (f1 ++ f2)%list. rewrite F2, F1, app_assoc. reflexivity.
Qed.

Lemma Forall2_refl_in {A} (R : A -> A -> Prop) l : Forall (fun x => R x x) l -> Forall2 R l l.
Proof. induction 1; constructor; assumption. Qed.

Theorem skel_refl : forall r, skel r r.
Proof.
  induction r as [n t ips lo li ps rs cn rp cs ch IH] using routine_ind'.
  apply skel_unfold. split; [apply node_skel_refl|]. cbn [rchildren]. apply Forall2_refl_in. exact IH.
Qed.

Theorem skel_trans : forall a b c, skel a b -> skel b c -> skel a c.
Proof.
  induction a as [n t ips lo li ps rs cn rp cs ch IH] using routine_ind'. intros b c Hab Hbc.
  apply skel_unfold in Hab. apply skel_unfold in Hbc. apply skel_unfold.
  destruct Hab as [Nab Kab], Hbc as [Nbc Kbc]. split; [eapply node_skel_trans; eassumption|].
  cbn [rchildren] in *. revert Kbc. generalize (rchildren c). revert Kab. generalize (rchildren b).
  induction IH as [|x l Hx Hl IHl]; intros lb Kab lc Kbc.
  - inversion Kab; subst. inversion Kbc; subst. constructor.
  - inversion Kab as [|? y ? lb' Hxy Hrest]; subst. inversion Kbc as [|? z ? lc' Hyz Hrest']; subst.
    constructor; [eapply Hx; eassumption|]. eapply IHl; eassumption.
Qed.

(* a change of the node's own fields that leaves the children alone, followed by changes below *)
Lemma skel_node_then r r1 r' : node_skel r r1 -> rchildren r1 = rchildren r -> skel r1 r' -> skel r r'.
Proof.
  intros Hn Hc Hs. apply skel_unfold in Hs. apply skel_unfold. destruct Hs as [Hn' Hk].
  split; [eapply node_skel_trans; eassumption|]. rewrite <- Hc. exact Hk.
Qed.

Lemma node_skel_set_children r ch : node_skel r (set_children r ch).
Proof.
  destruct r. unfold node_skel. cbn. repeat split; try reflexivity.
  - apply incl_refl.
  - intros x Hx. left. exact Hx.
  - exists []. rewrite app_nil_r. reflexivity.
  - exists []. rewrite app_nil_r. reflexivity.
Qed.

Lemma rchildren_set_children r ch : rchildren (set_children r ch) = ch.
Proof. destruct r. reflexivity. Qed.

Lemma mapM_Forall2 {A B} (f : A -> result B) (R : A -> B -> Prop) l :
  (forall a b, In a l -> f a = Ok b -> R a b) -> forall bs, mapM f l = Ok bs -> Forall2 R l bs.
Proof.
  induction l as [|a l IH]; intros H bs Hm; cbn [mapM] in Hm.
  - inversion Hm. constructor.
  - inv_bind Hm. inv_bind Hm. inversion Hm; subst. constructor.
    + apply H; [left; reflexivity|assumption].
    + apply IH; [|assumption]. intros a' b' Hin. apply H. right. exact Hin.
Qed.

(* ------------------------------------------------------------------ postorder_transform *)
Section Postorder.
  Variable f : routine -> result routine.
  Hypothesis Hf : forall r r', f r = Ok r' -> node_skel r r' /\ rchildren r' = rchildren r.

  Lemma postorder_skel fuel : forall r r', postorder f fuel r = Ok r' -> skel r r'.
  Proof.
    induction fuel as [|k IH]; intros r r' H; [discriminate|].
    cbn [postorder] in H. inv_bind H.
    assert (K : Forall2 skel (rchildren r) x) by (eapply mapM_Forall2; [|exact Hb]; intros a b _ Hab; apply IH; exact Hab).
    destruct (Hf _ _ H) as [Hn Hc]. rewrite rchildren_set_children in Hc.
    apply skel_unfold. split.
    - eapply node_skel_trans; [apply node_skel_set_children|exact Hn].
    - rewrite Hc. exact K.
  Qed.
End Postorder.

(* ------------------------------------------------------------------ dict_update, elementwise *)
Lemma dict_update_in {A} (a b : list (string * A)) k v :
  In (k, v) (dict_update a b) ->
  (In (k, v) a /\ lookup k b = None) \/ (In k (keys a) /\ lookup k b = Some v) \/ (In (k, v) b /\ lookup k a = None).
Proof.
  unfold dict_update. intro H. apply in_app_or in H. destruct H as [H|H].
  - apply in_map_iff in H. destruct H as [[k0 v0] [E Hin]]. cbn [fst] in E.
    destruct (lookup k0 b) as [w|] eqn:L; inversion E; subst.
    + right. left. split; [|exact L]. apply in_map_iff. exists (k, v0). split; [reflexivity|exact Hin].
    + left. split; [exact Hin|exact L].
  - apply filter_In in H. destruct H as [Hin Hf]. cbn [fst] in Hf. right. right. split; [exact Hin|].
    destruct (lookup k a); [discriminate|reflexivity].
Qed.

Lemma in_dict_update_left {A} (a b : list (string * A)) k v :
  In (k, v) a -> lookup k b = None -> In (k, v) (dict_update a b).
Proof.
  intros Hin Hb. unfold dict_update. apply in_or_app. left. apply in_map_iff. exists (k, v). cbn [fst]. rewrite Hb. split; [reflexivity|exact Hin].
Qed.

(* ------------------------------------------------------------------ propagate_child_resources *)
Lemma keys_res_dict rs : keys (res_dict rs) = map r_name rs.
Proof. unfold keys, res_dict. rewrite map_map. reflexivity. Qed.

Lemma propagate_child_resources_node_skel r r' :
  propagate_child_resources_node r = Ok r' -> node_skel r r' /\ rchildren r' = rchildren r.
Proof.
  destruct r as [n t ips lo li p rs c rp cs ch]. cbn [propagate_child_resources_node]. intro H. inversion H; subst; clear H.
  split; [|reflexivity]. unfold node_skel. cbn [rname rtype_of rconnections rrep rports rresources rparams rconstraints].
  set (own := res_dict rs).
  set (mk := fun (ty : rtype) (o : op) =>
               flat_map (fun kv : string * list string =>
                           match lookup (fst kv) own with
                           | Some _ => []
                           | None => [(fst kv, Build_resource (fst kv) ty (EOp o (map (fun cn => ESym (dot cn (fst kv))) (snd kv))))]
                           end) (collect_typed ty ch)).
  set (extra := dict_update (mk RAdditive OAdd) (mk RMultiplicative OMul)).
  assert (Hmk : forall ty o k v, In (k, v) (mk ty o) -> r_name v = k /\ r_type v = ty /\ lookup k own = None).
  { intros ty o k v Hin. unfold mk in Hin. apply in_flat_map in Hin. destruct Hin as [kv [_ Hin]].
    destruct (lookup (fst kv) own) eqn:L; [destruct Hin|]. destruct Hin as [E|[]]. inversion E; subst. cbn. auto. }
  assert (Hex : forall k v, In (k, v) extra -> r_name v = k /\ (r_type v = RAdditive \/ r_type v = RMultiplicative) /\ lookup k own = None).
  { intros k v Hin. unfold extra in Hin. apply dict_update_in in Hin. destruct Hin as [[Hin _]|[[_ L]|[Hin _]]].
    - destruct (Hmk _ _ _ _ Hin) as (A & B & C). auto.
    - apply lookup_Some_in in L. destruct (Hmk _ _ _ _ L) as (A & B & C). auto.
    - destruct (Hmk _ _ _ _ Hin) as (A & B & C). auto. }
  assert (Hdis : forall k, lookup k own <> None -> lookup k extra = None).
  { intros k Hk. destruct (lookup k extra) as [v|] eqn:L; [|reflexivity]. apply lookup_Some_in in L.
    destruct (Hex _ _ L) as (_ & _ & C). congruence. }
  repeat split; try reflexivity.
  - intros x Hx. apply in_map_iff. exists (r_name x, x). split; [reflexivity|].
    apply in_dict_update_left.
    + unfold own, res_dict. apply in_map_iff. exists x. split; [reflexivity|exact Hx].
    + apply Hdis. intro L. apply lookup_None_notin in L. apply L. unfold own. rewrite keys_res_dict. apply in_map. exact Hx.
  - intros x Hx. apply in_map_iff in Hx. destruct Hx as [[k v] [E Hin]]. cbn in E. subst v.
    apply dict_update_in in Hin. destruct Hin as [[Hin _]|[[Hk L]|[Hin L]]].
    + left. unfold own, res_dict in Hin. apply in_map_iff in Hin. destruct Hin as [y [E Hy]]. inversion E; subst. exact Hy.
    + exfalso. assert (lookup k own <> None) by (intro N; apply lookup_None_notin in N; exact (N Hk)).
      pose proof (Hdis _ H) as N. assert (L' : lookup k extra = Some x) by exact L. congruence.
    + right. destruct (Hex _ _ Hin) as (A & B & _). split; [exact B|].
      apply lookup_None_notin in L. unfold own in L. rewrite keys_res_dict in L. rewrite A. exact L.
  - exists []. rewrite app_nil_r. reflexivity.
  - exists []. rewrite app_nil_r. reflexivity.
Qed.

(* ------------------------------------------------------------------ promote_unlinked_inputs *)
Lemma promote_unlinked_inputs_node_skel r r' :
  promote_unlinked_inputs_node r = Ok r' -> node_skel r r' /\ rchildren r' = rchildren r.
Proof.
  destruct r as [n t ips lo li p rs c rp cs ch]. cbn [promote_unlinked_inputs_node]. intro H. inversion H; subst; clear H.
  split; [|reflexivity]. unfold node_skel. cbn. repeat split; try reflexivity.
  - apply incl_refl.
  - intros x Hx. left. exact Hx.
  - eexists. reflexivity.
  - exists []. rewrite app_nil_r. reflexivity.
Qed.

(* ------------------------------------------------------------------ introduce_port_variables *)
Lemma insert_port_perm p l : Permutation (insert_port p l) (p :: l).
Proof.
  induction l as [|q l IH]; cbn; [apply Permutation_refl|].
  destruct (port_le p q); [apply Permutation_refl|].
  eapply Permutation_trans; [apply perm_skip; exact IH|apply perm_swap].
Qed.

Lemma sort_ports_perm l : Permutation (sort_ports l) l.
Proof.
  unfold sort_ports. induction l as [|p l IH]; cbn; [constructor|].
  eapply Permutation_trans; [apply insert_port_perm|apply perm_skip; exact IH].
Qed.

Lemma filter_partition_perm {A} (f : A -> bool) l : Permutation (filter (fun x => negb (f x)) l ++ filter f l) l.
Proof.
  induction l as [|a l IH]; cbn; [constructor|].
  destruct (f a); cbn.
  - eapply Permutation_trans; [apply Permutation_sym, Permutation_middle|apply perm_skip; exact IH].
  - apply perm_skip. exact IH.
Qed.

Lemma introduce_port_variables_node_skel r r' :
  introduce_port_variables_node r = Ok r' -> node_skel r r' /\ rchildren r' = rchildren r.
Proof.
  destruct r as [n t ips lo li p rs c rp cs ch]. cbn [introduce_port_variables_node]. intro H.
  inv_bind H. inversion H; subst; clear H. split; [|reflexivity].
  destruct (ipv_loop_inv _ _ _ _ _ Hb) as [[np [Hp [Hsig _]]] [_ [c1 Hc]]]. cbn [st_ports st_constraints app] in Hp, Hc.
  unfold node_skel. cbn [rname rtype_of rconnections rrep rports rresources rparams rconstraints].
  repeat split; try reflexivity.
  - rewrite Hp, map_app.
    assert (E : map port_sig np = map port_sig (sort_ports (filter (fun q => negb (dir_eqb (p_dir q) DOut)) p))) by exact Hsig.
    rewrite E.
    eapply Permutation_trans; [apply Permutation_map, Permutation_sym, (filter_partition_perm (fun q => dir_eqb (p_dir q) DOut))|].
    rewrite map_app. apply Permutation_app_tail. apply Permutation_map, Permutation_sym, sort_ports_perm.
  - apply incl_refl.
  - intros y Hy. left. exact Hy.
  - eexists. reflexivity.
  - exists c1. rewrite Hc. reflexivity.
Qed.

Lemma introduce_port_variables_skel fuel r r' : introduce_port_variables fuel r = Ok r' -> skel r r'.
Proof.
  unfold introduce_port_variables. intro H. inv_bind H. inversion H; subst; clear H.
  apply skel_unfold. split; [apply node_skel_set_children|]. rewrite rchildren_set_children.
  eapply mapM_Forall2; [|exact Hb]. intros a b _ Hab. eapply postorder_skel; [|exact Hab].
  exact introduce_port_variables_node_skel.
Qed.

(* ------------------------------------------------------------------ propagate_linked_params *)
Definition own_fields_only (c c1 : routine) : Prop := node_skel c c1 /\ rchildren c1 = rchildren c.

Lemma own_fields_only_refl c : own_fields_only c c.
Proof. split; [apply node_skel_refl|reflexivity]. Qed.

Lemma own_fields_only_trans a b c : own_fields_only a b -> own_fields_only b c -> own_fields_only a c.
Proof. intros [H1 E1] [H2 E2]. split; [eapply node_skel_trans; eassumption|congruence]. Qed.

Lemma Forall2_trans' {A} (R : A -> A -> Prop) (HR : forall a b c, R a b -> R b c -> R a c) :
  forall l1 l2 l3, Forall2 R l1 l2 -> Forall2 R l2 l3 -> Forall2 R l1 l3.
Proof.
  induction l1 as [|a l1 IH]; intros l2 l3 H12 H23; inversion H12; subst; inversion H23; subst; constructor.
  - eapply HR; eassumption.
  - eapply IH; eassumption.
Qed.

Lemma Forall2_refl' {A} (R : A -> A -> Prop) (HR : forall a, R a a) l : Forall2 R l l.
Proof. induction l; constructor; auto. Qed.

Lemma add_param_and_link_own new_ip further param c : own_fields_only c (add_param_and_link new_ip further param c).
Proof.
  destruct c as [n t ips lo li p rs cn rp cs ch]. split; [|reflexivity].
  unfold node_skel. cbn. repeat split; try reflexivity.
  - apply incl_refl.
  - intros x Hx. left. exact Hx.
  - eexists. reflexivity.
  - exists []. rewrite app_nil_r. reflexivity.
Qed.

Lemma update_child_own n f cs cs' :
  (forall c, own_fields_only c (f c)) -> update_child n f cs = Some cs' -> Forall2 own_fields_only cs cs'.
Proof.
  intro Hf. revert cs'. induction cs as [|c cs IH]; intros cs' H; cbn [update_child] in H; [discriminate|].
  destruct (String.eqb (rname c) n).
  - inversion H; subst. constructor; [apply Hf|apply Forall2_refl', own_fields_only_refl].
  - destruct (update_child n f cs) as [r|] eqn:E; [|discriminate]. inversion H; subst.
    constructor; [apply own_fields_only_refl|apply IH; reflexivity].
Qed.

Lemma plp_targets_own targets : forall children res,
  plp_targets targets children = Ok res -> Forall2 own_fields_only children (snd res).
Proof.
  induction targets as [|[path param] rest IH]; intros children res H; cbn [plp_targets] in H.
  - inversion H; subst. apply Forall2_refl', own_fields_only_refl.
  - destruct (split_first_dot path) as [[child_path further]|].
    + inv_bind H. inv_bind H. inversion H; subst; clear H. cbn [snd].
      apply of_opt_Ok in Hb; [|intros b Hx; discriminate].
      eapply (Forall2_trans' _ own_fields_only_trans).
      * eapply update_child_own; [|exact Hb]. intro c. apply add_param_and_link_own.
      * apply IH. exact Hb0.
    + inv_bind H. inversion H; subst; clear H. cbn [snd]. apply IH. exact Hb.
Qed.

Lemma plp_links_own links : forall children res,
  plp_links links children = Ok res -> Forall2 own_fields_only children (snd res).
Proof.
  induction links as [|[src targets] rest IH]; intros children res H; cbn [plp_links] in H.
  - inversion H; subst. apply Forall2_refl', own_fields_only_refl.
  - inv_bind H. inv_bind H. inversion H; subst; clear H. cbn [snd].
    eapply (Forall2_trans' _ own_fields_only_trans); [eapply plp_targets_own; exact Hb|apply IH; exact Hb0].
Qed.

Lemma propagate_linked_params_skel fuel : forall r r', propagate_linked_params fuel r = Ok r' -> skel r r'.
Proof.
  induction fuel as [|k IH]; intros r r' H; [discriminate|].
  destruct r as [n t ips lo li p rs c rp cs ch]. cbn [propagate_linked_params] in H.
  inv_bind H. inv_bind H. inversion H; subst; clear H.
  apply skel_unfold. split.
  - unfold node_skel. cbn. repeat split; try reflexivity.
    + apply incl_refl.
    + intros y Hy. left. exact Hy.
    + exists []. rewrite app_nil_r. reflexivity.
    + exists []. rewrite app_nil_r. reflexivity.
  - cbn [rchildren].
    pose proof (plp_links_own _ _ _ Hb) as H1.
    assert (H2 : Forall2 skel (snd x) x0) by (eapply mapM_Forall2; [|exact Hb0]; intros a b _ Hab; apply IH; exact Hab).
    clear - H1 H2. revert x0 H2. induction H1 as [|a b la lb [Hn Hc] Hrest IHr]; intros l3 H2; inversion H2; subst; constructor.
    + eapply skel_node_then; eassumption.
    + apply IHr. assumption.
Qed.

(* ------------------------------------------------------------------ the pipeline *)
Lemma stage_by_name_skel s fuel r r' : stage_by_name s fuel r = Ok r' -> skel r r'.
Proof.
  unfold stage_by_name.
  destruct (String.eqb s "propagate_child_resources"); [apply postorder_skel, propagate_child_resources_node_skel|].
  destruct (String.eqb s "propagate_linked_params"); [apply propagate_linked_params_skel|].
  destruct (String.eqb s "promote_unlinked_inputs"); [apply postorder_skel, promote_unlinked_inputs_node_skel|].
  destruct (String.eqb s "introduce_port_variables"); [apply introduce_port_variables_skel|discriminate].
Qed.

Lemma fold_stages_skel (stages : list string) : forall (acc : result routine) r',
  fold_left (fun acc s => do x <- acc; stage_by_name s (S (height x)) x) stages acc = Ok r' ->
  exists r0, acc = Ok r0 /\ skel r0 r'.
Proof.
  induction stages as [|s stages IH]; intros acc r' H; cbn [fold_left] in H.
  - exists r'. split; [exact H|apply skel_refl].
  - apply IH in H. destruct H as [r1 [H1 H2]]. inv_bind H1. exists x. split; [exact Hb|].
    eapply skel_trans; [eapply stage_by_name_skel; exact H1|exact H2].
Qed.

(* whatever the generated list of stages is *)
Theorem preprocess_skel r ir : preprocess r = Ok ir -> skel r ir.
Proof.
  unfold preprocess. intro H. apply fold_stages_skel in H. destruct H as [r0 [E H]]. inversion E; subst. exact H.
Qed.

(* ------------------------------------------------------------------ go: the whole tree, any carrier *)
Section Shape.
  Variable D : Type.
  Variable ev : list (string * D) -> expr -> result D.
  Variable statusD : D -> D -> cstatus.
  Variable fvD : D -> list string.

  Definition node_shape (r : routine) (t : ctree D) : Prop :=
    ct_name t = rname r /\ ct_type t = rtype_of r /\ ct_connections t = rconnections r /\
    map (cport_sig D) (ct_ports t) = map port_sig (filter non_output (rports r) ++ filter is_output (rports r)) /\
    (rrep r = None -> names_types (ct_resources t) = map res_sig (rresources r)).

  (* every node of the tree is the image of the routine it was compiled from; its children are the images of the
     routine's children, in the order the wiring dictates *)
  Inductive shape_ok : routine -> ctree D -> Prop :=
  | ShapeOk r t order :
      node_shape r t ->
      children_order (rchildren r) (rconnections r) = Some order ->
      Forall2 (fun n k => exists c, find_child n (rchildren r) = Some c /\ shape_ok c k) order (ct_children t) ->
      shape_ok r t.

  Section Children.
    Variable rec : routine -> list (string * D) -> result (ctree D).
    Variable P : routine -> ctree D -> Prop.
    Hypothesis Hrec : forall c ins t, rec c ins = Ok t -> P c t.

    Lemma compile_children_rel names children conns : forall pm acc pm' kids,
        compile_children rec names children conns pm acc = Ok (pm', kids) ->
        exists new, kids = (rev acc ++ new)%list /\
                    Forall2 (fun n k => exists c, find_child n children = Some c /\ P c k) names new.
    Proof.
      induction names as [|n names IH]; intros pm acc pm' kids H; cbn [compile_children] in H.
      - inversion H; subst. exists []. rewrite app_nil_r. split; [reflexivity|constructor].
      - inv_bind H. inv_bind H. inv_bind H. inv_bind H.
        destruct (IH _ _ _ _ H) as [new [E F]]. exists (x1 :: new). split.
        + rewrite E. cbn [rev]. rewrite <- app_assoc. reflexivity.
        + constructor; [|exact F]. apply of_opt_Ok in Hb; [|intros b Hx; discriminate].
          exists x. split; [exact Hb|]. eapply Hrec. exact Hb1.
    Qed.

    Lemma go_node_children r inputs t :
      go_node ev statusD fvD rec r inputs = Ok t ->
      exists order, children_order (rchildren r) (rconnections r) = Some order /\
                    Forall2 (fun n k => exists c, find_child n (rchildren r) = Some c /\ P c k) order (ct_children t).
    Proof.
      destruct r as [name type ips locals links ports resources conns rep constraints children].
      cbn [go_node]. intro H.
      inv_bind H. inv_bind H. inv_bind H. inv_bind H. inv_bind H. inv_bind H. inv_bind H. inv_bind H.
      destruct x6 as [pm3 kids]. inv_bind H. inv_bind H. inv_bind H. inv_bind H. inversion H; subst; clear H.
      cbn [rchildren rconnections ct_children]. exists x5. split.
      - apply of_opt_Ok in Hb5; [exact Hb5|intros b Hx; discriminate].
      - destruct (compile_children_rel _ _ _ _ _ _ _ Hb6) as [new [E F]]. cbn in E. subst kids. exact F.
    Qed.
  End Children.

  Theorem go_shape fuel : forall r inputs t, go ev statusD fvD fuel r inputs = Ok t -> shape_ok r t.
  Proof.
    induction fuel as [|fuel IH]; intros r inputs t H; [discriminate|].
    pose proof (go_structure D ev statusD fvD (S fuel) r inputs t H) as (A & B & C & P1 & R1 & _).
    cbn [go] in H.
    destruct (go_node_children (go ev statusD fvD fuel) shape_ok (fun c ins t' Hc => IH c ins t' Hc) r inputs t H) as [order [Ho F]].
    econstructor; [|exact Ho|exact F]. repeat split; assumption.
  Qed.

  (* ---------- counting: with distinct child names at every node, the tree has exactly the routine's nodes ---------- *)
  Fixpoint nodes_r (r : routine) : nat :=
    match r with Routine _ _ _ _ _ _ _ _ _ _ ch => S (list_sum (map nodes_r ch)) end.
  Fixpoint nodes_t (t : ctree D) : nat :=
    match t with CT _ _ _ _ _ _ _ _ _ kids => S (list_sum (map nodes_t kids)) end.
  Fixpoint names_distinct (r : routine) : Prop :=
    match r with
    | Routine _ _ _ _ _ _ _ _ _ _ ch =>
        NoDup (map rname ch) /\ (fix all (l : list routine) : Prop := match l with [] => True | c :: l' => names_distinct c /\ all l' end) ch
    end.

  Lemma names_distinct_unfold r :
    names_distinct r <-> NoDup (map rname (rchildren r)) /\ Forall names_distinct (rchildren r).
  Proof.
    destruct r as [n t ips lo li p rs c rp cs ch]. cbn [names_distinct rchildren].
    assert (E : forall l, (fix all (l : list routine) : Prop := match l with [] => True | c :: l' => names_distinct c /\ all l' end) l
                          <-> Forall names_distinct l).
    { intro l. induction l as [|a l IHl]; split; intro H.
      - constructor.
      - exact I.
      - destruct H as [H1 H2]. constructor; [exact H1|]. apply IHl. exact H2.
      - inversion H; subst. split; [assumption|]. apply IHl. assumption. }
    rewrite E. reflexivity.
  Qed.

  Lemma find_child_self cs c : NoDup (map rname cs) -> In c cs -> find_child (rname c) cs = Some c.
  Proof.
    induction cs as [|x cs IH]; intros Hnd Hin; [destruct Hin|]. cbn [find_child].
    cbn [map] in Hnd. inversion Hnd as [|? ? Hnot Hnd']; subst.
    destruct Hin as [E|Hin].
    - subst. rewrite String.eqb_refl. reflexivity.
    - destruct (String.eqb (rname x) (rname c)) eqn:E.
      + apply String.eqb_eq in E. exfalso. apply Hnot. rewrite E. apply in_map. exact Hin.
      + apply IH; assumption.
  Qed.

  Lemma find_child_in n cs c : find_child n cs = Some c -> In c cs.
  Proof.
    induction cs as [|x cs IH]; cbn; [discriminate|]. destruct (String.eqb (rname x) n); intro H; [inversion H; left; reflexivity|right; apply IH; exact H].
  Qed.

  Lemma list_sum_cons a l : list_sum (a :: l) = a + list_sum l.
  Proof. reflexivity. Qed.

  (* the sum of g over the kids, matched by name through a permutation of the children's names, is the sum of f over the children *)
  Lemma sum_by_names (f : routine -> nat) (g : ctree D -> nat) cs : NoDup (map rname cs) ->
    forall order kids, Permutation order (map rname cs) ->
      Forall2 (fun n k => exists c, find_child n cs = Some c /\ g k = f c) order kids ->
      list_sum (map g kids) = list_sum (map f cs).
  Proof.
    intros Hnd order kids Hperm HF.
    assert (E1 : list_sum (map g kids) = list_sum (map (fun n => match find_child n cs with Some c => f c | None => 0 end) order)).
    { clear Hperm. induction HF as [|n k order kids [c [Hc Hg]] _ IH]; [reflexivity|].
      cbn [map]. rewrite Hc. rewrite !list_sum_cons. rewrite Hg, IH. reflexivity. }
    rewrite E1.
    assert (E2 : list_sum (map (fun n => match find_child n cs with Some c => f c | None => 0 end) order)
                 = list_sum (map (fun n => match find_child n cs with Some c => f c | None => 0 end) (map rname cs))).
    { clear - Hperm. induction Hperm; cbn [map]; rewrite ?list_sum_cons; lia. }
    rewrite E2, map_map. f_equal. apply map_ext_in. intros c Hc. rewrite (find_child_self _ _ Hnd Hc). reflexivity.
  Qed.

  Theorem go_nodes fuel : forall r inputs t,
      names_distinct r -> go ev statusD fvD fuel r inputs = Ok t -> nodes_t t = nodes_r r.
  Proof.
    induction fuel as [|fuel IH]; intros r inputs t Hd H; [discriminate|].
    cbn [go] in H.
    destruct (go_node_children (go ev statusD fvD fuel) (fun c k => names_distinct c -> nodes_t k = nodes_r c)
                               (fun c ins t' Hc Hdc => IH c ins t' Hdc Hc) r inputs t H) as [order [Ho F]].
    apply names_distinct_unfold in Hd. destruct Hd as [Hnd Hall].
    destruct (children_order_topological _ _ _ Hnd Ho) as [Hperm _].
    destruct r as [n ty ips lo li p rs c rp cs ch], t as [tn tt tins tsp tports tres tconns trep tcs kids].
    cbn [nodes_t nodes_r rchildren ct_children] in *. f_equal.
    apply (sum_by_names nodes_r nodes_t ch Hnd order kids Hperm).
    clear - F Hall. induction F as [|a b la lb [c0 [Hc0 Himp]] _ IHF]; constructor; [|exact IHF].
    exists c0. split; [exact Hc0|].
    apply Himp. rewrite Forall_forall in Hall. apply Hall. eapply find_child_in. exact Hc0.
  Qed.
End Shape.

(* ------------------------------------------------------------------ C10 for the whole pipeline *)
Theorem compile_routine_whole_tree r t :
  compile_routine r = Ok t -> exists ir, preprocess r = Ok ir /\ skel r ir /\ shape_ok expr ir t.
Proof.
  unfold compile_routine. intro H. inv_bind H. exists x. split; [exact Hb|]. split; [apply preprocess_skel; exact Hb|].
  unfold compile_ir in H. eapply go_shape. exact H.
Qed.

(* the root, spelled out: every resource the source defines at the root is a resource of the compiled root with the
   same name and type, and every other resource of the compiled root is additive or multiplicative *)
Theorem compile_routine_root_resources r t :
  compile_routine r = Ok t -> rrep r = None ->
  (forall x, In x (rresources r) -> In (r_name x, r_type x) (names_types (ct_resources t))) /\
  (forall nt, In nt (names_types (ct_resources t)) ->
              In nt (map res_sig (rresources r)) \/ ((snd nt = RAdditive \/ snd nt = RMultiplicative) /\ ~ In (fst nt) (map r_name (rresources r)))).
Proof.
  intros H Hrep. destruct (compile_routine_whole_tree _ _ H) as [ir [_ [Hs Hsh]]].
  apply skel_unfold in Hs. destruct Hs as [(N & T & C & R & P & I & A & _) _].
  inversion Hsh as [? ? order Hn _ _]; subst. destruct Hn as (_ & _ & _ & _ & Hres).
  rewrite <- R in Hres. specialize (Hres Hrep). rewrite Hres. split.
  - intros x Hx. apply (in_map res_sig) in Hx. apply in_map_iff. apply in_map_iff in Hx. destruct Hx as [y [E Hy]].
    exists y. split; [exact E|]. apply I. exact Hy.
  - intros nt Hnt. apply in_map_iff in Hnt. destruct Hnt as [y [E Hy]]. subst nt. destruct (A y Hy) as [Hin|[Hty Hnew]].
    + left. apply in_map. exact Hin.
    + right. cbn. split; assumption.
Qed.
