(* Rep.v — the generated repetition formulas equal the unrolled sums/products,
   for every natural count, by induction.  The definitions gen_* come from
   generated/GenRepetitions.v, i.e. from the current repetitions.py. *)
From Coq Require Import List String QArith ZArith Bool Qround Qreduction Qpower Field Ring Lia Setoid.
From Bq Require Import Expr ExprFacts StdSem StdSemFacts.
From BqGen Require Import GenRepetitions.
Import ListNotations.
Open Scope string_scope.
Open Scope Q_scope.

(* ---------- unrolled sums / products (the specification side) ---------- *)

Fixpoint sumn (n : nat) (f : nat -> Q) : Q :=
  match n with O => 0 | S k => sumn k f + f k end.
Fixpoint prodn (n : nat) (f : nat -> Q) : Q :=
  match n with O => 1 | S k => prodn k f * f k end.
Definition ofn (n : nat) : Q := inject_Z (Z.of_nat n).

Lemma ofn_S n : ofn (S n) == ofn n + 1.
Proof. unfold ofn. rewrite Nat2Z.inj_succ. unfold Z.succ. rewrite inject_Z_plus. reflexivity. Qed.

Lemma sumn_ext n f g : (forall k, (k < n)%nat -> f k == g k) -> sumn n f == sumn n g.
Proof.
  induction n as [|n IH]; intro H; cbn; [reflexivity|].
  rewrite IH, (H n) by (intros; try apply H; lia). reflexivity.
Qed.

Lemma prodn_ext n f g : (forall k, (k < n)%nat -> f k == g k) -> prodn n f == prodn n g.
Proof.
  induction n as [|n IH]; intro H; cbn; [reflexivity|].
  rewrite IH, (H n) by (intros; try apply H; lia). reflexivity.
Qed.

(* ---------- evaluation of the smart constructors ---------- *)

Lemma evalT_emul r a b : evalT r (emul a b) == evalT r a * evalT r b.
Proof. unfold evalT; cbn. ring. Qed.
Lemma evalT_eadd r a b : evalT r (eadd a b) == evalT r a + evalT r b.
Proof. unfold evalT; cbn. ring. Qed.
Lemma evalT_esub r a b : evalT r (esub a b) = evalT r a - evalT r b.
Proof. reflexivity. Qed.
Lemma evalT_ediv r a b : evalT r (ediv a b) = evalT r a / evalT r b.
Proof. reflexivity. Qed.
Lemma evalT_epow r a b : evalT r (epow a b) = Qpow_std (evalT r a) (evalT r b).
Proof. reflexivity. Qed.
Lemma evalT_EZ r z : evalT r (EZ z) = inject_Z z.
Proof. reflexivity. Qed.
Lemma evalT_ENum r q : evalT r (ENum q) = q.
Proof. reflexivity. Qed.
Lemma evalT_eneg r a : evalT r (eneg a) = - evalT r a.
Proof. reflexivity. Qed.

(* push evalT through whatever arithmetic shape the generated formula has, so
   that harmless rewrites of the Python formula do not break the proofs *)
Ltac evalT_norm :=
  repeat first [ rewrite evalT_emul | rewrite evalT_eadd | rewrite evalT_esub | rewrite evalT_ediv
               | rewrite evalT_EZ | rewrite evalT_ENum | rewrite evalT_eneg ].

(* closes the arithmetic left by an induction step whatever algebraic shape the translated formula has
   (a harmless rewrite of the source formula -- `x * 0.5` into `x / 2`, a reordering -- must not break the proof) *)
Ltac qsolve := first [ ring | field | (field; first [assumption | discriminate | (intro; discriminate)]) ].

Lemma is_int_ofn n : is_int (ofn n) = true.
Proof. apply is_int_inject. Qed.
Lemma to_int_ofn n : to_int (ofn n) = Z.of_nat n.
Proof. apply to_int_inject. Qed.

Lemma Qpow_std_nat x y n : y == ofn n -> Qpow_std x y = Qpower x (Z.of_nat n).
Proof.
  intro H. unfold Qpow_std. rewrite (is_int_compat _ _ H), is_int_ofn.
  rewrite (to_int_compat _ _ H), to_int_ofn. reflexivity.
Qed.

Lemma Qpower_S x n : Qpower x (Z.of_nat (S n)) == Qpower x (Z.of_nat n) * x.
Proof.
  rewrite Nat2Z.inj_succ. unfold Z.succ.
  destruct (Qeq_dec x 0) as [Hx|Hx].
  - rewrite Hx. destruct n as [|n].
    + cbn. ring.
    + rewrite Qpower_0 by lia. rewrite Qpower_0 by lia. ring.
  - rewrite Qpower_plus by exact Hx. change (x ^ 1) with x. reflexivity.
Qed.

(* ---------- constant sequence ---------- *)

Theorem const_sum_correct r m e cnt n :
  evalT r cnt == ofn n ->
  exists g, gen_ConstantSequence_get_sum m e cnt = Some g /\
            evalT r g == sumn n (fun _ => evalT r m * evalT r e).
Proof.
  intro Hc. eexists. split; [reflexivity|].
  evalT_norm. rewrite Hc. clear Hc.
  induction n as [|n IH]; cbn [sumn].
  - unfold ofn; cbn. qsolve.
  - rewrite <- IH, ofn_S. qsolve.
Qed.

Lemma Qpower_add_nat x a b :
  Qpower x (Z.of_nat (a + b)) == Qpower x (Z.of_nat a) * Qpower x (Z.of_nat b).
Proof.
  induction b as [|b IHb].
  - rewrite Nat.add_0_r. change (Z.of_nat 0) with 0%Z. cbn [Qpower]. ring.
  - replace (a + S b)%nat with (S (a + b)) by lia. rewrite !Qpower_S, IHb. ring.
Qed.

Lemma prodn_const_pow x k n :
  prodn n (fun _ => Qpower x (Z.of_nat k)) == Qpower x (Z.of_nat (n * k)).
Proof.
  induction n as [|n IH]; cbn [prodn].
  - cbn. reflexivity.
  - rewrite IH. replace (S n * k)%nat with (n * k + k)%nat by lia.
    rewrite Qpower_add_nat. reflexivity.
Qed.

(* multiplicative resource under a constant sequence: child ^ (count * multiplier) *)
Theorem const_prod_correct r m e cnt n k :
  evalT r cnt == ofn n -> evalT r m == ofn k ->
  exists g, gen_ConstantSequence_get_prod m e cnt = Some g /\
            evalT r g == prodn n (fun _ => Qpower (evalT r e) (Z.of_nat k)).
Proof.
  intros Hc Hm. eexists. split; [reflexivity|].
  rewrite evalT_epow.
  assert (Hx : evalT r (emul cnt m) == ofn (n * k)).
  { rewrite evalT_emul, Hc, Hm. unfold ofn. rewrite Nat2Z.inj_mul, inject_Z_mult. reflexivity. }
  rewrite (Qpow_std_nat _ _ _ Hx). symmetry. apply prodn_const_pow.
Qed.

(* ---------- arithmetic sequence ---------- *)

(* multiplicative resource under an arithmetic sequence whose difference is the literal 0 (a constant progression, finding
   F27): the unrolled product of initial_term * child over the rounds *)
Theorem arith_prod_zero_difference_correct r a q e cnt n :
  Qeq_bool q 0 = true -> evalT r cnt == ofn n ->
  exists g, gen_ArithmeticSequence_get_prod a (ENum q) e cnt = Some g /\
            evalT r g == prodn n (fun _ => evalT r a * evalT r e).
Proof.
  intros Hq Hc. unfold gen_ArithmeticSequence_get_prod. cbn [is_zero_lit]. rewrite Hq.
  eexists. split; [reflexivity|].
  rewrite evalT_epow, (Qpow_std_nat _ _ _ Hc).
  assert (Hm : evalT r (emul a e) == evalT r a * evalT r e) by apply evalT_emul.
  clear Hc. induction n as [|n IH]; cbn [prodn].
  - cbn. reflexivity.
  - rewrite Qpower_S, IH, Hm. reflexivity.
Qed.

Theorem arith_sum_correct r a d e cnt n :
  evalT r cnt == ofn n ->
  exists g, gen_ArithmeticSequence_get_sum a d e cnt = Some g /\
            evalT r g == sumn n (fun i => (evalT r a + ofn i * evalT r d) * evalT r e).
Proof.
  intro Hc. eexists. split; [reflexivity|].
  evalT_norm. rewrite Hc. clear Hc.
  induction n as [|n IH]; cbn [sumn].
  - unfold ofn; cbn. qsolve.
  - rewrite <- IH, ofn_S. qsolve.
Qed.

(* ---------- geometric sequence, ratio other than 1 ---------- *)

Theorem geom_sum_correct r q e cnt n :
  evalT r cnt == ofn n -> ~ evalT r q == 1 ->
  exists g, gen_GeometricSequence_get_sum q e cnt = Some g /\
            evalT r g == sumn n (fun i => Qpower (evalT r q) (Z.of_nat i) * evalT r e).
Proof.
  intros Hc Hq. eexists. split; [reflexivity|].
  evalT_norm. rewrite evalT_epow, (Qpow_std_nat _ _ _ Hc). clear Hc.
  set (Q0 := evalT r q) in *. set (E0 := evalT r e).
  assert (Hne : ~ inject_Z 1 - Q0 == 0).
  { intro H. apply Hq. setoid_replace Q0 with (inject_Z 1 - (inject_Z 1 - Q0)) by ring. rewrite H. reflexivity. }
  induction n as [|n IH]; cbn [sumn].
  - change (Z.of_nat 0) with 0%Z. cbn [Qpower]. field. exact Hne.
  - rewrite <- IH, Qpower_S. field. exact Hne.
Qed.

(* ---------- closed-form sequence: child times the user's formula taken at count ---------- *)

Theorem closed_sum_correct r (s : expr) prod nts e cnt :
  captures [(nts, cnt)] s = false ->
  exists g, gen_ClosedFormSequence_get_sum (Some s) prod nts e cnt = Some g /\
            evalT r g == evalT r e * evalT (upd r nts (evalT r cnt)) s.
Proof.
  intro Hcap. eexists. split; [reflexivity|].
  rewrite evalT_emul, (evalT_subst _ _ _ Hcap).
  apply Qmult_comp; [reflexivity|].
  rewrite (evalT_ext s _ (upd r nts (evalT r cnt))); [reflexivity|].
  intro x. unfold env_after, upd. cbn [lookup]. destruct (String.eqb x nts); reflexivity.
Qed.

Theorem closed_sum_undefined prod nts e cnt :
  gen_ClosedFormSequence_get_sum None prod nts e cnt = None.
Proof. reflexivity. Qed.

(* ---------- custom sequence: Sum object over the iterator ---------- *)

Lemma bigQ_sum_sumn f n : bigQ BSum f 0 n == sumn n (fun k => f (ofn k)).
Proof.
  induction n as [|n IH]; cbn [bigQ sumn]; [reflexivity|]. rewrite IH. reflexivity.
Qed.

Theorem custom_sum_correct r term it e cnt n :
  evalT r cnt == ofn n -> ~ In it (fv e) ->
  exists g, gen_CustomSequence_get_sum term it e cnt = Some g /\
            evalT r g == sumn n (fun k => evalT (upd r it (ofn k)) term * evalT r e).
Proof.
  intros Hc Hfresh. eexists. split; [reflexivity|].
  unfold evalT at 1. cbn [eval].
  change (eval idQ stdI stdB r (EZ 0)) with (inject_Z 0).
  change (eval idQ stdI stdB r (esub cnt (EZ 1))) with (evalT r cnt - inject_Z 1).
  assert (Hhi : evalT r cnt - inject_Z 1 == inject_Z (Z.of_nat n - 1)).
  { rewrite Hc. unfold ofn, Z.sub. rewrite inject_Z_plus. reflexivity. }
  assert (His : is_int (evalT r cnt - inject_Z 1) = true).
  { rewrite (is_int_compat _ _ Hhi). apply is_int_inject. }
  assert (Hto : to_int (evalT r cnt - inject_Z 1) = (Z.of_nat n - 1)%Z).
  { rewrite (to_int_compat _ _ Hhi). apply to_int_inject. }
  unfold stdB at 1. rewrite His, Hto, is_int_inject, to_int_inject. cbn [andb].
  replace (Z.to_nat (Z.of_nat n - 1 - 0 + 1)) with n by lia.
  rewrite bigQ_sum_sumn. apply sumn_ext. intros k _.
  change (eval idQ stdI stdB ?rr (emul term e)) with (evalT rr (emul term e)).
  rewrite evalT_emul. apply Qmult_comp; [reflexivity|].
  rewrite (evalT_ext_fv e (upd r it (ofn k)) r); [reflexivity|].
  intros x Hx. unfold upd. destruct (String.eqb x it) eqn:E; [|reflexivity].
  apply String.eqb_eq in E. subst. contradiction.
Qed.

(* non-vacuity: a concrete repetition meets the hypotheses of each theorem *)
Example rep_hyps_satisfiable :
  let r := fun x => if String.eqb x "K" then 5 else if String.eqb x "q" then 3 else 2 in
  evalT r (ESym "K") == ofn 5 /\ ~ evalT r (ESym "q") == 1 /\ ~ In "i" (fv (ESym "T")) /\
  captures [("k", ESym "K")] (emul (ESym "k") (ESym "x")) = false.
Proof. cbn. repeat split; try reflexivity; try (intro H; discriminate H). intros [H|[]]. discriminate H. Qed.
