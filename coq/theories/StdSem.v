(* StdSem.v — the standard reading of the operators over exact rationals.
   evalT : total (junk value 0 where mathematics is undefined), used in theorems
           through the generic [eval];
   evalQ : partial ([None] where undefined), reduced with Qred after every step,
           used by the generated case files. *)
From Coq Require Import List String QArith ZArith Bool Qround Qreduction Qpower Qminmax Ascii.
From Bq Require Import Expr.
Import ListNotations.
Open Scope string_scope.
Open Scope Q_scope.

Definition is_int (q : Q) : bool := Pos.eqb (Qden (Qred q)) 1.
Definition to_int (q : Q) : Z := Qnum (Qred q).

Definition Qpow_std (x y : Q) : Q := if is_int y then Qpower x (to_int y) else 0.
Definition Qfloordiv (a b : Q) : Q := inject_Z (Qfloor (a / b)).
Definition Qmod_std (a b : Q) : Q := a - b * Qfloordiv a b.

Fixpoint str_hash (s : string) : Z :=
  match s with
  | EmptyString => 7%Z
  | String c s' => (Z.of_nat (nat_of_ascii c) + 3 * str_hash s' mod 1009)%Z
  end.

(* fixed non-linear reading of an uninterpreted function: argument order and
   the function name both matter *)
Fixpoint fun_args (k : Z) (args : list Q) : Q :=
  match args with
  | [] => 0
  | a :: rest => inject_Z (k + 1) * a * a + inject_Z (k + 3) * a + fun_args (k + 1) rest
  end.
Definition funQ (f : string) (args : list Q) : Q := inject_Z (str_hash f) + fun_args 0 args.

Definition stdI (o : op) (args : list Q) : Q :=
  match o, args with
  | OAdd, _ => fold_right Qplus 0 args
  | OMul, _ => fold_right Qmult 1 args
  | OSub, [a; b] => a - b
  | ODiv, [a; b] => a / b
  | OPow, [a; b] => Qpow_std a b
  | ONeg, [a] => - a
  | OFloorDiv, [a; b] => Qfloordiv a b
  | OMod, [a; b] => Qmod_std a b
  | OMax, a :: rest => fold_right Qmax a rest
  | OMin, a :: rest => fold_right Qmin a rest
  | OFloor, [a] => inject_Z (Qfloor a)
  | OCeil, [a] => inject_Z (Qceiling a)
  | OFun f, _ => funQ f args
  | _, _ => 0
  end.

(* sum / product of f over the integers lo .. hi (empty when hi < lo) *)
Fixpoint bigQ (k : bigop) (f : Q -> Q) (lo : Z) (n : nat) : Q :=
  match n with
  | O => match k with BSum => 0 | BProd => 1 end
  | S n' =>
      let rest := bigQ k f lo n' in
      let t := f (inject_Z (lo + Z.of_nat n')) in
      match k with BSum => rest + t | BProd => rest * t end
  end.

Definition stdB (k : bigop) (f : Q -> Q) (lo hi : Q) : Q :=
  if is_int lo && is_int hi then bigQ k f (to_int lo) (Z.to_nat (to_int hi - to_int lo + 1)) else 0.

Definition idQ (q : Q) : Q := q.
Definition evalT : (string -> Q) -> expr -> Q := eval idQ stdI stdB.

(* ---------- partial, reduced version for execution ---------- *)

Fixpoint all_some {A} (l : list (option A)) : option (list A) :=
  match l with
  | [] => Some []
  | Some a :: l' => match all_some l' with Some r => Some (a :: r) | None => None end
  | None :: _ => None
  end.

Definition Qzero (q : Q) : bool := Z.eqb (Qnum q) 0.

(* exact square root of a non-negative rational in lowest terms, when it exists *)
Definition qsqrt (q : Q) : option Q :=
  let n := Qnum q in let d := Zpos (Qden q) in
  if Z.ltb n 0 then None
  else let rn := Z.sqrt n in let rd := Z.sqrt d in
       if Z.eqb (rn * rn) n && Z.eqb (rd * rd) d then Some (Qred (Qmake rn (Z.to_pos rd))) else None.

(* gamma at the natural numbers 1..40 is a factorial (what sympy folds it to); elsewhere it has no rational value *)
Fixpoint zfact (n : nat) : Z := match n with O => 1%Z | S k => (Z.of_nat (S k) * zfact k)%Z end.
Definition gammaQ (a : Q) : option Q :=
  if is_int a && Z.leb 1 (to_int a) && Z.leb (to_int a) 40 then Some (inject_Z (zfact (Z.to_nat (to_int a - 1)))) else None.

(* case files only evaluate powers of moderate size: beyond about 40000 bits a value is left undecided *)
Definition pow_too_big (a : Q) (e : Z) : bool :=
  Z.ltb 40000 ((Z.log2 (Z.abs (Qnum a)) + Z.log2 (Z.pos (Qden a)) + 1) * Z.abs e).

(* bartiq's sgn: the sign of a number, zero within 1e-12 of zero *)
Definition sgnQ (a : Q) : Q :=
  if Qle_bool a (- (1 # 1000000000000)) && negb (Qeq_bool a (- (1 # 1000000000000))) then (-1)
  else if Qle_bool (1 # 1000000000000) a && negb (Qeq_bool a (1 # 1000000000000)) then 1 else 0.

(* round(x) / round(x, n) on an exact number: to the nearest multiple of 10^(-n), ties to the EVEN multiple (what sympy's
   round does on a Rational: round(5/2) = 2, round(7/2) = 4, round(12350, -2) = 12400, round(12450, -2) = 12400) *)
Definition round_half_even (q : Q) : Z :=
  let f := Qfloor q in
  match Qcompare (q - inject_Z f) (1 # 2) with
  | Lt => f
  | Gt => (f + 1)%Z
  | Eq => if Z.even f then f else (f + 1)%Z
  end.

Definition roundQ (a : Q) (n : Z) : Q :=
  if Z.leb 0 n then Qred (inject_Z (round_half_even (a * inject_Z (10 ^ n))) / inject_Z (10 ^ n))
  else Qred (inject_Z (round_half_even (a / inject_Z (10 ^ (- n)))) * inject_Z (10 ^ (- n))).

(* multiplicity(p, n): the exponent of p in n, for integers p >= 2 and n <> 0 (of |n|: the sign carries no factor) *)
Fixpoint padic (fuel : nat) (p n : Z) : Z :=
  match fuel with
  | O => 0
  | S f => if Z.eqb (n mod p) 0 then (1 + padic f p (n / p))%Z else 0%Z
  end.
Definition multiplicityQ (p n : Q) : option Q :=
  if is_int p && is_int n && Z.leb 2 (to_int p) && negb (Z.eqb (to_int n) 0) && Z.ltb (Z.abs (to_int n)) (2 ^ 200)
  then Some (inject_Z (padic 200 (to_int p) (Z.abs (to_int n)))) else None.

Definition stdIo (o : op) (args : list Q) : option Q :=
  match o, args with
  | OAdd, _ => Some (Qred (fold_right (fun a b => Qred (a + b)) 0 args))
  | OMul, _ => Some (Qred (fold_right (fun a b => Qred (a * b)) 1 args))
  | OSub, [a; b] => Some (Qred (a - b))
  | ODiv, [a; b] => if Qzero b then None else Some (Qred (a / b))
  | OPow, [a; b] =>
      if is_int b then
        if Qzero a && Z.ltb (to_int b) 0 then None
        else if Z.ltb 4000 (Z.abs (to_int b)) then None
        else if pow_too_big a (to_int b) then None
        else Some (Qred (Qpower a (to_int b)))
      else
        (* half-integer exponents on perfect squares (square roots that come out exact) *)
        let b2 := Qred (b * 2) in
        if Pos.eqb (Qden b2) 1 then
          match qsqrt (Qred a) with
          | Some r => if Qzero r && Z.ltb (Qnum b2) 0 then None
                      else if Z.ltb 64 (Z.abs (Qnum b2)) then None
                      else if pow_too_big r (Qnum b2) then None
                      else Some (Qred (Qpower r (Qnum b2)))
          | None => None
          end
        else None
  | ONeg, [a] => Some (Qred (- a))
  | OFloorDiv, [a; b] => if Qzero b then None else Some (Qfloordiv a b)
  | OMod, [a; b] => if Qzero b then None else Some (Qred (Qmod_std a b))
  | OMax, a :: rest => Some (fold_right Qmax a rest)
  | OMin, a :: rest => Some (fold_right Qmin a rest)
  | OFloor, [a] => Some (inject_Z (Qfloor a))
  | OCeil, [a] => Some (inject_Z (Qceiling a))
  | OFun f, [a] => if String.eqb f "gamma" then gammaQ a
                   else if String.eqb f "sgn" then Some (sgnQ a)
                   else if String.eqb f "Round" then Some (inject_Z (round_half_even a))
                   else Some (Qred (funQ f args))
  | OFun f, [a; n] => if String.eqb f "Round" && is_int n && Z.leb (Z.abs (to_int n)) 40 then Some (roundQ a (to_int n))
                      else if String.eqb f "multiplicity" then multiplicityQ a n
                      else Some (Qred (funQ f args))
  | OFun f, [] =>
      (* the two mathematical constants, to 20 digits (values that went through them are compared with a tolerance) *)
      if String.eqb f "<const>pi" then Some (314159265358979323846 # 100000000000000000000)
      else if String.eqb f "<const>E" then Some (271828182845904523536 # 100000000000000000000)
      else Some (Qred (funQ f args))
  | OFun f, _ => Some (Qred (funQ f args))
  | _, _ => None
  end.

Fixpoint bigQo (k : bigop) (f : Q -> option Q) (lo : Z) (n : nat) : option Q :=
  match n with
  | O => Some (match k with BSum => 0 | BProd => 1 end)
  | S n' =>
      match bigQo k f lo n', f (inject_Z (lo + Z.of_nat n')) with
      | Some rest, Some t => Some (Qred (match k with BSum => rest + t | BProd => rest * t end))
      | _, _ => None
      end
  end.

Fixpoint evalQ (r : string -> Q) (e : expr) : option Q :=
  match e with
  | ENum q => Some (Qred q)
  | ESym x => Some (Qred (r x))
  | EOp o args =>
      match all_some (map (evalQ r) args) with
      | Some vs => stdIo o vs
      | None => None
      end
  | EBig k i b lo hi =>
      match evalQ r lo, evalQ r hi with
      | Some l, Some h =>
          if is_int l && is_int h then
            let n := (to_int h - to_int l + 1)%Z in
            if Z.ltb 100 n then None
            else bigQo k (fun v => evalQ (upd r i v) b) (to_int l) (Z.to_nat n)
          else None
      | _, _ => None
      end
  end.

(* environments for case files: association list with a default *)
Definition envQ (d : list (string * Q)) (dflt : string -> Q) : string -> Q :=
  fun x => match lookup x d with Some v => v | None => dflt x end.

(* default value of an unlisted symbol: depends on the name, never 0 or 1 *)
Definition dfltQ (salt : Z) (x : string) : Q :=
  Qred (inject_Z (2 + (str_hash x + salt) mod 11) + (1 # 3)).

(* comparison of two optional values: 0 = equal, 1 = different, 2 = one or both undefined *)
Definition cmpQ (a b : option Q) : nat :=
  match a, b with
  | Some x, Some y => if Qeq_bool x y then 0%nat else 1%nat
  | _, _ => 2%nat
  end.

(* relative comparison for values that went through floating point *)
Definition Qabs' (q : Q) : Q := if Qle_bool 0 q then q else - q.
Definition cmpQ_tol (tol : Q) (a b : option Q) : nat :=
  match a, b with
  | Some x, Some y =>
      if Qle_bool (Qabs' (x - y)) (tol * (Qmax 1 (Qmax (Qabs' x) (Qabs' y)))) then 0%nat else 1%nat
  | _, _ => 2%nat
  end.

(* equal, or equal up to a relative error (the code folds closed subexpressions to 15 significant digits) *)
Definition cmpQ_rel (tol : Q) (a b : option Q) : nat :=
  match a, b with
  | Some x, Some y =>
      if Qeq_bool x y then 0%nat
      else if Qle_bool (Qabs' (x - y)) (tol * Qmax (Qabs' x) (Qabs' y)) then 0%nat else 1%nat
  | _, _ => 2%nat
  end.

