(* BigOModel.v — comparison functions for the C19 case files (definitions only, so they keep working when a proof breaks). *)
From Coq Require Import List Arith Bool Lia String QArith.
From Bq Require Import Expr StdSem.
From BqGen Require Import GenBigO.
Import ListNotations.
Open Scope nat_scope.

(* ---------- case files ---------- *)
(* result must be O(arg) with arg = x^deg: checked at two points *)
Definition is_bigO_of_degree (x : string) (deg : nat) (e : expr) : nat :=
  match e with
  | EOp (OFun "O"%string) [a] =>
      let at_pt (v : Q) := cmpQ (evalQ (fun y => if String.eqb y x then v else 1%Q) a) (Some (Qred (Qpower v (Z.of_nat deg)))) in
      Nat.max (at_pt 2%Q) (at_pt 3%Q)
  | _ => 1%nat
  end.

(* terms: exponent tuples as sympy's Poly lists them; got: the implementation's result; deg: the true degree *)
Definition check_bigo (x : string) (terms : list (list nat)) (deg : nat) (got : expr) : list nat * list nat :=
  let tie := match gen_leading_terms terms with
             | [[d]] => [is_bigO_of_degree x d got]
             | _ => [1%nat]
             end in
  (tie, [is_bigO_of_degree x deg got]).
