(* NodeRenameFacts.v — C03 at the level of a whole node: consistently renaming the names that belong to one subroutine
   (its parameters, local variables, the sources of its links) and every occurrence of them in its own expressions leaves
   the compiled node as it was -- the same port sizes, resources, constraints and, identically, the same children; only the
   stored copies of the names themselves (the keys of the inputs dictionary, the parameter list) are the renamed ones.

   Stated for any carrier and any expression step that is invariant under renaming the keys of its dictionary together with
   the symbols of its expression (the compile step restricted to well-scoped, binder-free expressions is one: see the
   instance below).  Nodes with a repetition are left out (their iterator symbols are bound names of another kind). *)
From Coq Require Import List String Bool Arith Lia.
From Bq Require Import Expr ExprFacts RepModel Routine Compare Compile CompileFacts RenameFacts InvFacts InputsOrderFacts.
Import ListNotations.
Open Scope string_scope.

(* ---------- the ordering of local variables is equivariant under an injective renaming ---------- *)
Section KahnRen.
  Variable f : string -> string.
  Hypothesis Hinj : injective f.

  Lemma mem_map_inj x l : mem (f x) (map f l) = mem x l.
  Proof. induction l as [|y l IH]; cbn; [reflexivity|]. rewrite (eqb_inj f x y Hinj), IH. reflexivity. Qed.

  Lemma all_in_map_inj xs done : all_in (map f xs) (map f done) = all_in xs done.
  Proof. unfold all_in. induction xs as [|x xs IH]; cbn; [reflexivity|]. rewrite mem_map_inj, IH. reflexivity. Qed.

  Lemma filter_neq_map x items :
    filter (fun y => negb (String.eqb (f x) y)) (map f items) = map f (filter (fun y => negb (String.eqb x y)) items).
  Proof.
    induction items as [|y items IH]; cbn; [reflexivity|]. rewrite (eqb_inj f x y Hinj).
    destruct (String.eqb x y); cbn; rewrite IH; reflexivity.
  Qed.

  Lemma kahn_rename (preds preds' : string -> list string) :
    (forall x, preds' (f x) = map f (preds x)) ->
    forall fuel items done,
      kahn fuel (map f items) preds' (map f done) = option_map (map f) (kahn fuel items preds done).
  Proof.
    intros Hp fuel. induction fuel as [|fuel IH]; intros items done; cbn [kahn].
    - rewrite map_length. destruct (Nat.eqb (List.length items) 0); cbn; [rewrite map_rev; reflexivity|reflexivity].
    - destruct items as [|i items]; cbn [map].
      + cbn. rewrite map_rev. reflexivity.
      + change (f i :: map f items) with (map f (i :: items)).
        assert (Hfind : find (fun x => all_in (preds' x) (map f done)) (map f (i :: items))
                        = option_map f (find (fun x => all_in (preds x) done) (i :: items))).
        { generalize (i :: items). intro l. induction l as [|y l IHl]; cbn; [reflexivity|].
          rewrite Hp, all_in_map_inj. destruct (all_in (preds y) done); [reflexivity|exact IHl]. }
        rewrite Hfind. destruct (find (fun x => all_in (preds x) done) (i :: items)) as [x|]; cbn [option_map]; [|reflexivity].
        rewrite filter_neq_map. change (f x :: map f done) with (map f (x :: done)). apply IH.
  Qed.
End KahnRen.

Lemma remove_str_map_inj f x l : injective f -> remove_str (f x) (map f l) = map f (remove_str x l).
Proof.
  intro Hinj. induction l as [|y l IH]; cbn; [reflexivity|]. rewrite (eqb_inj f x y Hinj).
  destruct (String.eqb x y); cbn; rewrite IH; reflexivity.
Qed.

Lemma fv_rename f e : injective f -> fv (rename f e) = map f (fv e).
Proof.
  intro Hinj. induction e as [q|x|o args IH|k i b lo hi IHb IHlo IHhi] using expr_ind'; cbn [rename fv].
  - reflexivity.
  - reflexivity.
  - induction args as [|a args IHa]; cbn [map flat_map]; [reflexivity|].
    inversion IH as [|? ? Ha Hrest]; subst. rewrite map_app, Ha, (IHa Hrest). reflexivity.
  - rewrite IHb, IHlo, IHhi, !map_app, remove_str_map_inj by exact Hinj. reflexivity.
Qed.

Definition rename_locals (f : string -> string) (locals : list (string * expr)) : list (string * expr) :=
  map (fun kv => (f (fst kv), rename f (snd kv))) locals.

Lemma local_order_rename f locals : injective f ->
  local_order (rename_locals f locals) = option_map (map f) (local_order locals).
Proof.
  intro Hinj. unfold local_order.
  assert (Hk : keys (rename_locals f locals) = map f (keys locals)).
  { unfold keys, rename_locals. rewrite !map_map. reflexivity. }
  rewrite Hk, map_length.
  apply (kahn_rename f Hinj) with (done := []).
  intro x. change (rename_locals f locals) with (rename_env f locals). rewrite (lookup_rename_env f locals x Hinj).
  destruct (lookup x locals) as [e|]; cbn [option_map]; [|reflexivity].
  rewrite (fv_rename f e Hinj). induction (fv e) as [|y l IH]; cbn; [reflexivity|].
  rewrite (mem_map_inj f Hinj). destruct (mem y (keys locals)); cbn; rewrite IH; reflexivity.
Qed.

(* ---------- one node ---------- *)
Section NodeRen.
  Variable D : Type.
  Variable ev : list (string * D) -> expr -> result D.
  Variable statusD : D -> D -> cstatus.
  Variable fvD : D -> list string.
  Variable f : string -> string.
  Hypothesis Hinj : injective f.

  (* rename the names a dictionary of values defines *)
  Definition rkeys (env : list (string * D)) : list (string * D) := map (fun kv => (f (fst kv), snd kv)) env.

  (* the expression step does not care how the scope's names are spelled *)
  Hypothesis Hren : forall env e, ev (rkeys env) (rename f e) = ev env e.
  (* the renaming leaves the compiler's own names alone: port variables #p and child.resource references *)
  Hypothesis Hhash : forall p, f (hash_name p) = hash_name p.
  Hypothesis Hdot : forall a b, f (dot a b) = dot a b.

  Definition rename_node (r : routine) : routine :=
    match r with
    | Routine n t ips lo li ps rs cn rp cs ch =>
        Routine n t (map f ips) (rename_locals f lo) (map (fun l => (f (fst l), snd l)) li)
                (map (fun p => Build_port (p_name p) (p_dir p) (rename f (p_size p))) ps)
                (map (fun x => Build_resource (r_name x) (r_type x) (rename f (r_value x))) rs)
                cn rp
                (map (fun c => Build_constraint (rename f (c_lhs c)) (rename f (c_rhs c)) (c_status c)) cs)
                ch
    end.

  Definition rename_stored (t : ctree D) : ctree D :=
    match t with CT n ty ins sp ports res conns rep cs kids => CT n ty (rkeys ins) (map f sp) ports res conns rep cs kids end.

  Definition rpm (pm : pmap D) : pmap D := (rkeys (fst pm), snd pm).

  Lemma rkeys_app a b : rkeys (a ++ b) = (rkeys a ++ rkeys b)%list.
  Proof. apply map_app. Qed.

  Lemma mapM_map {A B C} (g : A -> B) (h : B -> result C) l : mapM h (map g l) = mapM (fun a => h (g a)) l.
  Proof. induction l as [|a l IH]; cbn [map mapM]; [reflexivity|]. rewrite IH. reflexivity. Qed.

  Lemma filter_map_comm {A B} (g : A -> B) (p : B -> bool) (q : A -> bool) l :
    (forall a, p (g a) = q a) -> filter p (map g l) = map g (filter q l).
  Proof. intro H. induction l as [|a l IH]; cbn; [reflexivity|]. rewrite H. destruct (q a); cbn; rewrite IH; reflexivity. Qed.

  Lemma mapM_ext' {A B} (g h : A -> result B) l : (forall a, g a = h a) -> mapM g l = mapM h l.
  Proof. intro H. induction l as [|a l IH]; cbn [mapM]; [reflexivity|]. rewrite H, IH. reflexivity. Qed.

  Lemma compile_locals_ren names locals : forall ext acc,
      compile_locals ev (map f names) (rename_locals f locals) (rkeys ext) (rkeys acc)
      = match compile_locals ev names locals ext acc with
        | Ok lv => Ok (rkeys lv)
        | ECompile => ECompile | EPreprocess => EPreprocess | ECapture => ECapture | EInternal k => EInternal k | EFuel => EFuel
        end.
  Proof.
    induction names as [|x rest IH]; intros ext acc; cbn [map compile_locals]; [reflexivity|].
    change (rename_locals f locals) with (rename_env f locals). rewrite (lookup_rename_env f locals x Hinj).
    destruct (lookup x locals) as [e|]; cbn [option_map of_opt bind]; [|reflexivity].
    rewrite Hren. destruct (ev ext e) as [v| | | | |]; cbn [bind]; try reflexivity.
    change ((f x, v) :: rkeys ext) with (rkeys ((x, v) :: ext)). change ((f x, v) :: rkeys acc) with (rkeys ((x, v) :: acc)).
    apply IH.
  Qed.

  Lemma pm_put_rpm tgt k v pm : f k = k \/ tgt <> None -> pm_put tgt k v (rpm pm) = rpm (pm_put tgt k v pm).
  Proof.
    destruct pm as [pmn pmc]. destruct tgt as [c|]; unfold rpm, rkeys; cbn [pm_put fst snd map]; intro H; [reflexivity|].
    destruct H as [H|H]; [rewrite H; reflexivity|congruence].
  Qed.

  Lemma fold_put_rpm (targets : list (string * string)) v : forall pm,
      fold_left (fun acc cp => pm_put (Some (fst cp)) (snd cp) v acc) targets (rpm pm)
      = rpm (fold_left (fun acc cp => pm_put (Some (fst cp)) (snd cp) v acc) targets pm).
  Proof.
    induction targets as [|t ts IH]; intro pm; cbn [fold_left]; [reflexivity|].
    rewrite pm_put_rpm by (right; discriminate). apply IH.
  Qed.

  Definition lift_pm (x : result (pmap D)) : result (pmap D) :=
    match x with
    | Ok pm => Ok (rpm pm)
    | ECompile => ECompile | EPreprocess => EPreprocess | ECapture => ECapture | EInternal k => EInternal k | EFuel => EFuel
    end.

  Lemma compile_links_ren pmn0 links : forall pm,
      compile_links ev (rkeys pmn0) (map (fun l : string * list (string * string) => (f (fst l), snd l)) links) (rpm pm)
      = lift_pm (compile_links ev pmn0 links pm).
  Proof.
    induction links as [|[src targets] rest IH]; intro pm; cbn [map compile_links fst snd]; [reflexivity|].
    change (ESym (f src)) with (rename f (ESym src)). rewrite Hren.
    destruct (ev pmn0 (ESym src)) as [v| | | | |]; cbn [bind]; try reflexivity.
    rewrite fold_put_rpm. apply IH.
  Qed.

  Lemma put_port_sizes_ren cs cports : forall pm,
      put_port_sizes cs cports (rpm pm) = lift_pm (put_port_sizes cs cports pm).
  Proof.
    induction cs as [|[sp [tr tp]] rest IH]; intro pm; cbn [put_port_sizes]; [reflexivity|].
    destruct (of_opt (EInternal 1) (lookup sp cports)) as [ds| | | | |]; cbn [bind]; try reflexivity.
    rewrite pm_put_rpm by (left; apply Hhash). apply IH.
  Qed.

  Section Rec.
    Variable rec : routine -> list (string * D) -> result (ctree D).

    Lemma compile_children_ren names children conns : forall pm acc,
        compile_children rec names children conns (rpm pm) acc
        = match compile_children rec names children conns pm acc with
          | Ok (pm', kids) => Ok (rpm pm', kids)
          | ECompile => ECompile | EPreprocess => EPreprocess | ECapture => ECapture | EInternal k => EInternal k | EFuel => EFuel
          end.
    Proof.
      induction names as [|n rest IH]; intros pm acc; cbn [compile_children]; [reflexivity|].
      destruct (of_opt (EInternal 2) (find_child n children)) as [c| | | | |]; cbn [bind]; try reflexivity.
      change (snd (rpm pm)) with (snd pm).
      destruct (of_opt (EInternal 8) (lookup n (snd pm))) as [ins| | | | |]; cbn [bind]; try reflexivity.
      destruct (rec c (dict_norm ins)) as [t| | | | |]; cbn [bind]; try reflexivity.
      rewrite put_port_sizes_ren.
      destruct (put_port_sizes (conns_from (Some n) conns) (ct_ports t) pm) as [pm'| | | | |]; cbn [lift_pm bind]; try reflexivity.
      apply IH.
    Qed.

    Lemma rkeys_cvars (kids : list (ctree D)) :
      rkeys (flat_map (fun t => map (fun nr => (dot (ct_name t) (fst nr), snd (snd nr))) (ct_resources t)) kids)
      = flat_map (fun t => map (fun nr => (dot (ct_name t) (fst nr), snd (snd nr))) (ct_resources t)) kids.
    Proof.
      unfold rkeys. induction kids as [|k kids IH]; cbn [flat_map]; [reflexivity|].
      rewrite map_app, IH. f_equal. rewrite map_map. apply map_ext. intros [n [ty v]]. cbn. rewrite Hdot. reflexivity.
    Qed.

    Theorem go_node_rename r inputs t :
      rrep r = None ->
      go_node ev statusD fvD rec r inputs = Ok t ->
      go_node ev statusD fvD rec (rename_node r) (rkeys inputs) = Ok (rename_stored t).
    Proof.
      destruct r as [name type ips locals links ports resources conns rep constraints children]. cbn [rrep]. intros Hrep H. subst rep.
      cbn [rename_node go_node] in *.
      rewrite (local_order_rename f locals Hinj).
      inv_bind H. apply of_opt_Ok in Hb; [|intros b Hx; discriminate]. rewrite Hb. cbn [option_map of_opt bind].
      inv_bind H. pose proof (compile_locals_ren x locals inputs []) as HL. rewrite Hb0 in HL.
      change (rkeys []) with (@nil (string * D)) in HL. rewrite HL. cbn [bind].
      assert (E0 : over (rkeys x0) (rkeys inputs) = rkeys (over x0 inputs)) by (unfold over; rewrite rkeys_app; reflexivity).
      rewrite E0.
      (* constraints *)
      inv_bind H.
      assert (EC : eval_constraints ev statusD (rkeys (over x0 inputs))
                     (map (fun c => Build_constraint (rename f (c_lhs c)) (rename f (c_rhs c)) (c_status c)) constraints)
                   = eval_constraints ev statusD (over x0 inputs) constraints).
      { unfold eval_constraints.
        assert (EF : filter (fun c => match c_status c with CSatisfied => false | _ => true end)
                       (map (fun c => Build_constraint (rename f (c_lhs c)) (rename f (c_rhs c)) (c_status c)) constraints)
                     = map (fun c => Build_constraint (rename f (c_lhs c)) (rename f (c_rhs c)) (c_status c))
                           (filter (fun c => match c_status c with CSatisfied => false | _ => true end) constraints)).
        { apply filter_map_comm. intro c. reflexivity. }
        rewrite EF, mapM_map. apply mapM_ext'. intro c. cbn [c_lhs c_rhs]. rewrite !Hren. reflexivity. }
      rewrite EC, Hb1. cbn [bind].
      (* links *)
      inv_bind H.
      change (rkeys (over x0 inputs), map (fun c => (rname c, [])) children) with (rpm (over x0 inputs, map (fun c : routine => (rname c, @nil (string * D))) children)).
      rewrite compile_links_ren, Hb2. cbn [lift_pm bind].
      (* input / through ports *)
      inv_bind H.
      assert (EP : forall (pred : port -> bool) env,
                 (forall p, pred (Build_port (p_name p) (p_dir p) (rename f (p_size p))) = pred p) ->
                 eval_ports ev (rkeys env) (filter pred (map (fun p => Build_port (p_name p) (p_dir p) (rename f (p_size p))) ports))
                 = eval_ports ev env (filter pred ports)).
      { intros pred env Hp. unfold eval_ports.
        assert (EF : filter pred (map (fun p => Build_port (p_name p) (p_dir p) (rename f (p_size p))) ports)
                     = map (fun p => Build_port (p_name p) (p_dir p) (rename f (p_size p))) (filter pred ports)).
        { apply filter_map_comm. exact Hp. }
        rewrite EF, mapM_map. apply mapM_ext'. intro p. cbn [p_size p_name p_dir]. rewrite Hren. reflexivity. }
      rewrite (EP non_output (over x0 inputs)) by (intro p; reflexivity). rewrite Hb3. cbn [bind].
      inv_bind H. rewrite put_port_sizes_ren, Hb4. cbn [lift_pm bind].
      inv_bind H. rewrite Hb5. cbn [bind].
      inv_bind H. destruct x6 as [pm3 kids]. rewrite compile_children_ren, Hb6. cbn [bind].
      (* the node's own values *)
      set (cvars := flat_map (fun t0 => map (fun nr => (dot (ct_name t0) (fst nr), snd (snd nr))) (ct_resources t0)) kids) in *.
      assert (En : over (fst (rpm pm3)) cvars = rkeys (over (fst pm3) cvars)).
      { unfold over. rewrite rkeys_app. unfold cvars at 2. rewrite rkeys_cvars. reflexivity. }
      rewrite En.
      inv_bind H. inversion Hb7; subst x6. cbn [bind eval_rep].
      inv_bind H. inversion Hb8; subst x6. cbn [bind].
      inv_bind H.
      rewrite mapM_map.
      assert (ER : mapM (fun a => do v <- ev (rkeys (over (fst pm3) cvars)) (r_value (Build_resource (r_name a) (r_type a) (rename f (r_value a))));
                                  Ok (r_name (Build_resource (r_name a) (r_type a) (rename f (r_value a))),
                                      (r_type (Build_resource (r_name a) (r_type a) (rename f (r_value a))), v))) resources
                   = mapM (fun rs => do v <- ev (over (fst pm3) cvars) (r_value rs); Ok (r_name rs, (r_type rs, v))) resources).
      { apply mapM_ext'. intro a. cbn [r_value r_name r_type]. rewrite Hren. reflexivity. }
      rewrite ER, Hb9. cbn [bind].
      inv_bind H. rewrite (EP is_output (over (fst pm3) cvars)) by (intro p; reflexivity). rewrite Hb10. cbn [bind].
      inversion H; subst. reflexivity.
    Qed.
  End Rec.
End NodeRen.

(* ---------- the instance: the compile step on well-scoped, binder-free expressions ---------- *)
(* every symbol of the expression is defined by the node's dictionary or is one of the allowed global names G *)
Definition ev_strict (G : list string) (env : list (string * expr)) (e : expr) : result expr :=
  if forallb (fun x => mem x (keys env) || mem x G) (fv e) && match bound e with [] => true | _ => false end
  then ev_subst env e else EInternal 41.

Lemma ev_strict_le G env e v : ev_strict G env e = Ok v -> ev_subst env e = Ok v.
Proof. unfold ev_strict. destruct (_ && _); [auto|discriminate]. Qed.

Lemma bound_rename f e : bound (rename f e) = map f (bound e).
Proof.
  induction e as [q|x|o args IH|k i b lo hi IHb IHlo IHhi] using expr_ind'; cbn [rename bound]; try reflexivity.
  - induction args as [|a args IHa]; cbn [map flat_map]; [reflexivity|].
    inversion IH as [|? ? Ha Hrest]; subst. rewrite map_app, Ha, (IHa Hrest). reflexivity.
  - cbn [map]. rewrite IHb, IHlo, IHhi, !map_app. reflexivity.
Qed.

Lemma captures_nobinder s e : bound e = [] -> captures s e = false.
Proof.
  induction e as [q|x|o args IH|k i b lo hi IHb IHlo IHhi] using expr_ind'; cbn [bound captures]; intro H; try reflexivity; [|discriminate].
  induction args as [|a args IHa]; cbn [existsb]; [reflexivity|]. cbn [flat_map] in H. apply app_eq_nil in H. destruct H as [Ha Hr].
  inversion IH as [|? ? H1 H2]; subst. rewrite (H1 Ha), (IHa H2 Hr). reflexivity.
Qed.

Section StrictRen.
  Variable f : string -> string.
  Variable G : list string.
  Hypothesis Hinj : injective f.
  Hypothesis HG : forall g, In g G -> f g = g.

  Lemma mem_fix x : mem (f x) G = mem x G.
  Proof.
    apply eq_true_iff_eq. rewrite !mem_In. split; intro H.
    - pose proof (HG _ H) as E. apply Hinj in E. rewrite <- E. exact H.
    - rewrite (HG _ H). exact H.
  Qed.

  Lemma keys_rename_keys (s : env) : keys (rename_keys f s) = map f (keys s).
  Proof. unfold keys, rename_keys. rewrite !map_map. reflexivity. Qed.

  Lemma subst_rename_scope_G e : forall s,
      bound e = [] ->
      (forall x, In x (fv e) -> In x (keys s) \/ In x G) ->
      subst (rename_keys f s) (rename f e) = subst s e.
  Proof.
    induction e as [q|x|o args IH|k i b lo hi IHb IHlo IHhi] using expr_ind'; intros s Hb Hfv; cbn [rename subst].
    - reflexivity.
    - destruct (Hfv x (or_introl eq_refl)) as [Hk|Hg].
      + rewrite lookup_rename_keys by (intros y _ E; apply Hinj; exact E).
        destruct (lookup x s) as [v|] eqn:E; [reflexivity|]. exfalso. apply lookup_None_notin in E. exact (E Hk).
      + destruct (lookup x s) as [v|] eqn:E.
        * rewrite lookup_rename_keys by (intros y _ E'; apply Hinj; exact E'). rewrite E. reflexivity.
        * rewrite lookup_rename_keys by (intros y _ E'; apply Hinj; exact E'). rewrite E. rewrite (HG _ Hg). reflexivity.
    - f_equal. rewrite map_map. apply map_ext_in. intros a Ha. rewrite Forall_forall in IH. apply IH; [exact Ha| |].
      + cbn [bound] in Hb. destruct (bound a) eqn:Eb; [reflexivity|].
        assert (Hin : In s0 (flat_map bound args)) by (apply in_flat_map; exists a; split; [exact Ha|rewrite Eb; left; reflexivity]).
        rewrite Hb in Hin. destruct Hin.
      + intros x Hx. apply Hfv. cbn [fv]. apply in_flat_map. exists a. split; assumption.
    - cbn [bound] in Hb. discriminate.
  Qed.

  Lemma ev_strict_rename env e : ev_strict G (rename_keys f env) (rename f e) = ev_strict G env e.
  Proof.
    unfold ev_strict. rewrite (fv_rename f e Hinj), bound_rename, keys_rename_keys.
    assert (E1 : forallb (fun x => mem x (map f (keys env)) || mem x G) (map f (fv e))
                 = forallb (fun x => mem x (keys env) || mem x G) (fv e)).
    { induction (fv e) as [|y l IH]; cbn; [reflexivity|]. rewrite (mem_map_inj f Hinj), mem_fix, IH. reflexivity. }
    rewrite E1.
    destruct (forallb (fun x => mem x (keys env) || mem x G) (fv e)) eqn:EF; cbn [andb]; [|reflexivity].
    destruct (bound e) as [|b0 bs] eqn:EB; cbn [map]; [|reflexivity].
    unfold ev_subst, subst_chk.
    assert (EBr : bound (rename f e) = []) by (rewrite bound_rename, EB; reflexivity).
    rewrite (captures_nobinder _ _ EBr), (captures_nobinder _ _ EB).
    rewrite subst_rename_scope_G; [reflexivity|exact EB|].
    intros x Hx. rewrite forallb_forall in EF. specialize (EF x Hx). apply orb_true_iff in EF.
    destruct EF as [H|H]; apply mem_In in H; [left|right]; exact H.
  Qed.
End StrictRen.

(* C03, one whole node of the compile model: for a subroutine all of whose expressions are well-scoped (their symbols are
   names of the node's scope or allowed global names) and binder-free, renaming its scope by ANY injective map that leaves
   the global names, the port variables and the child.resource references alone -- so also onto names used by ancestors,
   siblings or descendants -- gives the same compiled node: the same port sizes, resources, constraints and children. *)
Theorem compile_node_rename (f : string -> string) (G : list string) :
  injective f -> (forall g, In g G -> f g = g) ->
  (forall p, f (hash_name p) = hash_name p) -> (forall a b, f (dot a b) = dot a b) ->
  forall fuel r inputs t,
    rrep r = None ->
    go (ev_strict G) statusE fv (S fuel) r inputs = Ok t ->
    go ev_subst statusE fv (S fuel) r inputs = Ok t /\
    go ev_subst statusE fv (S fuel) (rename_node f r) (rkeys expr f inputs) = Ok (rename_stored expr f t).
Proof.
  intros Hinj HG Hh Hd fuel r inputs t Hrep H. split.
  - eapply InvFacts.go_mono; [|exact H]. intros env e v. apply ev_strict_le.
  - eapply InvFacts.go_mono; [intros env e v; apply ev_strict_le|].
    cbn [go] in *. apply (go_node_rename expr (ev_strict G) statusE fv f Hinj); try assumption.
    intros env e. apply ev_strict_rename; assumption.
Qed.

(* a supply of such renamings: exchanging two plain names *)
Definition swap_names (a b x : string) : string := if String.eqb x a then b else if String.eqb x b then a else x.

Lemma swap_names_injective a b : injective (swap_names a b).
Proof.
  intros x y. unfold swap_names.
  destruct (String.eqb x a) eqn:Exa, (String.eqb y a) eqn:Eya, (String.eqb x b) eqn:Exb, (String.eqb y b) eqn:Eyb;
    repeat match goal with
           | H : String.eqb _ _ = true |- _ => apply String.eqb_eq in H
           | H : String.eqb _ _ = false |- _ => apply String.eqb_neq in H
           end; subst; intro E; congruence.
Qed.

Lemma swap_names_fixes a b x : x <> a -> x <> b -> swap_names a b x = x.
Proof.
  intros Ha Hb. unfold swap_names. apply String.eqb_neq in Ha. apply String.eqb_neq in Hb. rewrite Ha, Hb. reflexivity.
Qed.
