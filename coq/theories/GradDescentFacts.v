(* GradDescentFacts.v — C20 for every carrier whose comparison is a total order (no NaN). *)
From Coq Require Import List Bool Lia.
From Bq Require Import GradDescent.
Import ListNotations.

From BqGen Require Import GenGradDescent.

Section Facts.
  Variable T : Type.
  Variables (add sub mul div : T -> T -> T) (abs : T -> T) (ltb leb eqb : T -> T -> bool).
  Variables (two eps zero : T).
  (* the order hypotheses (they hold for Q, and for floats that are not NaN) *)
  Hypothesis ltb_leb : forall a b, ltb a b = negb (leb b a).
  Hypothesis leb_refl : forall a, leb a a = true.
  Hypothesis leb_trans : forall a b c, leb a b = true -> leb b c = true -> leb a c = true.
  Hypothesis leb_total : forall a b, leb a b = true \/ leb b a = true.

  Notation pmin := (GradDescent.pmin T add sub mul div abs ltb leb eqb two).
  Notation pmax := (GradDescent.pmax T add sub mul div abs ltb leb eqb two).
  Notation gd_loop := (gd_loop T add sub mul div abs ltb leb eqb two eps).
  Notation gradient_descent := (gradient_descent T add sub mul div abs ltb leb eqb two eps zero).

  Definition within (b0 b1 x : T) : Prop := leb b0 x = true /\ leb x b1 = true.

  (* clamping lands inside the bounds *)
  Lemma clamp_within b0 b1 x : leb b0 b1 = true -> within b0 b1 (pmax (pmin x b1) b0).
  Proof.
    intro Hb. unfold GradDescent.pmax, GradDescent.pmin, GenGradDescent.pmax, GenGradDescent.pmin, within.
    cbn [o_ltb GradDescent.ops]. rewrite !ltb_leb.
    destruct (leb x b1) eqn:E1; cbn [negb].
    - destruct (leb b0 x) eqn:E2; cbn [negb]; [split; assumption|]. split; [apply leb_refl|exact Hb].
    - destruct (leb b0 b1) eqn:E2; cbn [negb]; [split; [exact E2|apply leb_refl]|discriminate].
  Qed.

  Lemma last_cons_default {A} (l : list A) x d d' : last (x :: l) d = last (x :: l) d'.
  Proof. revert x. induction l as [|y l IH]; intro x; [reflexivity|]. cbn [last] in *. apply IH. Qed.

  Lemma last_push {A} (l : list A) x y d d' : last (y :: x :: l) d = last (x :: l) d'.
  Proof. cbn [last]. apply (last_cons_default l x d d'). Qed.

  Definition all_within (bounds : option (T * T)) (l : list T) : Prop :=
    match bounds with Some (b0, b1) => Forall (within b0 b1) l | None => True end.

  (* loop invariant: the history stays within the bounds, its newest element is the current value,
     and its oldest element never changes *)
  Lemma gd_loop_inv n f bounds lr tol mom : forall cur vel hist cur' hist',
      (match bounds with Some (b0, b1) => leb b0 b1 = true | None => True end) ->
      all_within bounds (cur :: hist) ->
      gd_loop n f bounds lr tol mom cur vel (cur :: hist) = Some (cur', hist') ->
      all_within bounds hist' /\ (exists rest, hist' = cur' :: rest) /\ last hist' cur' = last (cur :: hist) cur.
  Proof.
    induction n as [|n IH]; intros cur vel hist cur' hist' Hb Hin H; cbn [GradDescent.gd_loop] in H; [discriminate|].
    destruct bounds as [[b0 b1]|].
    - match type of H with context [gen_gd_clip ?o ?x b0 b1] => set (nx := gen_gd_clip o x b0 b1) in * end.
      assert (Hnx : within b0 b1 nx) by (unfold nx, gen_gd_clip; apply clamp_within; exact Hb).
      match type of H with (if ?c then _ else _) = _ => destruct c end.
      + inversion H; subst. split; [constructor; assumption|]. split; [eexists; reflexivity|].
        apply last_push.
      + match type of H with (if ?c then _ else _) = _ => destruct c end.
        * inversion H; subst. split; [exact Hin|]. split; [eexists; reflexivity|reflexivity].
        * eapply IH in H; [|exact Hb|constructor; assumption]. destruct H as [H1 [H2 H3]].
          split; [exact H1|]. split; [exact H2|]. rewrite H3. apply last_push.
    - match type of H with (if ?c then _ else _) = _ => destruct c end.
      + inversion H; subst. split; [exact I|]. split; [eexists; reflexivity|reflexivity].
      + eapply IH in H; [|exact I|exact I]. destruct H as [H1 [H2 H3]].
        split; [exact I|]. split; [exact H2|]. rewrite H3. apply last_push.
  Qed.

  Lemma Forall_rev {A} (P : A -> Prop) l : Forall P l -> Forall P (rev l).
  Proof. intro H. apply Forall_forall. intros x Hx. rewrite Forall_forall in H. apply H. apply in_rev. exact Hx. Qed.

  (* ---- the statement of C20 ---- *)
  Theorem gd_ok_properties f x0 bounds lr max_iter tol mom optimal cost hist :
    (match bounds with Some (b0, b1) => leb b0 b1 = true | None => True end) ->
    gradient_descent f x0 bounds lr max_iter tol mom = GDOk optimal cost hist ->
    (* every point of the history, and the optimum, lie within the bounds *)
    all_within bounds hist /\ all_within bounds [optimal] /\
    (* the history starts at the supplied starting point and ends at the returned optimum *)
    hd x0 hist = x0 /\ (exists h, hist = x0 :: h) /\ last hist x0 = optimal /\
    (* the reported minimum cost is the cost function at the returned optimum *)
    cost = f optimal.
  Proof.
    intros Hb H. unfold GradDescent.gradient_descent in H.
    match type of H with context [negb ?c] => destruct (negb c) eqn:Ein end; [discriminate|].
    destruct (gd_loop max_iter f bounds lr tol mom x0 zero [x0]) as [[cur h]|] eqn:El; [|discriminate].
    inversion H; subst. clear H.
    assert (Hin0 : all_within bounds [x0]).
    { destruct bounds as [[b0 b1]|]; [|exact I]. apply negb_false_iff in Ein. unfold gen_gd_start_ok in Ein.
      cbn [o_leb GradDescent.ops] in Ein. apply andb_true_iff in Ein.
      constructor; [split; tauto|constructor]. }
    destruct (gd_loop_inv _ _ _ _ _ _ _ _ _ _ _ Hb Hin0 El) as [H1 [[rest H2] H3]]. subst h. cbn [last] in H3.
    assert (Hlast : last (optimal :: rest) optimal = x0) by exact H3.
    assert (Hrev : exists h, rev (optimal :: rest) = x0 :: h).
    { destruct (rev (optimal :: rest)) as [|y l] eqn:Er.
      - apply (f_equal (@rev T)) in Er. rewrite rev_involutive in Er. discriminate.
      - exists l. f_equal. apply (f_equal (@rev T)) in Er. rewrite rev_involutive in Er. cbn [rev] in Er.
        rewrite Er in Hlast. rewrite last_last in Hlast. exact Hlast. }
    repeat split.
    - destruct bounds as [[b0 b1]|]; [|exact I]. apply Forall_rev. exact H1.
    - destruct bounds as [[b0 b1]|]; [|exact I]. inversion H1; subst. constructor; [assumption|constructor].
    - destruct Hrev as [h Hh]. rewrite Hh. reflexivity.
    - exact Hrev.
    - cbn [rev]. apply last_last.
  Qed.

  (* an out-of-bounds start is an error, not a value *)
  Theorem gd_out_of_bounds f x0 b0 b1 lr max_iter tol mom :
    leb b0 x0 && leb x0 b1 = false ->
    gradient_descent f x0 (Some (b0, b1)) lr max_iter tol mom = GDValueError.
  Proof. intro H. unfold GradDescent.gradient_descent, gen_gd_start_ok. cbn [o_leb GradDescent.ops]. rewrite H. reflexivity. Qed.

  (* failure to converge within max_iter is an error, not a value *)
  Theorem gd_not_converged f x0 bounds lr max_iter tol mom :
    gd_loop max_iter f bounds lr tol mom x0 zero [x0] = None ->
    (match bounds with Some (b0, b1) => leb b0 x0 && leb x0 b1 | None => true end) = true ->
    gradient_descent f x0 bounds lr max_iter tol mom = GDRuntimeError.
  Proof.
    intros H Hb. unfold GradDescent.gradient_descent.
    assert (E : match bounds with Some (b0, b1) => gen_gd_start_ok (GradDescent.ops T add sub mul div abs ltb leb eqb two) x0 b0 b1 | None => true end = true).
    { destruct bounds as [[b0 b1]|]; [|reflexivity]. unfold gen_gd_start_ok. cbn [o_leb GradDescent.ops]. exact Hb. }
    rewrite E, H. reflexivity.
  Qed.
End Facts.
