(* Derived.v -- derived resources: `_add_derived_resources` of src/bartiq/compilation/_compile.py, the last statement of
   `_compile`.  After a routine has been compiled, every entry of `derived_resources` (name, type, calculate) is asked
   for a value on the COMPILED routine; a value that is not None becomes the resource of that name (replacing, in
   place, a resource that already bears the name; appended otherwise), and the next entry sees the routine so extended.
   Because this happens inside `_compile`, a parent sees its children WITH their derived resources: a repeated routine
   sums them like declared ones (`_process_repeated_resources` walks the compiled child's resources), and they are
   among the `child.resource` symbols the parent's own expressions may mention.
   Definitions only; generic in the carrier D like Compile.v. *)
From Coq Require Import List String QArith ZArith Bool.
From Bq Require Import Expr RepModel Routine Compile.
Import ListNotations.
Open Scope string_scope.

Section Derived.
  Variable D : Type.

  (* one entry of derived_resources: what `calculate(routine, backend)` answers on a compiled routine *)
  Definition calc := ctree D -> option (string * (rtype * D)).

  (* {**routine.resources, name: resource}: an existing key keeps its place, a new key comes last *)
  Fixpoint set_res (nr : string * (rtype * D)) (res : list (string * (rtype * D))) : list (string * (rtype * D)) :=
    match res with
    | [] => [nr]
    | r :: rest => if String.eqb (fst r) (fst nr) then nr :: rest else r :: set_res nr rest
    end.

  Definition with_resources (t : ctree D) (res : list (string * (rtype * D))) : ctree D :=
    match t with CT n ty ins sp ports _ conns rep cs kids => CT n ty ins sp ports res conns rep cs kids end.

  (* for specs in derived_resources: ... routine = replace(routine, resources={**routine.resources, name: resource}) *)
  Definition add_derived (calcs : list calc) (t : ctree D) : ctree D :=
    fold_left (fun t c => match c t with
                          | Some nr => with_resources t (set_res nr (ct_resources t))
                          | None => t
                          end) calcs t.

  Variable ev : list (string * D) -> expr -> result D.
  Variable statusD : D -> D -> cstatus.
  Variable fvD : D -> list string.

  (* _compile with derived_resources: the recursive calls go through the same function, the result of every node is
     extended before it is returned *)
  Fixpoint go_d (calcs : list calc) (fuel : nat) (r : routine) (inputs : list (string * D)) : result (ctree D) :=
    match fuel with
    | O => EFuel
    | S f => do t <- go_node ev statusD fvD (go_d calcs f) r inputs; Ok (add_derived calcs t)
    end.
End Derived.

Arguments set_res {D}.
Arguments with_resources {D}.
Arguments add_derived {D}.
Arguments go_d {D}.

(* a calculator that answers on childless routines only: name := a * <resource `of`> + b  (b when there is none) *)
Definition leaf_calc_e (x : string) (ty : rtype) (of : string) (a b : Q) : calc expr :=
  fun t => match ct_children t with
           | [] => Some (x, (ty, match lookup of (ct_resources t) with
                                 | Some (_, v) => EOp OAdd [EOp OMul [ENum a; v]; ENum b]
                                 | None => ENum b
                                 end))
           | _ => None
           end.
