(* DerivedFacts.v -- what Derived.v's model of `_add_derived_resources` guarantees.
   1. With no calculators the traversal is `go` itself (derived_resources=() changes nothing).
   2. The traversal with calculators is NATURAL like `go`: compiling symbolically and then reading every expression
      at rho gives the tree the same traversal computes directly over values, provided each calculator commutes with
      taking values.  Hence a derived resource enters a repeated routine's sum, and a parent's own expressions, exactly
      as a declared one does: C01 / C07 / C08 carry over to hierarchies compiled with derived resources.
   3. The leaf calculator used by the correspondence stream (a * <resource> + b on childless routines) commutes. *)
From Coq Require Import List String QArith ZArith Bool.
From Bq Require Import Expr ExprFacts StdSem RepModel Routine Compare Compile CompileFacts Derived.
Import ListNotations.
Open Scope string_scope.

(* ---------- 1. no calculators ---------- *)
Section Ext.
  Variable D : Type.
  Variable ev : list (string * D) -> expr -> result D.
  Variable statusD : D -> D -> cstatus.
  Variable fvD : D -> list string.
  Variables rec1 rec2 : routine -> list (string * D) -> result (ctree D).
  Hypothesis Hrec : forall r i, rec1 r i = rec2 r i.

  Lemma compile_children_ext names children conns : forall pm acc,
      compile_children rec1 names children conns pm acc
      = compile_children rec2 names children conns pm acc.
  Proof.
    induction names as [|n names IH]; intros pm acc; cbn [compile_children]; [reflexivity|].
    destruct (of_opt (EInternal 2) (find_child n children)) as [c| | | | |]; cbn [bind]; try reflexivity.
    destruct (of_opt (EInternal 8) (lookup n (snd pm))) as [ins| | | | |]; cbn [bind]; try reflexivity.
    rewrite Hrec. destruct (rec2 c (dict_norm ins)) as [t| | | | |]; cbn [bind]; try reflexivity.
    destruct (put_port_sizes (conns_from (Some n) conns) (ct_ports t) pm) as [pm'| | | | |]; cbn [bind]; try reflexivity.
    apply IH.
  Qed.

  Lemma go_node_ext r inputs :
    go_node ev statusD fvD rec1 r inputs = go_node ev statusD fvD rec2 r inputs.
  Proof.
    destruct r as [name type ips locals links ports resources conns rep constraints children].
    cbn [go_node].
    repeat match goal with
           | |- bind ?e _ = bind ?e _ => destruct e; cbn [bind]; try reflexivity
           end.
    rewrite compile_children_ext. reflexivity.
  Qed.
End Ext.

Lemma bind_ret {A} (e : result A) : bind e (fun t => Ok t) = e.
Proof. destruct e; reflexivity. Qed.

Theorem go_d_nil D ev statusD fvD fuel : forall r inputs,
    go_d (D := D) ev statusD fvD [] fuel r inputs = go ev statusD fvD fuel r inputs.
Proof.
  induction fuel as [|fuel IH]; intros r inputs; cbn [go_d go]; [reflexivity|].
  unfold add_derived. cbn [fold_left]. rewrite bind_ret.
  apply go_node_ext. exact IH.
Qed.

(* ---------- 2. naturality ---------- *)
Section Natural.
  Variable V : Type.
  Variable ofQ : Q -> V.
  Variable I : op -> list V -> V.
  Variable B : bigop -> (V -> V) -> V -> V -> V.
  Hypothesis B_ext : forall k f g lo hi, (forall v, f v = g v) -> B k f lo hi = B k g lo hi.
  Variable rho : string -> V.

  Notation vt := (valtree V ofQ I B rho).
  Notation v2 := (val2 V ofQ I B rho (K := string) (T := rtype)).

  (* a calculator over values that answers what the symbolic one answers, read at rho *)
  Definition calc_natural (ce : calc expr) (cv : calc V) : Prop :=
    forall t, cv (vt t) = option_map v2 (ce t).

  Lemma set_res_val nr res : map v2 (set_res nr res) = set_res (v2 nr) (map v2 res).
  Proof.
    induction res as [|r rest IH]; cbn [set_res map]; [reflexivity|].
    change (fst (v2 r)) with (fst r). change (fst (v2 nr)) with (fst nr).
    destruct (String.eqb (fst r) (fst nr)); cbn [map]; [reflexivity|]. rewrite IH. reflexivity.
  Qed.

  Lemma with_resources_val t res : vt (with_resources t res) = with_resources (vt t) (map v2 res).
  Proof. destruct t. reflexivity. Qed.

  Lemma add_derived_val calcsE : forall calcsV t,
      Forall2 calc_natural calcsE calcsV ->
      vt (add_derived calcsE t) = add_derived calcsV (vt t).
  Proof.
    unfold add_derived.
    induction calcsE as [|ce calcsE IH]; intros calcsV t H; inversion H as [|? cv ? calcsV' Hc Hrest]; subst; [reflexivity|].
    cbn [fold_left]. rewrite (Hc t). destruct (ce t) as [nr|]; cbn [option_map].
    - rewrite (IH calcsV' _ Hrest), with_resources_val, set_res_val, ct_resources_valtree. reflexivity.
    - apply IH. exact Hrest.
  Qed.

  Theorem go_d_natural calcsE calcsV (Hc : Forall2 calc_natural calcsE calcsV) fuel : forall r inputs t,
      go_d ev_subst statusE fv calcsE fuel r inputs = Ok t ->
      go_d (ev_val V ofQ I B rho) (fun _ _ => CInconclusive) (fun _ => []) calcsV fuel r (valenv V ofQ I B rho inputs)
      = Ok (vt t).
  Proof.
    induction fuel as [|fuel IH]; intros r inputs t H; [discriminate|].
    cbn [go_d] in *.
    destruct (go_node ev_subst statusE fv (go_d ev_subst statusE fv calcsE fuel) r inputs) as [t0| | | | |] eqn:E;
      cbn [bind] in H; try discriminate.
    inversion H; subst.
    rewrite (go_node_nat V ofQ I B B_ext rho _ _ IH r inputs t0 E). cbn [bind].
    rewrite (add_derived_val calcsE calcsV t0 Hc). reflexivity.
  Qed.
End Natural.

(* ---------- 3. the leaf calculator commutes ---------- *)
Definition leaf_calc_v {V} (ofQ : Q -> V) (I : op -> list V -> V) (x : string) (ty : rtype) (of : string) (a b : Q) : calc V :=
  fun t => match ct_children t with
           | [] => Some (x, (ty, match lookup of (ct_resources t) with
                                 | Some (_, v) => I OAdd [I OMul [ofQ a; v]; ofQ b]
                                 | None => ofQ b
                                 end))
           | _ => None
           end.

Lemma leaf_calc_natural V ofQ I B rho x ty of a b :
  calc_natural V ofQ I B rho (leaf_calc_e x ty of a b) (leaf_calc_v ofQ I x ty of a b).
Proof.
  intro t. unfold leaf_calc_e, leaf_calc_v. destruct t as [n ty0 ins sp ports res conns rep cs kids].
  cbn [valtree ct_children ct_resources]. destruct kids as [|k kids]; cbn [map option_map]; [|reflexivity].
  f_equal. unfold val2 at 2. cbn [fst snd]. f_equal. f_equal.
  induction res as [|[rn [rt rv]] res IH]; cbn [map lookup val2 fst snd]; [reflexivity|].
  destruct (String.eqb of rn); [reflexivity | exact IH].
Qed.
