(* VerifyFacts.v — C17: ill-formed wiring and repetitions are rejected before compilation;
   the child loop never fails a dictionary lookup. *)
From Coq Require Import List String Bool Arith Lia Permutation.
From Bq Require Import Expr ExprFacts RepModel Routine Compare Compile CompileFacts Preprocess CompileTop TopoFacts Verify.
From BqGen Require Import GenVerification.
Import ListNotations.
Open Scope string_scope.

(* any problem => BartiqCompilationError, and compile is not even called *)
Theorem problems_reject r : verification_problems r <> 0%nat -> compile_routine_checked false r = ECompile.
Proof.
  intro H. unfold compile_routine_checked. cbn [negb andb].
  destruct (Nat.eqb_spec (verification_problems r) 0); [contradiction|reflexivity].
Qed.

Theorem skip_bypasses r : compile_routine_checked true r = compile_routine r.
Proof. reflexivity. Qed.

Lemma fold_ge_member (f : routine -> nat) (c : routine) cs :
  In c cs -> (f c <= fold_right (fun x acc => f x + acc) 0 cs)%nat.
Proof.
  induction cs as [|x cs IH]; intro H; [destruct H|]. cbn. destruct H as [H|H]; [subst; lia|].
  specialize (IH H). lia.
Qed.

(* a repeated routine that does not have exactly one child, or has resources of its own, is a problem
   (predicates regenerated from verification.py) *)
Theorem bad_repetition_is_a_problem r rp :
  rrep r = Some rp -> (List.length (rchildren r) <> 1%nat \/ rresources r <> []) ->
  (repetition_problems (S (height r)) r <> 0)%nat.
Proof.
  intros Hrep Hbad. cbn [repetition_problems]. rewrite Hrep.
  unfold gen_ensure_one_child, gen_ensure_no_resources.
  destruct Hbad as [Hc|Hr].
  - destruct (List.length (rchildren r)) as [|[|k]] eqn:E; cbn; lia.
  - destruct (rresources r) as [|x l] eqn:E; [contradiction|]. cbn [List.length Nat.eqb negb andb].
    destruct (Nat.eqb (List.length (rchildren r)) 0 && true); destruct (Nat.ltb 1 (List.length (rchildren r)) && true); cbn; lia.
Qed.

(* a problem anywhere below is a problem of the whole document *)
Theorem child_problem_propagates f r c :
  In c (rchildren r) -> (repetition_problems f c <= repetition_problems (S f) r)%nat.
Proof.
  intro H. cbn [repetition_problems]. pose proof (fold_ge_member (repetition_problems f) c (rchildren r) H). lia.
Qed.

(* a wiring cycle through the port graph is reported *)
Theorem wiring_cycle_is_a_problem r (cycle : list string) :
  cycle <> [] ->
  (forall x, In x cycle -> In x (graph_nodes (topo_graph r))) ->
  (forall x, In x cycle -> exists p, In p (graph_preds (topo_graph r) x) /\ In p cycle) ->
  NoDup (graph_nodes (topo_graph r)) ->
  has_cycle r = true.
Proof.
  intros Hne Hsub Hcyc Hnd. unfold has_cycle.
  rewrite (kahn_rejects_cycle _ (graph_nodes (topo_graph r)) cycle Hnd Hne Hsub); [reflexivity|].
  intros x Hx. destruct (Hcyc x Hx) as [p [Hp Hpc]]. exists p. split; [|exact Hpc].
  apply filter_In. split; [exact Hp|]. apply mem_In. apply Hsub. exact Hpc.
Qed.

Lemma dedup_nodup l : NoDup (dedup l).
Proof.
  induction l as [|x l IH]; cbn; [constructor|].
  destruct (mem x l) eqn:E; [exact IH|]. constructor; [|exact IH].
  intro H. apply mem_false_notin in E. apply E.
  clear - H. induction l as [|y l IH]; cbn in H; [destruct H|].
  destruct (mem y l) eqn:Ey; [right; apply IH; exact H|]. destruct H as [H|H]; [left; exact H|right; apply IH; exact H].
Qed.

Corollary graph_nodes_nodup g : NoDup (graph_nodes g).
Proof. apply dedup_nodup. Qed.

(* a port with two incoming or two outgoing wires is reported *)
Theorem double_wiring_is_a_problem r x :
  (1 < count_occ_str x (map (fun st => ep_name (snd st)) (rconnections r)))%nat \/
  (1 < count_occ_str x (map (fun st => ep_name (fst st)) (rconnections r)))%nat ->
  (disconnected_problems r <> 0)%nat.
Proof.
  intro H. unfold disconnected_problems.
  set (sources := map (fun st => ep_name (fst st)) (rconnections r)) in *.
  set (targets := map (fun st => ep_name (snd st)) (rconnections r)) in *.
  assert (Hm : forall l, (1 < count_occ_str x l)%nat -> existsb (fun y => Nat.ltb 1 (count_occ_str y l)) l = true).
  { intros l Hl. apply existsb_exists. exists x. split; [|apply Nat.ltb_lt; exact Hl].
    unfold count_occ_str in Hl. destruct (filter (String.eqb x) l) as [|y f] eqn:Ef; [cbn in Hl; lia|].
    assert (Hy : In y (filter (String.eqb x) l)) by (rewrite Ef; left; reflexivity).
    apply filter_In in Hy. destruct Hy as [Hy Hxy]. apply String.eqb_eq in Hxy. subst. exact Hy. }
  destruct H as [H|H]; [rewrite (Hm targets H)|rewrite (Hm sources H)];
    repeat match goal with |- context [if ?c then _ else _] => destruct c end; cbn; lia.
Qed.

(* ---------- the child loop cannot fail a lookup: the errors EInternal 2 (child not found) and
   EInternal 8 (no parameter dictionary for the child) are unreachable, at every depth ---------- *)
Definition safe28 {A} (x : result A) : Prop := x <> EInternal 2 /\ x <> EInternal 8.

Lemma safe28_bind {A B} (e : result A) (f : A -> result B) :
  safe28 e -> (forall a, safe28 (f a)) -> safe28 (bind e f).
Proof.
  intros He Hf. destruct e; cbn; try (split; discriminate); [apply Hf|].
  destruct He as [H2 H8]. split; intro H; inversion H; subst; [apply H2|apply H8]; reflexivity.
Qed.

Lemma safe28_of_opt {A} k (o : option A) : k <> 2%nat -> k <> 8%nat -> safe28 (of_opt (EInternal k) o).
Proof. intros H2 H8. destruct o; cbn; split; try discriminate; intro H; inversion H; congruence. Qed.

Lemma safe28_retype {A B} k : safe28 (@EInternal A k) -> safe28 (@EInternal B k).
Proof. intros [H2 H8]. split; intro H; inversion H; subst; [apply H2|apply H8]; reflexivity. Qed.

Lemma safe28_Ok {A} (a : A) : safe28 (Ok a).
Proof. split; discriminate. Qed.

Lemma safe28_mapM {A B} (f : A -> result B) l : (forall a, safe28 (f a)) -> safe28 (mapM f l).
Proof.
  intro H. induction l as [|a l IH]; cbn [mapM]; [apply safe28_Ok|].
  apply safe28_bind; [apply H|]. intro b. apply safe28_bind; [exact IH|]. intro bs. apply safe28_Ok.
Qed.

Section Loop.
  Variable D : Type.
  Variable ev : list (string * D) -> expr -> result D.
  Variable statusD : D -> D -> cstatus.
  Variable fvD : D -> list string.
  Hypothesis ev_safe : forall env e, safe28 (ev env e).

  Lemma find_child_some n cs : In n (map rname cs) -> exists c, find_child n cs = Some c.
  Proof.
    induction cs as [|x cs IH]; cbn; [tauto|]. intros [H|H].
    - subst. rewrite String.eqb_refl. eauto.
    - destruct (String.eqb (rname x) n); eauto.
  Qed.

  Lemma lookup_pmc_some n (pmc : list (string * list (string * D))) : In n (keys pmc) -> exists d, lookup n pmc = Some d.
  Proof.
    induction pmc as [|[k v] pmc IH]; cbn; [tauto|]. intros [H|H].
    - subst. rewrite String.eqb_refl. eauto.
    - destruct (String.eqb n k); eauto.
  Qed.

  Lemma pm_put_keys tgt k (v : D) pm : keys (snd (pm_put tgt k v pm)) = keys (snd pm).
  Proof.
    destruct pm as [pmn pmc]. destruct tgt as [c|]; cbn; [|reflexivity].
    unfold keys. rewrite map_map. apply map_ext. intros [k' v']; cbn. destruct (String.eqb k' c); reflexivity.
  Qed.

  Lemma put_port_sizes_keys cs (cports : list (string * (dir * D))) : forall pm pm',
      put_port_sizes cs cports pm = Ok pm' -> keys (snd pm') = keys (snd pm).
  Proof.
    induction cs as [|[sp [tr tp]] cs IH]; intros pm pm' H; cbn [put_port_sizes] in H.
    - inversion H. reflexivity.
    - inv_bind H. rewrite (IH _ _ H). apply pm_put_keys.
  Qed.

  Lemma put_port_sizes_safe cs (cports : list (string * (dir * D))) : forall pm, safe28 (put_port_sizes cs cports pm).
  Proof.
    induction cs as [|[sp [tr tp]] cs IH]; intro pm; cbn [put_port_sizes]; [apply safe28_Ok|].
    apply safe28_bind; [apply safe28_of_opt; discriminate|]. intro a. apply IH.
  Qed.

  Lemma compile_links_keys pmn0 links : forall pm pm',
      compile_links ev pmn0 links pm = Ok pm' -> keys (snd pm') = keys (snd pm).
  Proof.
    induction links as [|[src targets] links IH]; intros pm pm' H; cbn [compile_links] in H.
    - inversion H. reflexivity.
    - inv_bind H. rewrite (IH _ _ H). clear. revert pm.
      induction targets as [|cp ts IHt]; intro pm; cbn [fold_left]; [reflexivity|]. rewrite IHt. apply pm_put_keys.
  Qed.

  Lemma compile_links_safe pmn0 links : forall pm, safe28 (compile_links ev pmn0 links pm).
  Proof.
    induction links as [|[src targets] links IH]; intro pm; cbn [compile_links]; [apply safe28_Ok|].
    apply safe28_bind; [apply ev_safe|]. intro v. apply IH.
  Qed.

  Lemma compile_locals_safe names locals : forall ext acc, safe28 (compile_locals ev names locals ext acc).
  Proof.
    induction names as [|x names IH]; intros ext acc; cbn [compile_locals]; [apply safe28_Ok|].
    apply safe28_bind; [apply safe28_of_opt; discriminate|]. intro e.
    apply safe28_bind; [apply ev_safe|]. intro v. apply IH.
  Qed.

  Lemma eval_ports_safe env ps : safe28 (eval_ports ev env ps).
  Proof. unfold eval_ports. apply safe28_mapM. intro p. apply safe28_bind; [apply ev_safe|]. intro s. apply safe28_Ok. Qed.

  Lemma eval_constraints_safe env cs : safe28 (eval_constraints ev statusD env cs).
  Proof.
    unfold eval_constraints. apply safe28_mapM. intro c.
    apply safe28_bind; [apply ev_safe|]. intro l. apply safe28_bind; [apply ev_safe|]. intro r.
    destruct (statusD l r); split; discriminate.
  Qed.

  Lemma eval_rep_safe env rp : safe28 (eval_rep ev fvD env rp).
  Proof.
    destruct rp as [r|]; cbn [eval_rep]; [|apply safe28_Ok].
    apply safe28_bind; [apply ev_safe|]. intro c. apply safe28_bind; [|intro s; apply safe28_Ok].
    destruct (rep_seq r) as [m|a d|q|su pr nts|t it]; cbn [eval_seq].
    - apply safe28_bind; [apply ev_safe|]. intro x. apply safe28_Ok.
    - apply safe28_bind; [apply ev_safe|]. intro x. apply safe28_bind; [apply ev_safe|]. intro y. apply safe28_Ok.
    - apply safe28_bind; [apply ev_safe|]. intro x. apply safe28_Ok.
    - apply safe28_bind.
      + destruct su; [apply safe28_bind; [apply ev_safe|intro; apply safe28_Ok]|apply safe28_Ok].
      + intro x. apply safe28_bind.
        * destruct pr; [apply safe28_bind; [apply ev_safe|intro; apply safe28_Ok]|apply safe28_Ok].
        * intro y. apply safe28_bind; [apply ev_safe|]. intro z. apply safe28_Ok.
    - destruct (mem it (keys env) || existsb (fun kv => mem it (fvD (snd kv))) env); [split; discriminate|].
      apply safe28_bind; [apply ev_safe|]. intro x. apply safe28_Ok.
  Qed.

  Lemma repeated_resources_safe rp own (kids : list (ctree D)) : safe28 (repeated_resources rp own kids).
  Proof.
    unfold repeated_resources. destruct kids as [|kid [|k2 ks]]; try (split; discriminate).
    unfold repeated_resources_nt. destruct (negb _); [split; discriminate|].
    apply safe28_bind; [|intro; apply safe28_Ok]. apply safe28_mapM. intros [rn rt].
    destruct (rep_action_of rt (seq_is_constant (rep_seq rp))); try (split; discriminate).
    - destruct (seq_sum _ _ _); split; discriminate.
    - destruct (seq_prod _ _ _); split; discriminate.
  Qed.

  Section Node.
    Variable rec : routine -> list (string * D) -> result (ctree D).
    Hypothesis rec_safe : forall c ins, safe28 (rec c ins).

    Lemma compile_children_safe names children conns : forall pm acc,
        (forall n, In n names -> In n (map rname children)) ->
        (forall n, In n names -> In n (keys (snd pm))) ->
        safe28 (compile_children rec names children conns pm acc).
    Proof.
      induction names as [|n names IH]; intros pm acc Hc Hk; cbn [compile_children]; [apply safe28_Ok|].
      destruct (find_child_some n children (Hc n (or_introl eq_refl))) as [c Hfc]. rewrite Hfc. cbn [of_opt bind].
      destruct (lookup_pmc_some n (snd pm) (Hk n (or_introl eq_refl))) as [d Hd]. rewrite Hd. cbn [of_opt bind].
      apply safe28_bind; [apply rec_safe|]. intro t.
      destruct (put_port_sizes (conns_from (Some n) conns) (ct_ports t) pm) as [pm'| | | |k|] eqn:Ep; cbn [bind];
        try (split; discriminate).
      - apply IH; [intros m Hm; apply Hc; right; exact Hm|].
        intros m Hm. rewrite (put_port_sizes_keys _ _ _ _ Ep). apply Hk. right. exact Hm.
      - eapply safe28_retype. rewrite <- Ep. apply put_port_sizes_safe.
    Qed.

    Lemma go_node_safe r inputs : safe28 (go_node ev statusD fvD rec r inputs).
    Proof.
      destruct r as [name type ips locals links ports resources conns rep constraints children].
      cbn [go_node].
      apply safe28_bind; [apply safe28_of_opt; discriminate|]. intro lorder.
      apply safe28_bind; [apply compile_locals_safe|]. intro lv.
      apply safe28_bind; [apply eval_constraints_safe|]. intro cstrs.
      destruct (compile_links ev (over lv inputs) links (over lv inputs, map (fun c => (rname c, [])) children)) as [pm1| | | |k|] eqn:El;
        cbn [bind]; try (split; discriminate); [|eapply safe28_retype; rewrite <- El; apply compile_links_safe].
      apply safe28_bind; [apply eval_ports_safe|]. intro cports.
      destruct (put_port_sizes (conns_from None conns) cports pm1) as [pm2| | | |k|] eqn:Ep;
        cbn [bind]; try (split; discriminate); [|eapply safe28_retype; rewrite <- Ep; apply put_port_sizes_safe].
      destruct (children_order children conns) as [corder|] eqn:Eo; cbn [of_opt bind]; [|split; discriminate].
      apply safe28_bind.
      - (* the order lists exactly the children, and the parameter map has an entry for each of them *)
        unfold children_order in Eo.
        assert (Hsub : forall n, In n corder -> In n (map rname children)).
        { intros n Hn. destruct (kahn_subset _ _ _ _ _ Eo n Hn) as [[]|H]. exact H. }
        apply compile_children_safe.
        + exact Hsub.
        + intros n Hn. rewrite (put_port_sizes_keys _ _ _ _ Ep), (compile_links_keys _ _ _ _ El). cbn [snd].
          unfold keys. rewrite map_map. cbn [fst]. apply Hsub. exact Hn.
      - intros [pm3 kids].
        apply safe28_bind; [destruct rep; [apply repeated_resources_safe|apply safe28_Ok]|]. intro rs.
        apply safe28_bind; [apply eval_rep_safe|]. intro rp'.
        apply safe28_bind; [apply safe28_mapM; intro x; apply safe28_bind; [apply ev_safe|intro; apply safe28_Ok]|]. intro res'.
        apply safe28_bind; [apply eval_ports_safe|]. intro outs. apply safe28_Ok.
    Qed.
  End Node.

  (* at every depth: the child loop never fails to find a child or its parameter dictionary *)
  Theorem go_lookups_hit fuel : forall r inputs, safe28 (go ev statusD fvD fuel r inputs).
  Proof.
    induction fuel as [|fuel IH]; intros r inputs; cbn [go]; [split; discriminate|].
    apply go_node_safe. exact IH.
  Qed.
End Loop.

Lemma ev_subst_safe env e : safe28 (ev_subst env e).
Proof. unfold ev_subst. destruct (subst_chk env e); split; discriminate. Qed.

Corollary compile_model_lookups_hit fuel r inputs : safe28 (go ev_subst statusE fv fuel r inputs).
Proof. apply go_lookups_hit. exact ev_subst_safe. Qed.
