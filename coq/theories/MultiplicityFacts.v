(* The built-in `multiplicity(p, n)`: the model's value is the p-adic valuation of |n| -- the largest k with
   p^k dividing n -- for integers p >= 2 and n <> 0 (sympy's meaning; |n| < 2^200 is the model's range). *)
From Coq Require Import List String QArith ZArith Bool Qreduction Lia.
From Bq Require Import Expr StdSem StdSemFacts.
Local Open Scope Z_scope.

Lemma padic_nonneg fuel p : forall n, 0 <= padic fuel p n.
Proof. induction fuel as [|f IH]; intro n; cbn [padic]; [lia|]. destruct (Z.eqb (n mod p) 0); [specialize (IH (n / p)); lia | lia]. Qed.

Lemma padic_divides fuel p : 0 < p -> forall n, (p ^ padic fuel p n | n).
Proof.
  intro Hp. induction fuel as [|f IH]; intro n; cbn [padic].
  - rewrite Z.pow_0_r. apply Z.divide_1_l.
  - destruct (Z.eqb (n mod p) 0) eqn:E.
    + apply Z.eqb_eq in E. pose proof (padic_nonneg f p (n / p)) as Hk.
      replace (1 + padic f p (n / p)) with (Z.succ (padic f p (n / p))) by lia.
      rewrite Z.pow_succ_r by exact Hk.
      assert (Hn : n = p * (n / p)) by (pose proof (Z.div_mod n p); lia).
      rewrite Hn at 2.
      apply Z.mul_divide_mono_l. apply IH.
    + rewrite Z.pow_0_r. apply Z.divide_1_l.
Qed.

Lemma padic_maximal fuel p : 2 <= p -> forall n, 0 < n -> n < p ^ Z.of_nat fuel -> ~ (p ^ (padic fuel p n + 1) | n).
Proof.
  intro Hp. induction fuel as [|f IH]; intros n Hn Hlt.
  - cbn in Hlt. lia.
  - cbn [padic]. destruct (Z.eqb (n mod p) 0) eqn:E.
    + apply Z.eqb_eq in E. pose proof (padic_nonneg f p (n / p)) as Hk.
      assert (Hnm : n = p * (n / p)) by (pose proof (Z.div_mod n p); lia).
      assert (Hm : 0 < n / p) by (apply Z.div_str_pos; split; [lia|]; destruct (Z.le_gt_cases p n); [assumption|]; rewrite Z.div_small in Hnm by lia; lia).
      assert (Hml : n / p < p ^ Z.of_nat f).
      { rewrite Nat2Z.inj_succ, Z.pow_succ_r in Hlt by lia. apply Z.div_lt_upper_bound; lia. }
      intro Hd. apply (IH (n / p) Hm Hml).
      replace (1 + padic f p (n / p) + 1) with (Z.succ (padic f p (n / p) + 1)) in Hd by lia.
      rewrite Z.pow_succ_r in Hd by lia. rewrite Hnm in Hd at 2.
      apply Z.mul_divide_cancel_l in Hd; [exact Hd | lia].
    + apply Z.eqb_neq in E. rewrite Z.add_0_l, Z.pow_1_r. intro Hd. apply E. apply Z.mod_divide; [lia | exact Hd].
Qed.

Lemma two_pow_le p k : 2 <= p -> 0 <= k -> 2 ^ k <= p ^ k.
Proof. intros Hp Hk. apply Z.pow_le_mono_l. lia. Qed.

(* the negative argument of the round-12 change: multiplicity(2, -8) is 3 *)
Example multiplicity_of_a_negative : multiplicityQ 2 (-8 # 1) = Some (3 # 1)%Q.
Proof. vm_compute. reflexivity. Qed.

Local Opaque padic Z.pow.

Theorem multiplicity_meaning (p n : Z) v :
  multiplicityQ (inject_Z p) (inject_Z n) = Some v ->
  exists k, v = inject_Z k /\ 0 <= k /\ (p ^ k | n) /\ ~ (p ^ (k + 1) | n).
Proof.
  unfold multiplicityQ. rewrite !is_int_inject, !to_int_inject. cbn [andb].
  destruct (Z.leb 2 p) eqn:Hp; [|discriminate]. destruct (Z.eqb n 0) eqn:Hn; [discriminate|]. cbn [negb andb].
  set (B := (2 ^ 200)%Z). set (F := 200%nat).
  destruct (Z.ltb (Z.abs n) B) eqn:Hl; [|discriminate].
  apply Z.leb_le in Hp. apply Z.eqb_neq in Hn. apply Z.ltb_lt in Hl.
  intro H. injection H as H. exists (padic F p (Z.abs n)). split; [symmetry; exact H|]. split; [apply padic_nonneg|].
  split.
  - apply Z.divide_abs_r. apply padic_divides. lia.
  - intro Hd. apply Z.divide_abs_r in Hd. revert Hd. apply padic_maximal; [exact Hp | lia |].
    eapply Z.lt_le_trans; [exact Hl|]. subst B F. change 200 with (Z.of_nat 200). apply two_pow_le; [exact Hp|apply Nat2Z.is_nonneg].
Qed.
