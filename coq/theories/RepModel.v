(* RepModel.v — sequences, dispatch to the generated formulas, and the
   executable specification (unrolled sums) used by the case files. *)
From Coq Require Import List String QArith ZArith Bool Qreduction Qpower.
From Bq Require Import Expr StdSem.
From BqGen Require Import GenRepetitions.
Import ListNotations.
Open Scope string_scope.

Inductive sequence :=
| SConst (m : expr)
| SArith (a d : expr)
| SGeom (q : expr)
| SClosed (sum prod : option expr) (nts : string)
| SCustom (term : expr) (it : string).

Definition seq_type (s : sequence) : string :=
  match s with
  | SConst _ => "constant" | SArith _ _ => "arithmetic" | SGeom _ => "geometric"
  | SClosed _ _ _ => "closed_form" | SCustom _ _ => "custom"
  end.

Definition seq_sum (s : sequence) (e cnt : expr) : option expr :=
  match s with
  | SConst m => gen_ConstantSequence_get_sum m e cnt
  | SArith a d => gen_ArithmeticSequence_get_sum a d e cnt
  | SGeom q => gen_GeometricSequence_get_sum q e cnt
  | SClosed su pr nts => gen_ClosedFormSequence_get_sum su pr nts e cnt
  | SCustom t it => gen_CustomSequence_get_sum t it e cnt
  end.

Definition seq_prod (s : sequence) (e cnt : expr) : option expr :=
  match s with
  | SConst m => gen_ConstantSequence_get_prod m e cnt
  | SArith a d => gen_ArithmeticSequence_get_prod a d e cnt
  | SGeom q => gen_GeometricSequence_get_prod q e cnt
  | SClosed su pr nts => gen_ClosedFormSequence_get_prod su pr nts e cnt
  | SCustom t it => gen_CustomSequence_get_prod t it e cnt
  end.

(* ---------- executable specification ---------- *)

Fixpoint osum (n : nat) (f : nat -> option Q) : option Q :=
  match n with
  | O => Some 0
  | S k => match osum k f, f k with Some a, Some b => Some (Qred (a + b)) | _, _ => None end
  end.

Definition omul (a b : option Q) : option Q :=
  match a, b with Some x, Some y => Some (Qred (x * y)) | _, _ => None end.
Definition oadd (a b : option Q) : option Q :=
  match a, b with Some x, Some y => Some (Qred (x + y)) | _, _ => None end.

Definition nat_of_Q (c : Q) : option nat :=
  if is_int c && Z.leb 0 (to_int c) && Z.leb (to_int c) 400 then Some (Z.to_nat (to_int c)) else None.

Definition qn (k : nat) : Q := inject_Z (Z.of_nat k).

(* sum over i < count of (i-th term of the sequence) * child, read directly from C07's statement *)
Definition rep_spec_sum (s : sequence) (r : string -> Q) (e cnt : expr) : option Q :=
  match evalQ r cnt with
  | None => None
  | Some c =>
      match nat_of_Q c with
      | None => None
      | Some n =>
          match s with
          | SConst m => osum n (fun _ => omul (evalQ r m) (evalQ r e))
          | SArith a d =>
              osum n (fun i => omul (oadd (evalQ r a) (omul (Some (qn i)) (evalQ r d))) (evalQ r e))
          | SGeom q =>
              match evalQ r q with
              | Some qv => if Qeq_bool qv 1 then None
                           else osum n (fun i => omul (Some (Qred (Qpower qv (Z.of_nat i)))) (evalQ r e))
              | None => None
              end
          | SClosed (Some su) _ nts => omul (evalQ r e) (evalQ (upd r nts c) su)
          | SClosed None _ _ => None
          | SCustom t it => osum n (fun k => omul (evalQ (upd r it (qn k)) t) (evalQ r e))
          end
      end
  end.

Fixpoint oprod (n : nat) (f : nat -> option Q) : option Q :=
  match n with
  | O => Some 1
  | S k => match oprod k f, f k with Some a, Some b => Some (Qred (a * b)) | _, _ => None end
  end.

(* constant sequence, multiplicative: child ^ (count * multiplier); custom sequence: the unrolled product over the
   rounds of term(i) * child -- the child's value once PER round *)
Definition rep_spec_prod (s : sequence) (r : string -> Q) (e cnt : expr) : option Q :=
  match s, evalQ r cnt, evalQ r e with
  | SConst m, Some c, Some ev =>
      match nat_of_Q c, evalQ r m with
      | Some n, Some mv =>
          match nat_of_Q mv with
          | Some k => if Nat.leb (n * k) 64 then Some (Qred (Qpower ev (Z.of_nat (n * k)))) else None
          | None => None
          end
      | _, _ => None
      end
  | SCustom t it, Some c, Some ev =>
      match nat_of_Q c with
      | Some n => if Nat.leb n 40 then oprod n (fun k => omul (evalQ (upd r it (qn k)) t) (Some ev)) else None
      | None => None
      end
  | _, _, _ => None
  end.

Definition oeval (r : string -> Q) (e : option expr) : option Q :=
  match e with Some x => evalQ r x | None => None end.

Definition cmp (inexact : bool) (a b : option Q) : nat :=
  if inexact then cmpQ_tol (1 # 1000000000) a b else cmpQ_rel (1 # 1000000000000) a b.

(* one direct repetition case at several points:
   tie  = implementation vs the generated formula,
   spec = implementation vs the unrolled sum *)
Definition check_rep_case (s : sequence) (e cnt : expr) (inexact : bool)
           (impl_sum impl_prod : option expr) (want_prod : bool)
           (points : list (list (string * Q))) : list nat * list nat :=
  let one (p : list (string * Q)) :=
    let r := envQ p (dfltQ 0) in
    let i_s := oeval r impl_sum in
    let t := cmp inexact i_s (oeval r (seq_sum s e cnt)) in
    let sp := match rep_spec_sum s r e cnt with None => 2%nat | Some v => cmp inexact i_s (Some v) end in
    let tp := if want_prod then cmp inexact (oeval r impl_prod) (oeval r (seq_prod s e cnt)) else 0%nat in
    let spp := if want_prod then
                 match rep_spec_prod s r e cnt with None => 2%nat | Some v => cmp inexact (oeval r impl_prod) (Some v) end
               else 0%nat in
    ([t; tp], [sp; spp]) in
  let rs := map one points in
  (flat_map fst rs, flat_map snd rs).
