(* HighwaterFacts.v — the running flow of calculate_highwater is the cut (C16). *)
From Coq Require Import List String QArith ZArith Bool Qminmax Lia Setoid.
From Bq Require Import Highwater.
Import ListNotations.
Open Scope Q_scope.

Lemma sumw_ext P P' ws : (forall w, In w ws -> P w = P' w) -> sumw P ws = sumw P' ws.
Proof.
  induction ws as [|w ws IH]; intro H; [reflexivity|].
  unfold sumw. cbn [fold_right]. fold (sumw P ws) (sumw P' ws).
  rewrite (H w (or_introl eq_refl)), IH; [reflexivity|]. intros w' Hin. apply H. right. exact Hin.
Qed.

(* linear combination of indicator sums, wire by wire *)
Lemma sumw_combine (A Bm C D : wire -> bool) ws :
  (forall w, In w ws ->
     (if A w then 1 else 0) == (if Bm w then 1 else 0) - (if C w then 1 else 0) + (if D w then 1 else 0)) ->
  sumw A ws == sumw Bm ws - sumw C ws + sumw D ws.
Proof.
  induction ws as [|w ws IH]; intro H; [unfold sumw; cbn; ring|].
  pose proof (IH (fun w' Hin => H w' (or_intror Hin))) as IH'.
  pose proof (H w (or_introl eq_refl)) as Hw.
  unfold sumw in *. cbn [fold_right].
  destruct (A w), (Bm w), (C w), (D w);
    try (exfalso; revert Hw; compute; intro Hx; discriminate Hx);
    rewrite IH'; ring.
Qed.

Definition forward (ws : list wire) : Prop := forall w, In w ws -> (w_src w < w_tgt w)%nat.

(* the invariant of the loop: before child k the running flow is the total size of the wires alive there *)
Theorem active_is_cut ws : forward ws -> forall k, (1 <= k)%nat -> active ws k == alive ws k.
Proof.
  intros Hf k Hk. induction k as [|k IH]; [lia|].
  destruct k as [|j].
  - cbn [active]. unfold outflow_at, alive. rewrite (sumw_ext (fun w => Nat.ltb (w_src w) 1 && Nat.leb 1 (w_tgt w)) (fun w => Nat.eqb (w_src w) 0) ws); [reflexivity|].
    intros w Hin. pose proof (Hf w Hin).
    destruct (Nat.eqb_spec (w_src w) 0); destruct (Nat.ltb_spec (w_src w) 1); destruct (Nat.leb_spec 1 (w_tgt w)); cbn; try reflexivity; lia.
  - change (active ws (S (S j))) with (active ws (S j) - inflow_at ws (S j) + outflow_at ws (S j)).
    rewrite IH by lia. unfold alive, inflow_at, outflow_at. symmetry. apply sumw_combine.
    intros w Hin. pose proof (Hf w Hin).
    destruct (Nat.ltb_spec (w_src w) (S (S j))); destruct (Nat.leb_spec (S (S j)) (w_tgt w));
      destruct (Nat.ltb_spec (w_src w) (S j)); destruct (Nat.leb_spec (S j) (w_tgt w));
      destruct (Nat.eqb_spec (w_tgt w) (S j)); destruct (Nat.eqb_spec (w_src w) (S j)); cbn; try ring; lia.
Qed.

(* during child k: what the code records is the wires bypassing the child plus the child's own highwater *)
Theorem during_child_is_bypass ws hw k : forward ws -> (1 <= k)%nat ->
  active ws k - inflow_at ws k + hw == bypass ws k + hw.
Proof.
  intros Hf Hk. rewrite (active_is_cut ws Hf k Hk).
  assert (H : alive ws k - inflow_at ws k + 0 == bypass ws k).
  { unfold alive, inflow_at, bypass. symmetry.
    rewrite (sumw_combine _ (fun w => Nat.ltb (w_src w) k && Nat.leb k (w_tgt w)) (fun w => Nat.eqb (w_tgt w) k) (fun _ => false)).
    - assert (Hz : sumw (fun _ => false) ws == 0) by (clear; induction ws; cbn; [reflexivity|assumption]).
      rewrite Hz. reflexivity.
    - intros w Hin. pose proof (Hf w Hin).
      destruct (Nat.ltb_spec (w_src w) k); destruct (Nat.ltb_spec k (w_tgt w)); destruct (Nat.leb_spec k (w_tgt w));
        destruct (Nat.eqb_spec (w_tgt w) k); cbn; try ring; lia. }
  rewrite <- H. ring.
Qed.

(* after the last child: the output size is the size of the wires alive at the output side *)
Theorem final_is_cut ws n : (forall w, In w ws -> (w_tgt w <= S n)%nat) -> forward ws ->
  inflow_at ws (S n) == alive ws (S n).
Proof.
  intros Hb Hf. unfold inflow_at, alive. rewrite (sumw_ext (fun w => Nat.ltb (w_src w) (S n) && Nat.leb (S n) (w_tgt w)) (fun w => Nat.eqb (w_tgt w) (S n)) ws); [reflexivity|].
  intros w Hin. pose proof (Hf w Hin). pose proof (Hb w Hin).
  destruct (Nat.eqb_spec (w_tgt w) (S n)); destruct (Nat.ltb_spec (w_src w) (S n)); destruct (Nat.leb_spec (S n) (w_tgt w)); cbn; try reflexivity; lia.
Qed.

Lemma Forall2_map_seq (f g : nat -> Q) s n : (forall k, (s <= k)%nat -> f k == g k) -> Forall2 Qeq (map f (seq s n)) (map g (seq s n)).
Proof.
  revert s. induction n as [|n IH]; intros s H; cbn; [constructor|].
  constructor; [apply H; lia|apply IH; intros k Hk; apply H; lia].
Qed.

(* the code's list of watermarks is, element by element, the list of cuts *)
Theorem watermarks_are_cuts ws n hw :
  forward ws -> (forall w, In w ws -> (w_tgt w <= S n)%nat) ->
  Forall2 Qeq (code_watermarks ws n hw) (cut_watermarks ws n hw).
Proof.
  intros Hf Hb. unfold code_watermarks, cut_watermarks. constructor.
  - rewrite <- (active_is_cut ws Hf 1) by lia. reflexivity.
  - apply Forall2_app.
    + apply Forall2_map_seq. intros k Hk. apply during_child_is_bypass; assumption.
    + constructor; [apply final_is_cut; assumption|constructor].
Qed.

(* hence the maximum over the code's list is at least each cut: total input, each child + bypass, total output *)
Lemma max_ge_each m rest x : In x (m :: rest) -> x <= fold_right Qmax m rest.
Proof.
  revert x. induction rest as [|y rest IH]; intros x Hin; cbn.
  - destruct Hin as [H|[]]. subst. apply Qle_refl.
  - destruct Hin as [H|[H|H]].
    + subst. eapply Qle_trans; [apply IH; left; reflexivity|apply Q.le_max_r].
    + subst. apply Q.le_max_l.
    + eapply Qle_trans; [apply IH; right; exact H|apply Q.le_max_r].
Qed.
