(* DenSrc.v — the bottom-up reading of C01/C02/C08, written directly on the
   SOURCE routine (no preprocessing, no substitution), as an executable
   function to rational values.  It is the independent specification that the
   case files compare the implementation (and the compile model) against.
   Definitions only. *)
From Coq Require Import List String QArith ZArith Bool Qreduction Qpower.
From Bq Require Import Expr StdSem RepModel Routine Compile Preprocess CompileTop.
Import ListNotations.
Open Scope string_scope.

Inductive vtree :=
  VT (name : string)
     (resources : list (string * (rtype * option Q)))
     (ports : list (string * option Q))
     (children : list vtree)
     (ok : bool)    (* false: the reading demands an error (e.g. a resource type a repetition cannot carry) *)
     (weight : option Q)   (* sum of the repetition sequence over i < count (1 when the node is not repeated) *)
     (mism : option bool). (* C06: does an incoming integer size contradict what this node declares for the port?
                              None = not determined at this point (undefined or non-integer values) *)

Definition vt_name t := match t with VT n _ _ _ _ _ _ => n end.
Definition vt_resources t := match t with VT _ r _ _ _ _ _ => r end.
Definition vt_ports t := match t with VT _ _ p _ _ _ _ => p end.
Definition vt_children t := match t with VT _ _ _ c _ _ _ => c end.
Definition vt_ok t := match t with VT _ _ _ _ o _ _ => o end.
Definition vt_weight t := match t with VT _ _ _ _ _ w _ => w end.
Definition vt_mism t := match t with VT _ _ _ _ _ _ m => m end.

Definition scope := list (string * option Q).

(* evaluation in a scope: names of the scope shadow the top-level environment *)
Definition eval_in (rho : string -> Q) (sc : scope) (undefined_is_top : bool) (e : expr) : option Q :=
  if forallb (fun x => match lookup x sc with Some None => false | Some (Some _) => true | None => undefined_is_top end) (fv e)
  then evalQ (fun x => match lookup x sc with Some (Some v) => v | _ => rho x end) e
  else None.

Definition path_dot (path n : string) : string := if String.eqb path "" then n else dot path n.

(* repetition, on values: sum over i < count of (i-th term) * child *)
Definition rep_sum_v (s : sequence) (ev : expr -> option Q) (ev_upd : string -> Q -> expr -> option Q)
           (child : option Q) (cnt : expr) : option Q :=
  match ev cnt with
  | None => None
  | Some c =>
      match nat_of_Q c with
      | None => None
      | Some n =>
          match s with
          | SConst m => osum n (fun _ => omul (ev m) child)
          | SArith a d => osum n (fun i => omul (oadd (ev a) (omul (Some (qn i)) (ev d))) child)
          | SGeom q =>
              match ev q with
              | Some qv => if Qeq_bool qv 1 then None
                           else osum n (fun i => omul (Some (Qred (Qpower qv (Z.of_nat i)))) child)
              | None => None
              end
          | SClosed (Some su) _ nts => omul child (ev_upd nts c su)
          | SClosed None _ _ => None
          | SCustom t it => osum n (fun k => omul (ev_upd it (qn k) t) child)
          end
      end
  end.

Definition rep_prod_v (s : sequence) (ev : expr -> option Q) (ev_upd : string -> Q -> expr -> option Q)
           (child : option Q) (cnt : expr) : option Q :=
  match s, ev cnt, child with
  | SCustom t it, Some c, Some cv =>
      (* the unrolled product over the rounds of term(i) * child: the child's value once PER round *)
      match nat_of_Q c with
      | Some n => if Nat.leb n 40 then oprod n (fun k => omul (ev_upd it (qn k) t) (Some cv)) else None
      | None => None
      end
  | SConst m, Some c, Some cv =>
      match nat_of_Q c, ev m with
      | Some n, Some mv =>
          match nat_of_Q mv with
          | Some k => if Nat.leb (n * k) 64 then Some (Qred (Qpower cv (Z.of_nat (n * k)))) else None
          | None => None
          end
      | _, _ => None
      end
  | _, _, _ => None
  end.

Fixpoint find_vt (n : string) (l : list vtree) : option vtree :=
  match l with [] => None | t :: l' => if String.eqb (vt_name t) n then Some t else find_vt n l' end.

Definition ep_eqb (a b : endpoint) : bool :=
  match fst a, fst b with
  | None, None => String.eqb (snd a) (snd b)
  | Some x, Some y => String.eqb x y && String.eqb (snd a) (snd b)
  | _, _ => false
  end.

(* the endpoint wired INTO the given target *)
Definition source_of (conns : list (endpoint * endpoint)) (tgt : endpoint) : option endpoint :=
  match find (fun st => ep_eqb (snd st) tgt) conns with Some st => Some (fst st) | None => None end.

Definition opt_join {A} (o : option (option A)) : option A := match o with Some x => x | None => None end.

(* size carried by a source endpoint: one of this node's input/through ports, or a sibling's output/through port *)
Definition size_at (my_in : list (string * option Q)) (kids : list vtree) (src : endpoint) : option Q :=
  match src with
  | (None, p) => opt_join (lookup p my_in)
  | (Some c, p) => match find_vt c kids with Some t => opt_join (lookup p (vt_ports t)) | None => None end
  end.

Definition bigprod (l : list (option Q)) : option Q := fold_right omul (Some 1) l.
Definition bigsum (l : list (option Q)) : option Q := fold_right oadd (Some 0) l.

Section Den.
  Variable rho : string -> Q.

  Fixpoint den_src (fuel : nat) (is_root : bool) (path : string) (r : routine)
           (P : list (string * option Q))                (* parameters linked by ancestors *)
           (DL : list (string * (string * option Q)))    (* deeper links passing through: (path below here, (param, value)) *)
           (W : list (string * option Q))                (* sizes of the incoming wires, per input/through port *)
    : vtree :=
    match fuel with
    | O => VT (rname r) [] [] [] false None None
    | S f =>
        match r with
        | Routine name type ips locals links ports resources conns rep constraints children =>
            (* 1. parameters: linked value, else the top-level input named by the path *)
            let params : scope :=
                map (fun ip => (ip, match lookup ip P with
                                    | Some v => v
                                    | None => Some (rho (path_dot path ip))
                                    end)) (ips ++ filter (fun k => negb (mem k ips)) (keys P))%list in
            (* 2. sizes of this node's own input/through ports *)
            let non_out := filter non_output ports in
            let my_in0 : list (string * option Q) :=
                map (fun p => (p_name p, opt_join (lookup (p_name p) W))) non_out in
            (* symbols introduced by single-symbol port sizes (first port in _sort_key order wins) *)
            let port_syms : scope :=
                if is_root then []
                else fold_left (fun acc p => match p_size p with
                                             | ESym s => if String.eqb s (hash_name (p_name p)) || mem s (keys acc)
                                                            || mem s (keys locals)   (* a declared local variable is not redefined by a port *)
                                                         then acc
                                                         else (acc ++ [(s, opt_join (lookup (p_name p) W))])%list
                                             | _ => acc
                                             end) (sort_ports non_out) [] in
            let hash_syms : scope := map (fun pv => (hash_name (fst pv), snd pv)) my_in0 in
            let sc0 : scope := (params ++ port_syms ++ (if is_root then [] else hash_syms))%list in
            (* 3. local variables, in dependency order *)
            let sc1 : scope :=
                match local_order locals with
                | None => sc0
                | Some ord =>
                    fold_left (fun sc x => match lookup x sc with
                                           | Some _ => sc   (* a parameter / port symbol of that name wins *)
                                           | None => match lookup x locals with
                                                     | Some e => (sc ++ [(x, eval_in rho sc is_root e)])%list
                                                     | None => sc
                                                     end
                                           end) ord sc0
                end in
            let ev (e : expr) := eval_in rho sc1 is_root e in
            (* the root's own input/through ports carry their declared expression read in the root's scope
               (parameters and local variables); any other node's carry what is wired in *)
            let my_in : list (string * option Q) :=
                if is_root then map (fun p => (p_name p, ev (p_size p))) non_out else my_in0 in
            (* 4. children, in an order consistent with the wiring *)
            let order := match children_order children conns with Some o => o | None => map rname children end in
            let kids : list vtree :=
                fold_left
                  (fun acc cn =>
                     match find_child cn children with
                     | None => acc
                     | Some c =>
                         let direct : list (string * option Q) :=
                             (flat_map (fun l => let v := ev (ESym (fst l)) in
                                                 flat_map (fun t => if String.eqb (fst t) cn then [(snd t, v)] else []) (snd l)) links
                              ++ flat_map (fun d => if String.eqb (fst d) cn then [snd d] else []) DL)%list in
                         let deeper : list (string * (string * option Q)) :=
                             (flat_map (fun l => let v := ev (ESym (fst l)) in
                                                 flat_map (fun t => match split_first_dot (fst t) with
                                                                    | Some (h, rest) => if String.eqb h cn then [(rest, (snd t, v))] else []
                                                                    | None => []
                                                                    end) (snd l)) links
                              ++ flat_map (fun d => match split_first_dot (fst d) with
                                                    | Some (h, rest) => if String.eqb h cn then [(rest, snd d)] else []
                                                    | None => []
                                                    end) DL)%list in
                         let w : list (string * option Q) :=
                             map (fun p => (p_name p,
                                            match source_of conns (Some cn, p_name p) with
                                            | Some src => size_at my_in acc src
                                            | None => None
                                            end)) (filter non_output (rports c)) in
                         (acc ++ [den_src f false (path_dot path cn) c direct deeper w])%list
                     end) order [] in
            (* 5. child.resource references *)
            let cvars : scope :=
                flat_map (fun t => map (fun nr => (dot (vt_name t) (fst nr), snd (snd nr))) (vt_resources t)) kids in
            let sc2 : scope := (cvars ++ sc1)%list in
            let ev2 (e : expr) := eval_in rho sc2 is_root e in
            let ev2_upd (x : string) (v : Q) (e : expr) := eval_in rho ((x, Some v) :: sc2) is_root e in
            (* 6. resources *)
            let explicit := map (fun rs => (r_name rs, (r_type rs, ev2 (r_value rs)))) resources in
            let typed (ty : rtype) : list (string * list (option Q)) :=
                fold_left (fun m t =>
                             fold_left (fun m' nr =>
                                          if rtype_eqb (fst (snd nr)) ty
                                          then (fix add (k : string) (v : option Q) (mm : list (string * list (option Q))) :=
                                                  match mm with
                                                  | [] => [(k, [v])]
                                                  | (k', vs) :: mm' => if String.eqb k k' then (k', (vs ++ [v])%list) :: mm'
                                                                       else (k', vs) :: add k v mm'
                                                  end) (fst nr) (snd (snd nr)) m'
                                          else m') (vt_resources t) m) kids [] in
            let res_ok : (list (string * (rtype * option Q)) * bool) :=
                match rep with
                | None =>
                    let adds := flat_map (fun kv => match lookup (fst kv) explicit with
                                                    | Some _ => []
                                                    | None => [(fst kv, (RAdditive, bigsum (snd kv)))]
                                                    end) (typed RAdditive) in
                    let muls := flat_map (fun kv => match lookup (fst kv) explicit with
                                                    | Some _ => []
                                                    | None => [(fst kv, (RMultiplicative, bigprod (snd kv)))]
                                                    end) (typed RMultiplicative) in
                    ((explicit ++ filter (fun kv => negb (mem (fst kv) (keys muls))) adds ++ muls)%list, true)
                | Some rp =>
                    match kids with
                    | [kid] =>
                        let rs := map (fun nr =>
                                         let '(rn, (rt, v)) := nr in
                                         match rt with
                                         | RAdditive => ([(rn, (rt, rep_sum_v (rep_seq rp) ev2 ev2_upd v (rep_count rp)))], true)
                                         | RMultiplicative => ([(rn, (rt, rep_prod_v (rep_seq rp) ev2 ev2_upd v (rep_count rp)))], true)
                                         | RQubits => ([], seq_is_constant (rep_seq rp))
                                         | ROther => ([], false)
                                         end) (vt_resources kid) in
                        (flat_map fst rs, forallb snd rs)
                    | _ => ([], false)
                    end
                end in
            (* 7. output ports: the declared expression in this scope, or whatever is wired in *)
            let outs : list (string * option Q) :=
                map (fun p => (p_name p,
                               match p_size p with
                               | ESym s => if String.eqb s (hash_name (p_name p))
                                           then match source_of conns (None, p_name p) with
                                                | Some src => size_at my_in kids src
                                                | None => if is_root then Some (rho s) else None
                                                end
                                           else ev2 (p_size p)
                               | sz => ev2 sz
                               end)) (filter is_output ports) in
            let weight := match rep with
                          | None => Some 1
                          | Some rp => rep_sum_v (rep_seq rp) ev2 ev2_upd (Some 1) (rep_count rp)
                          end in
            (* C06: incoming size vs declaration, for every input/through port of a non-root node *)
            let int_pair (a b : option Q) : option bool :=
                match a, b with
                | Some x, Some y => if is_int x && is_int y then Some (negb (Qeq_bool x y)) else None
                | _, _ => None
                end in
            let port_checks : list (option bool) :=
                if is_root then []
                else
                  snd (fold_left
                         (fun (st : list (string * string) * list (option bool)) p =>
                            let w := opt_join (lookup (p_name p) W) in
                            match p_size p with
                            | ESym s =>
                                if String.eqb s (hash_name (p_name p)) then st
                                else if mem s ips || mem s (keys locals)
                                then (* the symbol is a declared parameter or local variable of the routine: the port does not
                                        define it, the incoming size has to agree with its value *)
                                     (fst st, (snd st ++ [int_pair w (eval_in rho sc1 false (ESym s))])%list)
                                else match lookup s (fst st) with
                                     | None => ((fst st ++ [(s, p_name p)])%list, snd st)       (* first port with this symbol: defines it *)
                                     | Some first => (fst st, (snd st ++ [int_pair w (opt_join (lookup first W))])%list)
                                     end
                            | sz => (fst st, (snd st ++ [int_pair w (eval_in rho sc1 false sz)])%list)
                            end) (sort_ports non_out) ([], [])) in
            let mism : option bool :=
                if existsb (fun c => match c with Some true => true | _ => false end) port_checks then Some true
                else if forallb (fun c => match c with Some false => true | _ => false end) port_checks then Some false
                     else None in
            VT name (fst res_ok) (my_in ++ outs)%list kids (snd res_ok && forallb vt_ok kids) weight mism
        end
    end.
End Den.

(* ---------- comparison of an implementation tree with the denotation ---------- *)

Fixpoint cmp_vtree (fuel : nat) (inexact : bool) (r : string -> Q) (v : vtree) (t : ctree expr) : list nat :=
  match fuel with
  | O => [1%nat]
  | S f =>
      let res := flat_map (fun nr => match lookup (fst nr) (ct_resources t) with
                                     | Some (ty, e) => [if rtype_eqb ty (fst (snd nr)) then 0%nat else 1%nat;
                                                        match snd (snd nr) with
                                                        | Some q => cmp inexact (evalQ r e) (Some q)
                                                        | None => 2%nat
                                                        end]
                                     | None => [1%nat]
                                     end) (vt_resources v) in
      let extra := [if Nat.eqb (List.length (vt_resources v)) (List.length (ct_resources t)) then 0%nat else 1%nat] in
      let prt := flat_map (fun pv => match lookup (fst pv) (ct_ports t) with
                                     | Some (_, e) => [match snd pv with
                                                       | Some q => cmp inexact (evalQ r e) (Some q)
                                                       | None => 2%nat
                                                       end]
                                     | None => [1%nat]
                                     end) (vt_ports v) in
      let kids := flat_map (fun k => match find_ct (vt_name k) (ct_children t) with
                                     | Some k' => cmp_vtree f inexact r k k'
                                     | None => [1%nat]
                                     end) (vt_children v) in
      (extra ++ res ++ prt ++ kids)%list
  end.

Definition spec_compile (r : routine) (impl : impl_result) (inexact : bool) (pts : list (list (string * Q))) : list nat :=
  match impl with
  | IOk t =>
      flat_map (fun p => let rho := envQ p (dfltQ 0) in
                         let v := den_src rho (S (height r)) true "" r [] [] [] in
                         if vt_ok v then cmp_vtree (S (height r)) inexact rho v t else [1%nat]) pts
  | IErr _ => []
  end.

(* the same comparison for the compile model (a regression test of the proofs' statement) *)
Definition spec_model (r : routine) (pts : list (list (string * Q))) : list nat :=
  match compile_routine r with
  | Ok m => spec_compile r (IOk m) false pts
  | _ => []
  end.


(* C06 on the whole tree: Some true = some port is contradicted; Some false = every declaration agrees;
   None = cannot tell at this point *)
Fixpoint any_mismatch (fuel : nat) (v : vtree) : option bool :=
  match fuel with
  | O => None
  | S f =>
      let ks := map (any_mismatch f) (vt_children v) in
      let all := vt_mism v :: ks in
      if existsb (fun c => match c with Some true => true | _ => false end) all then Some true
      else if forallb (fun c => match c with Some false => true | _ => false end) all then Some false
           else None
  end.
