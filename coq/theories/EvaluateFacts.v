(* EvaluateFacts.v — evaluate (_evaluate_internal) is simultaneous substitution:
   order-free, sound for every carrier and interpretation, composable. *)
From Coq Require Import List String QArith ZArith Bool Permutation Lia.
From Bq Require Import Expr ExprFacts RepModel Routine Compare Compile CompileFacts CompileTop.
Import ListNotations.
Open Scope string_scope.

(* ---------- two listings of the same assignment ---------- *)

Definition env_equiv (s s' : env) : Prop :=
  (forall x, lookup x s = lookup x s') /\
  (forall x, mem x (keys s) = mem x (keys s')) /\
  (forall P : string * expr -> bool, existsb P s = existsb P s').

Lemma existsb_perm {A} (P : A -> bool) l l' : Permutation l l' -> existsb P l = existsb P l'.
Proof.
  intro Hp. destruct (existsb P l) eqn:E; symmetry.
  - apply existsb_exists in E. destruct E as [x [Hx Px]]. apply existsb_exists. exists x. split; [|exact Px].
    eapply Permutation_in; eauto.
  - destruct (existsb P l') eqn:E'; [|reflexivity]. apply existsb_exists in E'. destruct E' as [x [Hx Px]].
    assert (existsb P l = true) by (apply existsb_exists; exists x; split; [eapply Permutation_in; [apply Permutation_sym; exact Hp|exact Hx]|exact Px]).
    congruence.
Qed.

Lemma perm_env_equiv s s' : NoDup (keys s) -> Permutation s s' -> env_equiv s s'.
Proof.
  intros Hnd Hp. split; [|split].
  - intro x. apply lookup_perm; assumption.
  - intro x. assert (Hk : Permutation (keys s) (keys s')) by (apply Permutation_map; exact Hp).
    destruct (mem x (keys s)) eqn:E; symmetry.
    + apply mem_In. apply mem_In in E. eapply Permutation_in; eauto.
    + apply mem_false_notin. apply mem_false_notin in E. intro H. apply E.
      eapply Permutation_in; [apply Permutation_sym; exact Hk|exact H].
  - intro P. apply existsb_perm. exact Hp.
Qed.

Lemma captures_lookup_ext e : forall s s', (forall x, lookup x s = lookup x s') -> captures s e = captures s' e.
Proof.
  induction e as [q|x|o args IH|k i b lo hi IHb IHlo IHhi] using expr_ind'; intros s s' H; cbn; auto.
  - induction args as [|a args IHa]; cbn; [reflexivity|].
    inversion IH; subst. rewrite (H2 s s' H). f_equal. apply IHa. exact H3.
  - assert (Hr : forall x, lookup x (remove_key i s) = lookup x (remove_key i s')).
    { intro x. destruct (String.eqb x i) eqn:E.
      - apply String.eqb_eq in E. subst. rewrite !lookup_remove_same. reflexivity.
      - rewrite !lookup_remove_other by exact E. apply H. }
    rewrite (IHlo s s' H), (IHhi s s' H), (IHb _ _ Hr). f_equal.
    induction (fv b) as [|y l IHl]; cbn; [reflexivity|]. rewrite Hr, IHl. reflexivity.
Qed.

Lemma ev_subst_ext s s' e : (forall x, lookup x s = lookup x s') -> ev_subst s e = ev_subst s' e.
Proof.
  intro H. unfold ev_subst, subst_chk. rewrite (captures_lookup_ext e s s' H), (subst_lookup_ext e s s' H). reflexivity.
Qed.

Lemma mapM_ext {A B} (f g : A -> result B) l : (forall a, f a = g a) -> mapM f l = mapM g l.
Proof. intro H. induction l as [|a l IH]; cbn; [reflexivity|]. rewrite H, IH. reflexivity. Qed.

Lemma eval_dseq_ext s s' q : env_equiv s s' -> eval_dseq s q = eval_dseq s' q.
Proof.
  intros [H1 [H2 H3]]. destruct q as [m|a d|x|su pr n|t it]; cbn; unfold subst_r;
    rewrite ?(ev_subst_ext s s' _ H1); try reflexivity.
  - destruct su, pr; rewrite ?(ev_subst_ext s s' _ H1); reflexivity.
  - rewrite H2, H3. reflexivity.
Qed.

(* evaluate does not depend on how the assignment is listed *)
Theorem evaluate_ext s s' t : env_equiv s s' -> evaluate s t = evaluate s' t.
Proof.
  intros He. destruct He as [H1 [H2 H3]]. assert (He : env_equiv s s') by (split; [|split]; assumption).
  induction t as [n ty ins sp ports res conns rep cstrs kids IH] using ctree_ind'.
  cbn [evaluate]. unfold subst_r.
  rewrite (mapM_ext _ (fun c : expr * expr * cstatus =>
             let '(l, r, st) := c in
             do l' <- ev_subst s' l; do r' <- ev_subst s' r;
             match statusE l' r' with CViolated => ECompile | st' => Ok (l', r', st') end))
    by (intros [[l r] st]; rewrite !(ev_subst_ext s s' _ H1); reflexivity).
  rewrite (mapM_ext (fun p : string * (dir * expr) => do v <- ev_subst s (snd (snd p)); Ok (fst p, (fst (snd p), v)))
                    (fun p => do v <- ev_subst s' (snd (snd p)); Ok (fst p, (fst (snd p), v))))
    by (intro p; rewrite (ev_subst_ext s s' _ H1); reflexivity).
  rewrite (mapM_ext (fun p : string * (rtype * expr) => do v <- ev_subst s (snd (snd p)); Ok (fst p, (fst (snd p), v)))
                    (fun p => do v <- ev_subst s' (snd (snd p)); Ok (fst p, (fst (snd p), v))))
    by (intro p; rewrite (ev_subst_ext s s' _ H1); reflexivity).
  assert (Hrep : match rep with
                 | Some (c, q) => do c' <- ev_subst s c; do q' <- eval_dseq s q; Ok (Some (c', q'))
                 | None => Ok None end
               = match rep with
                 | Some (c, q) => do c' <- ev_subst s' c; do q' <- eval_dseq s' q; Ok (Some (c', q'))
                 | None => Ok None end).
  { destruct rep as [[c q]|]; [|reflexivity]. rewrite (ev_subst_ext s s' _ H1), (eval_dseq_ext s s' q He). reflexivity. }
  rewrite Hrep.
  assert (Hkids : (fix go (l : list (ctree expr)) : result (list (ctree expr)) :=
                     match l with [] => Ok [] | k :: l' => do k' <- evaluate s k; do r <- go l'; Ok (k' :: r) end) kids
                  = (fix go (l : list (ctree expr)) : result (list (ctree expr)) :=
                     match l with [] => Ok [] | k :: l' => do k' <- evaluate s' k; do r <- go l'; Ok (k' :: r) end) kids).
  { induction kids as [|k kids IHk]; [reflexivity|]. inversion IH; subst. rewrite H4, (IHk H5). reflexivity. }
  rewrite Hkids.
  assert (Hsp : filter (fun x => negb (mem x (keys s))) sp = filter (fun x => negb (mem x (keys s'))) sp).
  { apply filter_ext. intro x. rewrite H2. reflexivity. }
  rewrite Hsp. reflexivity.
Qed.

Corollary evaluate_perm s s' t :
  NoDup (keys s) -> Permutation s s' -> evaluate s t = evaluate s' t.
Proof. intros Hnd Hp. apply evaluate_ext. apply perm_env_equiv; assumption. Qed.

(* ---------- soundness: values after evaluation = values before, read after the assignment ---------- *)

Section Sound.
  Variable V : Type.
  Variable ofQ : Q -> V.
  Variable I : op -> list V -> V.
  Variable B : bigop -> (V -> V) -> V -> V -> V.
  Hypothesis B_ext : forall k f g lo hi, (forall v, f v = g v) -> B k f lo hi = B k g lo hi.

  Notation val := (eval ofQ I B).

  (* the values a tree denotes at rho: ports, resources, repetition, recursively *)
  Inductive vals := Vals (ports : list (string * (dir * V))) (res : list (string * (rtype * V)))
                         (rep : option (V * dseq V)) (kids : list vals).

  Fixpoint vals_of (rho : string -> V) (t : ctree expr) : vals :=
    match t with
    | CT _ _ _ _ ports res _ rep _ kids =>
        Vals (map (val2 V ofQ I B rho) ports) (map (val2 V ofQ I B rho) res)
             (option_map (fun cs => (val rho (fst cs), valseq V ofQ I B rho (snd cs))) rep)
             (map (vals_of rho) kids)
    end.

  Lemma ev_subst_sound s e e' rho : ev_subst s e = Ok e' -> val rho e' = val (env_after ofQ I B rho s) e.
  Proof.
    unfold ev_subst, subst_chk. destruct (captures s e) eqn:Hc; [discriminate|].
    intro H. inversion H; subst. apply eval_subst; assumption.
  Qed.

  Lemma eval_dseq_sound s q q' rho :
    eval_dseq s q = Ok q' -> valseq V ofQ I B rho q' = valseq V ofQ I B (env_after ofQ I B rho s) q.
  Proof.
    destruct q as [m|a d|x|su pr n|t it]; cbn; unfold subst_r; intro H.
    - inv_bind H. inversion H; subst. cbn. rewrite (ev_subst_sound _ _ _ _ Hb). reflexivity.
    - inv_bind H. inv_bind H. inversion H; subst. cbn.
      rewrite (ev_subst_sound _ _ _ _ Hb), (ev_subst_sound _ _ _ _ Hb0). reflexivity.
    - inv_bind H. inversion H; subst. cbn. rewrite (ev_subst_sound _ _ _ _ Hb). reflexivity.
    - inv_bind H. inv_bind H. inv_bind H. inversion H; subst. cbn.
      rewrite (ev_subst_sound _ _ _ _ Hb1). f_equal.
      + destruct su as [e|]; [inv_bind Hb; inversion Hb; subst; cbn; rewrite (ev_subst_sound _ _ _ _ Hb2); reflexivity
                             |inversion Hb; reflexivity].
      + destruct pr as [e|]; [inv_bind Hb0; inversion Hb0; subst; cbn; rewrite (ev_subst_sound _ _ _ _ Hb2); reflexivity
                             |inversion Hb0; reflexivity].
    - destruct (mem it (keys s) || existsb (fun kv => mem it (fv (snd kv))) s); [discriminate|].
      inv_bind H. inversion H; subst. cbn. rewrite (ev_subst_sound _ _ _ _ Hb). reflexivity.
  Qed.

  Lemma mapM_val2 {T} s (l l' : list (string * (T * expr))) rho :
    mapM (fun p => do v <- subst_r s (snd (snd p)); Ok (fst p, (fst (snd p), v))) l = Ok l' ->
    map (val2 V ofQ I B rho) l' = map (val2 V ofQ I B (env_after ofQ I B rho s)) l.
  Proof.
    revert l'. induction l as [|p l IH]; intros l' H; cbn in H.
    - inversion H. reflexivity.
    - inv_bind H. inv_bind H. inversion H; subst. inv_bind Hb. inversion Hb; subst.
      cbn [map]. rewrite (IH _ Hb0). f_equal. unfold val2; cbn. unfold subst_r in Hb1.
      rewrite (ev_subst_sound _ _ _ _ Hb1). reflexivity.
  Qed.

  Theorem evaluate_sound s t : forall t' rho,
      evaluate s t = Ok t' -> vals_of rho t' = vals_of (env_after ofQ I B rho s) t.
  Proof.
    induction t as [n ty ins sp ports res conns rep cstrs kids IH] using ctree_ind'.
    intros t' rho H. cbn [evaluate] in H.
    inv_bind H. inv_bind H. inv_bind H. inv_bind H. inv_bind H. inversion H; subst. clear H.
    cbn [vals_of]. rewrite (mapM_val2 _ _ _ _ Hb0), (mapM_val2 _ _ _ _ Hb1). f_equal.
    - destruct rep as [[c q]|]; [|inversion Hb2; reflexivity].
      inv_bind Hb2. inv_bind Hb2. inversion Hb2; subst. cbn. unfold subst_r in Hb4.
      rewrite (ev_subst_sound _ _ _ _ Hb4), (eval_dseq_sound _ _ _ _ Hb5). reflexivity.
    - clear - IH Hb3. revert x3 Hb3. induction kids as [|k kids IHk]; intros ks Hk.
      + inversion Hk. reflexivity.
      + inv_bind Hk. inv_bind Hk. inversion Hk; subst. inversion IH; subst. cbn [map].
        rewrite (H1 _ _ Hb), (IHk H2 _ Hb0). reflexivity.
  Qed.

  (* two steps with a closed first assignment and disjoint keys = one step with the union *)
  Definition closed_env (s : env) : Prop := forall x v, lookup x s = Some v -> fv v = [].

  Lemma env_after_compose rho s1 s2 x :
    closed_env s1 ->
    env_after ofQ I B (env_after ofQ I B rho s2) s1 x = env_after ofQ I B rho (s1 ++ s2)%list x.
  Proof.
    intro Hc. unfold env_after at 1 3. rewrite lookup_app.
    destruct (lookup x s1) as [v|] eqn:E; [|reflexivity].
    apply (eval_ext_fv V ofQ I B B_ext). rewrite (Hc _ _ E). intros y [].
  Qed.

  Theorem evaluate_compose s1 s2 t t1 t2 t12 rho :
    closed_env s1 ->
    evaluate s1 t = Ok t1 -> evaluate s2 t1 = Ok t2 -> evaluate (s1 ++ s2)%list t = Ok t12 ->
    vals_of rho t2 = vals_of rho t12.
  Proof.
    intros Hc H1 H2 H12.
    rewrite (evaluate_sound _ _ _ rho H2), (evaluate_sound _ _ _ _ H1), (evaluate_sound _ _ _ rho H12).
    clear - B_ext Hc. induction t as [n ty ins sp ports res conns rep cstrs kids IH] using ctree_ind'.
    assert (Hv : forall e, val (env_after ofQ I B (env_after ofQ I B rho s2) s1) e = val (env_after ofQ I B rho (s1 ++ s2)%list) e).
    { intro e. apply (eval_ext V ofQ I B B_ext). intro x. apply env_after_compose. exact Hc. }
    cbn [vals_of]. f_equal.
    - apply map_ext. intros [k [d e]]. unfold val2; cbn. rewrite Hv. reflexivity.
    - apply map_ext. intros [k [d e]]. unfold val2; cbn. rewrite Hv. reflexivity.
    - destruct rep as [[c q]|]; [|reflexivity]. cbn. rewrite Hv. f_equal. f_equal.
      destruct q; cbn; rewrite ?Hv; try reflexivity.
      destruct sum, prod; cbn; rewrite ?Hv; reflexivity.
    - induction kids as [|k kids IHk]; [reflexivity|]. inversion IH; subst. cbn [map]. rewrite H1, (IHk H2). reflexivity.
  Qed.
End Sound.

(* ---------- structure of the result ---------- *)

Theorem evaluate_params s t t' :
  evaluate s t = Ok t' ->
  ct_src_params t' = sort_dedup (filter (fun x => negb (mem x (keys s))) (ct_src_params t)).
Proof.
  destruct t as [n ty ins sp ports res conns rep cstrs kids]. cbn [evaluate]. intro H.
  inv_bind H. inv_bind H. inv_bind H. inv_bind H. inv_bind H. inversion H. reflexivity.
Qed.

(* an empty assignment changes no expression *)
Lemma ev_subst_nil e : ev_subst [] e = Ok e.
Proof. unfold ev_subst, subst_chk. rewrite (captures_nil e), subst_nil. reflexivity. Qed.

(* unassigned symbols are untouched (unless an assigned value brings the same name in) *)
Theorem ev_subst_untouched s e e' x :
  ev_subst s e = Ok e' -> lookup x s = None ->
  (forall y v, lookup y s = Some v -> ~ In x (fv v)) ->
  (In x (fv e') <-> In x (fv e)).
Proof.
  unfold ev_subst, subst_chk. destruct (captures s e) eqn:Hc; [discriminate|].
  intros H Hl Hv. inversion H; subst. split.
  - intro Hin. destruct (fv_subst _ _ _ Hin) as [[H1 _]|[y [v [_ [H2 H3]]]]]; [exact H1|].
    exfalso. eapply Hv; eauto.
  - intro Hin. apply fv_subst_keeps; assumption.
Qed.
