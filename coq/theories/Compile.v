(* Compile.v — the traversal of src/bartiq/compilation/_compile.py::_compile,
   written ONCE, generically in the carrier D:
     D = expr, ev = checked simultaneous substitution   ==> the compile model
     D = V,    ev = evaluation in a numeric dictionary   ==> the bottom-up denotation
   Each clause cites the statement of _compile it mirrors.  Definitions only. *)
From Coq Require Import List String QArith ZArith Bool.
From Bq Require Import Expr RepModel Routine.
From BqGen Require Import GenTables.
Import ListNotations.
Open Scope string_scope.

(* ---------- processing orders (syntactic, shared by both instances) ---------- *)

Definition all_in (xs done : list string) : bool := forallb (fun x => mem x done) xs.

(* Kahn's algorithm over listed order: repeatedly take the first not-yet-taken
   item all of whose predecessors are taken. None on a cycle. *)
Fixpoint kahn (fuel : nat) (items : list string) (preds : string -> list string) (done : list string)
  : option (list string) :=
  match fuel with
  | O => if Nat.eqb (List.length items) 0 then Some (rev done) else None
  | S f =>
      match items with
      | [] => Some (rev done)
      | _ =>
          match find (fun x => all_in (preds x) done) items with
          | None => None
          | Some x => kahn f (filter (fun y => negb (String.eqb x y)) items) preds (x :: done)
          end
      end
  end.

(* predecessors of a local variable: the other local variables its definition mentions *)
Definition local_order (locals : list (string * expr)) : option (list string) :=
  let names := keys locals in
  kahn (List.length names) names
       (fun x => match lookup x locals with
                 | Some e => filter (fun y => mem y names) (fv e)
                 | None => []
                 end) [].

(* sorted_children_order: predecessors from the inner connections *)
Definition child_preds (conns : list (endpoint * endpoint)) (c : string) : list string :=
  flat_map (fun st => match st with
                      | ((Some s, _), (Some t, _)) => if String.eqb t c then [s] else []
                      | _ => []
                      end) conns.

Definition children_order (children : list routine) (conns : list (endpoint * endpoint)) : option (list string) :=
  let names := map rname children in
  kahn (List.length names) names (child_preds conns) [].

Fixpoint find_child (n : string) (cs : list routine) : option routine :=
  match cs with
  | [] => None
  | c :: cs' => if String.eqb (rname c) n then Some c else find_child n cs'
  end.

Definition non_output (p : port) : bool := negb (dir_eqb (p_dir p) DOut).
Definition is_output (p : port) : bool := dir_eqb (p_dir p) DOut.

Definition conns_from (src : option string) (conns : list (endpoint * endpoint)) : list (string * endpoint) :=
  flat_map (fun st => let '((s, sp), t) := st in
                      match s, src with
                      | None, None => [(sp, t)]
                      | Some a, Some b => if String.eqb a b then [(sp, t)] else []
                      | _, _ => []
                      end) conns.

(* what _process_repeated_resources does with one child resource, by type *)
Inductive rep_action := RepSum | RepProd | RepSkip | RepError.
Definition rtype_name (t : rtype) : string :=
  match t with
  | RAdditive => "additive" | RMultiplicative => "multiplicative" | RQubits => "qubits" | ROther => "other"
  end.
(* the branch table is the one generated from _compile.py *)
Definition rep_action_of (t : rtype) (seq_is_constant : bool) : rep_action :=
  let a := gen_rep_action (rtype_name t) seq_is_constant in
  if String.eqb a "sum" then RepSum
  else if String.eqb a "prod" then RepProd
  else if String.eqb a "skip" then RepSkip
  else RepError.
Definition seq_is_constant (s : sequence) : bool := match s with SConst _ => true | _ => false end.

Section Go.
  Variable D : Type.
  Variable ev : list (string * D) -> expr -> result D.
  Variable statusD : D -> D -> cstatus.
  Variable fvD : D -> list string.

  Definition pmap := (list (string * D) * list (string * list (string * D)))%type.

  (* _merge_param_trees keeps only the keys already in the tree: unknown children are dropped *)
  Definition pm_put (tgt : option string) (k : string) (v : D) (pm : pmap) : pmap :=
    let '(pmn, pmc) := pm in
    match tgt with
    | None => ((k, v) :: pmn, pmc)
    | Some c => (pmn, map (fun nd => if String.eqb (fst nd) c then (fst nd, (k, v) :: snd nd) else nd) pmc)
    end.

  Definition ev_pair (env : list (string * D)) (kv : string * expr) : result (string * D) :=
    do v <- ev env (snd kv); Ok (fst kv, v).

  (* _compile_local_variables *)
  Fixpoint compile_locals (names : list string) (locals : list (string * expr))
           (ext : list (string * D)) (acc : list (string * D)) : result (list (string * D)) :=
    match names with
    | [] => Ok acc
    | x :: rest =>
        do e <- of_opt (EInternal 3) (lookup x locals);
        do v <- ev ext e;
        compile_locals rest locals ((x, v) :: ext) ((x, v) :: acc)
    end.

  (* _compile_linked_params merged into the parameter map *)
  Fixpoint compile_links (pmn0 : list (string * D)) (links : list (string * list (string * string)))
           (pm : pmap) : result pmap :=
    match links with
    | [] => Ok pm
    | (src, targets) :: rest =>
        do v <- ev pmn0 (ESym src);
        compile_links pmn0 rest
                      (fold_left (fun acc cp => pm_put (Some (fst cp)) (snd cp) v acc) targets pm)
    end.

  Definition eval_ports (env : list (string * D)) (ps : list port) : result (list (string * (dir * D))) :=
    mapM (fun p => do s <- ev env (p_size p); Ok (p_name p, (p_dir p, s))) ps.

  (* _param_tree_from_compiled_ports merged into the parameter map *)
  Fixpoint put_port_sizes (cs : list (string * endpoint)) (cports : list (string * (dir * D)))
           (pm : pmap) : result pmap :=
    match cs with
    | [] => Ok pm
    | (sp, (tr, tp)) :: rest =>
        do ds <- of_opt (EInternal 1) (lookup sp cports);
        put_port_sizes rest cports (pm_put tr (hash_name tp) (snd ds) pm)
    end.

  Definition eval_constraints (env : list (string * D)) (cs : list constraint)
    : result (list (D * D * cstatus)) :=
    mapM (fun c =>
            do l <- ev env (c_lhs c);
            do r <- ev env (c_rhs c);
            match statusD l r with
            | CViolated => ECompile
            | st => Ok (l, r, st)
            end)
         (filter (fun c => match c_status c with CSatisfied => false | _ => true end) cs).

  Definition eval_seq (env : list (string * D)) (s : sequence) : result (dseq D) :=
    match s with
    | SConst m => do m' <- ev env m; Ok (DConst m')
    | SArith a d => do a' <- ev env a; do d' <- ev env d; Ok (DArith a' d')
    | SGeom q => do q' <- ev env q; Ok (DGeom q')
    | SClosed su pr nts =>
        do su' <- match su with Some x => do y <- ev env x; Ok (Some y) | None => Ok None end;
        do pr' <- match pr with Some x => do y <- ev env x; Ok (Some y) | None => Ok None end;
        do n' <- ev env (ESym nts);
        Ok (DClosed su' pr' n')
    | SCustom t it =>
        (* CustomSequence.substitute_symbols: refuses to touch the iterator symbol *)
        if mem it (keys env) || existsb (fun kv => mem it (fvD (snd kv))) env then ECompile
        else do t' <- ev env t; Ok (DCustom t' it)
    end.

  Definition eval_rep (env : list (string * D)) (rp : option repetition) : result (option (D * dseq D)) :=
    match rp with
    | None => Ok None
    | Some r => do c <- ev env (rep_count r); do s <- eval_seq env (rep_seq r); Ok (Some (c, s))
    end.

  (* _process_repeated_resources, with the child's value referred to by its
     `child.resource` symbol (which parameter_map[None] defines).  It only looks
     at the names and types of the child's resources. *)
  Definition repeated_resources_nt (rp : repetition) (own : list resource) (cn : string)
             (nts : list (string * rtype)) : result (list resource) :=
    if negb (forallb (fun r => match lookup (r_name r) nts with
                               | Some _ => match r_value r with
                                           | ESym s => String.eqb s (dot cn (r_name r))
                                           | EOp OAdd [ESym s] | EOp OMul [ESym s] => String.eqb s (dot cn (r_name r))
                                           | _ => false
                                           end
                               | None => false
                               end) own)
    then EInternal 6
    else
      do rs <- mapM (fun nt =>
                       let '(rn, rt) := nt in
                       let child_sym := ESym (dot cn rn) in
                       match rep_action_of rt (seq_is_constant (rep_seq rp)) with
                       | RepSum => match seq_sum (rep_seq rp) child_sym (rep_count rp) with
                                   | Some e => Ok [Build_resource rn rt e] | None => ECompile end
                       | RepProd => match seq_prod (rep_seq rp) child_sym (rep_count rp) with
                                    | Some e => Ok [Build_resource rn rt e] | None => ECompile end
                       | RepSkip => Ok []
                       | RepError => ECompile
                       end) nts;
      Ok (List.concat rs).

  Definition names_types (rs : list (string * (rtype * D))) : list (string * rtype) :=
    map (fun nr => (fst nr, fst (snd nr))) rs.

  Definition repeated_resources (rp : repetition) (own : list resource) (kids : list (ctree D))
    : result (list resource) :=
    match kids with
    | [kid] => repeated_resources_nt rp own (ct_name kid) (names_types (ct_resources kid))
    | _ => EInternal 7
    end.

  Section Node.
    Variable rec : routine -> list (string * D) -> result (ctree D).

    (* the loop `for child in routine.sorted_children()` *)
    Fixpoint compile_children (names : list string) (children : list routine)
             (conns : list (endpoint * endpoint)) (pm : pmap) (acc : list (ctree D))
      : result (pmap * list (ctree D)) :=
      match names with
      | [] => Ok (pm, rev acc)
      | n :: rest =>
          do c <- of_opt (EInternal 2) (find_child n children);
          do inputs <- of_opt (EInternal 8) (lookup n (snd pm));
          do t <- rec c (dict_norm inputs);
          do pm' <- put_port_sizes (conns_from (Some n) conns)
                                   (ct_ports t) pm;
          compile_children rest children conns pm' (t :: acc)
      end.

    Definition go_node (r : routine) (inputs : list (string * D)) : result (ctree D) :=
      match r with
      | Routine name type ips locals links ports resources conns rep constraints children =>
          (* local_variables = _compile_local_variables(...) *)
          do lorder <- of_opt (EInternal 4) (local_order locals);
          do lv <- compile_locals lorder locals inputs [];
          (* parameter_map[None] = {**local_variables, **inputs} *)
          let pmn0 := over lv inputs in
          (* new_constraints = evaluate_constraints(routine.constraints, {**local_variables, **inputs}) *)
          do cstrs' <- eval_constraints pmn0 constraints;
          let pm0 : pmap := (pmn0, map (fun c => (rname c, [])) children) in
          do pm1 <- compile_links pmn0 links pm0;
          (* compiled_ports = evaluate_ports(input/through ports, parameter_map[None]) *)
          do cports_in <- eval_ports pmn0 (filter non_output ports);
          do pm2 <- put_port_sizes (conns_from None conns) cports_in pm1;
          (* a cycle among the children (CycleError from sorted_children) is reported as a compilation error *)
          do corder <- of_opt ECompile (children_order children conns);
          do pk <- compile_children corder children conns pm2 [];
          let '(pm3, kids) := pk in
          (* children_variables; parameter_map[None] = {**parameter_map[None], **children_variables} *)
          let cvars := flat_map (fun t => map (fun nr => (dot (ct_name t) (fst nr), snd (snd nr))) (ct_resources t)) kids in
          let pmn := over (fst pm3) cvars in
          do res_src <- match rep with
                        | Some rp => repeated_resources rp resources kids
                        | None => Ok resources
                        end;
          do rep' <- eval_rep pmn rep;
          do res' <- mapM (fun rs => do v <- ev pmn (r_value rs); Ok (r_name rs, (r_type rs, v))) res_src;
          do cports_out <- eval_ports pmn (filter is_output ports);
          Ok (CT name type inputs ips (cports_in ++ cports_out) res' conns rep' cstrs' kids)
      end.
  End Node.

  Fixpoint go (fuel : nat) (r : routine) (inputs : list (string * D)) : result (ctree D) :=
    match fuel with
    | O => EFuel
    | S f => go_node (go f) r inputs
    end.
End Go.

Arguments go {D}.
Arguments go_node {D}.
Arguments pm_put {D}.
Arguments compile_locals {D}.
Arguments compile_links {D}.
Arguments eval_ports {D}.
Arguments put_port_sizes {D}.
Arguments eval_constraints {D}.
Arguments eval_seq {D}.
Arguments eval_rep {D}.
Arguments repeated_resources {D}.
Arguments names_types {D}.
Arguments compile_children {D}.
Arguments pmap : clear implicits.

(* ---------- the two instances ---------- *)

(* compile: expressions, checked simultaneous substitution *)
Definition ev_subst (env : list (string * expr)) (e : expr) : result expr :=
  match subst_chk env e with Some e' => Ok e' | None => ECapture end.

(* denotation: values, evaluation in the dictionary laid over the top-level environment *)
Section Den.
  Variable V : Type.
  Variable ofQ : Q -> V.
  Variable I : op -> list V -> V.
  Variable B : bigop -> (V -> V) -> V -> V -> V.
  Variable rho : string -> V.
  Definition ev_val (env : list (string * V)) (e : expr) : result V :=
    Ok (eval ofQ I B (env_of rho env) e).
  Definition den (fuel : nat) (r : routine) (inputs : list (string * V)) : result (ctree V) :=
    go ev_val (fun _ _ => CInconclusive) (fun _ => []) fuel r inputs.
End Den.
