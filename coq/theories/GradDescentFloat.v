(* GradDescentFloat.v — gradient_descent at binary64 floats (Coq primitive floats = IEEE 754 double, round to
   nearest even, like CPython's float), with the cost-function families used by the correspondence stream,
   written operation by operation as in harness/impl_fns.py.  Definitions only. *)
From Coq Require Import List Bool PrimFloat.
From Bq Require Import GradDescent.
Import ListNotations.
Open Scope float_scope.

Definition fgd := gradient_descent float PrimFloat.add PrimFloat.sub PrimFloat.mul PrimFloat.div PrimFloat.abs
                                   PrimFloat.ltb PrimFloat.leb PrimFloat.eqb 2 0x1.5798ee2308c3ap-27 0.
(* epsilon = 1e-8 = 0x1.5798ee2308c3ap-27 *)

(* cost-function families: kind 0: a*(x-b)*(x-b)+c    kind 1: a*(x-b)*(x-b)*(x-b)*(x-b)+c*x
                           kind 2: a*x*x*x+b*x*x+c*x   kind 3: a*x+b (no minimum: runs to the bound / never converges) *)
Definition cost (kind : nat) (a b c : float) (x : float) : float :=
  match kind with
  | 0%nat => a * (x - b) * (x - b) + c
  | 1%nat => a * (x - b) * (x - b) * (x - b) * (x - b) + c * x
  | 2%nat => a * x * x * x + b * x * x + c * x
  | 4%nat => c + 0 * x
  | _ => a * x + b
  end.

Definition feq (a b : float) : bool := PrimFloat.eqb a b || (PrimFloat.is_nan a && PrimFloat.is_nan b).

Fixpoint flist_eq (l1 l2 : list float) : bool :=
  match l1, l2 with
  | [], [] => true
  | a :: l1', b :: l2' => feq a b && flist_eq l1' l2'
  | _, _ => false
  end.

(* what the implementation returned: 0 = value, 1 = ValueError, 2 = RuntimeError *)
Definition check_gd (kind : nat) (a b c x0 : float) (bounds : option (float * float)) (lr : float) (max_iter : nat) (tol mom : float)
           (impl_class : nat) (impl_opt impl_cost : float) (impl_hist : list float) : list nat * list nat :=
  let b2n (x : bool) := if x then 0%nat else 1%nat in
  let within (x : float) := match bounds with Some (lo, hi) => PrimFloat.leb lo x && PrimFloat.leb x hi | None => true end in
  let tie := match fgd (cost kind a b c) x0 bounds lr max_iter tol mom, impl_class with
             | GDOk o cst h, 0%nat => [b2n (feq o impl_opt); b2n (feq cst impl_cost); b2n (flist_eq h impl_hist)]
             | GDValueError, 1%nat => [0%nat]
             | GDRuntimeError, 2%nat => [0%nat]
             | _, _ => [1%nat]
             end in
  let spec := match impl_class with
              | 0%nat => [b2n (forallb within impl_hist);                       (* history within bounds *)
                          b2n (within impl_opt);                                (* optimum within bounds *)
                          b2n (match impl_hist with h0 :: _ => feq h0 x0 | [] => false end);   (* starts at x0 *)
                          b2n (feq (last impl_hist x0) impl_opt);               (* ends at the optimum *)
                          b2n (feq impl_cost (cost kind a b c impl_opt))]       (* cost consistent *)
              | 1%nat => [b2n (negb (within x0))]                               (* error only for an out-of-bounds start *)
              | _ => []
              end in
  (tie, spec).
