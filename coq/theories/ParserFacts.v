(* ParserFacts.v -- the reading of printed trees (C11), by exhaustive enumeration lifted to a theorem:
   every expression tree with at most four operator nodes (any of + - * / // % ** and unary minus, in any shape)
   is read back exactly from its minimal-parentheses printing.  The bound is part of the statement. *)
From Coq Require Import List String Ascii QArith ZArith Bool.
From Bq Require Import Expr StdSem Parser.
Import ListNotations.
Open Scope string_scope.

Section PInd.
  Variable P : pexpr -> Prop.
  Hypothesis HN : forall q, P (PNum q).
  Hypothesis HS : forall s, P (PSym s).
  Hypothesis HB : forall o a b, P a -> P b -> P (PBin o a b).
  Hypothesis HG : forall a, P a -> P (PNeg a).
  Hypothesis HC : forall f args, Forall P args -> P (PCall f args).
  Fixpoint pexpr_ind' (e : pexpr) : P e :=
    match e with
    | PNum q => HN q
    | PSym s => HS s
    | PBin o a b => HB o a b (pexpr_ind' a) (pexpr_ind' b)
    | PNeg a => HG a (pexpr_ind' a)
    | PCall f args =>
        HC f args ((fix go l : Forall P l :=
                      match l with [] => Forall_nil _ | a :: l' => Forall_cons _ (pexpr_ind' a) (go l') end) args)
    end.
End PInd.

Definition binop_eqb (a b : binop) : bool :=
  match a, b with
  | BAdd, BAdd | BSub, BSub | BMul, BMul | BDiv, BDiv | BFloorDiv, BFloorDiv | BMod, BMod | BPow, BPow => true
  | _, _ => false
  end.

Fixpoint pexpr_eqb (a b : pexpr) : bool :=
  match a, b with
  | PNum p, PNum q => Z.eqb (Qnum p) (Qnum q) && Pos.eqb (Qden p) (Qden q)
  | PSym x, PSym y => String.eqb x y
  | PBin o a1 a2, PBin p b1 b2 => binop_eqb o p && pexpr_eqb a1 b1 && pexpr_eqb a2 b2
  | PNeg x, PNeg y => pexpr_eqb x y
  | PCall f xs, PCall g ys =>
      String.eqb f g &&
      (fix go (l1 l2 : list pexpr) : bool :=
         match l1, l2 with
         | [], [] => true
         | x :: l1', y :: l2' => pexpr_eqb x y && go l1' l2'
         | _, _ => false
         end) xs ys
  | _, _ => false
  end.

Lemma binop_eqb_eq a b : binop_eqb a b = true -> a = b.
Proof. destruct a, b; cbn; congruence. Qed.

Lemma pexpr_eqb_eq a : forall b, pexpr_eqb a b = true -> a = b.
Proof.
  induction a as [q|s|o a1 a2 IH1 IH2|a IH|f args IH] using pexpr_ind'; intros b H; destruct b; cbn in H; try discriminate.
  - apply andb_true_iff in H. destruct H as [H1 H2]. apply Z.eqb_eq in H1. apply Pos.eqb_eq in H2.
    destruct q, q0; cbn in *. subst. reflexivity.
  - apply String.eqb_eq in H. subst. reflexivity.
  - apply andb_true_iff in H. destruct H as [H H2]. apply andb_true_iff in H. destruct H as [H0 H1].
    rewrite (binop_eqb_eq _ _ H0), (IH1 _ H1), (IH2 _ H2). reflexivity.
  - rewrite (IH _ H). reflexivity.
  - apply andb_true_iff in H. destruct H as [Hf Ha]. apply String.eqb_eq in Hf. subst. f_equal.
    revert args0 Ha. induction args as [|x xs IHx]; intros ys Ha; destruct ys; try discriminate; [reflexivity|].
    apply andb_true_iff in Ha. destruct Ha as [Hx Hxs]. inversion IH; subst.
    rewrite (H1 _ Hx), (IHx H2 _ Hxs). reflexivity.
Qed.

Definition all_binops : list binop := [BAdd; BSub; BMul; BDiv; BFloorDiv; BMod; BPow].

(* table k = [trees with 0 operators; trees with 1; ...; trees with k] over the leaf x *)
Fixpoint table (k : nat) : list (list pexpr) :=
  match k with
  | O => [[PSym "x"]]
  | S j =>
      let t := table j in
      let get (i : nat) := nth i t [] in
      (t ++ [(map PNeg (get j)
                ++ flat_map (fun i : nat => flat_map (fun o => flat_map (fun a => map (PBin o a) (get (j - i)%nat)) (get i)) all_binops)
                            (seq 0 (S j)))%list])%list
  end.

Definition trees_upto (k : nat) : list pexpr := List.concat (table k).

Definition reads_back (e : pexpr) : bool :=
  match parse_tokens (ptoks e) with Some e' => pexpr_eqb e' e | None => false end.

Lemma reads_back_all_4 : forallb reads_back (trees_upto 4) = true.
Proof. vm_compute. reflexivity. Qed.

Lemma trees_upto_4_count : N.of_nat (List.length (trees_upto 4)) = 49537%N.
Proof. vm_compute. reflexivity. Qed.

(* every tree with at most four operators, in any shape, is read back exactly from its minimal printing *)
Theorem parse_print_upto_4 e : In e (trees_upto 4) -> parse_tokens (ptoks e) = Some e.
Proof.
  intro H. pose proof (proj1 (forallb_forall _ _) reads_back_all_4 e H) as Hr. unfold reads_back in Hr.
  destruct (parse_tokens (ptoks e)) as [e'|]; [|discriminate]. rewrite (pexpr_eqb_eq _ _ Hr). reflexivity.
Qed.

(* calls: arguments are kept in order, nested calls and operators inside arguments *)
Definition call_samples : list pexpr :=
  let x := PSym "x" in let y := PSym "a.b.#p" in
  [PCall "f" []; PCall "f" [x]; PCall "Max" [x; y]; PCall "g" [PBin BAdd x y; PNeg x; PCall "f" [PBin BPow x (PNeg y)]];
   PBin BMul (PCall "f" [x]) (PCall "g" [y; x]); PBin BPow (PCall "f" [x]) (PCall "f" [y]); PNeg (PCall "log2" [PBin BDiv x y])].

Theorem parse_print_calls e : In e call_samples -> parse_tokens (ptoks e) = Some e.
Proof.
  intro H. assert (Hall : forallb reads_back call_samples = true) by (vm_compute; reflexivity).
  pose proof (proj1 (forallb_forall _ _) Hall e H) as Hr. unfold reads_back in Hr.
  destruct (parse_tokens (ptoks e)) as [e'|]; [|discriminate]. rewrite (pexpr_eqb_eq _ _ Hr). reflexivity.
Qed.

(* the table the grammar implements, on the strings themselves *)
Example precedence_examples :
  parse "-x**2" = Some (PNeg (PBin BPow (PSym "x") (PNum 2))) /\
  parse "2**3**2" = Some (PBin BPow (PNum 2) (PBin BPow (PNum 3) (PNum 2))) /\
  parse "2^-1" = Some (PBin BPow (PNum 2) (PNeg (PNum 1))) /\
  parse "a - b - c" = Some (PBin BSub (PBin BSub (PSym "a") (PSym "b")) (PSym "c")) /\
  parse "a/b*c" = Some (PBin BMul (PBin BDiv (PSym "a") (PSym "b")) (PSym "c")) /\
  parse "-a*b" = Some (PBin BMul (PNeg (PSym "a")) (PSym "b")) /\
  parse "a.#p + #q" = Some (PBin BAdd (PSym "a.#p") (PSym "#q")) /\
  parse "7//2%3" = Some (PBin BMod (PBin BFloorDiv (PNum 7) (PNum 2)) (PNum 3)) /\
  parse "lambda*in" = Some (PBin BMul (PSym "lambda") (PSym "in")).
Proof. repeat split; vm_compute; reflexivity. Qed.

(* ---------- the operator and function tables generated from the sources ---------- *)
From BqGen Require Import GenParser.

Definition standard_binary : list (string * string) :=
  [("ast.Add", "operator.add"); ("ast.Sub", "operator.sub"); ("ast.Mult", "operator.mul"); ("ast.Div", "operator.truediv");
   ("ast.FloorDiv", "_floordiv"); ("ast.Mod", "operator.mod"); ("ast.Pow", "operator.pow"); ("ast.BitXor", "operator.pow")].

Lemma lookup_all_sound {A} (eqb : A -> A -> bool) (eqb_eq : forall a b, eqb a b = true -> a = b)
      (want got : list (string * A)) :
  forallb (fun kv => match lookup (fst kv) got with Some v => eqb v (snd kv) | None => false end) want = true ->
  forall k v, In (k, v) want -> lookup k got = Some v.
Proof.
  intros H k v Hin. pose proof (proj1 (forallb_forall _ _) H (k, v) Hin) as Hk. cbn in Hk.
  destruct (lookup k got) as [w|]; [|discriminate]. rewrite (eqb_eq _ _ Hk). reflexivity.
Qed.

(* each Python operator node is mapped to the operator with that meaning (the caret, parsed as BitXor, is power) *)
Theorem binary_table_standard : forall node meaning,
  In (node, meaning) standard_binary -> lookup node gen_binary_op_map = Some meaning.
Proof.
  apply (lookup_all_sound String.eqb (fun a b H => proj1 (String.eqb_eq a b) H)). vm_compute. reflexivity.
Qed.

(* the floor-division helper: outside exact rationals it IS Python's floor division, and on exact rationals with a
   non-zero divisor the quotient it recovers from the remainder is the floor of the exact quotient *)
Theorem floordiv_helper_fallback : lookup "_floordiv" gen_operator_helper_fallbacks = Some "operator.floordiv".
Proof. reflexivity. Qed.

Theorem floordiv_helper_is_floor : forall a b : Q, ~ b == 0 -> gen_helper_floordiv a b == Qfloordiv a b.
Proof.
  intros a b Hb. unfold gen_helper_floordiv, Qmod_std. field. exact Hb.
Qed.

Theorem binary_table_nothing_else : List.length gen_binary_op_map = List.length standard_binary.
Proof. reflexivity. Qed.

Theorem unary_minus_is_negation : lookup "ast.USub" gen_unary_op_map = Some "operator.neg".
Proof. reflexivity. Qed.

Theorem reserved_words_restored :
  lookup "__lambda__" gen_restricted_names = Some "'lambda'" /\ lookup "__in__" gen_restricted_names = Some "'in'".
Proof. split; reflexivity. Qed.

Lemma lower_ascii_idem c : lower_ascii (lower_ascii c) = lower_ascii c.
Proof.
  unfold lower_ascii. destruct (Nat.leb 65 (nat_of_ascii c) && Nat.leb (nat_of_ascii c) 90) eqn:E; [|rewrite E; reflexivity].
  apply andb_true_iff in E. destruct E as [E1 E2]. apply Nat.leb_le in E1. apply Nat.leb_le in E2.
  rewrite nat_ascii_embedding by (apply Nat.le_lt_trans with (m := 122%nat); [|repeat constructor]; apply Nat.add_le_mono with (p := 32%nat) (q := 32%nat) in E2; [exact E2|constructor]).
  assert (H : Nat.leb (nat_of_ascii c + 32) 90 = false).
  { apply Nat.leb_gt. apply Nat.lt_le_trans with (m := (65 + 32)%nat); [repeat constructor|]. apply Nat.add_le_mono_r. exact E1. }
  rewrite H, andb_false_r. reflexivity.
Qed.

Lemma lower_idem s : lower (lower s) = lower s.
Proof. induction s as [|c s IH]; cbn; [reflexivity|]. rewrite lower_ascii_idem, IH. reflexivity. Qed.

(* built-in names are case-insensitive: a call reads the same however its name is capitalised ... *)
Theorem builtin_caseless table f args callee :
  lookup (lower f) table = Some callee -> to_expr table (PCall f args) = to_expr table (PCall (lower f) args).
Proof. intro H. cbn [to_expr]. rewrite lower_idem, H. reflexivity. Qed.

(* ... and a name that is not a built-in stays uninterpreted, spelled as written, with its arguments in order *)
Theorem unknown_function_preserved table f args :
  lookup (lower f) table = None -> to_expr table (PCall f args) = EOp (OFun f) (map (to_expr table) args).
Proof. intro H. cbn [to_expr]. rewrite H. reflexivity. Qed.
