(* Latex.v — the name-formatting decisions of integrations/latex.py that can make rendering raise:
   _format_param / _format_local_param / _format_param_math(_with_subscript).
   sympy's latex(symbols(s)) is an oracle that fails exactly on the empty name.  Definitions only. *)
From Coq Require Import List String Ascii Bool Arith.
From BqGen Require Import GenLatex.
Import ListNotations.
Open Scope string_scope.

Fixpoint count_us (s : string) : nat :=
  match s with EmptyString => 0 | String c s' => (if Ascii.eqb c "_"%char then 1 else 0) + count_us s' end.

(* param.split("_", 1) : the part before the first underscore, the part after *)
Fixpoint split_us_aux (acc s : string) : string * string :=
  match s with
  | EmptyString => (acc, EmptyString)
  | String c s' => if Ascii.eqb c "_"%char then (acc, s') else split_us_aux (acc ++ String c EmptyString) s'
  end.
Definition split_us (s : string) : string * string := split_us_aux "" s.

Definition is_empty (s : string) : bool := match s with EmptyString => true | _ => false end.

(* _format_param_math_with_subscript raises iff a part around the first underscore is empty and there is no fallback *)
Definition math_raises (p : string) : bool :=
  if Nat.eqb (count_us p) 0 then is_empty p
  else if gen_latex_empty_part_guard then false
       else let '(a, b) := split_us p in is_empty a || is_empty b.

(* _format_local_param: math formatting for at most one underscore, text formatting otherwise (never raises) *)
Definition local_raises (p : string) : bool := if Nat.leb (count_us p) 1 then math_raises p else false.

(* every place a plain (dot-free) name is rendered goes through _format_local_param or _format_param_math *)
Definition name_raises (p : string) : bool := local_raises p || math_raises p.

Definition all_port_directions_rendered : bool :=
  forallb (fun d => existsb (String.eqb d) gen_latex_port_directions) ["input"; "output"; "through"].

(* ---------- case files: the number of entries of each section of a real rendering against the translated assembly ---------- *)
From Bq Require Import Expr Routine.
Definition latex_counts (r : routine) (show_non_root : bool) : list nat :=
  [List.length (gen_latex_param_entries r);
   List.length (filter (fun dp => dir_eqb (fst dp) DIn) (gen_latex_port_lines r));
   List.length (filter (fun dp => dir_eqb (fst dp) DOut) (gen_latex_port_lines r));
   List.length (filter (fun dp => dir_eqb (fst dp) DThrough) (gen_latex_port_lines r));
   List.length (gen_latex_resource_lines r show_non_root)].
Fixpoint nat_list_eqb (a b : list nat) : bool :=
  match a, b with [], [] => true | x :: a', y :: b' => Nat.eqb x y && nat_list_eqb a' b' | _, _ => false end.
Definition check_latex_counts (r : routine) (show_non_root : bool) (real : list nat) : nat :=
  if nat_list_eqb (latex_counts r show_non_root) real then 0%nat else 1%nat.
