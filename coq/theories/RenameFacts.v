(* RenameFacts.v — consistent renaming of a scope changes nothing (C03), at the
   level where bartiq does all its work: one dictionary substituted into one expression. *)
From Coq Require Import List String QArith ZArith Bool Lia.
From Bq Require Import Expr ExprFacts.
Import ListNotations.
Open Scope string_scope.

Fixpoint rename (f : string -> string) (e : expr) : expr :=
  match e with
  | ENum q => ENum q
  | ESym x => ESym (f x)
  | EOp o args => EOp o (map (rename f) args)
  | EBig k i b lo hi => EBig k (f i) (rename f b) (rename f lo) (rename f hi)
  end.

(* rename the names a dictionary defines, leaving the (already compiled) values alone *)
Definition rename_keys (f : string -> string) (s : env) : env := map (fun kv => (f (fst kv), snd kv)) s.
(* rename everything: names and values *)
Definition rename_env (f : string -> string) (s : env) : env := map (fun kv => (f (fst kv), rename f (snd kv))) s.

Definition injective (f : string -> string) : Prop := forall x y, f x = f y -> x = y.

Lemma eqb_inj f x y : injective f -> String.eqb (f x) (f y) = String.eqb x y.
Proof.
  intro Hf. destruct (String.eqb x y) eqn:E.
  - apply String.eqb_eq in E. subst. apply String.eqb_refl.
  - apply String.eqb_neq. intro H. apply Hf in H. apply String.eqb_neq in E. contradiction.
Qed.

Lemma lookup_rename_env f s x : injective f -> lookup (f x) (rename_env f s) = option_map (rename f) (lookup x s).
Proof.
  intro Hf. induction s as [|[y v] s IH]; cbn; [reflexivity|].
  rewrite (eqb_inj f x y Hf). destruct (String.eqb x y); [reflexivity|exact IH].
Qed.

Lemma remove_key_rename_env f s i : injective f -> remove_key (f i) (rename_env f s) = rename_env f (remove_key i s).
Proof.
  intro Hf. induction s as [|[y v] s IH]; cbn; [reflexivity|].
  rewrite (eqb_inj f i y Hf). destruct (String.eqb i y); [exact IH|]. cbn. f_equal. exact IH.
Qed.

(* substitution commutes with an injective renaming of all names *)
Theorem subst_rename f e : injective f -> forall s, rename f (subst s e) = subst (rename_env f s) (rename f e).
Proof.
  intro Hf. induction e as [q|x|o args IH|k i b lo hi IHb IHlo IHhi] using expr_ind'; intro s; cbn.
  - reflexivity.
  - rewrite (lookup_rename_env f s x Hf). destruct (lookup x s); reflexivity.
  - f_equal. rewrite !map_map. apply map_ext_in. intros a Ha. rewrite Forall_forall in IH. apply IH. exact Ha.
  - rewrite IHlo, IHhi, IHb, (remove_key_rename_env f s i Hf). reflexivity.
Qed.

Section Sem.
  Variable V : Type.
  Variable ofQ : Q -> V.
  Variable I : op -> list V -> V.
  Variable B : bigop -> (V -> V) -> V -> V -> V.
  Hypothesis B_ext : forall k f g lo hi, (forall v, f v = g v) -> B k f lo hi = B k g lo hi.

  (* reading a renamed expression = reading the original through the renaming *)
  Theorem eval_rename f e : injective f -> forall r, eval ofQ I B r (rename f e) = eval ofQ I B (fun x => r (f x)) e.
  Proof.
    intro Hf. induction e as [q|x|o args IH|k i b lo hi IHb IHlo IHhi] using expr_ind'; intro r; cbn.
    - reflexivity.
    - reflexivity.
    - f_equal. rewrite map_map. apply map_ext_in. intros a Ha. rewrite Forall_forall in IH. apply IH. exact Ha.
    - rewrite IHlo, IHhi. apply B_ext. intro v. rewrite IHb.
      apply (eval_ext V ofQ I B B_ext). intro x. unfold upd. rewrite (eqb_inj f x i Hf). reflexivity.
  Qed.
End Sem.

(* ---------- renaming ONE scope: keys of its dictionary and its own expressions ---------- *)

Lemma lookup_rename_keys f s x :
  (forall y, In y (keys s) -> f x = f y -> x = y) ->
  lookup (f x) (rename_keys f s) = lookup x s.
Proof.
  induction s as [|[y v] s IH]; intro Hinj; cbn; [reflexivity|].
  destruct (String.eqb x y) eqn:E.
  - apply String.eqb_eq in E. subst. rewrite String.eqb_refl. reflexivity.
  - assert (Hne : String.eqb (f x) (f y) = false).
    { apply String.eqb_neq. intro H. apply (Hinj y) in H; [|cbn; auto]. apply String.eqb_neq in E. contradiction. }
    rewrite Hne. apply IH. intros z Hz. apply Hinj. cbn. auto.
Qed.

(* The scope of a subroutine is a dictionary s (its parameters, local variables, port-size symbols and
   child.resource references |-> their compiled values).  If every free symbol of one of its expressions
   is defined by the scope, then renaming the scope's names by ANY map that is injective on them --
   including onto names used by ancestors, siblings or top-level inputs, i.e. names occurring in the
   values -- leaves the compiled expression literally unchanged. *)
Theorem subst_rename_scope f e : forall s,
    bound e = [] ->
    (forall x, In x (fv e) -> In x (keys s)) ->
    (forall x y, In x (keys s) -> In y (keys s) -> f x = f y -> x = y) ->
    subst (rename_keys f s) (rename f e) = subst s e.
Proof.
  induction e as [q|x|o args IH|k i b lo hi IHb IHlo IHhi] using expr_ind'; intros s Hb Hfv Hinj; cbn.
  - reflexivity.
  - rewrite lookup_rename_keys.
    + destruct (lookup x s) as [v|] eqn:E; [reflexivity|].
      exfalso. apply lookup_None_notin in E. apply E. apply Hfv. cbn. auto.
    + intros y Hy H. apply Hinj; auto. apply Hfv. cbn. auto.
  - f_equal. rewrite map_map. apply map_ext_in. intros a Ha. rewrite Forall_forall in IH. apply IH; auto.
    + cbn in Hb. destruct (bound a) eqn:Eb; [reflexivity|].
      assert (Hin : In s0 (flat_map bound args)) by (apply in_flat_map; exists a; split; [exact Ha|rewrite Eb; cbn; auto]).
      rewrite Hb in Hin. destruct Hin.
    + intros x Hx. apply Hfv. cbn. apply in_flat_map. eauto.
  - cbn in Hb. discriminate.
Qed.
