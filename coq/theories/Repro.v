(* Repro.v — C14 (tie): the exported child order of every node lists exactly the source's children, in an
   order consistent with the wiring.  Definitions only. *)
From Coq Require Import List String Bool Arith.
From Bq Require Import Expr RepModel Routine Compile Preprocess CompileTop Checks.
Import ListNotations.
Open Scope string_scope.

Fixpoint index_str (x : string) (l : list string) (k : nat) : option nat :=
  match l with [] => None | y :: l' => if String.eqb x y then Some k else index_str x l' (S k) end.

Definition is_topological (order : list string) (conns : list (endpoint * endpoint)) : bool :=
  forallb (fun st => match st with
                     | ((Some s, _), (Some t, _)) =>
                         match index_str s order 0, index_str t order 0 with
                         | Some i, Some j => Nat.ltb i j
                         | _, _ => false
                         end
                     | _ => true
                     end) conns.

Fixpoint node_at_path (fuel : nat) (r : routine) (path : string) (cur : string) : option routine :=
  match fuel with
  | O => None
  | S f => if String.eqb cur path then Some r
           else fold_right (fun c acc => match node_at_path f c path (cur ++ "/" ++ rname c) with Some x => Some x | None => acc end)
                           None (rchildren r)
  end.

Definition check_export_order (r : routine) (orders : list (string * list string)) : list nat :=
  map (fun po => match node_at_path (S (height r)) r (fst po) "" with
                 | Some n => if same_set String.eqb (map rname (rchildren n)) (snd po)
                                && is_topological (snd po) (rconnections n) then 0%nat else 1%nat
                 | None => 1%nat
                 end) orders.
