(* InvFacts.v — two facts about the generic traversal `go`, for every carrier:
   (1) go_inv : a predicate on the carrier that the expression step `ev` preserves (given it holds of the
       dictionary it reads) holds of EVERY field of EVERY node of the result;
   (2) go_mono: if one expression step refines another (same answer whenever it answers), the traversals agree.
   Instance: the scoped step `ev_scoped G` (refuses an expression that mentions a symbol which is neither
   defined by the node's dictionary nor in G) gives the whole-tree closure theorem of C04. *)
From Coq Require Import List String QArith ZArith Bool Lia.
From Bq Require Import Expr ExprFacts RepModel Routine Compare Compile CompileFacts Scoped.
Import ListNotations.
Open Scope string_scope.

Lemma mapM_all {A B} (f : A -> result B) (Q : B -> Prop) l :
  (forall a b, In a l -> f a = Ok b -> Q b) ->
  forall bs, mapM f l = Ok bs -> forall b, In b bs -> Q b.
Proof.
  induction l as [|a l IH]; intros Hf bs H b Hin; cbn in *.
  - inversion H; subst. destruct Hin.
  - inv_bind H. inv_bind H. inversion H; subst. destruct Hin as [->|Hin].
    + eapply Hf; [left; reflexivity|exact Hb].
    + eapply IH; [|exact Hb0|exact Hin]. intros a' b' Ha'. apply Hf. right. exact Ha'.
Qed.

Lemma mapM_ext_ok {A B} (f g : A -> result B) l :
  (forall a b, In a l -> f a = Ok b -> g a = Ok b) ->
  forall bs, mapM f l = Ok bs -> mapM g l = Ok bs.
Proof.
  intros Hfg bs H. rewrite <- (map_id bs). eapply mapM_natural; [|exact H].
  intros a b Hin Hf. apply Hfg; assumption.
Qed.

Lemma lookup_In {A} k (s : list (string * A)) v : lookup k s = Some v -> In (k, v) s.
Proof. apply lookup_Some_in. Qed.

Lemma In_remove_key {A} x (s : list (string * A)) kv : In kv (remove_key x s) -> In kv s.
Proof.
  induction s as [|[y w] s IH]; cbn; [tauto|].
  destruct (String.eqb x y); cbn; intros H.
  - right. apply IH. exact H.
  - destruct H as [H|H]; [left; exact H|right; apply IH; exact H].
Qed.

Lemma In_dict_norm {A} (s : list (string * A)) kv : In kv (dict_norm s) -> In kv s.
Proof.
  induction s as [|[y w] s IH]; cbn; [tauto|].
  intros [H|H]; [left; exact H|]. right. apply IH. eapply In_remove_key. exact H.
Qed.

(* ------------------------------------------------------------------ *)
Section Inv.
  Variable D : Type.
  Variable ev : list (string * D) -> expr -> result D.
  Variable statusD : D -> D -> cstatus.
  Variable fvD : D -> list string.
  Variable P : D -> Prop.

  Definition Penv (env : list (string * D)) : Prop := forall k d, In (k, d) env -> P d.
  Hypothesis Hev : forall env e v, Penv env -> ev env e = Ok v -> P v.

  Definition Pseq (s : dseq D) : Prop :=
    match s with
    | DConst m => P m
    | DArith a d => P a /\ P d
    | DGeom q => P q
    | DClosed su pr n => (forall x, su = Some x -> P x) /\ (forall x, pr = Some x -> P x) /\ P n
    | DCustom t _ => P t
    end.

  (* P holds of every carrier value stored anywhere in the tree *)
  Fixpoint Ptree (t : ctree D) : Prop :=
    match t with
    | CT _ _ ins _ ports res _ rep cstrs kids =>
        Penv ins
        /\ (forall n d s, In (n, (d, s)) ports -> P s)
        /\ (forall n ty v, In (n, (ty, v)) res -> P v)
        /\ (forall c s, rep = Some (c, s) -> P c /\ Pseq s)
        /\ (forall l r st, In (l, r, st) cstrs -> P l /\ P r)
        /\ (fix all (l : list (ctree D)) : Prop :=
              match l with [] => True | k :: l' => Ptree k /\ all l' end) kids
    end.

  Definition Pkids (l : list (ctree D)) : Prop := forall k, In k l -> Ptree k.

  Lemma all_Pkids (l : list (ctree D)) :
    (fix all (l : list (ctree D)) : Prop := match l with [] => True | k :: l' => Ptree k /\ all l' end) l
    <-> Pkids l.
  Proof.
    unfold Pkids. induction l as [|k l IH]; cbn.
    - split; [intros _ k []|trivial].
    - split.
      + intros [Hk Hl] k' [<-|Hin]; [exact Hk|]. apply IH; assumption.
      + intros H. split; [apply H; left; reflexivity|]. apply IH. intros k' Hin. apply H. right. exact Hin.
  Qed.

  Definition Ppm (pm : pmap D) : Prop :=
    Penv (fst pm) /\ forall n e, In (n, e) (snd pm) -> Penv e.

  Lemma Penv_nil : Penv [].
  Proof. intros k d []. Qed.
  Lemma Penv_cons k v env : P v -> Penv env -> Penv ((k, v) :: env).
  Proof. intros Hv He k' d [H|H]; [inversion H; subst; exact Hv|eapply He; exact H]. Qed.
  Lemma Penv_over a b : Penv a -> Penv b -> Penv (over a b).
  Proof. unfold over. intros Ha Hb k d H. apply in_app_or in H. destruct H; [eapply Hb|eapply Ha]; eassumption. Qed.
  Lemma Penv_dict_norm env : Penv env -> Penv (dict_norm env).
  Proof. intros He k d H. eapply He. eapply In_dict_norm. exact H. Qed.

  Lemma pm_put_P tgt k v pm : P v -> Ppm pm -> Ppm (pm_put tgt k v pm).
  Proof.
    destruct pm as [pmn pmc]. intros Hv [Hn Hc]. destruct tgt as [c|]; cbn.
    - split; [exact Hn|]. cbn. intros n e Hin. apply in_map_iff in Hin. destruct Hin as [[n' e'] [Heq Hin']].
      cbn in Heq. destruct (String.eqb n' c).
      + inversion Heq; subst. apply Penv_cons; [exact Hv|]. eapply Hc. exact Hin'.
      + inversion Heq; subst. eapply Hc. exact Hin'.
    - split; [apply Penv_cons; assumption|exact Hc].
  Qed.

  Lemma compile_locals_P names locals : forall ext acc lv,
      Penv ext -> Penv acc -> compile_locals ev names locals ext acc = Ok lv -> Penv lv.
  Proof.
    induction names as [|x names IH]; intros ext acc lv He Ha H; cbn [compile_locals] in *.
    - inversion H; subst. exact Ha.
    - inv_bind H. inv_bind H. pose proof (Hev _ _ _ He Hb0) as Hv.
      eapply IH; [| |exact H]; apply Penv_cons; assumption.
  Qed.

  Lemma fold_pm_put_P (targets : list (string * string)) v : P v -> forall pm, Ppm pm ->
      Ppm (fold_left (fun acc cp => pm_put (Some (fst cp)) (snd cp) v acc) targets pm).
  Proof.
    intro Hv. induction targets as [|cp ts IH]; intros pm Hpm; cbn; [exact Hpm|].
    apply IH. apply pm_put_P; assumption.
  Qed.

  Lemma compile_links_P pmn0 links : Penv pmn0 -> forall pm pm',
      Ppm pm -> compile_links ev pmn0 links pm = Ok pm' -> Ppm pm'.
  Proof.
    intro H0. induction links as [|[src targets] links IH]; intros pm pm' Hpm H; cbn [compile_links] in *.
    - inversion H; subst. exact Hpm.
    - inv_bind H. eapply IH; [|exact H]. apply fold_pm_put_P; [|exact Hpm]. eapply Hev; eassumption.
  Qed.

  Definition Pports (ps : list (string * (dir * D))) : Prop := forall n d s, In (n, (d, s)) ps -> P s.

  Lemma eval_ports_P env ps cps : Penv env -> eval_ports ev env ps = Ok cps -> Pports cps.
  Proof.
    unfold eval_ports, Pports. intros He H n d s Hin.
    refine (mapM_all _ (fun b : string * (dir * D) => P (snd (snd b))) ps _ cps H (n, (d, s)) Hin).
    intros p b _ Hp. inv_bind Hp. inversion Hp; subst. cbn. eapply Hev; eassumption.
  Qed.

  Lemma put_port_sizes_P cs cports : Pports cports -> forall pm pm',
      Ppm pm -> put_port_sizes cs cports pm = Ok pm' -> Ppm pm'.
  Proof.
    intro Hc. induction cs as [|[sp [tr tp]] cs IH]; intros pm pm' Hpm H; cbn [put_port_sizes] in *.
    - inversion H; subst. exact Hpm.
    - inv_bind H. destruct (lookup sp cports) as [[d s]|] eqn:E; cbn [of_opt] in Hb; [|discriminate].
      inversion Hb; subst. eapply IH; [|exact H]. apply pm_put_P; [|exact Hpm].
      cbn. eapply Hc. eapply lookup_In. exact E.
  Qed.

  Lemma eval_constraints_P env cs cs' :
    Penv env -> eval_constraints ev statusD env cs = Ok cs' ->
    forall l r st, In (l, r, st) cs' -> P l /\ P r.
  Proof.
    unfold eval_constraints. intros He H l r st Hin.
    refine (mapM_all _ (fun b : D * D * cstatus => P (fst (fst b)) /\ P (snd (fst b))) _ _ cs' H (l, r, st) Hin).
    intros c b _ Hc. inv_bind Hc. inv_bind Hc.
    destruct (statusD x x0); inversion Hc; subst; cbn; split; eapply Hev; eassumption.
  Qed.

  Lemma eval_seq_P env s s' : Penv env -> eval_seq ev fvD env s = Ok s' -> Pseq s'.
  Proof.
    intros He H. destruct s as [m|a d|q|su pr nts|t it]; cbn [eval_seq] in H.
    - inv_bind H. inversion H; subst. cbn. eapply Hev; eassumption.
    - inv_bind H. inv_bind H. inversion H; subst. cbn. split; eapply Hev; eassumption.
    - inv_bind H. inversion H; subst. cbn. eapply Hev; eassumption.
    - inv_bind H. inv_bind H. inv_bind H. inversion H; subst. cbn. repeat split.
      + intros y Hy. subst. destruct su as [e|]; [|discriminate]. inv_bind Hb. inversion Hb; subst. eapply Hev; eassumption.
      + intros y Hy. subst. destruct pr as [e|]; [|discriminate]. inv_bind Hb0. inversion Hb0; subst. eapply Hev; eassumption.
      + eapply Hev; eassumption.
    - destruct (mem it (keys env) || existsb (fun kv => mem it (fvD (snd kv))) env); [discriminate|].
      inv_bind H. inversion H; subst. cbn. eapply Hev; eassumption.
  Qed.

  Lemma eval_rep_P env rp rp' : Penv env -> eval_rep ev fvD env rp = Ok rp' ->
    forall c s, rp' = Some (c, s) -> P c /\ Pseq s.
  Proof.
    intros He H c s Heq. destruct rp as [r|]; cbn [eval_rep] in H.
    - inv_bind H. inv_bind H. inversion H; subst. inversion H1; subst. split.
      + eapply Hev; eassumption.
      + eapply eval_seq_P; eassumption.
    - inversion H; subst. discriminate.
  Qed.

  Section Children.
    Variable rec : routine -> list (string * D) -> result (ctree D).
    Hypothesis Hrec : forall c ins t, Penv ins -> rec c ins = Ok t -> Ptree t.

    Lemma Ptree_ports t : Ptree t -> Pports (ct_ports t).
    Proof. destruct t. cbn. intros [_ [H _]]. exact H. Qed.
    Lemma Ptree_resources t : Ptree t -> forall n ty v, In (n, (ty, v)) (ct_resources t) -> P v.
    Proof. destruct t. cbn. intros [_ [_ [H _]]]. exact H. Qed.

    Lemma compile_children_P names children conns : forall pm acc pm' kids,
        Ppm pm -> Pkids acc ->
        compile_children rec names children conns pm acc = Ok (pm', kids) -> Ppm pm' /\ Pkids kids.
    Proof.
      induction names as [|n names IH]; intros pm acc pm' kids Hpm Hacc H; cbn in *.
      - inversion H; subst. split; [exact Hpm|]. intros k Hk. apply Hacc. apply in_rev. exact Hk.
      - inv_bind H. inv_bind H.
        destruct (lookup n (snd pm)) as [ins|] eqn:E; cbn in Hb0; [|discriminate].
        inversion Hb0; subst. inv_bind H. inv_bind H.
        assert (Hins : Penv (dict_norm x0)).
        { apply Penv_dict_norm. destruct Hpm as [_ Hc]. eapply Hc. eapply lookup_In. exact E. }
        pose proof (Hrec _ _ _ Hins Hb1) as Ht.
        eapply IH; [| |exact H].
        + eapply put_port_sizes_P; [|exact Hpm|exact Hb2]. apply Ptree_ports. exact Ht.
        + intros k [<-|Hk]; [exact Ht|apply Hacc; exact Hk].
    Qed.

    Lemma cvars_P kids : Pkids kids ->
      Penv (flat_map (fun t => map (fun nr => (dot (ct_name t) (fst nr), snd (snd nr))) (ct_resources t)) kids).
    Proof.
      intros Hk k d Hin. apply in_flat_map in Hin. destruct Hin as [t [Ht Hin]].
      apply in_map_iff in Hin. destruct Hin as [[n [ty v]] [Heq Hin]]. cbn in Heq. inversion Heq; subst.
      eapply Ptree_resources; [apply Hk; exact Ht|exact Hin].
    Qed.

    Lemma go_node_P r inputs t :
      Penv inputs -> go_node ev statusD fvD rec r inputs = Ok t -> Ptree t.
    Proof.
      destruct r as [name type ips locals links ports resources conns rep constraints children].
      cbn [go_node]. intros Hin H.
      inv_bind H. inv_bind H.
      pose proof (compile_locals_P _ _ _ _ _ Hin Penv_nil Hb0) as Hlv.
      assert (H0 : Penv (over x0 inputs)) by (apply Penv_over; assumption).
      inv_bind H. pose proof (eval_constraints_P _ _ _ H0 Hb1) as Hcs.
      inv_bind H.
      assert (Hpm0 : Ppm (over x0 inputs, map (fun c => (rname c, @nil (string * D))) children)).
      { split; [exact H0|]. cbn. intros n e Hn. apply in_map_iff in Hn. destruct Hn as [c [Heq _]].
        inversion Heq; subst. apply Penv_nil. }
      pose proof (compile_links_P _ _ H0 _ _ Hpm0 Hb2) as Hpm1.
      inv_bind H. pose proof (eval_ports_P _ _ _ H0 Hb3) as Hpin.
      inv_bind H. pose proof (put_port_sizes_P _ _ Hpin _ _ Hpm1 Hb4) as Hpm2.
      inv_bind H. inv_bind H. destruct x6 as [pm3 kids].
      assert (Hnil : Pkids []) by (intros k []).
      destruct (compile_children_P _ _ _ _ _ _ _ Hpm2 Hnil Hb6) as [Hpm3 Hkids].
      inv_bind H. inv_bind H. inv_bind H. inv_bind H. inversion H; subst. clear H.
      assert (Hpmn : Penv (over (fst pm3)
                 (flat_map (fun t => map (fun nr => (dot (ct_name t) (fst nr), snd (snd nr))) (ct_resources t)) kids))).
      { apply Penv_over; [exact (proj1 Hpm3)|apply cvars_P; exact Hkids]. }
      cbn [Ptree]. split; [exact Hin|]. split; [|split; [|split; [|split]]].
      - intros n d s Hp. apply in_app_or in Hp. destruct Hp as [Hp|Hp].
        + eapply Hpin. exact Hp.
        + eapply (eval_ports_P _ _ _ Hpmn Hb10). exact Hp.
      - intros n ty v Hr.
        refine (mapM_all _ (fun b : string * (rtype * D) => P (snd (snd b))) _ _ _ Hb9 (n, (ty, v)) Hr).
        intros rs b _ Hrs. inv_bind Hrs. inversion Hrs; subst. cbn. eapply Hev; eassumption.
      - exact (eval_rep_P _ _ _ Hpmn Hb8).
      - exact Hcs.
      - apply all_Pkids. exact Hkids.
    Qed.
  End Children.

  Theorem go_inv fuel : forall r inputs t,
      Penv inputs -> go ev statusD fvD fuel r inputs = Ok t -> Ptree t.
  Proof.
    induction fuel as [|fuel IH]; intros r inputs t Hin H; [discriminate|].
    cbn [go] in H. eapply go_node_P; [|exact Hin|exact H]. exact IH.
  Qed.
End Inv.

(* ------------------------------------------------------------------ *)
Section Mono.
  Variable D : Type.
  Variables ev1 ev2 : list (string * D) -> expr -> result D.
  Variable statusD : D -> D -> cstatus.
  Variable fvD : D -> list string.
  Hypothesis Hle : forall env e v, ev1 env e = Ok v -> ev2 env e = Ok v.

  Lemma compile_locals_mono names locals : forall ext acc lv,
      compile_locals ev1 names locals ext acc = Ok lv -> compile_locals ev2 names locals ext acc = Ok lv.
  Proof.
    induction names as [|x names IH]; intros ext acc lv H; cbn [compile_locals] in *; [exact H|].
    inv_bind H. rewrite Hb. cbn [bind]. inv_bind H. rewrite (Hle _ _ _ Hb0). cbn [bind]. apply IH. exact H.
  Qed.

  Lemma compile_links_mono pmn0 links : forall pm pm',
      compile_links ev1 pmn0 links pm = Ok pm' -> compile_links ev2 pmn0 links pm = Ok pm'.
  Proof.
    induction links as [|[src targets] links IH]; intros pm pm' H; cbn [compile_links] in *; [exact H|].
    inv_bind H. rewrite (Hle _ _ _ Hb). cbn [bind]. apply IH. exact H.
  Qed.

  Lemma eval_ports_mono env ps cps : eval_ports ev1 env ps = Ok cps -> eval_ports ev2 env ps = Ok cps.
  Proof.
    unfold eval_ports. apply mapM_ext_ok. intros p b _ H. inv_bind H. rewrite (Hle _ _ _ Hb). exact H.
  Qed.

  Lemma eval_constraints_mono env cs cs' :
    eval_constraints ev1 statusD env cs = Ok cs' -> eval_constraints ev2 statusD env cs = Ok cs'.
  Proof.
    unfold eval_constraints. apply mapM_ext_ok. intros c b _ H. inv_bind H. inv_bind H.
    rewrite (Hle _ _ _ Hb), (Hle _ _ _ Hb0). exact H.
  Qed.

  Lemma eval_seq_mono env s s' : eval_seq ev1 fvD env s = Ok s' -> eval_seq ev2 fvD env s = Ok s'.
  Proof.
    destruct s as [m|a d|q|su pr nts|t it]; cbn [eval_seq]; intro H.
    - inv_bind H. rewrite (Hle _ _ _ Hb). exact H.
    - inv_bind H. inv_bind H. rewrite (Hle _ _ _ Hb), (Hle _ _ _ Hb0). exact H.
    - inv_bind H. rewrite (Hle _ _ _ Hb). exact H.
    - inv_bind H. inv_bind H. inv_bind H.
      assert (E1 : match su with Some x => do y <- ev2 env x; Ok (Some y) | None => Ok None end = Ok x).
      { destruct su as [e|]; [|exact Hb]. inv_bind Hb. rewrite (Hle _ _ _ Hb2). exact Hb. }
      assert (E2 : match pr with Some x => do y <- ev2 env x; Ok (Some y) | None => Ok None end = Ok x0).
      { destruct pr as [e|]; [|exact Hb0]. inv_bind Hb0. rewrite (Hle _ _ _ Hb2). exact Hb0. }
      rewrite E1, E2, (Hle _ _ _ Hb1). exact H.
    - destruct (mem it (keys env) || existsb (fun kv => mem it (fvD (snd kv))) env); [exact H|].
      inv_bind H. rewrite (Hle _ _ _ Hb). exact H.
  Qed.

  Lemma eval_rep_mono env rp rp' : eval_rep ev1 fvD env rp = Ok rp' -> eval_rep ev2 fvD env rp = Ok rp'.
  Proof.
    destruct rp as [r|]; cbn [eval_rep]; intro H; [|exact H].
    inv_bind H. inv_bind H. rewrite (Hle _ _ _ Hb), (eval_seq_mono _ _ _ Hb0). exact H.
  Qed.

  Section Children.
    Variables rec1 rec2 : routine -> list (string * D) -> result (ctree D).
    Hypothesis Hrec : forall c ins t, rec1 c ins = Ok t -> rec2 c ins = Ok t.

    Lemma compile_children_mono names children conns : forall pm acc out,
        compile_children rec1 names children conns pm acc = Ok out ->
        compile_children rec2 names children conns pm acc = Ok out.
    Proof.
      induction names as [|n names IH]; intros pm acc out H; cbn in *; [exact H|].
      inv_bind H. rewrite Hb. cbn. inv_bind H. rewrite Hb0. cbn. inv_bind H. rewrite (Hrec _ _ _ Hb1). cbn.
      inv_bind H. rewrite Hb2. cbn. apply IH. exact H.
    Qed.

    Lemma go_node_mono r inputs t :
      go_node ev1 statusD fvD rec1 r inputs = Ok t -> go_node ev2 statusD fvD rec2 r inputs = Ok t.
    Proof.
      destruct r as [name type ips locals links ports resources conns rep constraints children].
      cbn [go_node]. intro H.
      inv_bind H. rewrite Hb. cbn [bind].
      inv_bind H. rewrite (compile_locals_mono _ _ _ _ _ Hb0). cbn [bind].
      inv_bind H. rewrite (eval_constraints_mono _ _ _ Hb1). cbn [bind].
      inv_bind H. rewrite (compile_links_mono _ _ _ _ Hb2). cbn [bind].
      inv_bind H. rewrite (eval_ports_mono _ _ _ Hb3). cbn [bind].
      inv_bind H. rewrite Hb4. cbn [bind].
      inv_bind H. rewrite Hb5. cbn [bind].
      inv_bind H. rewrite (compile_children_mono _ _ _ _ _ _ Hb6). cbn [bind].
      destruct x6 as [pm3 kids].
      inv_bind H. rewrite Hb7. cbn [bind].
      inv_bind H. rewrite (eval_rep_mono _ _ _ Hb8). cbn [bind].
      inv_bind H.
      assert (E : mapM (fun rs => do v <- ev2 (over (fst pm3)
                    (flat_map (fun t => map (fun nr => (dot (ct_name t) (fst nr), snd (snd nr))) (ct_resources t)) kids))
                    (r_value rs); Ok (r_name rs, (r_type rs, v))) x6 = Ok x8).
      { eapply mapM_ext_ok; [|exact Hb9]. intros rs b _ Hrs. inv_bind Hrs. rewrite (Hle _ _ _ Hb10). exact Hrs. }
      rewrite E. cbn [bind].
      inv_bind H. rewrite (eval_ports_mono _ _ _ Hb10). cbn [bind]. exact H.
    Qed.
  End Children.

  Theorem go_mono fuel : forall r inputs t,
      go ev1 statusD fvD fuel r inputs = Ok t -> go ev2 statusD fvD fuel r inputs = Ok t.
  Proof.
    induction fuel as [|fuel IH]; intros r inputs t H; [discriminate|].
    cbn [go] in *. eapply go_node_mono; [|exact H]. exact IH.
  Qed.
End Mono.

(* ------------------------------------------------------------------ *)
Definition over_G (G : list string) (d : expr) : Prop := forall x, In x (fv d) -> In x G.

Lemma lookup_None_keys {A} x (s : list (string * A)) : lookup x s = None -> mem x (keys s) = false.
Proof.
  induction s as [|[y w] s IH]; cbn; [reflexivity|].
  destruct (String.eqb x y); [discriminate|exact IH].
Qed.

Lemma ev_scoped_over G env e v :
  Penv expr (over_G G) env -> ev_scoped G env e = Ok v -> over_G G v.
Proof.
  unfold ev_scoped, ev_subst, subst_chk. intros He H.
  destruct (forallb _ (fv e)) eqn:Hs; [|discriminate].
  destruct (captures env e); [discriminate|]. inversion H; subst. clear H.
  intros x Hx. apply fv_subst in Hx. destruct Hx as [[Hfe Hnone]|[y [w [Hy [Hl Hw]]]]].
  - rewrite forallb_forall in Hs. specialize (Hs x Hfe).
    rewrite (lookup_None_keys _ _ Hnone) in Hs. cbn in Hs. apply mem_In. exact Hs.
  - eapply He; [eapply lookup_In; exact Hl|exact Hw].
Qed.

Lemma ev_scoped_le G env e v : ev_scoped G env e = Ok v -> ev_subst env e = Ok v.
Proof. unfold ev_scoped. destruct (forallb _ _); [auto|discriminate]. Qed.

(* C04, whole tree: if the scoped traversal answers, (a) the plain compile model answers the same tree and
   (b) every symbol of every carrier value stored anywhere in that tree -- inputs, port sizes, resources,
   repetition count and sequence fields, retained constraints, at every depth -- is in G. *)
Theorem compiled_tree_closed G fuel r inputs t :
  Penv expr (over_G G) inputs ->
  go (ev_scoped G) statusE fv fuel r inputs = Ok t ->
  go ev_subst statusE fv fuel r inputs = Ok t /\ Ptree expr (over_G G) t.
Proof.
  intros Hin H. split.
  - eapply go_mono; [|exact H]. apply ev_scoped_le.
  - eapply go_inv; [|exact Hin|exact H]. apply ev_scoped_over.
Qed.

(* no internal name survives: a name outside G occurs nowhere in the tree *)
Corollary compiled_tree_no_internal G fuel r t :
  go (ev_scoped G) statusE fv fuel r [] = Ok t ->
  Ptree expr (fun d => forall x, In x (fv d) -> In x G) t.
Proof.
  intro H. apply (compiled_tree_closed G fuel r [] t); [|exact H]. intros k d [].
Qed.
