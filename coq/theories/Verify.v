(* Verify.v — what compile_routine checks before compiling: qref.verification.verify_topology (hand model of the
   qref package, tied by the fault stream) and bartiq's verify_uncompiled_repetitions (generated predicates).
   Definitions only. *)
From Coq Require Import List String Bool Arith ZArith.
From Bq Require Import Expr StdSem RepModel Routine Compile Preprocess CompileTop.
From BqGen Require Import GenVerification GenTables.
Import ListNotations.
Open Scope string_scope.

Definition ep_name (e : endpoint) : string :=
  match e with (None, p) => p | (Some c, p) => dot c p end.

(* _graph_from_routine: node |-> predecessors *)
Definition topo_graph (r : routine) : list (string * list string) :=
  let conn_edges := map (fun st => (ep_name (snd st), [ep_name (fst st)])) (rconnections r) in
  let child_edges :=
      flat_map (fun c =>
                  let ins := flat_map (fun p => match p_dir p with DIn => [dot (rname c) (p_name p)] | _ => [] end) (rports c) in
                  let outs := flat_map (fun p => match p_dir p with DOut => [dot (rname c) (p_name p)] | _ => [] end) (rports c) in
                  (rname c, ins) :: map (fun o => (o, [rname c])) outs) (rchildren r) in
  (conn_edges ++ child_edges)%list.

Definition graph_preds (g : list (string * list string)) (n : string) : list string :=
  flat_map (fun kv => if String.eqb (fst kv) n then snd kv else []) g.

Fixpoint dedup (l : list string) : list string :=
  match l with [] => [] | x :: l' => if mem x l' then dedup l' else x :: dedup l' end.

Definition graph_nodes (g : list (string * list string)) : list string :=
  dedup (flat_map (fun kv => fst kv :: snd kv) g).

Definition has_cycle (r : routine) : bool :=
  let g := topo_graph r in
  let ns := graph_nodes g in
  match kahn (List.length ns) ns (fun n => filter (fun p => mem p ns) (graph_preds g n)) [] with
  | Some _ => false
  | None => true
  end.

Definition count_occ_str (x : string) (l : list string) : nat := List.length (filter (String.eqb x) l).

(* _find_disconnected_ports: number of problems of each kind *)
Definition disconnected_problems (r : routine) : nat :=
  let sources := map (fun st => ep_name (fst st)) (rconnections r) in
  let targets := map (fun st => ep_name (snd st)) (rconnections r) in
  let multi l := existsb (fun x => Nat.ltb 1 (count_occ_str x l)) l in
  let has_children := negb (Nat.eqb (List.length (rchildren r)) 0) in
  let req_out :=
      (flat_map (fun p => match p_dir p with DIn => if has_children then [p_name p] else [] | _ => [] end) (rports r)
       ++ flat_map (fun c => flat_map (fun p => match p_dir p with DIn => [] | _ => [dot (rname c) (p_name p)] end) (rports c)) (rchildren r))%list in
  let req_in :=
      (flat_map (fun p => match p_dir p with DOut => if has_children then [p_name p] else [] | _ => [] end) (rports r)
       ++ flat_map (fun c => flat_map (fun p => match p_dir p with DOut => [] | _ => [dot (rname c) (p_name p)] end) (rports c)) (rchildren r))%list in
  let thru := flat_map (fun p => match p_dir p with DThrough => [p_name p] | _ => [] end) (rports r) in
  ((if multi sources then 1 else 0)
   + (if multi targets then 1 else 0)
   + List.length (filter (fun x => negb (mem x sources)) (dedup req_out))
   + List.length (filter (fun x => negb (mem x targets)) (dedup req_in))
   + List.length (filter (fun x => mem x sources || mem x targets) (dedup thru)))%nat.

Fixpoint topology_problems (fuel : nat) (r : routine) : nat :=
  match fuel with
  | O => 1%nat
  | S f => ((if has_cycle r then 1 else 0) + disconnected_problems r
            + fold_right (fun c acc => topology_problems f c + acc) 0 (rchildren r))%nat
  end.

(* verify_uncompiled_repetitions with the generated predicates *)
Fixpoint repetition_problems (fuel : nat) (r : routine) : nat :=
  match fuel with
  | O => 1%nat
  | S f =>
      let nch := List.length (rchildren r) in
      let nres := List.length (rresources r) in
      let hr := match rrep r with Some _ => true | None => false end in
      ((if gen_ensure_one_child nch nres hr then 1 else 0) + (if gen_ensure_no_resources nch nres hr then 1 else 0)
       + fold_right (fun c acc => repetition_problems f c + acc) 0 (rchildren r))%nat
  end.

Definition verification_problems (r : routine) : nat :=
  (topology_problems (S (height r)) r + repetition_problems (S (height r)) r)%nat.

(* compile_routine: `if not skip_verification and not isinstance(routine, Routine)` (guard shape generated) *)
Definition compile_routine_checked (skip_verification : bool) (r : routine) : result (ctree expr) :=
  if negb skip_verification && negb (Nat.eqb (verification_problems r) 0) then ECompile
  else compile_routine r.

(* ---------- C17 case files ---------- *)
(* faulted: the harness injected a wiring / repetition fault; impl: class of the real compile_routine;
   classes of the evaluations that followed (valid hierarchies only) *)
Definition check_robust_case (r : routine) (faulted : bool) (impl_cls : string) (eval_classes : list string) : list nat * list nat :=
  let b2n (b : bool) := if b then 0%nat else 1%nat in
  let bartiq_or_ok (c : string) := String.eqb c "ok" || String.eqb c "BartiqCompilationError" || String.eqb c "BartiqPreprocessingError" in
  let model := compile_routine_checked false r in
  (* (a constraint the code's symbolic backend decides as violated while the model's normal form leaves it undecided: the
     two agree as far as the model can tell when its two sides differ at every sample point; see CompileTop) *)
  let lenient := match model with
                 | Ok m => String.eqb impl_cls "BartiqCompilationError"
                           && undecided_but_violated (S (ct_height m)) [dfltQ 0%Z; dfltQ 1%Z; dfltQ 2%Z] m
                 | _ => false
                 end in
  let tie := [b2n (lenient || String.eqb (err_class model) impl_cls);
              (* an injected fault is rejected by the model too (by verification, or -- a cycle closed through a through
                 port, which verify_topology does not see -- by the child ordering); a valid hierarchy has no problem *)
              if faulted then b2n (String.eqb (err_class (compile_routine_checked false r)) "BartiqCompilationError")
              else b2n (Nat.eqb (verification_problems r) 0)] in
  let spec := if faulted then [b2n (String.eqb impl_cls "BartiqCompilationError")]
              else (b2n (bartiq_or_ok impl_cls) :: map (fun c => b2n (bartiq_or_ok c)) eval_classes) in
  (tie, spec).
