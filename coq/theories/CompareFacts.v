(* CompareFacts.v — soundness of the comparison used for size constraints (C06):
   "satisfied" is only ever said of two expressions that are equal under every assignment, and
   "violated" only of two expressions that differ by the same non-zero integer under every assignment. *)
From Coq Require Import List String QArith ZArith Bool Qreduction Qpower Qminmax Ring Field Lia Setoid.
From Bq Require Import Expr ExprFacts StdSem StdSemFacts Routine Compare.
Import ListNotations.
Open Scope string_scope.
Open Scope Q_scope.

(* ---------- structural equality is Leibniz equality ---------- *)
Lemma op_eqb_eq a b : op_eqb a b = true -> a = b.
Proof. destruct a, b; cbn; try congruence. intro H. apply String.eqb_eq in H. subst. reflexivity. Qed.

Lemma expr_eqb_eq a : forall b, expr_eqb a b = true -> a = b.
Proof.
  induction a as [q|x|o args IH|k i b lo hi IHb IHlo IHhi] using expr_ind'; intros e H; destruct e; cbn in H; try discriminate.
  - apply andb_true_iff in H. destruct H as [H1 H2]. apply Z.eqb_eq in H1. apply Pos.eqb_eq in H2.
    destruct q, q0; cbn in *. subst. reflexivity.
  - apply String.eqb_eq in H. subst. reflexivity.
  - apply andb_true_iff in H. destruct H as [Ho Ha]. rewrite (op_eqb_eq _ _ Ho). f_equal.
    revert args0 Ha. induction args as [|a args IHa]; intros ys Ha; destruct ys; try discriminate; [reflexivity|].
    apply andb_true_iff in Ha. destruct Ha as [Hx Hxs]. inversion IH; subst. rewrite (H1 _ Hx), (IHa H2 _ Hxs). reflexivity.
  - repeat (apply andb_true_iff in H; destruct H as [H ?]).
    assert (k = k0) by (destruct k, k0; cbn in H; congruence). apply String.eqb_eq in H3. subst.
    rewrite (IHb _ H2), (IHlo _ H1), (IHhi _ H0). reflexivity.
Qed.

(* ---------- meaning of monomials and polynomials ---------- *)
Definition qpow (x : Q) (k : nat) : Q := Qpower x (Z.of_nat k).

Lemma qpow_S x n : qpow x (S n) == qpow x n * x.
Proof.
  unfold qpow. rewrite Nat2Z.inj_succ. unfold Z.succ.
  destruct (Qeq_dec x 0) as [Hx|Hx].
  - rewrite Hx. destruct n as [|n]; [cbn; ring|]. rewrite Qpower_0 by lia. rewrite Qpower_0 by lia. ring.
  - rewrite Qpower_plus by exact Hx. change (x ^ 1) with x. reflexivity.
Qed.

Lemma qpow_add x a b : qpow x (a + b) == qpow x a * qpow x b.
Proof.
  induction b as [|b IH].
  - rewrite Nat.add_0_r. unfold qpow at 3. cbn. ring.
  - replace (a + S b)%nat with (S (a + b)) by lia. rewrite !qpow_S, IH. ring.
Qed.

Lemma qpow_1 x : qpow x 1 == x.
Proof. unfold qpow. cbn. reflexivity. Qed.

Lemma qpow_comp x y n : x == y -> qpow x n == qpow y n.
Proof. intro H. unfold qpow. rewrite H. reflexivity. Qed.

Section Meaning.
  Variable rho : string -> Q.
  Notation ev := (evalT rho).

  Definition meval (m : mono) : Q := fold_right (fun ak acc => qpow (ev (fst ak)) (snd ak) * acc) 1 m.
  Definition peval (p : poly) : Q := fold_right (fun mc acc => snd mc * meval (fst mc) + acc) 0 p.

  Lemma meval_add_atom a k m : meval (mono_add_atom a k m) == qpow (ev a) k * meval m.
  Proof.
    induction m as [|[b j] m IH]; cbn [mono_add_atom meval fold_right fst snd].
    - reflexivity.
    - destruct (expr_eqb a b) eqn:E.
      + apply expr_eqb_eq in E. subst. cbn [meval fold_right fst snd]. rewrite qpow_add. ring.
      + cbn [meval fold_right fst snd]. fold (meval (mono_add_atom a k m)). fold (meval m). rewrite IH. ring.
  Qed.

  Lemma meval_mul m1 m2 : meval (mono_mul m1 m2) == meval m1 * meval m2.
  Proof.
    unfold mono_mul. revert m1. induction m2 as [|[a k] m2 IH]; intro m1; cbn [fold_left].
    - cbn. ring.
    - rewrite IH, meval_add_atom. cbn [meval fold_right fst snd]. fold (meval m2). ring.
  Qed.

  Lemma mono_remove_sound a k m m' : mono_remove a k m = Some m' -> meval m == qpow (ev a) k * meval m'.
  Proof.
    revert m'. induction m as [|[b j] m IH]; intros m' H; cbn [mono_remove] in H; [discriminate|].
    destruct (expr_eqb a b && Nat.eqb k j) eqn:E.
    - inversion H; subst. apply andb_true_iff in E. destruct E as [E1 E2]. apply expr_eqb_eq in E1. apply Nat.eqb_eq in E2. subst.
      cbn [meval fold_right fst snd]. reflexivity.
    - destruct (mono_remove a k m) as [r|]; [|discriminate]. inversion H; subst.
      cbn [meval fold_right fst snd]. fold (meval m). fold (meval r). rewrite (IH r eq_refl). ring.
  Qed.

  Lemma mono_eqb_sound m1 : forall m2, mono_eqb m1 m2 = true -> meval m1 == meval m2.
  Proof.
    induction m1 as [|[a k] m1 IH]; intros m2 H; cbn [mono_eqb] in H.
    - destruct m2; [reflexivity|discriminate].
    - destruct (mono_remove a k m2) as [m2'|] eqn:E; [|discriminate].
      rewrite (mono_remove_sound _ _ _ _ E). cbn [meval fold_right fst snd]. fold (meval m1). rewrite (IH _ H). reflexivity.
  Qed.

  Lemma peval_add_term m c p : peval (poly_add_term m c p) == c * meval m + peval p.
  Proof.
    induction p as [|[m' c'] p IH]; cbn [poly_add_term peval fold_right fst snd].
    - ring.
    - destruct (mono_eqb m m') eqn:E.
      + cbn [peval fold_right fst snd]. fold (peval p). rewrite Qred_correct, (mono_eqb_sound _ _ E). ring.
      + cbn [peval fold_right fst snd]. fold (peval (poly_add_term m c p)). fold (peval p). rewrite IH. ring.
  Qed.

  Lemma peval_add p q : peval (poly_add p q) == peval p + peval q.
  Proof.
    unfold poly_add. revert p. induction q as [|[m c] q IH]; intro p; cbn [fold_left].
    - cbn. ring.
    - rewrite IH, peval_add_term. cbn [peval fold_right fst snd]. fold (peval q). ring.
  Qed.

  Lemma peval_scale c p : peval (poly_scale c p) == c * peval p.
  Proof.
    induction p as [|[m c'] p IH]; cbn [poly_scale map peval fold_right fst snd]; [ring|].
    fold (poly_scale c p). fold (peval (poly_scale c p)). fold (peval p). rewrite IH, Qred_correct. ring.
  Qed.

  Lemma peval_mul_inner m c q : forall acc,
      peval (fold_left (fun acc' nd => poly_add_term (mono_mul m (fst nd)) (Qred (c * snd nd)) acc') q acc)
      == peval acc + c * meval m * peval q.
  Proof.
    induction q as [|[n d] q IH]; intro acc; cbn [fold_left].
    - cbn. ring.
    - rewrite IH, peval_add_term, Qred_correct, meval_mul. cbn [peval fold_right fst snd]. fold (peval q). ring.
  Qed.

  Lemma peval_mul p q : peval (poly_mul p q) == peval p * peval q.
  Proof.
    unfold poly_mul.
    assert (H : forall acc, peval (fold_left (fun acc mc =>
                  fold_left (fun acc' nd => poly_add_term (mono_mul (fst mc) (fst nd)) (Qred (snd mc * snd nd)) acc') q acc) p acc)
                            == peval acc + peval p * peval q).
    { induction p as [|[m c] p IH]; intro acc; cbn [fold_left].
      - cbn. ring.
      - rewrite IH. cbn [fst snd]. rewrite peval_mul_inner. cbn [peval fold_right fst snd]. fold (peval p). ring. }
    rewrite H. cbn. ring.
  Qed.

  Lemma peval_const c : peval (poly_const c) == c.
  Proof. unfold poly_const, peval, meval. cbn [fold_right fst snd]. ring. Qed.

  Lemma peval_atom a : peval (poly_atom a) == ev a.
  Proof. unfold poly_atom, peval, meval. cbn [fold_right fst snd]. rewrite qpow_1. ring. Qed.

  (* a folded closed term has, literally, the value every assignment gives it *)
  Lemma cfold_sound e : forall q, cfold e = Some q -> ev e = q.
  Proof.
    induction e as [q0|x|o args IH|k i b lo hi _ _ _] using expr_ind'; intros q H; cbn [cfold] in H; try discriminate.
    - inversion H. reflexivity.
    - destruct (all_some (map cfold args)) as [vs|] eqn:Ea; [|discriminate].
      destruct (foldable o vs); [|discriminate]. inversion H; subst. clear H.
      unfold evalT. cbn [eval]. fold (evalT rho). f_equal.
      revert vs Ea. induction args as [|a args IHa]; intros vs Ea; cbn [map all_some] in *.
      + inversion Ea. reflexivity.
      + inversion IH as [|? ? Ha IH']; subst.
        destruct (cfold a) as [v|] eqn:Ev; [|discriminate].
        destruct (all_some (map cfold args)) as [r|] eqn:Er; [|discriminate]. inversion Ea; subst.
        rewrite (Ha v eq_refl), (IHa IH' r eq_refl). reflexivity.
  Qed.

  Lemma peval_aoc a : peval (atom_or_const a) == ev a.
  Proof.
    unfold atom_or_const. destruct (cfold a) as [q|] eqn:E; [|apply peval_atom].
    rewrite peval_const, (cfold_sound a q E). apply Qred_correct.
  Qed.

  Lemma peval_pow p n : peval (poly_pow p n) == qpow (peval p) n.
  Proof.
    induction n as [|n IH]; cbn [poly_pow].
    - rewrite peval_const. reflexivity.
    - rewrite peval_mul, IH, qpow_S. ring.
  Qed.

  Lemma peval_clean p : peval (poly_clean p) == peval p.
  Proof.
    induction p as [|[m c] p IH]; cbn [poly_clean filter peval fold_right fst snd]; [reflexivity|].
    fold (poly_clean p). fold (peval p).
    destruct (Z.eqb (Qnum c) 0) eqn:E; cbn [negb].
    - rewrite IH. apply Z.eqb_eq in E. assert (Hc : c == 0) by (unfold Qeq; cbn; rewrite E; reflexivity). rewrite Hc. ring.
    - cbn [peval fold_right fst snd]. fold (peval (poly_clean p)). rewrite IH. reflexivity.
  Qed.

  Lemma poly_is_const_sound p c : poly_is_const p = Some c -> peval p == c.
  Proof.
    unfold poly_is_const. intro H. rewrite <- peval_clean.
    destruct (poly_clean p) as [|[[|ak m] c0] [|x l]]; try discriminate; inversion H; subst; cbn; ring.
  Qed.

  Lemma q_int_sound c z : q_int c = Some z -> c == inject_Z z.
  Proof.
    unfold q_int. intro H. destruct (Pos.eqb (Qden (Qred c)) 1) eqn:E; [|discriminate]. inversion H; subst.
    apply Pos.eqb_eq in E. rewrite <- (Qred_correct c) at 1. destruct (Qred c) as [n d]. cbn in *. subst. reflexivity.
  Qed.

  Lemma Qpow_std_int x y z : y == inject_Z z -> Qpow_std x y = Qpower x z.
  Proof.
    intro H. unfold Qpow_std. rewrite (is_int_compat _ _ H), is_int_inject, (to_int_compat _ _ H), to_int_inject. reflexivity.
  Qed.

  Lemma fold_qmax_compat x y l l' : x == y -> Forall2 Qeq l l' -> fold_right Qmax x l == fold_right Qmax y l'.
  Proof. intros Hxy H. induction H as [|a b l l' Hab _ IH]; cbn [fold_right]; [exact Hxy|]. rewrite Hab, IH. reflexivity. Qed.
  Lemma fold_qmin_compat x y l l' : x == y -> Forall2 Qeq l l' -> fold_right Qmin x l == fold_right Qmin y l'.
  Proof. intros Hxy H. induction H as [|a b l l' Hab _ IH]; cbn [fold_right]; [exact Hxy|]. rewrite Hab, IH. reflexivity. Qed.

  (* the winner kept by maxp has the value of the Max / Min *)
  Lemma maxp_sound_max p0 : forall ps m,
      maxp true p0 ps = Some m -> peval m == fold_right Qmax (peval p0) (map peval ps).
  Proof.
    induction ps as [|q ps IH]; intros m H; cbn [maxp] in H.
    - inversion H; subst. reflexivity.
    - destruct (maxp true p0 ps) as [m'|] eqn:Em; [|discriminate]. specialize (IH m' eq_refl).
      destruct (poly_is_const (poly_add q (poly_scale (-1) m'))) as [c|] eqn:Ec; [|discriminate].
      pose proof (poly_is_const_sound _ _ Ec) as Hc. rewrite peval_add, peval_scale in Hc.
      cbn [map fold_right]. rewrite <- IH.
      destruct (Qle_bool 0 c) eqn:El; inversion H; subst.
      + apply Qle_bool_iff in El. symmetry. apply Q.max_l.
        setoid_replace (peval m) with (peval m' + c) by (rewrite <- Hc; ring).
        setoid_replace (peval m') with (peval m' + 0) at 1 by ring. apply Qplus_le_r. exact El.
      + symmetry. apply Q.max_r.
        assert (Hlt : c < 0). { destruct (Qlt_le_dec c 0) as [L|L]; [exact L|]. apply Qle_bool_iff in L. congruence. }
        setoid_replace (peval q) with (peval m + c) by (rewrite <- Hc; ring).
        setoid_replace (peval m) with (peval m + 0) at 2 by ring. apply Qplus_le_r. apply Qlt_le_weak. exact Hlt.
  Qed.

  Lemma maxp_sound_min p0 : forall ps m,
      maxp false p0 ps = Some m -> peval m == fold_right Qmin (peval p0) (map peval ps).
  Proof.
    induction ps as [|q ps IH]; intros m H; cbn [maxp] in H.
    - inversion H; subst. reflexivity.
    - destruct (maxp false p0 ps) as [m'|] eqn:Em; [|discriminate]. specialize (IH m' eq_refl).
      destruct (poly_is_const (poly_add q (poly_scale (-1) m'))) as [c|] eqn:Ec; [|discriminate].
      pose proof (poly_is_const_sound _ _ Ec) as Hc. rewrite peval_add, peval_scale in Hc.
      cbn [map fold_right]. rewrite <- IH.
      destruct (Qle_bool 0 c) eqn:El; inversion H; subst.
      + apply Qle_bool_iff in El. symmetry. apply Q.min_r.
        setoid_replace (peval q) with (peval m + c) by (rewrite <- Hc; ring).
        setoid_replace (peval m) with (peval m + 0) at 1 by ring. apply Qplus_le_r. exact El.
      + symmetry. apply Q.min_l.
        assert (Hlt : c < 0). { destruct (Qlt_le_dec c 0) as [L|L]; [exact L|]. apply Qle_bool_iff in L. congruence. }
        setoid_replace (peval m) with (peval m' + c) by (rewrite <- Hc; ring).
        setoid_replace (peval m') with (peval m' + 0) at 2 by ring. apply Qplus_le_r. apply Qlt_le_weak. exact Hlt.
  Qed.

  (* ---------- the normal form has the value of the expression ---------- *)
  Theorem normalize_sound e : peval (normalize e) == ev e.
  Proof.
    induction e as [q|x|o args IH|k i b lo hi IHb IHlo IHhi] using expr_ind'.
    - cbn [normalize]. rewrite peval_const. unfold evalT; cbn. apply Qred_correct.
    - cbn [normalize]. apply peval_atom.
    - destruct o; try (cbn [normalize]; apply peval_aoc).
      + (* OAdd *) cbn [normalize]. unfold evalT; cbn [eval stdI].
        induction args as [|a args IHa]; cbn [fold_right map]; [reflexivity|].
        inversion IH; subst. rewrite peval_add, H1, (IHa H2). reflexivity.
      + (* OMul *) cbn [normalize]. unfold evalT; cbn [eval stdI].
        induction args as [|a args IHa]; cbn [fold_right map]; [apply peval_const|].
        inversion IH; subst. rewrite peval_mul, H1, (IHa H2). reflexivity.
      + (* OSub *) destruct args as [|a [|b [|c rest]]]; try (cbn [normalize]; apply peval_aoc).
        cbn [normalize]. inversion IH as [|? ? Ha IH']; subst. inversion IH' as [|? ? Hb _]; subst.
        rewrite peval_add, peval_scale, Ha, Hb. unfold evalT; cbn. ring.
      + (* ODiv *) destruct args as [|a [|b [|c rest]]]; try (cbn [normalize]; apply peval_aoc).
        cbn [normalize]. inversion IH as [|? ? Ha IH']; subst. inversion IH' as [|? ? Hb _]; subst.
        destruct (poly_is_const (normalize b)) as [c|] eqn:Ec; [|apply peval_aoc].
        destruct (Z.eqb (Qnum c) 0); [apply peval_aoc|].
        rewrite peval_scale, Ha. pose proof (poly_is_const_sound _ _ Ec) as Hc. rewrite Hb in Hc.
        unfold evalT in *; cbn [eval stdI map]. rewrite Hc. unfold Qdiv. ring.
      + (* OPow *) destruct args as [|a [|b [|c rest]]]; try (cbn [normalize]; apply peval_aoc).
        cbn [normalize]. inversion IH as [|? ? Ha IH']; subst. inversion IH' as [|? ? Hb _]; subst.
        destruct (poly_is_const (normalize b)) as [c|] eqn:Ec; [|apply peval_aoc].
        destruct (q_int c) as [z|] eqn:Ez; [|apply peval_aoc].
        destruct (Z.leb 0 z && Z.leb z 12) eqn:Er; [|apply peval_aoc].
        apply andb_true_iff in Er. destruct Er as [E0 _]. apply Z.leb_le in E0.
        rewrite peval_pow, (qpow_comp _ _ _ Ha).
        pose proof (poly_is_const_sound _ _ Ec) as Hc. rewrite Hb, (q_int_sound _ _ Ez) in Hc.
        unfold evalT in *; cbn [eval stdI map]. rewrite (Qpow_std_int _ _ _ Hc). unfold qpow. rewrite Z2Nat.id by exact E0. reflexivity.
      + (* ONeg *) destruct args as [|a [|b rest]]; try (cbn [normalize]; apply peval_aoc).
        cbn [normalize]. inversion IH as [|? ? Ha _]; subst. rewrite peval_scale, Ha. unfold evalT; cbn. ring.
      + (* OMax *) destruct args as [|a rest]; [cbn [normalize]; apply peval_aoc|].
        cbn [normalize]. inversion IH as [|? ? Ha IH']; subst.
        destruct (maxp true (normalize a) (map normalize rest)) as [m|] eqn:Em; [|apply peval_aoc].
        rewrite (maxp_sound_max _ _ _ Em). unfold evalT; cbn [eval stdI map]. fold (evalT rho).
        apply fold_qmax_compat; [exact Ha|].
        clear - IH'. induction rest as [|r rest IHr]; cbn [map]; [constructor|].
        inversion IH' as [|? ? Hr IH'']; subst. constructor; [exact Hr | exact (IHr IH'')].
      + (* OMin *) destruct args as [|a rest]; [cbn [normalize]; apply peval_aoc|].
        cbn [normalize]. inversion IH as [|? ? Ha IH']; subst.
        destruct (maxp false (normalize a) (map normalize rest)) as [m|] eqn:Em; [|apply peval_aoc].
        rewrite (maxp_sound_min _ _ _ Em). unfold evalT; cbn [eval stdI map]. fold (evalT rho).
        apply fold_qmin_compat; [exact Ha|].
        clear - IH'. induction rest as [|r rest IHr]; cbn [map]; [constructor|].
        inversion IH' as [|? ? Hr IH'']; subst. constructor; [exact Hr | exact (IHr IH'')].
    - cbn [normalize]. apply peval_aoc.
  Qed.

  Lemma difference_sound l r : peval (difference l r) == ev l - ev r.
  Proof. unfold difference. rewrite peval_clean, peval_add, peval_scale, !normalize_sound. ring. Qed.
End Meaning.

(* ---------- what the three verdicts mean ---------- *)

(* "satisfied" (the constraint is dropped for good): the two sizes are equal under EVERY assignment *)
Theorem statusE_satisfied_sound l r : statusE l r = CSatisfied -> forall rho, evalT rho l == evalT rho r.
Proof.
  unfold statusE. intros H rho. pose proof (difference_sound rho l r) as Hd.
  destruct (difference l r) as [|[[|ak m] c] [|x p]]; try discriminate.
  - cbn in Hd. setoid_replace (evalT rho l) with (evalT rho r + (evalT rho l - evalT rho r)) by ring. rewrite <- Hd. ring.
  - destruct (q_int c); discriminate.
Qed.

(* "violated" (compilation / evaluation fails): the two sizes differ, by the same non-zero integer, under EVERY assignment *)
Theorem statusE_violated_sound l r :
  statusE l r = CViolated -> exists z : Z, z <> 0%Z /\ forall rho, evalT rho l - evalT rho r == inject_Z z.
Proof.
  unfold statusE. intro H.
  destruct (difference l r) as [|[[|ak m] c] [|x p]] eqn:Ed; try discriminate.
  destruct (q_int c) as [z|] eqn:Ez; [|discriminate]. exists z. split.
  - (* the cleaned polynomial keeps no zero coefficient *)
    intro Hz. subst z.
    assert (Hin : In ([], c) (difference l r)) by (rewrite Ed; left; reflexivity).
    unfold difference, poly_clean in Hin. apply filter_In in Hin. destruct Hin as [_ Hnz]. cbn in Hnz.
    pose proof (q_int_sound c 0%Z Ez) as Hc. unfold Qeq in Hc. cbn in Hc. rewrite Z.mul_1_r in Hc.
    rewrite Hc in Hnz. discriminate.
  - intro rho. rewrite <- (difference_sound rho l r), Ed. cbn. rewrite (q_int_sound c z Ez). ring.
Qed.

(* hence: a constraint rejected at compile time is one no assignment can satisfy *)
Corollary violated_never_equal l r : statusE l r = CViolated -> forall rho, ~ evalT rho l == evalT rho r.
Proof.
  intros H rho Heq. destruct (statusE_violated_sound l r H) as [z [Hz Hd]]. specialize (Hd rho).
  rewrite Heq in Hd. assert (H0 : inject_Z z == 0) by (rewrite <- Hd; ring).
  unfold Qeq in H0. cbn in H0. lia.
Qed.

(* ---------- completeness on integer literals: after a total integer assignment has been folded, a retained
   constraint compares two integers, and the comparison decides it ---------- *)
Lemma Qred_inject_plus a c : Qred (inject_Z a + inject_Z c) = inject_Z (a + c).
Proof. rewrite <- (Qred_int (a + c)). apply Qred_complete. rewrite inject_Z_plus. reflexivity. Qed.

Lemma Qred_inject_mult a c : Qred (inject_Z a * inject_Z c) = inject_Z (a * c).
Proof. rewrite <- (Qred_int (a * c)). apply Qred_complete. rewrite inject_Z_mult. reflexivity. Qed.

Theorem statusE_integers a b : statusE (EZ a) (EZ b) = if Z.eqb a b then CSatisfied else CViolated.
Proof.
  unfold statusE, difference, EZ. cbn [normalize]. rewrite !Qred_int.
  unfold poly_const, poly_scale, poly_add. cbn [map fold_left fst snd poly_add_term mono_eqb].
  change (-1) with (inject_Z (-1)). rewrite Qred_inject_mult, Qred_inject_plus.
  cbn [poly_clean filter snd]. cbn [inject_Z Qnum].
  destruct (Z.eqb_spec a b) as [E|E].
  - subst. replace (b + b * -1)%Z with 0%Z by lia. cbn. reflexivity.
  - destruct (Z.eqb_spec (a + b * -1) 0) as [E0|E0]; [exfalso; apply E; lia|].
    cbn [negb]. unfold q_int. rewrite Qred_int. cbn. reflexivity.
Qed.

(* ---------- the only way a constraint evaluation fails with a compilation error ---------- *)
From Bq Require Import RepModel Compile CompileFacts.

Lemma mapM_ECompile {A B} (f : A -> result B) l : mapM f l = ECompile -> exists a, In a l /\ f a = ECompile.
Proof.
  induction l as [|a l IH]; cbn; [discriminate|].
  destruct (f a) eqn:Ea; cbn; try discriminate.
  - destruct (mapM f l) eqn:El; cbn; try discriminate. intros _. destruct (IH eq_refl) as [x [Hx Hf]]. exists x. auto.
  - intros _. exists a. auto.
Qed.

Lemma ev_subst_not_ECompile env e : ev_subst env e <> ECompile.
Proof. unfold ev_subst. destruct (subst_chk env e); discriminate. Qed.

Theorem constraint_failure_means_violated env cs :
  eval_constraints ev_subst statusE env cs = ECompile ->
  exists c l r, In c cs /\ ev_subst env (c_lhs c) = Ok l /\ ev_subst env (c_rhs c) = Ok r /\ statusE l r = CViolated.
Proof.
  unfold eval_constraints. intro H. apply mapM_ECompile in H. destruct H as [c [Hin Hc]].
  apply filter_In in Hin. destruct Hin as [Hin _].
  destruct (ev_subst env (c_lhs c)) as [l| | | | |] eqn:El; cbn [bind] in Hc; try discriminate;
    [|exfalso; exact (ev_subst_not_ECompile _ _ El)].
  destruct (ev_subst env (c_rhs c)) as [r| | | | |] eqn:Er; cbn [bind] in Hc; try discriminate;
    [|exfalso; exact (ev_subst_not_ECompile _ _ Er)].
  exists c, l, r. repeat split; auto. destruct (statusE l r); try discriminate. reflexivity.
Qed.
