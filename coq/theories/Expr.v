(* Expr.v — the expression language shared by every model (definitions only).
   Mirrors what bartiq manipulates through SympyBackend: numbers, symbols
   (names are strings because bartiq builds names by concatenation),
   n-ary/binary operators, uninterpreted or built-in functions, and
   Sum/Product objects (EBig) with a bound iterator symbol. *)
From Coq Require Import List String QArith ZArith Bool.
Import ListNotations.
Open Scope string_scope.

Inductive op :=
| OAdd | OMul | OSub | ODiv | OPow | ONeg | OFloorDiv | OMod
| OMax | OMin | OFloor | OCeil | OFun (f : string).

Inductive bigop := BSum | BProd.

Inductive expr :=
| ENum (q : Q)
| ESym (x : string)
| EOp (o : op) (args : list expr)
| EBig (k : bigop) (i : string) (body lo hi : expr).

(* `value == 0` on a field of a sequence: true of the literal zero (native or parsed), false of anything still symbolic *)
Definition is_zero_lit (e : expr) : bool :=
  match e with ENum q => Qeq_bool q 0 | _ => false end.

(* induction principle that reaches into the argument lists *)
Section Ind.
  Variable P : expr -> Prop.
  Hypothesis HN : forall q, P (ENum q).
  Hypothesis HS : forall x, P (ESym x).
  Hypothesis HO : forall o args, Forall P args -> P (EOp o args).
  Hypothesis HB : forall k i b lo hi, P b -> P lo -> P hi -> P (EBig k i b lo hi).
  Fixpoint expr_ind' (e : expr) : P e :=
    match e with
    | ENum q => HN q
    | ESym x => HS x
    | EOp o args =>
        HO o args ((fix go l : Forall P l :=
                      match l with
                      | [] => Forall_nil _
                      | a :: l' => Forall_cons _ (expr_ind' a) (go l')
                      end) args)
    | EBig k i b lo hi => HB k i b lo hi (expr_ind' b) (expr_ind' lo) (expr_ind' hi)
    end.
End Ind.

(* ---------- association lists = Python dicts in insertion order ---------- *)

Fixpoint lookup {A} (x : string) (s : list (string * A)) : option A :=
  match s with
  | [] => None
  | (y, v) :: s' => if String.eqb x y then Some v else lookup x s'
  end.

Fixpoint remove_key {A} (x : string) (s : list (string * A)) : list (string * A) :=
  match s with
  | [] => []
  | (y, v) :: s' => if String.eqb x y then remove_key x s' else (y, v) :: remove_key x s'
  end.

Definition keys {A} (s : list (string * A)) : list string := map fst s.

Fixpoint mem (x : string) (l : list string) : bool :=
  match l with [] => false | y :: l' => String.eqb x y || mem x l' end.

(* {**a, **b}: entries of b win.  First-match lookup, so b goes in front. *)
Definition over {A} (a b : list (string * A)) : list (string * A) := (b ++ a)%list.

Definition env := list (string * expr).

(* ---------- free symbols ---------- *)

Fixpoint remove_str (x : string) (l : list string) : list string :=
  match l with
  | [] => []
  | y :: l' => if String.eqb x y then remove_str x l' else y :: remove_str x l'
  end.

Fixpoint fv (e : expr) : list string :=
  match e with
  | ENum _ => []
  | ESym x => [x]
  | EOp _ args => flat_map fv args
  | EBig _ i b lo hi => (remove_str i (fv b) ++ fv lo ++ fv hi)%list
  end.

(* iterator symbols bound somewhere inside e *)
Fixpoint bound (e : expr) : list string :=
  match e with
  | ENum _ | ESym _ => []
  | EOp _ args => flat_map bound args
  | EBig _ i b lo hi => (i :: bound b ++ bound lo ++ bound hi)%list
  end.

(* ---------- simultaneous substitution (what subs(..., simultaneous=True) does) ---------- *)

Fixpoint subst (s : env) (e : expr) : expr :=
  match e with
  | ENum q => ENum q
  | ESym x => match lookup x s with Some v => v | None => ESym x end
  | EOp o args => EOp o (map (subst s) args)
  | EBig k i b lo hi => EBig k i (subst (remove_key i s) b) (subst s lo) (subst s hi)
  end.

(* would substituting s into e put a free occurrence of an iterator under its binder? *)
Fixpoint captures (s : env) (e : expr) : bool :=
  match e with
  | ENum _ | ESym _ => false
  | EOp _ args => existsb (captures s) args
  | EBig _ i b lo hi =>
      captures s lo || captures s hi ||
      captures (remove_key i s) b ||
      existsb (fun x => match lookup x (remove_key i s) with
                        | Some v => mem i (fv v)
                        | None => false
                        end) (fv b)
  end.

Definition subst_chk (s : env) (e : expr) : option expr :=
  if captures s e then None else Some (subst s e).

(* left-to-right sequential substitution: what expr.subs(list_of_pairs) does
   (sympy default).  Kept because the pinned tree used it; the *_refuted
   theorems are about this function. *)
Definition subst1 (x : string) (v : expr) (e : expr) : expr := subst [(x, v)] e.
Definition subst_seq (s : env) (e : expr) : expr :=
  fold_left (fun acc kv => subst1 (fst kv) (snd kv) acc) s e.

(* ---------- semantics over an arbitrary carrier ---------- *)

Section Sem.
  Variable V : Type.
  Variable ofQ : Q -> V.
  Variable I : op -> list V -> V.
  Variable B : bigop -> (V -> V) -> V -> V -> V.

  Definition upd (r : string -> V) (i : string) (v : V) : string -> V :=
    fun x => if String.eqb x i then v else r x.

  Fixpoint eval (r : string -> V) (e : expr) : V :=
    match e with
    | ENum q => ofQ q
    | ESym x => r x
    | EOp o args => I o (map (eval r) args)
    | EBig k i b lo hi => B k (fun v => eval (upd r i v) b) (eval r lo) (eval r hi)
    end.

  (* the environment seen after substituting s: assigned names read their value in r *)
  Definition env_after (r : string -> V) (s : env) : string -> V :=
    fun x => match lookup x s with Some v => eval r v | None => r x end.

  (* a numeric dictionary laid over a base environment *)
  Definition env_of (r : string -> V) (d : list (string * V)) : string -> V :=
    fun x => match lookup x d with Some v => v | None => r x end.
End Sem.

Arguments eval {V}.
Arguments env_after {V}.
Arguments env_of {V}.
Arguments upd {V}.

(* convenient constructors used by generated code and case files *)
Definition EZ (z : Z) : expr := ENum (inject_Z z).
Definition eadd (a b : expr) := EOp OAdd [a; b].
Definition emul (a b : expr) := EOp OMul [a; b].
Definition esub (a b : expr) := EOp OSub [a; b].
Definition ediv (a b : expr) := EOp ODiv [a; b].
Definition epow (a b : expr) := EOp OPow [a; b].
Definition eneg (a : expr) := EOp ONeg [a].
Definition efun (f : string) (args : list expr) := EOp (OFun f) args.
