(* Compare.v — SympyBackend.compare: expand the difference; equal iff it is 0,
   unequal iff it is a non-zero integer literal, otherwise ambiguous.
   `expand` is modelled by a polynomial normal form over Q whose atoms are
   symbols and opaque (non-polynomial) subterms.  Definitions only
   (soundness: CompareFacts.v). *)
From Coq Require Import List String QArith ZArith Bool Qreduction.
From Bq Require Import Expr StdSem Routine.
Import ListNotations.
Open Scope string_scope.

Definition op_eqb (a b : op) : bool :=
  match a, b with
  | OAdd, OAdd | OMul, OMul | OSub, OSub | ODiv, ODiv | OPow, OPow | ONeg, ONeg
  | OFloorDiv, OFloorDiv | OMod, OMod | OMax, OMax | OMin, OMin | OFloor, OFloor | OCeil, OCeil => true
  | OFun f, OFun g => String.eqb f g
  | _, _ => false
  end.
Definition bigop_eqb (a b : bigop) : bool :=
  match a, b with BSum, BSum | BProd, BProd => true | _, _ => false end.

(* structural equality (numbers by numerator and denominator): true only on identical terms *)
Fixpoint expr_eqb (a b : expr) : bool :=
  match a, b with
  | ENum p, ENum q => Z.eqb (Qnum p) (Qnum q) && Pos.eqb (Qden p) (Qden q)
  | ESym x, ESym y => String.eqb x y
  | EOp o xs, EOp p ys =>
      op_eqb o p &&
      (fix go (l1 l2 : list expr) : bool :=
         match l1, l2 with
         | [], [] => true
         | x :: l1', y :: l2' => expr_eqb x y && go l1' l2'
         | _, _ => false
         end) xs ys
  | EBig k i b lo hi, EBig k' i' b' lo' hi' =>
      bigop_eqb k k' && String.eqb i i' && expr_eqb b b' && expr_eqb lo lo' && expr_eqb hi hi'
  | _, _ => false
  end.

(* monomial: atoms with natural powers;  polynomial: monomials with rational coefficients *)
Definition mono := list (expr * nat).
Definition poly := list (mono * Q).

Fixpoint mono_add_atom (a : expr) (k : nat) (m : mono) : mono :=
  match m with
  | [] => [(a, k)]
  | (b, j) :: m' => if expr_eqb a b then (b, (j + k)%nat) :: m' else (b, j) :: mono_add_atom a k m'
  end.
Definition mono_mul (m1 m2 : mono) : mono := fold_left (fun acc ak => mono_add_atom (fst ak) (snd ak) acc) m2 m1.

(* remove one entry (a, k) exactly *)
Fixpoint mono_remove (a : expr) (k : nat) (m : mono) : option mono :=
  match m with
  | [] => None
  | (b, j) :: m' => if expr_eqb a b && Nat.eqb k j then Some m'
                    else match mono_remove a k m' with Some r => Some ((b, j) :: r) | None => None end
  end.
Fixpoint mono_eqb (m1 m2 : mono) : bool :=
  match m1 with
  | [] => match m2 with [] => true | _ => false end
  | (a, k) :: m1' => match mono_remove a k m2 with Some m2' => mono_eqb m1' m2' | None => false end
  end.

Fixpoint poly_add_term (m : mono) (c : Q) (p : poly) : poly :=
  match p with
  | [] => [(m, c)]
  | (m', c') :: p' => if mono_eqb m m' then (m', Qred (c' + c)) :: p' else (m', c') :: poly_add_term m c p'
  end.
Definition poly_add (p q : poly) : poly := fold_left (fun acc mc => poly_add_term (fst mc) (snd mc) acc) q p.
Definition poly_scale (c : Q) (p : poly) : poly := map (fun mc => (fst mc, Qred (snd mc * c))) p.
Definition poly_mul (p q : poly) : poly :=
  fold_left (fun acc mc =>
               fold_left (fun acc' nd => poly_add_term (mono_mul (fst mc) (fst nd)) (Qred (snd mc * snd nd)) acc') q acc)
            p [].
Definition poly_const (c : Q) : poly := [([], c)].
Definition poly_atom (a : expr) : poly := [([(a, 1%nat)], 1)].
Definition poly_clean (p : poly) : poly := filter (fun mc => negb (Z.eqb (Qnum (snd mc)) 0)) p.

Fixpoint poly_pow (p : poly) (n : nat) : poly :=
  match n with O => poly_const 1 | S k => poly_mul p (poly_pow p k) end.

Definition q_int (q : Q) : option Z :=
  let r := Qred q in if Pos.eqb (Qden r) 1 then Some (Qnum r) else None.

(* a polynomial that, once cleaned, is a single constant *)
Definition poly_is_const (p : poly) : option Q :=
  match poly_clean p with
  | [] => Some 0
  | [([], c)] => Some c
  | _ => None
  end.

(* a closed arithmetic term (no symbol, no function call, no sum or product sign) whose value the symbolic backend works
   out on the spot: ceiling(7/2) IS 4 by the time two sizes are compared.  Division by zero, a negative power of zero and
   out-of-range exponents are left alone *)
Definition foldable (o : op) (vs : list Q) : bool :=
  match o, vs with
  | OFloor, [_] | OCeil, [_] | ONeg, [_] => true
  | OAdd, _ | OMul, _ => true
  | OSub, [_; _] => true
  | OMax, _ :: _ | OMin, _ :: _ => true
  | ODiv, [_; b] | OFloorDiv, [_; b] | OMod, [_; b] => negb (Qzero b)
  | OPow, [a; b] => is_int b && Z.leb (Z.abs (to_int b)) 64 && negb (Qzero a && Z.ltb (to_int b) 0)
  | _, _ => false
  end.

Fixpoint cfold (e : expr) : option Q :=
  match e with
  | ENum q => Some q
  | EOp o args =>
      match all_some (map cfold args) with
      | Some vs => if foldable o vs then Some (stdI o vs) else None
      | None => None
      end
  | _ => None
  end.

Definition atom_or_const (e : expr) : poly :=
  match cfold e with Some q => poly_const (Qred q) | None => poly_atom e end.

(* Max / Min of terms that differ pairwise by constants (Max(N + 2, N), Max(M, M), Max(w, 4) with w worked out): the
   symbolic backend keeps the winner; mirrors fold_right Qmax a rest.  None: some pair is not comparable *)
Fixpoint maxp (ismax : bool) (p0 : poly) (ps : list poly) : option poly :=
  match ps with
  | [] => Some p0
  | q :: ps' =>
      match maxp ismax p0 ps' with
      | Some m =>
          match poly_is_const (poly_add q (poly_scale (-1) m)) with
          | Some c => if Qle_bool 0 c then Some (if ismax then q else m) else Some (if ismax then m else q)
          | None => None
          end
      | None => None
      end
  end.

Fixpoint normalize (e : expr) : poly :=
  match e with
  | ENum q => poly_const (Qred q)
  | ESym _ => poly_atom e
  | EOp OAdd args => fold_right (fun a acc => poly_add (normalize a) acc) [] args
  | EOp OMul args => fold_right (fun a acc => poly_mul (normalize a) acc) (poly_const 1) args
  | EOp OSub [a; b] => poly_add (normalize a) (poly_scale (-1) (normalize b))
  | EOp ONeg [a] => poly_scale (-1) (normalize a)
  | EOp ODiv [a; b] =>
      match poly_is_const (normalize b) with
      | Some c => if Z.eqb (Qnum c) 0 then atom_or_const e else poly_scale (/ c) (normalize a)
      | None => atom_or_const e
      end
  | EOp OPow [a; b] =>
      match poly_is_const (normalize b) with
      | Some c =>
          match q_int c with
          | Some z => if Z.leb 0 z && Z.leb z 12 then poly_pow (normalize a) (Z.to_nat z) else atom_or_const e
          | None => atom_or_const e
          end
      | None => atom_or_const e
      end
  | EOp OMax (a :: rest) =>
      match maxp true (normalize a) (map normalize rest) with Some m => m | None => atom_or_const e end
  | EOp OMin (a :: rest) =>
      match maxp false (normalize a) (map normalize rest) with Some m => m | None => atom_or_const e end
  | _ => atom_or_const e
  end.

Definition difference (l r : expr) : poly := poly_clean (poly_add (normalize l) (poly_scale (-1) (normalize r))).

Definition statusE (l r : expr) : cstatus :=
  match difference l r with
  | [] => CSatisfied
  | [([], c)] => match q_int c with Some _ => CViolated | None => CInconclusive end
  | _ => CInconclusive
  end.
