(* SiblingOrderFacts.v — C09: two children that are not wired to each other can be compiled in either order.
   The loop over the children (compile_children) reads, for each child, the dictionary the parameter map holds for it and
   then merges the child's port sizes into the map.  If neither of two neighbouring children feeds the other (and no port
   is fed by both), processing them in the other order gives the SAME two compiled children, the same later children up
   to the listing of their inputs dictionaries (which InputsOrderFacts shows to be immaterial), and an equivalent map. *)
From Coq Require Import List String Bool Permutation.
From Bq Require Import Expr ExprFacts RepModel Routine Compare Compile CompileFacts StructureFacts WireFacts TopoFacts InputsOrderFacts.
Import ListNotations.
Open Scope string_scope.

Section Sib.
  Variable D : Type.
  Notation pmap := (pmap D).

  (* ---------- the parameter map as a sequence of puts ---------- *)
  Definition put := (option string * string * D)%type.
  Definition apply_puts (l : list put) (pm : pmap) : pmap :=
    fold_left (fun acc t => pm_put (fst (fst t)) (snd (fst t)) (snd t) acc) l pm.

  Fixpoint puts_of (cs : list (string * endpoint)) (cports : list (string * (dir * D))) : option (list put) :=
    match cs with
    | [] => Some []
    | (sp, (tr, tp)) :: rest =>
        match lookup sp cports, puts_of rest cports with
        | Some ds, Some l => Some ((tr, hash_name tp, snd ds) :: l)
        | _, _ => None
        end
    end.

  Lemma put_port_sizes_puts cs cports : forall pm r,
      put_port_sizes cs cports pm = Ok r <-> exists l, puts_of cs cports = Some l /\ r = apply_puts l pm.
  Proof.
    induction cs as [|[sp [tr tp]] rest IH]; intros pm r; cbn [put_port_sizes puts_of].
    - split; [intro H; inversion H; exists []; split; reflexivity|intros [l [E H]]; inversion E; subst; reflexivity].
    - destruct (lookup sp cports) as [ds|]; cbn [of_opt bind].
      + rewrite IH. split.
        * intros [l [E H]]. rewrite E. exists ((tr, hash_name tp, snd ds) :: l). split; [reflexivity|exact H].
        * intros [l [E H]]. destruct (puts_of rest cports) as [l0|]; [|discriminate]. inversion E; subst. exists l0. split; reflexivity.
      + split; [discriminate|intros [l [E _]]; discriminate].
  Qed.

  Lemma apply_puts_app l1 l2 pm : apply_puts (l1 ++ l2) pm = apply_puts l2 (apply_puts l1 pm).
  Proof. unfold apply_puts. apply fold_left_app. Qed.

  (* the entries a sequence of puts adds to one dictionary, oldest first *)
  Definition entries (tgt : option string) (l : list put) : list (string * D) :=
    flat_map (fun t => match fst (fst t), tgt with
                       | None, None => [(snd (fst t), snd t)]
                       | Some a, Some b => if String.eqb a b then [(snd (fst t), snd t)] else []
                       | _, _ => []
                       end) l.

  Lemma entries_app tgt l1 l2 : entries tgt (l1 ++ l2) = (entries tgt l1 ++ entries tgt l2)%list.
  Proof. unfold entries. apply flat_map_app. Qed.

  Lemma map_fst_update c (kv : string * D) (pmc : list (string * list (string * D))) :
    map fst (map (fun nd : string * list (string * D) => if String.eqb (fst nd) c then (fst nd, kv :: snd nd) else nd) pmc) = map fst pmc.
  Proof. rewrite map_map. apply map_ext. intros [n d]. cbn. destruct (String.eqb n c); reflexivity. Qed.

  Lemma apply_puts_fst l : forall pm, fst (apply_puts l pm) = (rev (entries None l) ++ fst pm)%list.
  Proof.
    induction l as [|[[tgt k] v] l IH]; intros [pmn pmc]; [reflexivity|].
    change (apply_puts ((tgt, k, v) :: l) (pmn, pmc)) with (apply_puts l (pm_put tgt k v (pmn, pmc))).
    rewrite IH. destruct tgt as [c|]; cbn [pm_put fst entries flat_map snd].
    - reflexivity.
    - cbn [rev app]. rewrite <- app_assoc. reflexivity.
  Qed.

  Lemma apply_puts_names l : forall pm, map fst (snd (apply_puts l pm)) = map fst (snd pm).
  Proof.
    induction l as [|[[tgt k] v] l IH]; intros [pmn pmc]; [reflexivity|].
    change (apply_puts ((tgt, k, v) :: l) (pmn, pmc)) with (apply_puts l (pm_put tgt k v (pmn, pmc))).
    rewrite IH. destruct tgt as [c|]; cbn [pm_put snd]; [apply map_fst_update|reflexivity].
  Qed.

  Lemma apply_puts_child l : forall pm c,
      lookup c (snd (apply_puts l pm)) = option_map (fun d => (rev (entries (Some c) l) ++ d)%list) (lookup c (snd pm)).
  Proof.
    induction l as [|[[tgt k] v] l IH]; intros [pmn pmc] c.
    - cbn. destruct (lookup c pmc); reflexivity.
    - change (apply_puts ((tgt, k, v) :: l) (pmn, pmc)) with (apply_puts l (pm_put tgt k v (pmn, pmc))).
      rewrite IH. destruct tgt as [c'|]; cbn [pm_put snd entries flat_map fst].
      + rewrite (lookup_pmc_update D c' k v c pmc). destruct (lookup c pmc) as [d|]; cbn [option_map]; [|reflexivity].
        rewrite (String.eqb_sym c c'). destruct (String.eqb c' c); cbn [app rev]; [rewrite <- app_assoc; reflexivity|reflexivity].
      + reflexivity.
  Qed.

  (* ---------- two listings of one map ---------- *)
  Definition opt_sim (a b : option (list (string * D))) : Prop :=
    match a, b with Some x, Some y => env_sim x y | None, None => True | _, _ => False end.

  Definition pm_rel (pm pm' : pmap) : Prop :=
    env_sim (fst pm) (fst pm') /\ map fst (snd pm) = map fst (snd pm') /\ forall c, opt_sim (lookup c (snd pm)) (lookup c (snd pm')).

  Lemma opt_sim_refl a : opt_sim a a.
  Proof. destruct a; cbn; [apply env_sim_refl|exact I]. Qed.

  Lemma pm_rel_refl pm : pm_rel pm pm.
  Proof. repeat split; try apply env_sim_refl. intro c. apply opt_sim_refl. Qed.

  Lemma lookup_names_none {A} c (m m' : list (string * A)) : map fst m = map fst m' -> lookup c m = None -> lookup c m' = None.
  Proof.
    intros E H. apply lookup_None_notin. apply lookup_None_notin in H. unfold keys in *. rewrite <- E. exact H.
  Qed.

  Lemma apply_puts_rel l : forall pm pm', pm_rel pm pm' -> pm_rel (apply_puts l pm) (apply_puts l pm').
  Proof.
    intros pm pm' (S1 & S2 & S3). split; [|split].
    - rewrite !apply_puts_fst. apply env_sim_app_l. exact S1.
    - rewrite !apply_puts_names. exact S2.
    - intro c. rewrite !apply_puts_child. specialize (S3 c).
      destruct (lookup c (snd pm)) as [d|], (lookup c (snd pm')) as [d'|]; cbn in *; try contradiction; [|exact I].
      apply env_sim_app_l. exact S3.
  Qed.

  (* the keys a sequence of puts writes under one target *)
  Definition disjoint_puts (l1 l2 : list put) : Prop :=
    forall t1 t2, In t1 l1 -> In t2 l2 -> fst t1 <> fst t2.

  Lemma in_entries tgt l k v : In (k, v) (entries tgt l) -> In (tgt, k, v) l.
  Proof.
    unfold entries. intro H. apply in_flat_map in H. destruct H as [[[t k'] v'] [Hin H]]. cbn [fst snd] in H.
    destruct t as [a|], tgt as [b|]; try (destruct H; fail).
    - destruct (String.eqb a b) eqn:E; [|destruct H]. apply String.eqb_eq in E. subst. destruct H as [H|[]]. inversion H; subst. exact Hin.
    - destruct H as [H|[]]. inversion H; subst. exact Hin.
  Qed.

  Lemma lookup_rev_disjoint (e1 e2 d : list (string * D)) :
    (forall k, In k (keys e1) -> In k (keys e2) -> False) ->
    forall k, lookup k (rev (e1 ++ e2) ++ d)%list = lookup k (rev (e2 ++ e1) ++ d)%list.
  Proof.
    intros Hd k. rewrite !rev_app_distr, <- !app_assoc, !lookup_app.
    destruct (lookup k (rev e2)) as [v2|] eqn:E2; destruct (lookup k (rev e1)) as [v1|] eqn:E1; try reflexivity.
    exfalso. apply lookup_Some_in in E1. apply lookup_Some_in in E2. apply (Hd k).
    - unfold keys. apply in_map_iff. exists (k, v1). split; [reflexivity|]. apply in_rev. exact E1.
    - unfold keys. apply in_map_iff. exists (k, v2). split; [reflexivity|]. apply in_rev. exact E2.
  Qed.

  Lemma sim_of_perm_lookup (a b : list (string * D)) : Permutation a b -> (forall k, lookup k a = lookup k b) -> env_sim a b.
  Proof.
    intros P L. split; [exact L|split].
    - intro k. split; intro H; [eapply Permutation_in; [apply Permutation_map; exact P|exact H]
                               |eapply Permutation_in; [apply Permutation_map, Permutation_sym; exact P|exact H]].
    - intro v. split; intro H; [eapply Permutation_in; [apply Permutation_map; exact P|exact H]
                               |eapply Permutation_in; [apply Permutation_map, Permutation_sym; exact P|exact H]].
  Qed.

  Lemma swapped_entries_sim tgt l1 l2 d :
    disjoint_puts l1 l2 -> env_sim (rev (entries tgt (l1 ++ l2)) ++ d)%list (rev (entries tgt (l2 ++ l1)) ++ d)%list.
  Proof.
    intro Hd. rewrite !entries_app. apply sim_of_perm_lookup.
    - apply Permutation_app_tail. apply Permutation_rev'. apply Permutation_app_comm.
    - apply lookup_rev_disjoint. intros k H1 H2.
      unfold keys in H1, H2. apply in_map_iff in H1. apply in_map_iff in H2.
      destruct H1 as [[k1 v1] [E1 I1]], H2 as [[k2 v2] [E2 I2]]. cbn in E1, E2. subst k1 k2.
      apply in_entries in I1. apply in_entries in I2. apply (Hd _ _ I1 I2). reflexivity.
  Qed.

  (* two independent blocks of puts commute up to listing *)
  Lemma apply_puts_comm l1 l2 pm : disjoint_puts l1 l2 -> pm_rel (apply_puts (l1 ++ l2) pm) (apply_puts (l2 ++ l1) pm).
  Proof.
    intro Hd. split; [|split].
    - rewrite !apply_puts_fst. apply swapped_entries_sim. exact Hd.
    - rewrite !apply_puts_names. reflexivity.
    - intro c. rewrite !apply_puts_child. destruct (lookup c (snd pm)) as [d|]; cbn; [|exact I].
      apply swapped_entries_sim. exact Hd.
  Qed.

  (* a block of puts that never targets child c leaves c's dictionary as it is *)
  Lemma apply_puts_untouched l pm c :
    (forall t, In t l -> fst (fst t) <> Some c) -> lookup c (snd (apply_puts l pm)) = lookup c (snd pm).
  Proof.
    intro H. rewrite apply_puts_child.
    assert (E : entries (Some c) l = []).
    { unfold entries. induction l as [|[[tgt k] v] l IH]; [reflexivity|]. cbn [flat_map fst snd].
      rewrite IH by (intros t Ht; apply H; right; exact Ht).
      destruct tgt as [a|]; [|reflexivity]. destruct (String.eqb a c) eqn:E; [|reflexivity].
      apply String.eqb_eq in E. subst. exfalso. apply (H (Some c, k, v)); [left; reflexivity|reflexivity]. }
    rewrite E. cbn. destruct (lookup c (snd pm)); reflexivity.
  Qed.

  (* ---------- the loop over the children ---------- *)
  Variable rec : routine -> list (string * D) -> result (ctree D).
  (* what InputsOrderFacts.go_sim establishes for the traversal *)
  Hypothesis Hrec : forall c ins ins' t, env_sim ins ins' -> rec c ins = Ok t -> rec c ins' = Ok (set_inputs D t ins').

  (* the same compiled tree, except possibly for how the stored copy of its inputs dictionary is listed *)
  Definition tree_sim (t t' : ctree D) : Prop := exists ins', t' = set_inputs D t ins'.

  Lemma tree_sim_refl t : tree_sim t t.
  Proof. exists (ct_inputs t). destruct t; reflexivity. Qed.

  Lemma dict_norm_keys {A} (s : list (string * A)) k : In k (keys (dict_norm s)) <-> In k (keys s).
  Proof.
    induction s as [|[k0 v0] s IH]; [cbn; tauto|].
    pose proof (keys_remove_key k0 (dict_norm s) k) as HK. unfold keys in *. cbn [dict_norm map fst In].
    rewrite HK, IH. destruct (String.eqb k k0) eqn:E.
    - apply String.eqb_eq in E. subst. tauto.
    - apply String.eqb_neq in E. split; [intros [H|[H _]]; auto|intros [H|H]; [auto|right; split; [exact H|congruence]]].
  Qed.

  Lemma remove_key_nodup {A} i (s : list (string * A)) : NoDup (keys s) -> NoDup (keys (remove_key i s)).
  Proof.
    induction s as [|[y v] s IH]; intro H; [constructor|]. unfold keys in *. cbn [map fst] in H. inversion H as [|? ? Hn Hd]; subst.
    cbn [remove_key]. destruct (String.eqb i y); [apply IH; exact Hd|]. cbn [map fst]. constructor; [|apply IH; exact Hd].
    intro Hin. apply Hn. pose proof (keys_remove_key i s y) as HK. unfold keys in HK. apply HK in Hin. exact (proj1 Hin).
  Qed.

  Lemma dict_norm_nodup {A} (s : list (string * A)) : NoDup (keys (dict_norm s)).
  Proof.
    induction s as [|[k v] s IH]; [constructor|]. unfold keys in *. cbn [dict_norm map fst]. constructor.
    - intro H. pose proof (keys_remove_key k (dict_norm s) k) as HK. unfold keys in HK. apply HK in H. destruct H as [_ H]. congruence.
    - apply (remove_key_nodup k (dict_norm s)). exact IH.
  Qed.

  Lemma dict_norm_values {A} (s : list (string * A)) v : In v (map snd (dict_norm s)) <-> exists k, lookup k s = Some v.
  Proof.
    split.
    - intro H. apply in_map_iff in H. destruct H as [[k v'] [E Hin]]. cbn in E. subst v'. exists k.
      rewrite <- (WireFacts.lookup_dict_norm k s). apply lookup_in_nodup; [apply dict_norm_nodup|exact Hin].
    - intros [k H]. rewrite <- (WireFacts.lookup_dict_norm k s) in H. apply lookup_Some_in in H.
      apply in_map_iff. exists (k, v). split; [reflexivity|exact H].
  Qed.

  Lemma dict_norm_sim (a b : list (string * D)) : env_sim a b -> env_sim (dict_norm a) (dict_norm b).
  Proof.
    intros (L & K & V). split; [|split].
    - intro k. rewrite !WireFacts.lookup_dict_norm. apply L.
    - intro k. rewrite !dict_norm_keys. apply K.
    - intro v. rewrite !dict_norm_values. split; intros [k H]; exists k; [rewrite <- L|rewrite L]; exact H.
  Qed.

  Lemma ct_ports_set_inputs t ins : ct_ports (set_inputs D t ins) = ct_ports t.
  Proof. destruct t; reflexivity. Qed.

  (* from two listings of one map the loop compiles the same children (up to the listing of their inputs) *)
  Lemma compile_children_rel names children conns : forall pm pm' acc acc' pm1 kids,
      pm_rel pm pm' ->
      compile_children rec names children conns pm acc = Ok (pm1, kids) ->
      exists pm1' new new', kids = (rev acc ++ new)%list /\
                            compile_children rec names children conns pm' acc' = Ok (pm1', (rev acc' ++ new')%list)
                            /\ pm_rel pm1 pm1' /\ Forall2 tree_sim new new'.
  Proof.
    induction names as [|n rest IH]; intros pm pm' acc acc' pm1 kids R H; cbn [compile_children] in *.
    - inversion H; subst. exists pm', [], []. rewrite !app_nil_r. split; [reflexivity|]. split; [reflexivity|]. split; [exact R|constructor].
    - inv_bind H. inv_bind H. inv_bind H. inv_bind H. rewrite Hb. cbn [bind].
      destruct R as (R1 & R2 & R3). pose proof (R3 n) as Rn.
      apply of_opt_Ok in Hb0; [|intros b Hx; discriminate]. rewrite Hb0 in Rn.
      destruct (lookup n (snd pm')) as [ins'|] eqn:E'; [|destruct Rn]. cbn [of_opt bind]. cbn in Rn.
      rewrite (Hrec _ _ _ _ (dict_norm_sim _ _ Rn) Hb1). cbn [bind]. rewrite ct_ports_set_inputs.
      apply put_port_sizes_puts in Hb2. destruct Hb2 as [l [El Ex]]. subst x2.
      assert (Hput : put_port_sizes (conns_from (Some n) conns) (ct_ports x1) pm' = Ok (apply_puts l pm'))
        by (apply put_port_sizes_puts; exists l; split; [exact El|reflexivity]).
      rewrite Hput. cbn [bind].
      destruct (IH (apply_puts l pm) (apply_puts l pm') (x1 :: acc) (set_inputs D x1 (dict_norm ins') :: acc') pm1 kids) as [pm1' [new [new' [E1 [H2 [R' F]]]]]].
      { apply apply_puts_rel. split; [exact R1|split; [exact R2|exact R3]]. }
      { exact H. }
      exists pm1', (x1 :: new), (set_inputs D x1 (dict_norm ins') :: new').
      cbn [rev] in E1, H2. rewrite <- !app_assoc in E1, H2. cbn [app] in E1, H2.
      split; [exact E1|]. split; [exact H2|]. split; [exact R'|]. constructor; [|exact F]. exists (dict_norm ins'). reflexivity.
  Qed.

  (* ---------- two neighbouring children that are not wired to each other ---------- *)
  Definition no_wire (conns : list (endpoint * endpoint)) (a b : string) : Prop :=
    forall sp tp, ~ In (sp, (Some b, tp)) (conns_from (Some a) conns).
  Definition targets_apart (conns : list (endpoint * endpoint)) (a b : string) : Prop :=
    forall e1 e2, In e1 (conns_from (Some a) conns) -> In e2 (conns_from (Some b) conns) -> snd e1 <> snd e2.

  Lemma puts_of_in cs cports l t : puts_of cs cports = Some l -> In t l ->
    exists sp tp, In (sp, (fst (fst t), tp)) cs /\ snd (fst t) = hash_name tp.
  Proof.
    revert l. induction cs as [|[sp [tr tp]] rest IH]; intros l H Hin; cbn [puts_of] in H.
    - inversion H; subst. destruct Hin.
    - destruct (lookup sp cports) as [ds|]; [|discriminate]. destruct (puts_of rest cports) as [l0|]; [|discriminate].
      inversion H; subst. destruct Hin as [E|Hin].
      + subst t. exists sp, tp. split; [left; reflexivity|reflexivity].
      + destruct (IH l0 eq_refl Hin) as [sp' [tp' [H1 H2]]]. exists sp', tp'. split; [right; exact H1|exact H2].
  Qed.

  Lemma compile_children_shape names children conns : forall pm acc pm1 kids,
      compile_children rec names children conns pm acc = Ok (pm1, kids) -> exists new, kids = (rev acc ++ new)%list.
  Proof.
    induction names as [|n rest IH]; intros pm acc pm1 kids H; cbn [compile_children] in H.
    - inversion H; subst. exists []. rewrite app_nil_r. reflexivity.
    - inv_bind H. inv_bind H. inv_bind H. inv_bind H. destruct (IH _ _ _ _ H) as [new E]. exists (x1 :: new).
      rewrite E. cbn [rev]. rewrite <- app_assoc. reflexivity.
  Qed.

  Theorem compile_children_swap a b rest children conns pm acc pm1 kids :
    no_wire conns a b -> no_wire conns b a -> targets_apart conns a b ->
    compile_children rec (a :: b :: rest) children conns pm acc = Ok (pm1, kids) ->
    exists ta tb restk restk' pm2,
      kids = (rev acc ++ ta :: tb :: restk)%list /\
      compile_children rec (b :: a :: rest) children conns pm acc = Ok (pm2, (rev acc ++ tb :: ta :: restk')%list) /\
      Forall2 tree_sim restk restk' /\ pm_rel pm1 pm2.
  Proof.
    intros Nab Nba Apart H.
    cbn [compile_children] in H.
    inv_bind H. inv_bind H. inv_bind H. inv_bind H. rename x into ca, x0 into ia, x1 into ta, x2 into pmA.
    inv_bind H. inv_bind H. inv_bind H. inv_bind H. rename x into cb, x0 into ib, x1 into tb, x2 into pmAB.
    apply put_port_sizes_puts in Hb2. destruct Hb2 as [la [Ela Ea]]. subst pmA.
    apply put_port_sizes_puts in Hb6. destruct Hb6 as [lb [Elb Eb]]. subst pmAB.
    (* b's dictionary is untouched by a's puts, and a's by b's *)
    assert (Ua : forall t, In t la -> fst (fst t) <> Some b).
    { intros t Ht E. destruct (puts_of_in _ _ _ _ Ela Ht) as [sp [tp [Hin _]]]. rewrite E in Hin. exact (Nab _ _ Hin). }
    assert (Ub : forall t, In t lb -> fst (fst t) <> Some a).
    { intros t Ht E. destruct (puts_of_in _ _ _ _ Elb Ht) as [sp [tp [Hin _]]]. rewrite E in Hin. exact (Nba _ _ Hin). }
    assert (Dis : disjoint_puts la lb).
    { intros t1 t2 H1 H2 E. destruct (puts_of_in _ _ _ _ Ela H1) as [sp1 [tp1 [I1 K1]]].
      destruct (puts_of_in _ _ _ _ Elb H2) as [sp2 [tp2 [I2 K2]]].
      apply (Apart _ _ I1 I2). cbn [snd]. destruct t1 as [[g1 k1] v1], t2 as [[g2 k2] v2]. cbn [fst snd] in *.
      inversion E; subst. f_equal. apply hash_name_inj. congruence. }
    assert (Eib : lookup b (snd pm) = Some ib).
    { apply of_opt_Ok in Hb4; [|intros x Hx; discriminate]. rewrite apply_puts_untouched in Hb4 by exact Ua. exact Hb4. }
    assert (Eia : lookup a (snd (apply_puts lb pm)) = Some ia).
    { apply of_opt_Ok in Hb0; [|intros x Hx; discriminate]. rewrite apply_puts_untouched by exact Ub. exact Hb0. }
    (* the rest of the loop from the two maps *)
    assert (R : pm_rel (apply_puts lb (apply_puts la pm)) (apply_puts la (apply_puts lb pm))).
    { rewrite <- !apply_puts_app. apply apply_puts_comm. exact Dis. }
    destruct (compile_children_rel rest children conns _ _ (tb :: ta :: acc) (ta :: tb :: acc) pm1 kids R H) as [pm2 [new [new2 [E1 [H2 [R2 K2]]]]]].
    cbn [rev] in E1, H2. rewrite <- !app_assoc in E1, H2. cbn [app] in E1, H2.
    exists ta, tb, new, new2, pm2. split; [exact E1|]. split; [|split; [exact K2|exact R2]].
    cbn [compile_children]. rewrite Hb3. cbn [bind]. rewrite Eib. cbn [of_opt bind]. rewrite Hb5. cbn [bind].
    assert (Pb : put_port_sizes (conns_from (Some b) conns) (ct_ports tb) pm = Ok (apply_puts lb pm))
      by (apply put_port_sizes_puts; exists lb; split; [exact Elb|reflexivity]).
    rewrite Pb. cbn [bind]. rewrite Hb. cbn [bind]. rewrite Eia. cbn [of_opt bind]. rewrite Hb1. cbn [bind].
    assert (Pa : put_port_sizes (conns_from (Some a) conns) (ct_ports ta) (apply_puts lb pm) = Ok (apply_puts la (apply_puts lb pm)))
      by (apply put_port_sizes_puts; exists la; split; [exact Ela|reflexivity]).
    rewrite Pa. cbn [bind]. exact H2.
  Qed.

  (* ---------- any sequence of such swaps ---------- *)
  Lemma compile_children_app l1 l2 children conns : forall pm acc,
      compile_children rec (l1 ++ l2) children conns pm acc =
      match compile_children rec l1 children conns pm acc with
      | Ok (pmA, kA) => compile_children rec l2 children conns pmA (rev kA)
      | ECompile => ECompile | EPreprocess => EPreprocess | ECapture => ECapture | EInternal k => EInternal k | EFuel => EFuel
      end.
  Proof.
    induction l1 as [|n l1 IH]; intros pm acc; cbn [app compile_children].
    - rewrite rev_involutive. reflexivity.
    - destruct (of_opt (EInternal 2) (find_child n children)) as [c| | | | |]; cbn [bind]; try reflexivity.
      destruct (of_opt (EInternal 8) (lookup n (snd pm))) as [ins| | | | |]; cbn [bind]; try reflexivity.
      destruct (rec c (dict_norm ins)) as [t| | | | |]; cbn [bind]; try reflexivity.
      destruct (put_port_sizes (conns_from (Some n) conns) (ct_ports t) pm) as [pm'| | | | |]; cbn [bind]; try reflexivity.
      apply IH.
  Qed.

  (* processing orders connected by swaps of neighbouring independent children *)
  Inductive reorder (conns : list (endpoint * endpoint)) : list string -> list string -> Prop :=
  | ro_refl l : reorder conns l l
  | ro_swap pre a b post : no_wire conns a b -> no_wire conns b a -> targets_apart conns a b ->
                           reorder conns (pre ++ a :: b :: post) (pre ++ b :: a :: post)
  | ro_trans l1 l2 l3 : reorder conns l1 l2 -> reorder conns l2 l3 -> reorder conns l1 l3.

  (* the same compiled children, possibly in another order and with another listing of their stored inputs *)
  Definition kids_equiv (k1 k2 : list (ctree D)) : Prop := exists l, Permutation k1 l /\ Forall2 tree_sim l k2.

  Lemma tree_sim_trans t1 t2 t3 : tree_sim t1 t2 -> tree_sim t2 t3 -> tree_sim t1 t3.
  Proof. intros [i1 E1] [i2 E2]. subst. exists i2. destruct t1; reflexivity. Qed.

  Lemma Forall2_tree_sim_refl l : Forall2 tree_sim l l.
  Proof. induction l; constructor; [apply tree_sim_refl|assumption]. Qed.

  Lemma Forall2_tree_sim_trans l1 l2 l3 : Forall2 tree_sim l1 l2 -> Forall2 tree_sim l2 l3 -> Forall2 tree_sim l1 l3.
  Proof.
    intro H. revert l3. induction H as [|a b la lb Hab _ IH]; intros l3 H23; inversion H23; subst; constructor.
    - eapply tree_sim_trans; eassumption.
    - apply IH. assumption.
  Qed.

  (* a permutation can be pushed through a pairwise relation *)
  Lemma perm_through_forall2 (l1 l2 l3 : list (ctree D)) :
    Forall2 tree_sim l1 l2 -> Permutation l2 l3 -> exists l, Permutation l1 l /\ Forall2 tree_sim l l3.
  Proof.
    intros F P. revert l1 F. induction P as [|x l2 l3 P IH|x y l2|l2 l3 l4 P1 IH1 P2 IH2]; intros l1 F.
    - inversion F; subst. exists []. split; constructor.
    - inversion F as [|a ? la ? Ha Fa]; subst. destruct (IH la Fa) as [l [Pl Fl]]. exists (a :: l). split; [constructor; exact Pl|constructor; assumption].
    - inversion F as [|a ? la ? Ha Fa]; subst. inversion Fa as [|b ? lb ? Hb Fb]; subst.
      exists (b :: a :: lb). split; [apply perm_swap|]. constructor; [assumption|constructor; assumption].
    - destruct (IH1 l1 F) as [l [Pl Fl]]. destruct (IH2 l Fl) as [l' [Pl' Fl']]. exists l'. split; [eapply Permutation_trans; eassumption|exact Fl'].
  Qed.

  Lemma kids_equiv_trans k1 k2 k3 : kids_equiv k1 k2 -> kids_equiv k2 k3 -> kids_equiv k1 k3.
  Proof.
    intros [l [P1 F1]] [l' [P2 F2]]. destruct (perm_through_forall2 l k2 l' F1 P2) as [m [Pm Fm]].
    exists m. split; [eapply Permutation_trans; eassumption|eapply Forall2_tree_sim_trans; eassumption].
  Qed.

  Lemma pm_rel_trans p1 p2 p3 : pm_rel p1 p2 -> pm_rel p2 p3 -> pm_rel p1 p3.
  Proof.
    assert (ST : forall a b c : list (string * D), env_sim a b -> env_sim b c -> env_sim a c).
    { intros a b c (L1 & K1 & V1) (L2 & K2 & V2). split; [|split].
      - intro k. rewrite L1. apply L2.
      - intro k. rewrite K1. apply K2.
      - intro v. rewrite V1. apply V2. }
    intros (A1 & B1 & C1) (A2 & B2 & C2). split; [eapply ST; eassumption|split; [congruence|]].
    intro c. specialize (C1 c). specialize (C2 c).
    destruct (lookup c (snd p1)), (lookup c (snd p2)), (lookup c (snd p3)); cbn in *; try contradiction; try exact I.
    eapply ST; eassumption.
  Qed.

  Lemma compile_children_rel' names children conns pm pm' acc pm1 kids :
      pm_rel pm pm' -> compile_children rec names children conns pm acc = Ok (pm1, kids) ->
      exists pm2 kids2, compile_children rec names children conns pm' acc = Ok (pm2, kids2)
                        /\ pm_rel pm1 pm2 /\ Forall2 tree_sim kids kids2.
  Proof.
    intros R H. destruct (compile_children_rel names children conns pm pm' acc acc pm1 kids R H) as [pm2 [new [new' [E1 [H2 [R2 F]]]]]].
    exists pm2, (rev acc ++ new')%list. split; [exact H2|]. split; [exact R2|]. subst kids.
    apply Forall2_app; [apply Forall2_tree_sim_refl|exact F].
  Qed.

  Theorem compile_children_reorder conns names names' :
    reorder conns names names' ->
    forall children pm pm' acc pm1 kids,
      pm_rel pm pm' ->
      compile_children rec names children conns pm acc = Ok (pm1, kids) ->
      exists pm2 kids2, compile_children rec names' children conns pm' acc = Ok (pm2, kids2)
                        /\ pm_rel pm1 pm2 /\ kids_equiv kids kids2.
  Proof.
    induction 1 as [l|pre a b post Nab Nba Ap|l1 l2 l3 Ro1 IH1 Ro2 IH2]; intros children pm pm' acc pm1 kids R H.
    - destruct (compile_children_rel' l children conns pm pm' acc pm1 kids R H) as [pm2 [kids2 [H2 [R2 F]]]].
      exists pm2, kids2. split; [exact H2|]. split; [exact R2|]. exists kids. split; [apply Permutation_refl|exact F].
    - (* the prefix is processed as it was; then the swap; then the other listing of the map *)
      rewrite compile_children_app in H.
      destruct (compile_children rec pre children conns pm acc) as [[pmA kA]| | | | |] eqn:EA; try discriminate.
      destruct (compile_children_swap a b post children conns pmA (rev kA) pm1 kids Nab Nba Ap H)
        as [ta [tb [rk [rk' [pmS [E1 [HS [FS RS]]]]]]]].
      rewrite rev_involutive in E1, HS.
      assert (HS' : compile_children rec (pre ++ b :: a :: post) children conns pm acc = Ok (pmS, (kA ++ tb :: ta :: rk')%list))
        by (rewrite compile_children_app, EA; exact HS).
      destruct (compile_children_rel' _ children conns pm pm' acc _ _ R HS') as [pm2 [kids2 [H2 [R2 F2]]]].
      exists pm2, kids2. split; [exact H2|]. split; [eapply pm_rel_trans; eassumption|].
      subst kids. exists (kA ++ tb :: ta :: rk)%list. split.
      + apply Permutation_app_head. apply perm_swap.
      + eapply Forall2_tree_sim_trans; [|exact F2].
        apply Forall2_app; [apply Forall2_tree_sim_refl|]. constructor; [apply tree_sim_refl|]. constructor; [apply tree_sim_refl|exact FS].
    - destruct (IH1 children pm pm acc pm1 kids (pm_rel_refl pm) H) as [pmM [kM [HM [RM KM]]]].
      destruct (IH2 children pm pm' acc pmM kM R HM) as [pm2 [k2 [H2 [R2 K2]]]].
      exists pm2, k2. split; [exact H2|]. split; [eapply pm_rel_trans; eassumption|eapply kids_equiv_trans; eassumption].
  Qed.
End Sib.

(* the traversal itself is such a [rec] (InputsOrderFacts.go_sim): for the compile model, two neighbouring children that are
   not wired to each other (and feed no common port) can be processed in either order *)
Theorem go_children_swap (D : Type) (ev : list (string * D) -> expr -> result D) (statusD : D -> D -> cstatus) (fvD : D -> list string) :
  (forall env env' e, (forall k, lookup k env = lookup k env') -> ev env e = ev env' e) ->
  forall fuel a b rest children conns pm acc pm1 kids,
    no_wire conns a b -> no_wire conns b a -> targets_apart conns a b ->
    compile_children (go ev statusD fvD fuel) (a :: b :: rest) children conns pm acc = Ok (pm1, kids) ->
    exists ta tb restk restk' pm2,
      kids = (rev acc ++ ta :: tb :: restk)%list /\
      compile_children (go ev statusD fvD fuel) (b :: a :: rest) children conns pm acc = Ok (pm2, (rev acc ++ tb :: ta :: restk')%list) /\
      Forall2 (tree_sim D) restk restk' /\ pm_rel D pm1 pm2.
Proof.
  intros Hev fuel. apply compile_children_swap.
  intros c ins ins' t S H. eapply go_sim; eassumption.
Qed.

(* ... for the traversal itself: processing orders connected by swaps of neighbouring independent children give the same
   compiled children (as a multiset, up to the listing of their stored inputs) and an equivalent parameter map *)
Theorem go_children_reorder (D : Type) (ev : list (string * D) -> expr -> result D) (statusD : D -> D -> cstatus) (fvD : D -> list string) :
  (forall env env' e, (forall k, lookup k env = lookup k env') -> ev env e = ev env' e) ->
  forall fuel conns names names',
    reorder conns names names' ->
    forall children pm acc pm1 kids,
      compile_children (go ev statusD fvD fuel) names children conns pm acc = Ok (pm1, kids) ->
      exists pm2 kids2, compile_children (go ev statusD fvD fuel) names' children conns pm acc = Ok (pm2, kids2)
                        /\ pm_rel D pm1 pm2 /\ kids_equiv D kids kids2.
Proof.
  intros Hev fuel conns names names' Ro children pm acc pm1 kids H.
  eapply compile_children_reorder; [|exact Ro|apply pm_rel_refl|exact H].
  intros c ins ins' t S Hc. eapply go_sim; eassumption.
Qed.

(* ---------- every two topological processing orders are connected by such swaps ---------- *)
(* an order in which no child is fed by a later one *)
Fixpoint ordered (conns : list (endpoint * endpoint)) (l : list string) : Prop :=
  match l with
  | [] => True
  | x :: t => (forall y, In y t -> no_wire conns y x) /\ ordered conns t
  end.

Lemma ordered_app_inv conns pre x post : ordered conns (pre ++ x :: post) ->
  (forall y, In y pre -> no_wire conns x y) /\ ordered conns (pre ++ post).
Proof.
  induction pre as [|p pre IH]; cbn [app ordered].
  - intros [_ H]. split; [intros y []|exact H].
  - intros [Hp H]. destruct (IH H) as [H1 H2]. split.
    + intros y [E|Hy]; [subst y; apply Hp; apply in_or_app; right; left; reflexivity|apply H1; exact Hy].
    + split; [|exact H2]. intros y Hy. apply Hp. apply in_app_or in Hy. apply in_or_app. destruct Hy; [left; assumption|right; right; assumption].
Qed.

Lemma reorder_cons conns x l l' : reorder conns l l' -> reorder conns (x :: l) (x :: l').
Proof.
  induction 1 as [l|pre a b post Nab Nba Ap|l1 l2 l3 _ IH1 _ IH2].
  - apply ro_refl.
  - apply (ro_swap conns (x :: pre) a b post); assumption.
  - eapply ro_trans; eassumption.
Qed.

(* an element that is independent of everything before it can be moved to the front *)
Lemma reorder_bubble conns x : forall pre post,
  (forall y, In y pre -> no_wire conns y x /\ no_wire conns x y /\ targets_apart conns y x) ->
  reorder conns (pre ++ x :: post) (x :: pre ++ post).
Proof.
  intro pre. induction pre as [|y p IH] using rev_ind; intros post H.
  - apply ro_refl.
  - assert (Hy : In y (p ++ [y])) by (apply in_or_app; right; left; reflexivity).
    destruct (H y Hy) as (N1 & N2 & A).
    replace ((p ++ [y]) ++ x :: post)%list with (p ++ y :: x :: post)%list by (rewrite <- app_assoc; reflexivity).
    replace (x :: (p ++ [y]) ++ post)%list with (x :: p ++ y :: post)%list by (rewrite <- app_assoc; reflexivity).
    eapply ro_trans; [apply (ro_swap conns p y x post); assumption|].
    apply (IH (y :: post)). intros z Hz. apply H. apply in_or_app. left. exact Hz.
Qed.

Theorem topological_orders_connected conns : forall l' l,
  (forall a b, a <> b -> targets_apart conns a b) ->
  NoDup l -> Permutation l l' -> ordered conns l -> ordered conns l' -> reorder conns l l'.
Proof.
  induction l' as [|x t' IH]; intros l Apart ND P O O'.
  - apply Permutation_sym, Permutation_nil in P. subst. apply ro_refl.
  - assert (Hx : In x l) by (eapply Permutation_in; [apply Permutation_sym; exact P|left; reflexivity]).
    destruct (in_split _ _ Hx) as [pre [post E]]. subst l.
    destruct (ordered_app_inv _ _ _ _ O) as [O1 O2]. destruct O' as [Ox Ot].
    assert (P' : Permutation (pre ++ post) t') by (apply Permutation_sym; apply Permutation_cons_app_inv with (a := x); apply Permutation_sym; exact P).
    assert (ND' : NoDup (pre ++ post)) by (eapply NoDup_remove_1; exact ND).
    assert (Nx : ~ In x (pre ++ post)) by (eapply NoDup_remove_2; exact ND).
    eapply ro_trans.
    + apply reorder_bubble. intros y Hy.
      assert (Hne : y <> x) by (intro; subst; apply Nx; apply in_or_app; left; exact Hy).
      split; [|split; [apply O1; exact Hy|apply Apart; exact Hne]].
      apply Ox. eapply Permutation_in; [exact P'|apply in_or_app; left; exact Hy].
    + apply reorder_cons. apply IH; assumption.
Qed.

(* the order the compiler processes the children in (Kahn's algorithm over the listed children) is such an order *)
Lemma wire_is_pred conns y x sp tp : In (sp, (Some x, tp)) (conns_from (Some y) conns) -> In y (child_preds conns x).
Proof.
  unfold conns_from, child_preds. intro H. apply in_flat_map in H. destruct H as [[[s sp'] t] [Hin H]].
  destruct s as [a|]; [|destruct H]. destruct (String.eqb a y) eqn:E; [|destruct H]. apply String.eqb_eq in E. subst a.
  destruct H as [H|[]]. inversion H; subst. apply in_flat_map. exists ((Some y, sp), (Some x, tp)). split; [exact Hin|].
  rewrite String.eqb_refl. left. reflexivity.
Qed.

Lemma ordered_of_splits conns l :
  (forall l1 x l2, l = (l1 ++ x :: l2)%list -> forall y, In y l2 -> no_wire conns y x) -> ordered conns l.
Proof.
  induction l as [|x t IH]; intro H; cbn [ordered]; [exact I|]. split.
  - intros y Hy. apply (H [] x t eq_refl y Hy).
  - apply IH. intros l1 z l2 E y Hy. apply (H (x :: l1) z l2); [rewrite E; reflexivity|exact Hy].
Qed.

Theorem children_order_ordered children conns order :
  NoDup (map rname children) -> children_order children conns = Some order -> ordered conns order /\ NoDup order.
Proof.
  intros ND H. destruct (TopoFacts.children_order_topological _ _ _ ND H) as [P T].
  assert (NDo : NoDup order) by (eapply Permutation_NoDup; [apply Permutation_sym; exact P|exact ND]).
  split; [|exact NDo]. apply ordered_of_splits. intros l1 x l2 E y Hy sp tp Hw.
  pose proof (T l1 x l2 E y (wire_is_pred _ _ _ _ _ Hw)) as Hin.
  subst order. clear - NDo Hin Hy. induction l1 as [|a l1 IH]; [destruct Hin|].
  cbn [app] in NDo. inversion NDo as [|? ? Hn Hd]; subst. destruct Hin as [E|Hin].
  - subst a. apply Hn. apply in_or_app. right. right. exact Hy.
  - apply IH; assumption.
Qed.

(* C09, children: however the children are LISTED, the order the compiler processes them in gives the same compiled
   children (as a multiset, up to the listing of their stored inputs) and an equivalent parameter map *)
Theorem children_listing_free (D : Type) (ev : list (string * D) -> expr -> result D) (statusD : D -> D -> cstatus) (fvD : D -> list string) :
  (forall env env' e, (forall k, lookup k env = lookup k env') -> ev env e = ev env' e) ->
  forall fuel children children' conns order order',
    Permutation children children' -> NoDup (map rname children) ->
    (forall a b, a <> b -> targets_apart conns a b) ->
    children_order children conns = Some order -> children_order children' conns = Some order' ->
    reorder conns order order' /\
    forall chs pm acc pm1 kids,
      compile_children (go ev statusD fvD fuel) order chs conns pm acc = Ok (pm1, kids) ->
      exists pm2 kids2, compile_children (go ev statusD fvD fuel) order' chs conns pm acc = Ok (pm2, kids2)
                        /\ pm_rel D pm1 pm2 /\ kids_equiv D kids kids2.
Proof.
  intros Hev fuel children children' conns order order' P ND Apart H H'.
  assert (ND' : NoDup (map rname children')) by (eapply Permutation_NoDup; [apply Permutation_map; exact P|exact ND]).
  destruct (children_order_ordered _ _ _ ND H) as [O NDo]. destruct (children_order_ordered _ _ _ ND' H') as [O' _].
  destruct (TopoFacts.children_order_topological _ _ _ ND H) as [P1 _]. destruct (TopoFacts.children_order_topological _ _ _ ND' H') as [P2 _].
  assert (Po : Permutation order order').
  { eapply Permutation_trans; [exact P1|]. eapply Permutation_trans; [apply Permutation_map; exact P|apply Permutation_sym; exact P2]. }
  assert (Ro : reorder conns order order') by (apply topological_orders_connected; assumption).
  split; [exact Ro|]. intros chs pm acc pm1 kids Hc. eapply go_children_reorder; eassumption.
Qed.
