(* ListingFacts.v — everything the traversal looks up, it looks up by name; lookups by unique
   name do not depend on the order of the listing (C09). *)
From Coq Require Import List String QArith ZArith Bool Permutation Lia.
From Bq Require Import Expr ExprFacts RepModel Routine Compile.
Import ListNotations.
Open Scope string_scope.

Lemma find_child_in n cs c : find_child n cs = Some c -> In c cs /\ rname c = n.
Proof.
  induction cs as [|x cs IH]; cbn; [discriminate|].
  destruct (String.eqb (rname x) n) eqn:E.
  - intro H. inversion H; subst. split; [left; reflexivity|apply String.eqb_eq; exact E].
  - intro H. destruct (IH H). split; [right|]; assumption.
Qed.

Lemma find_child_unique n cs c :
  NoDup (map rname cs) -> In c cs -> rname c = n -> find_child n cs = Some c.
Proof.
  induction cs as [|x cs IH]; cbn; [tauto|]. intros Hnd [H|H] Hn.
  - subst. rewrite String.eqb_refl. reflexivity.
  - inversion Hnd as [|? ? Hnot Hnd']; subst.
    destruct (String.eqb (rname x) (rname c)) eqn:E.
    + apply String.eqb_eq in E. exfalso. apply Hnot. rewrite E. apply in_map. exact H.
    + apply IH; auto.
Qed.

(* children are found by name: any listing of the same (uniquely named) children gives the same child *)
Theorem find_child_perm n cs cs' :
  NoDup (map rname cs) -> Permutation cs cs' -> find_child n cs = find_child n cs'.
Proof.
  intros Hnd Hp.
  assert (Hnd' : NoDup (map rname cs')) by (eapply Permutation_NoDup; [apply Permutation_map; exact Hp|exact Hnd]).
  destruct (find_child n cs) as [c|] eqn:E.
  - destruct (find_child_in _ _ _ E) as [Hin Hn]. symmetry. apply find_child_unique; auto.
    eapply Permutation_in; eauto.
  - destruct (find_child n cs') as [c|] eqn:E'; [|reflexivity].
    destruct (find_child_in _ _ _ E') as [Hin Hn].
    rewrite (find_child_unique n cs c Hnd) in E; [discriminate| |exact Hn].
    eapply Permutation_in; [apply Permutation_sym; exact Hp|exact Hin].
Qed.

(* the predecessors of a child (from the inner connections) as a set do not depend on the order of the connections *)
Lemma child_preds_perm conns conns' c x :
  Permutation conns conns' -> In x (child_preds conns c) -> In x (child_preds conns' c).
Proof.
  intros Hp H. unfold child_preds in *. apply in_flat_map in H. destruct H as [st [Hst Hx]].
  apply in_flat_map. exists st. split; [eapply Permutation_in; eauto|exact Hx].
Qed.

(* wires leaving a given routine: the same set whatever the order of the connections *)
Lemma conns_from_perm src conns conns' x :
  Permutation conns conns' -> In x (conns_from src conns) -> In x (conns_from src conns').
Proof.
  intros Hp H. unfold conns_from in *. apply in_flat_map in H. destruct H as [st [Hst Hx]].
  apply in_flat_map. exists st. split; [eapply Permutation_in; eauto|exact Hx].
Qed.
