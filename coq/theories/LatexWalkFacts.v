(* LatexWalkFacts.v — C18, completeness of the rendering: the traversal and the assembly of the sections translated from
   integrations/latex.py (GenLatex.v) give an entry to every input parameter and port of the top-level routine, to every
   resource of the top-level routine, and -- unless disabled -- to every resource of every subroutine at any depth. *)
From Coq Require Import List String Bool Arith Lia Permutation.
From Bq Require Import Expr Routine QrefModelFacts.
From BqGen Require Import GenLatex.
Import ListNotations.
Open Scope string_scope.

(* the specification: every routine of the hierarchy, the root first *)
Fixpoint subroutines (r : routine) : list routine :=
  match r with Routine _ _ _ _ _ _ _ _ _ _ ch => r :: flat_map subroutines ch end.

Lemma flat_map_perm {A B} (f g : A -> list B) l :
  Forall (fun a => Permutation (f a) (g a)) l -> Permutation (flat_map f l) (flat_map g l).
Proof. induction 1; cbn; [constructor|apply Permutation_app; assumption]. Qed.

Lemma walk_unfold r : gen_latex_walk r = (flat_map gen_latex_walk (rchildren r) ++ [r])%list.
Proof. destruct r; reflexivity. Qed.

Lemma subroutines_unfold r : subroutines r = r :: flat_map subroutines (rchildren r).
Proof. destruct r; reflexivity. Qed.

(* _walk yields every routine of the hierarchy exactly once *)
Theorem walk_is_every_subroutine : forall r, Permutation (gen_latex_walk r) (subroutines r).
Proof.
  induction r as [n t ips lo li ps rs cn rp cs ch IH] using routine_ind'.
  rewrite walk_unfold, subroutines_unfold. cbn [rchildren].
  eapply Permutation_trans; [apply Permutation_sym, Permutation_cons_append|].
  apply perm_skip. apply flat_map_perm. exact IH.
Qed.

(* ... the root last, so the routines whose resources are listed under their own name are exactly the proper descendants *)
Theorem walk_others r : Permutation (removelast (gen_latex_walk r)) (flat_map subroutines (rchildren r)).
Proof.
  rewrite walk_unfold, removelast_last. apply flat_map_perm.
  apply Forall_forall. intros c _. apply walk_is_every_subroutine.
Qed.

Lemma list_sum_cons' a l : list_sum (a :: l) = (a + list_sum l)%nat.
Proof. reflexivity. Qed.

Definition resources_of (l : list routine) : nat := list_sum (map (fun s => List.length (rresources s)) l).

Lemma resources_of_perm l l' : Permutation l l' -> resources_of l = resources_of l'.
Proof. unfold resources_of. induction 1; cbn [map]; rewrite ?list_sum_cons'; try lia. Qed.

Lemma length_flat_map_resources (l : list routine) :
  List.length (flat_map (fun s => map (fun x => (Some (rname s), r_name x)) (rresources s)) l) = resources_of l.
Proof. unfold resources_of. induction l as [|s l IH]; cbn; [reflexivity|]. rewrite app_length, map_length, IH. reflexivity. Qed.

(* the number of resource lines: all resources of all routines, or the root's only *)
Theorem resource_lines_count_all r : List.length (gen_latex_resource_lines r true) = resources_of (subroutines r).
Proof.
  unfold gen_latex_resource_lines. rewrite app_length, map_length, length_flat_map_resources.
  rewrite (resources_of_perm _ _ (walk_others r)), subroutines_unfold. unfold resources_of. cbn. reflexivity.
Qed.

Theorem resource_lines_count_root r : List.length (gen_latex_resource_lines r false) = List.length (rresources r).
Proof. unfold gen_latex_resource_lines. rewrite app_nil_r, map_length. reflexivity. Qed.

(* every resource of every routine of the hierarchy has its line: the root's under its bare name, a subroutine's under
   that subroutine's name *)
Theorem every_resource_has_a_line r s x :
  In s (subroutines r) -> In x (rresources s) ->
  (s = r /\ In (None, r_name x) (gen_latex_resource_lines r true))
  \/ In (Some (rname s), r_name x) (gen_latex_resource_lines r true).
Proof.
  intros Hs Hx. rewrite subroutines_unfold in Hs. unfold gen_latex_resource_lines. destruct Hs as [E|Hs].
  - left. subst s. split; [reflexivity|]. apply in_or_app. left. apply (in_map (fun y => (@None string, r_name y))). exact Hx.
  - right. apply in_or_app. right. apply in_flat_map. exists s. split.
    + eapply Permutation_in; [apply Permutation_sym, walk_others|exact Hs].
    + apply (in_map (fun y => (Some (rname s), r_name y))). exact Hx.
Qed.

(* without subroutine resources: the root's, and only the root's *)
Theorem root_resources_have_lines r x flag : In x (rresources r) -> In (None, r_name x) (gen_latex_resource_lines r flag).
Proof.
  intro Hx. unfold gen_latex_resource_lines. apply in_or_app. left. apply (in_map (fun y => (@None string, r_name y))). exact Hx.
Qed.

(* ports: one line each, whatever the direction; input parameters: one entry each *)
Theorem every_port_has_a_line r p : In p (rports r) -> In (p_dir p, p_name p) (gen_latex_port_lines r).
Proof.
  intro Hp. unfold gen_latex_port_lines.
  destruct (p_dir p) eqn:E.
  - apply in_or_app. left. apply in_map_iff. exists p. split; [reflexivity|]. apply filter_In. split; [exact Hp|rewrite E; reflexivity].
  - apply in_or_app. right. apply in_or_app. left. apply in_map_iff. exists p. split; [reflexivity|]. apply filter_In. split; [exact Hp|rewrite E; reflexivity].
  - apply in_or_app. right. apply in_or_app. right. apply in_map_iff. exists p. split; [reflexivity|]. apply filter_In. split; [exact Hp|rewrite E; reflexivity].
Qed.

Lemma filter_three_lengths (l : list port) :
  (List.length (filter (fun p => dir_eqb (p_dir p) DIn) l) + List.length (filter (fun p => dir_eqb (p_dir p) DOut) l)
   + List.length (filter (fun p => dir_eqb (p_dir p) DThrough) l) = List.length l)%nat.
Proof. induction l as [|p l IH]; cbn; [reflexivity|]. destruct (p_dir p); cbn; lia. Qed.

Theorem port_lines_count r : List.length (gen_latex_port_lines r) = List.length (rports r).
Proof.
  unfold gen_latex_port_lines. rewrite !app_length, !map_length. pose proof (filter_three_lengths (rports r)). lia.
Qed.

Theorem every_input_param_has_an_entry r x : In x (rparams r) -> In x (gen_latex_param_entries r).
Proof. intro H. exact H. Qed.
