(* QrefModel.v — the naming layer of QREF export / import (src/bartiq/_routine.py):
   endpoints `child.port` / `port`, link targets `path.to.child.param`, children as a list.
   `to_q` mirrors _routine_to_qref_program, `of_q` mirrors Routine.from_qref (_endpoint_from_qref: split on EVERY dot
   and exactly two parts, or no dot; link targets: rsplit at the LAST dot).  Expressions are carried unchanged (their
   text form is C12's subject).  Definitions only; the round trip is proved in QrefModelFacts.v. *)
From Coq Require Import List String Ascii Bool.
From Bq Require Import Expr StdSem RepModel Routine.
Import ListNotations.
Open Scope string_scope.

(* Python's s.split(".") *)
Fixpoint split_dots_aux (acc s : string) : list string :=
  match s with
  | EmptyString => [acc]
  | String c s' => if Ascii.eqb c "."%char then acc :: split_dots_aux "" s' else split_dots_aux (acc ++ String c EmptyString) s'
  end.
Definition split_dots (s : string) : list string := split_dots_aux "" s.

Fixpoint join_dots (l : list string) : string :=
  match l with
  | [] => ""
  | [a] => a
  | a :: l' => a ++ "." ++ join_dots l'
  end.

Definition has_dot (s : string) : bool := negb (Nat.eqb (List.length (split_dots s)) 1).

(* _endpoint_to_qref / _endpoint_from_qref *)
Definition enc_endpoint (e : endpoint) : string :=
  match e with (None, p) => p | (Some c, p) => dot c p end.
Definition dec_endpoint (s : string) : option endpoint :=
  match split_dots s with
  | [p] => Some (None, p)
  | [c; p] => Some (Some c, p)
  | _ => None                     (* Endpoint called with the parts with three or more parts raises *)
  end.

(* link targets: f"{target[0]}.{target[1]}" / target.rsplit(".", 1) *)
Definition enc_target (t : string * string) : string := dot (fst t) (snd t).
Definition dec_target (s : string) : option (string * string) :=
  match rev (split_dots s) with
  | param :: (_ :: _) as path_rev => Some (join_dots (rev path_rev), param)
  | _ => None                     (* no dot: split[1] raises IndexError *)
  end.

Inductive qroutine :=
  QR (name : string) (type : option string) (input_params : list string)
     (locals : list (string * expr))
     (links : list (string * list string))
     (ports : list port) (resources : list resource)
     (connections : list (string * string))
     (rep : option repetition) (constraints : list constraint)
     (children : list qroutine).

Fixpoint to_q (r : routine) : qroutine :=
  match r with
  | Routine n t ips lo li ps rs cn rp cs ch =>
      QR n t ips lo
         (map (fun l => (fst l, map enc_target (snd l))) li)
         ps rs
         (map (fun st => (enc_endpoint (fst st), enc_endpoint (snd st))) cn)
         rp cs (map to_q ch)
  end.

Definition dec_conn (st : string * string) : option (endpoint * endpoint) :=
  match dec_endpoint (fst st), dec_endpoint (snd st) with
  | Some a, Some b => Some (a, b)
  | _, _ => None
  end.
Definition dec_link (l : string * list string) : option (string * list (string * string)) :=
  match all_some (map dec_target (snd l)) with Some ts => Some (fst l, ts) | None => None end.

Fixpoint of_q (q : qroutine) : option routine :=
  match q with
  | QR n t ips lo li ps rs cn rp cs ch =>
      match all_some (map dec_link li), all_some (map dec_conn cn), all_some (map of_q ch) with
      | Some li', Some cn', Some ch' => Some (Routine n t ips lo li' ps rs cn' rp cs ch')
      | _, _, _ => None
      end
  end.

(* ---------- what the case files compare: the wiring strings of every node ---------- *)
Inductive wiring := W (name : string) (conns : list (string * string)) (links : list (string * list string)) (kids : list wiring).

Fixpoint wiring_of (q : qroutine) : wiring :=
  match q with QR n _ _ _ li _ _ cn _ _ ch => W n cn li (map wiring_of ch) end.

Definition pair_eqb (a b : string * string) : bool := String.eqb (fst a) (fst b) && String.eqb (snd a) (snd b).
Definition sublist {A} (eqb : A -> A -> bool) (a b : list A) : bool := forallb (fun x => existsb (eqb x) b) a.
Definition same_list {A} (eqb : A -> A -> bool) (a b : list A) : bool :=
  Nat.eqb (List.length a) (List.length b) && sublist eqb a b && sublist eqb b a.
Definition link_eqb (a b : string * list string) : bool :=
  String.eqb (fst a) (fst b) && same_list String.eqb (snd a) (snd b).

(* Routine.from_qref keeps linked_params as a mapping keyed by the source: two entries with the same source add up
   (first occurrence fixes the position, targets are concatenated in order of appearance) *)
Fixpoint add_link {T} (acc : list (string * list T)) (s : string) (ts : list T) : list (string * list T) :=
  match acc with
  | [] => [(s, ts)]
  | (s', ts') :: rest => if String.eqb s' s then (s', (ts' ++ ts)%list) :: rest else (s', ts') :: add_link rest s ts
  end.
Definition merge_links {T} (li : list (string * list T)) : list (string * list T) :=
  fold_left (fun acc l => add_link acc (fst l) (snd l)) li [].

(* 0 = the real document's wiring strings are exactly the model's (as sets: qref sorts them), node by node *)
Fixpoint wiring_cmp (fuel : nat) (a b : wiring) : list nat :=
  match fuel with
  | O => [1%nat]
  | S f =>
      match a, b with
      | W n cn li ks, W n' cn' li' ks' =>
          (if String.eqb n n' then 0%nat else 1%nat)
            :: (if same_list pair_eqb cn cn' then 0%nat else 1%nat)
            :: (if same_list link_eqb (merge_links li) li' then 0%nat else 1%nat)
            :: (if Nat.eqb (List.length ks) (List.length ks') then 0%nat else 1%nat)
            :: flat_map (fun k => match find (fun k' => match k, k' with W x _ _ _, W y _ _ _ => String.eqb x y end) ks' with
                                  | Some k' => wiring_cmp f k k'
                                  | None => [1%nat]
                                  end) ks
      end
  end.

Fixpoint wiring_height (w : wiring) : nat :=
  match w with W _ _ _ ks => S (fold_right (fun k acc => Nat.max (wiring_height k) acc) 0%nat ks) end.

(* the decoded wiring of the real document equals the source routine's (the model import of the real export) *)
Fixpoint dec_wiring_ok (fuel : nat) (w : wiring) : bool :=
  match fuel with
  | O => false
  | S f =>
      match w with
      | W _ cn li ks =>
          forallb (fun st => match dec_conn st with Some _ => true | None => false end) cn
          && forallb (fun l => match dec_link l with Some _ => true | None => false end) li
          && forallb (dec_wiring_ok f) ks
      end
  end.

Definition check_wiring (r : routine) (real : wiring) : list nat :=
  (wiring_cmp (S (wiring_height real)) (wiring_of (to_q r)) real
   ++ [if dec_wiring_ok (S (wiring_height real)) real then 0%nat else 1%nat])%list.
