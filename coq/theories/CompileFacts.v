(* CompileFacts.v — naturality of the generic traversal: evaluating the
   compiled tree at a numeric point equals running the same traversal on
   VALUES (no substitution anywhere) from the evaluated inputs.
   For every carrier V and every interpretation of the operators. *)
From Coq Require Import List String QArith ZArith Bool Lia.
From Bq Require Import Expr ExprFacts RepModel Routine Compare Compile.
Import ListNotations.
Open Scope string_scope.

Lemma bind_Ok {A B} (e : result A) (f : A -> result B) b :
  bind e f = Ok b -> exists a, e = Ok a /\ f a = Ok b.
Proof. destruct e; cbn; try discriminate. eauto. Qed.

Ltac inv_bind H :=
  let x := fresh "x" in
  let H1 := fresh "Hb" in
  apply bind_Ok in H; destruct H as [x [H1 H]].

Lemma of_opt_Ok {A} (err : result A) (o : option A) a : of_opt err o = Ok a -> (forall b, err <> Ok b) -> o = Some a.
Proof. destruct o; cbn; intros H Hne; [congruence|]. exfalso. eapply Hne. exact H. Qed.

Lemma mapM_natural {A B B'} (f : A -> result B) (g : A -> result B') (h : B -> B') l :
  (forall a b, In a l -> f a = Ok b -> g a = Ok (h b)) ->
  forall bs, mapM f l = Ok bs -> mapM g l = Ok (map h bs).
Proof.
  induction l as [|a l IH]; intros Hfg bs H; cbn in *.
  - inversion H. reflexivity.
  - inv_bind H. inv_bind H. inversion H; subst.
    rewrite (Hfg a x (or_introl eq_refl) Hb). cbn.
    rewrite (IH (fun a' b' Hin => Hfg a' b' (or_intror Hin)) x0 Hb0). reflexivity.
Qed.

Section Natural.
  Variable V : Type.
  Variable ofQ : Q -> V.
  Variable I : op -> list V -> V.
  Variable B : bigop -> (V -> V) -> V -> V -> V.
  Hypothesis B_ext : forall k f g lo hi, (forall v, f v = g v) -> B k f lo hi = B k g lo hi.
  Variable rho : string -> V.   (* values of the top-level inputs *)

  Notation val := (eval ofQ I B rho).
  Notation venv := (valenv V ofQ I B rho).
  Notation evV := (ev_val V ofQ I B rho).
  Notation stV := (fun (_ _ : V) => CInconclusive).
  Notation fvV := (fun (_ : V) => @nil string).

  Definition valp {K} (p : K * expr) : K * V := (fst p, val (snd p)).
  Definition val2 {K T} (p : K * (T * expr)) : K * (T * V) := (fst p, (fst (snd p), val (snd (snd p)))).

  Definition valseq (s : dseq expr) : dseq V :=
    match s with
    | DConst m => DConst (val m)
    | DArith a d => DArith (val a) (val d)
    | DGeom q => DGeom (val q)
    | DClosed su pr n => DClosed (option_map val su) (option_map val pr) (val n)
    | DCustom t it => DCustom (val t) it
    end.

  Fixpoint valtree (t : ctree expr) : ctree V :=
    match t with
    | CT n ty ins sp ports res conns rep cstrs kids =>
        CT n ty (venv ins) sp (map val2 ports) (map val2 res) conns
           (option_map (fun cs => (val (fst cs), valseq (snd cs))) rep)
           (map (fun c => (val (fst (fst c)), val (snd (fst c)), CInconclusive)) cstrs)
           (map valtree kids)
    end.

  Definition valpm (pm : pmap expr) : pmap V :=
    (venv (fst pm), map (fun nd => (fst nd, venv (snd nd))) (snd pm)).

  (* ---- the one semantic fact: checked substitution then evaluation = evaluation in the valued dictionary ---- *)
  Lemma ev_commute env e e' : ev_subst env e = Ok e' -> evV (venv env) e = Ok (val e').
  Proof.
    unfold ev_subst, subst_chk, ev_val. destruct (captures env e) eqn:Hc; [discriminate|].
    intro H. inversion H; subst. f_equal. symmetry. apply eval_subst_env; assumption.
  Qed.

  Lemma venv_cons k v env : venv ((k, v) :: env) = (k, val v) :: venv env.
  Proof. reflexivity. Qed.

  Lemma venv_over a b : venv (over a b) = over (venv a) (venv b).
  Proof. unfold over. apply valenv_app. Qed.

  Lemma keys_venv env : keys (venv env) = keys env.
  Proof. unfold keys, valenv. rewrite map_map. reflexivity. Qed.

  Lemma remove_key_venv k env : venv (remove_key k env) = remove_key k (venv env).
  Proof.
    induction env as [|[y v] env IH]; cbn; [reflexivity|].
    destruct (String.eqb k y); [exact IH|]. cbn. f_equal. exact IH.
  Qed.

  Lemma dict_norm_venv env : venv (dict_norm env) = dict_norm (venv env).
  Proof.
    induction env as [|[y v] env IH]; [reflexivity|].
    change (venv (dict_norm ((y, v) :: env))) with ((y, val v) :: venv (remove_key y (dict_norm env))).
    change (dict_norm (venv ((y, v) :: env))) with ((y, val v) :: remove_key y (dict_norm (venv env))).
    rewrite remove_key_venv, IH. reflexivity.
  Qed.

  Lemma pm_put_val tgt k v pm : valpm (pm_put tgt k v pm) = pm_put tgt k (val v) (valpm pm).
  Proof.
    destruct pm as [pmn pmc]. destruct tgt as [c|]; cbn; [|reflexivity].
    unfold valpm; cbn. f_equal. rewrite !map_map. apply map_ext. intros [n d]; cbn.
    destruct (String.eqb n c); reflexivity.
  Qed.

  Lemma lookup_pmc n (pmc : list (string * list (string * expr))) :
    lookup n (map (fun nd => (fst nd, venv (snd nd))) pmc) = option_map venv (lookup n pmc).
  Proof. apply (lookup_map_snd venv). Qed.

  Lemma lookup_val2 {T} n (l : list (string * (T * expr))) :
    lookup n (map val2 l) = option_map (fun ds => (fst ds, val (snd ds))) (lookup n l).
  Proof. apply (lookup_map_snd (fun ds : T * expr => (fst ds, val (snd ds)))). Qed.

  (* ---- every step of _compile commutes with evaluation ---- *)

  Lemma compile_locals_nat names locals : forall ext acc lv,
      compile_locals ev_subst names locals ext acc = Ok lv ->
      compile_locals evV names locals (venv ext) (venv acc) = Ok (venv lv).
  Proof.
    induction names as [|x names IH]; intros ext acc lv H; cbn [compile_locals] in *.
    - inversion H. reflexivity.
    - inv_bind H. rewrite Hb. cbn [bind]. inv_bind H. rewrite (ev_commute _ _ _ Hb0). cbn [bind].
      apply (IH ((x, x1) :: ext) ((x, x1) :: acc)). exact H.
  Qed.

  Lemma fold_pm_put_val (targets : list (string * string)) v : forall pm,
      valpm (fold_left (fun acc cp => pm_put (Some (fst cp)) (snd cp) v acc) targets pm)
      = fold_left (fun acc cp => pm_put (Some (fst cp)) (snd cp) (val v) acc) targets (valpm pm).
  Proof.
    induction targets as [|cp ts IH]; intro pm; cbn; [reflexivity|].
    rewrite IH, pm_put_val. reflexivity.
  Qed.

  Lemma compile_links_nat pmn0 links : forall pm pm',
      compile_links ev_subst pmn0 links pm = Ok pm' ->
      compile_links evV (venv pmn0) links (valpm pm) = Ok (valpm pm').
  Proof.
    induction links as [|[src targets] links IH]; intros pm pm' H; cbn [compile_links] in *.
    - inversion H. reflexivity.
    - inv_bind H. rewrite (ev_commute _ _ _ Hb). cbn [bind]. rewrite <- fold_pm_put_val. apply IH. exact H.
  Qed.

  Lemma eval_ports_nat env ps cps :
    eval_ports ev_subst env ps = Ok cps -> eval_ports evV (venv env) ps = Ok (map val2 cps).
  Proof.
    unfold eval_ports. apply mapM_natural. intros p b _ H. inv_bind H. inversion H; subst.
    rewrite (ev_commute _ _ _ Hb). reflexivity.
  Qed.

  Lemma put_port_sizes_nat cs cports : forall pm pm',
      put_port_sizes cs cports pm = Ok pm' ->
      put_port_sizes cs (map val2 cports) (valpm pm) = Ok (valpm pm').
  Proof.
    induction cs as [|[sp [tr tp]] cs IH]; intros pm pm' H; cbn [put_port_sizes] in *.
    - inversion H. reflexivity.
    - inv_bind H. rewrite lookup_val2.
      destruct (lookup sp cports) as [ds|] eqn:E; cbn [of_opt] in Hb; [|discriminate].
      inversion Hb; subst. cbn [option_map of_opt bind snd]. rewrite <- pm_put_val. apply IH. exact H.
  Qed.

  Lemma eval_constraints_nat env cs cs' :
    eval_constraints ev_subst statusE env cs = Ok cs' ->
    eval_constraints evV stV (venv env) cs
    = Ok (map (fun c => (val (fst (fst c)), val (snd (fst c)), CInconclusive)) cs').
  Proof.
    unfold eval_constraints. apply mapM_natural. intros c b _ H. inv_bind H. inv_bind H.
    rewrite (ev_commute _ _ _ Hb), (ev_commute _ _ _ Hb0). cbn.
    destruct (statusE x x0); inversion H; subst; reflexivity.
  Qed.

  Lemma existsb_fvV it (env : list (string * V)) : existsb (fun kv => mem it (fvV (snd kv))) env = false.
  Proof. induction env as [|kv env IH]; cbn; auto. Qed.

  Lemma eval_seq_nat env s s' :
    eval_seq ev_subst fv env s = Ok s' -> eval_seq evV fvV (venv env) s = Ok (valseq s').
  Proof.
    destruct s as [m|a d|q|su pr nts|t it]; cbn [eval_seq]; intro H.
    - inv_bind H. inversion H; subst. rewrite (ev_commute _ _ _ Hb). reflexivity.
    - inv_bind H. inv_bind H. inversion H; subst.
      rewrite (ev_commute _ _ _ Hb), (ev_commute _ _ _ Hb0). reflexivity.
    - inv_bind H. inversion H; subst. rewrite (ev_commute _ _ _ Hb). reflexivity.
    - inv_bind H. inv_bind H. inv_bind H. inversion H; subst. clear H.
      assert (Hsu : (match su with Some x => do y <- evV (venv env) x; Ok (Some y) | None => Ok None end)
                    = Ok (option_map val x)).
      { destruct su as [e|]; [|inversion Hb; reflexivity].
        inv_bind Hb. inversion Hb; subst. rewrite (ev_commute _ _ _ Hb2). reflexivity. }
      assert (Hpr : (match pr with Some x => do y <- evV (venv env) x; Ok (Some y) | None => Ok None end)
                    = Ok (option_map val x0)).
      { destruct pr as [e|]; [|inversion Hb0; reflexivity].
        inv_bind Hb0. inversion Hb0; subst. rewrite (ev_commute _ _ _ Hb2). reflexivity. }
      rewrite Hsu, Hpr. cbn [bind]. rewrite (ev_commute _ _ _ Hb1). reflexivity.
    - destruct (mem it (keys env) || existsb (fun kv => mem it (fv (snd kv))) env) eqn:E; [discriminate|].
      apply orb_false_iff in E. destruct E as [E1 _].
      rewrite keys_venv, E1, existsb_fvV. cbn [orb].
      inv_bind H. inversion H; subst. rewrite (ev_commute _ _ _ Hb). reflexivity.
  Qed.

  Lemma eval_rep_nat env rp rp' :
    eval_rep ev_subst fv env rp = Ok rp' ->
    eval_rep evV fvV (venv env) rp = Ok (option_map (fun cs => (val (fst cs), valseq (snd cs))) rp').
  Proof.
    destruct rp as [r|]; cbn [eval_rep]; intro H; [|inversion H; reflexivity].
    inv_bind H. inv_bind H. inversion H; subst.
    rewrite (ev_commute _ _ _ Hb), (eval_seq_nat _ _ _ Hb0). reflexivity.
  Qed.

  Lemma ct_name_valtree t : ct_name (valtree t) = ct_name t.
  Proof. destruct t; reflexivity. Qed.
  Lemma ct_ports_valtree t : ct_ports (valtree t) = map val2 (ct_ports t).
  Proof. destruct t; reflexivity. Qed.
  Lemma ct_resources_valtree t : ct_resources (valtree t) = map val2 (ct_resources t).
  Proof. destruct t; reflexivity. Qed.

  Lemma names_types_val (rs : list (string * (rtype * expr))) : names_types (map val2 rs) = names_types rs.
  Proof. unfold names_types. rewrite map_map. reflexivity. Qed.

  Lemma repeated_resources_nat rp own kids rs :
    repeated_resources rp own kids = Ok rs ->
    repeated_resources rp own (map valtree kids) = Ok rs.
  Proof.
    unfold repeated_resources. destruct kids as [|kid [|k2 ks]]; cbn [map]; try discriminate.
    rewrite ct_name_valtree, ct_resources_valtree, names_types_val. auto.
  Qed.

  Lemma cvars_val kids :
    venv (flat_map (fun t => map (fun nr => (dot (ct_name t) (fst nr), snd (snd nr))) (ct_resources t)) kids)
    = flat_map (fun t => map (fun nr => (dot (ct_name t) (fst nr), snd (snd nr))) (ct_resources t)) (map valtree kids).
  Proof.
    induction kids as [|t kids IH]; [reflexivity|]. cbn [flat_map map].
    rewrite valenv_app, IH. f_equal.
    rewrite ct_name_valtree, ct_resources_valtree. unfold valenv. rewrite !map_map. reflexivity.
  Qed.

  Section Children.
    Variable recE : routine -> list (string * expr) -> result (ctree expr).
    Variable recV : routine -> list (string * V) -> result (ctree V).
    Hypothesis Hrec : forall c ins t, recE c ins = Ok t -> recV c (venv ins) = Ok (valtree t).

    Lemma compile_children_nat names children conns : forall pm acc pm' kids,
        compile_children recE names children conns pm acc = Ok (pm', kids) ->
        compile_children recV names children conns (valpm pm) (map valtree acc)
        = Ok (valpm pm', map valtree kids).
    Proof.
      induction names as [|n names IH]; intros pm acc pm' kids H; cbn in *.
      - inversion H; subst. rewrite map_rev. reflexivity.
      - inv_bind H. rewrite Hb. cbn. inv_bind H.
        rewrite lookup_pmc.
        destruct (lookup n (snd pm)) as [ins|] eqn:E; cbn in Hb0; [|discriminate].
        inversion Hb0; subst. cbn. inv_bind H.
        rewrite <- dict_norm_venv, (Hrec _ _ _ Hb1). cbn. inv_bind H.
        rewrite ct_ports_valtree, (put_port_sizes_nat _ _ _ _ Hb2). cbn.
        apply (IH x2 (x1 :: acc)). exact H.
    Qed.

    Lemma go_node_nat r inputs t :
      go_node ev_subst statusE fv recE r inputs = Ok t ->
      go_node evV stV fvV recV r (venv inputs) = Ok (valtree t).
    Proof.
      destruct r as [name type ips locals links ports resources conns rep constraints children].
      cbn [go_node]. intro H.
      inv_bind H. rewrite Hb. cbn [bind].
      inv_bind H. change (@nil (string * V)) with (venv []).
      rewrite (compile_locals_nat _ _ _ _ _ Hb0). cbn [bind].
      rewrite <- venv_over.
      inv_bind H. rewrite (eval_constraints_nat _ _ _ Hb1). cbn [bind].
      inv_bind H.
      assert (Hpm0 : (venv (over x0 inputs), map (fun c => (rname c, venv [])) children)
                     = valpm (over x0 inputs, map (fun c => (rname c, [])) children)).
      { unfold valpm; cbn. f_equal. rewrite map_map. reflexivity. }
      rewrite Hpm0, (compile_links_nat _ _ _ _ Hb2). cbn [bind].
      inv_bind H. rewrite (eval_ports_nat _ _ _ Hb3). cbn [bind].
      inv_bind H. rewrite (put_port_sizes_nat _ _ _ _ Hb4). cbn [bind].
      inv_bind H. rewrite Hb5. cbn [bind].
      inv_bind H. destruct x6 as [pm3 kids].
      change (@nil (ctree V)) with (map valtree []).
      rewrite (compile_children_nat _ _ _ _ _ _ _ Hb6). cbn [bind].
      inv_bind H. inv_bind H. inv_bind H. inv_bind H. inversion H; subst. clear H.
      assert (Hres : match rep with
                     | Some rp => repeated_resources rp resources (map valtree kids)
                     | None => Ok resources
                     end = Ok x6).
      { destruct rep; [apply repeated_resources_nat|]; assumption. }
      rewrite Hres. cbn [bind].
      rewrite <- cvars_val. change (fst (valpm pm3)) with (venv (fst pm3)). rewrite <- venv_over.
      rewrite (eval_rep_nat _ _ _ Hb8). cbn [bind].
      assert (Hres' : mapM (fun rs => do v <- evV (venv (over (fst pm3)
                        (flat_map (fun t => map (fun nr => (dot (ct_name t) (fst nr), snd (snd nr))) (ct_resources t)) kids)))
                        (r_value rs); Ok (r_name rs, (r_type rs, v))) x6 = Ok (map val2 x8)).
      { eapply mapM_natural; [|exact Hb9]. intros rs b _ Hrs. inv_bind Hrs. inversion Hrs; subst.
        match goal with Hx : ev_subst _ (r_value rs) = Ok _ |- _ => rewrite (ev_commute _ _ _ Hx) end. reflexivity. }
      rewrite Hres'. cbn [bind].
      rewrite (eval_ports_nat _ _ _ Hb10). cbn [bind].
      cbn [valtree]. rewrite map_app. reflexivity.
    Qed.
  End Children.

  Theorem go_natural fuel : forall r inputs t,
      go ev_subst statusE fv fuel r inputs = Ok t ->
      go evV stV fvV fuel r (venv inputs) = Ok (valtree t).
  Proof.
    induction fuel as [|fuel IH]; intros r inputs t H; [discriminate|].
    cbn [go] in *. apply (go_node_nat (go ev_subst statusE fv fuel) (go evV stV fvV fuel) IH). exact H.
  Qed.
End Natural.

(* ---------- from the top of compile_routine ---------- *)
From Bq Require Import Preprocess CompileTop.

Lemma compile_routine_den :
  forall (V : Type) (ofQ : Q -> V) (I : op -> list V -> V) (B : bigop -> (V -> V) -> V -> V -> V),
    (forall k f g lo hi, (forall v, f v = g v) -> B k f lo hi = B k g lo hi) ->
    forall (rho : string -> V) (r : routine) (t : ctree expr),
      compile_routine r = Ok t ->
      exists ir, preprocess r = Ok ir /\
                 den V ofQ I B rho (S (height ir)) ir [] = Ok (valtree V ofQ I B rho t).
Proof.
  intros V ofQ I B B_ext rho r t H. unfold compile_routine in H. inv_bind H.
  exists x. split; [exact Hb|]. unfold compile_ir in H.
  apply (go_natural V ofQ I B B_ext rho) in H. exact H.
Qed.

Definition C01_example : routine :=
  Routine "root" None ["N"; "M"] [] [("N", [("a", "M")]); ("M", [("a", "N")])] [] [] [] None []
    [Routine "a" None ["N"; "M"] [] [] []
       [Build_resource "T" RAdditive (eadd (ESym "N") (emul (EZ 2) (ESym "M")))] [] None [] []].
