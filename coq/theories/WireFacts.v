(* WireFacts.v — C02 for a whole node, any carrier: when the traversal answers, every child was compiled with
   the variable `#q` of each of its wired input/through ports bound to exactly the compiled size of the port at
   the other end of the wire -- a port of the parent, or a port of a sibling compiled earlier (the order is the
   topological one) -- provided no port is the target of two wires and the children have distinct names. *)
From Coq Require Import List String QArith ZArith Bool Permutation Lia.
From Bq Require Import Expr ExprFacts RepModel Routine Compare Compile CompileFacts StructureFacts TopoFacts.
Import ListNotations.
Open Scope string_scope.

Lemma lookup_dict_norm {A} k (s : list (string * A)) : lookup k (dict_norm s) = lookup k s.
Proof.
  induction s as [|[y w] s IH]; [reflexivity|].
  cbn [dict_norm lookup]. destruct (String.eqb k y) eqn:E; [reflexivity|].
  rewrite lookup_remove_other; [exact IH|exact E].
Qed.

Lemma conns_from_in src conns sp t : In (sp, t) (conns_from src conns) <-> In ((src, sp), t) conns.
Proof.
  unfold conns_from. rewrite in_flat_map. split.
  - intros [[[s sp'] t'] [Hin Hx]]. destruct s as [a|], src as [b|]; cbn in Hx.
    + destruct (String.eqb a b) eqn:E; [|destruct Hx]. apply String.eqb_eq in E. subst.
      destruct Hx as [Hx|[]]. inversion Hx; subst. exact Hin.
    + destruct Hx.
    + destruct Hx.
    + destruct Hx as [Hx|[]]. inversion Hx; subst. exact Hin.
  - intro Hin. exists ((src, sp), t). split; [exact Hin|]. destruct src as [b|]; cbn.
    + rewrite String.eqb_refl. left. reflexivity.
    + left. reflexivity.
Qed.

Lemma conns_from_nodup src conns : NoDup (map snd conns) -> NoDup (map snd (conns_from src conns)).
Proof.
  induction conns as [|[[s sp] t] conns IH]; cbn; intro H; [constructor|].
  inversion H as [|? ? Hn Hnd]; subst. specialize (IH Hnd).
  assert (Hsub : forall x, In x (map snd (conns_from src conns)) -> In x (map snd conns)).
  { intros x Hx. apply in_map_iff in Hx. destruct Hx as [[sp' t'] [Heq Hin]]. cbn in Heq. subst.
    apply conns_from_in in Hin. apply in_map_iff. exists ((src, sp'), x). auto. }
  unfold conns_from in *. cbn [flat_map]. rewrite map_app. fold (conns_from src conns) in *.
  destruct s as [a|], src as [b|]; cbn; try exact IH.
  - destruct (String.eqb a b); cbn; [|exact IH]. constructor; [intro Hx; apply Hn; apply Hsub; exact Hx|exact IH].
  - constructor; [intro Hx; apply Hn; apply Hsub; exact Hx|exact IH].
Qed.

Section Wire.
  Variable D : Type.
  Variable ev : list (string * D) -> expr -> result D.
  Variable statusD : D -> D -> cstatus.
  Variable fvD : D -> list string.

  Notation pm_get := (pm_get D).
  Notation pm_has := (pm_has D).

  Lemma put_port_sizes_keep tr tp cports : forall cs pmA pmB,
      put_port_sizes cs cports pmA = Ok pmB -> ~ In (tr, tp) (map snd cs) ->
      pm_get tr (hash_name tp) pmB = pm_get tr (hash_name tp) pmA.
  Proof.
    induction cs as [|[s1 [t1 p1]] cs IH]; intros pmA pmB H Hn.
    - inversion H. reflexivity.
    - cbn [put_port_sizes] in H. inv_bind H. rewrite (IH _ _ H).
      + apply pm_get_put_other. cbn [map snd] in Hn.
        destruct (ostr_dec tr t1) as [E1|E1]; [|left; exact E1].
        right. intro E2. apply hash_name_inj in E2. subst. apply Hn. left. reflexivity.
      + intro Hx. apply Hn. right. exact Hx.
  Qed.

  Lemma put_port_sizes_has tr cports : forall cs pmA pmB,
      put_port_sizes cs cports pmA = Ok pmB -> pm_has tr pmA -> pm_has tr pmB.
  Proof.
    induction cs as [|[s1 [t1 p1]] cs IH]; intros pmA pmB H Hh.
    - inversion H; subst. exact Hh.
    - cbn [put_port_sizes] in H. inv_bind H. eapply IH; [exact H|]. apply pm_has_put. exact Hh.
  Qed.

  Lemma compile_links_has tr pmn0 : forall links pmA pmB,
      compile_links ev pmn0 links pmA = Ok pmB -> pm_has tr pmA -> pm_has tr pmB.
  Proof.
    induction links as [|[src targets] links IH]; intros pmA pmB H Hh; cbn [compile_links] in H.
    - inversion H; subst. exact Hh.
    - inv_bind H. eapply IH; [exact H|]. clear H.
      revert pmA Hh. induction targets as [|cp ts IHt]; intros pmA Hh; cbn [fold_left]; [exact Hh|].
      apply IHt. apply pm_has_put. exact Hh.
  Qed.

  Section Children.
    Variable rec : routine -> list (string * D) -> result (ctree D).
    Hypothesis Hrec : forall c ins t, rec c ins = Ok t -> ct_name t = rname c /\ ct_inputs t = ins.

    Lemma compile_children_acc names children conns : forall pm acc pm' kids,
        compile_children rec names children conns pm acc = Ok (pm', kids) ->
        forall t, In t acc -> In t kids.
    Proof.
      induction names as [|n names IH]; intros pm acc pm' kids H t Ht; cbn [compile_children] in H.
      - inversion H; subst. apply in_rev in Ht. exact Ht.
      - inv_bind H. inv_bind H. inv_bind H. inv_bind H. eapply IH; [exact H|]. right. exact Ht.
    Qed.

    (* a value already stored for (c, #q) is what c is compiled with, if no child still to come feeds (c, q) *)
    Lemma children_keep names children conns c q v : forall pm acc pm' kids,
        compile_children rec names children conns pm acc = Ok (pm', kids) ->
        In c names ->
        pm_get (Some c) (hash_name q) pm = Some v ->
        (forall n sp, In n names -> ~ In ((Some n, sp), (Some c, q)) conns) ->
        exists tc, In tc kids /\ ct_name tc = c /\ lookup (hash_name q) (ct_inputs tc) = Some v
                   /\ exists cr, find_child c children = Some cr /\ rec cr (ct_inputs tc) = Ok tc.
    Proof.
      induction names as [|n names IH]; intros pm acc pm' kids H Hc Hget Hfeed; [destruct Hc|].
      cbn [compile_children] in H. inv_bind H. inv_bind H. inv_bind H. inv_bind H.
      apply of_opt_Ok in Hb; [|intros b Hx; discriminate].
      apply of_opt_Ok in Hb0; [|intros b Hx; discriminate].
      destruct (Hrec _ _ _ Hb1) as [Hname Hins].
      destruct (String.eqb n c) eqn:Enc.
      - apply String.eqb_eq in Enc. subst n. exists x1. split; [|split; [|split]].
        + eapply compile_children_acc; [exact H|left; reflexivity].
        + rewrite Hname. apply (find_child_name _ _ _ Hb).
        + rewrite Hins, lookup_dict_norm. cbn in Hget. rewrite Hb0 in Hget. exact Hget.
        + exists x. split; [exact Hb|]. rewrite Hins. exact Hb1.
      - apply String.eqb_neq in Enc. destruct Hc as [Hc|Hc]; [congruence|].
        eapply IH; [exact H|exact Hc| |].
        + rewrite (put_port_sizes_keep (Some c) q _ _ _ _ Hb2); [exact Hget|].
          intro Hin. apply in_map_iff in Hin. destruct Hin as [[sp t] [Heq Hin]]. cbn in Heq. subst t.
          apply conns_from_in in Hin. apply (Hfeed n sp); [left; reflexivity|exact Hin].
        + intros n' sp' Hn'. apply Hfeed. right. exact Hn'.
    Qed.

    (* a wire from sibling s to (c, q), s processed before c *)
    Lemma children_sibling children conns s sp c q : forall l1 l2 pm acc pm' kids,
        compile_children rec (l1 ++ s :: l2) children conns pm acc = Ok (pm', kids) ->
        NoDup (l1 ++ s :: l2) -> NoDup (map snd conns) ->
        In ((Some s, sp), (Some c, q)) conns -> In c l2 -> pm_has (Some c) pm ->
        exists ts tc d v,
          In ts kids /\ ct_name ts = s /\ lookup sp (ct_ports ts) = Some (d, v) /\
          In tc kids /\ ct_name tc = c /\ lookup (hash_name q) (ct_inputs tc) = Some v /\
          exists cr, find_child c children = Some cr /\ rec cr (ct_inputs tc) = Ok tc.
    Proof.
      induction l1 as [|n l1 IH]; intros l2 pm acc pm' kids H Hnd Hndc Hconn Hc Hhas.
      - cbn [app] in H, Hnd. cbn [compile_children] in H. inv_bind H. inv_bind H. inv_bind H. inv_bind H.
        apply of_opt_Ok in Hb; [|intros b Hx; discriminate].
        destruct (Hrec _ _ _ Hb1) as [Hname Hins].
        assert (Hin : In (sp, (Some c, q)) (conns_from (Some s) conns)) by (apply conns_from_in; exact Hconn).
        pose proof (put_port_sizes_wire D _ _ _ _ Hb2 (conns_from_nodup (Some s) conns Hndc) sp (Some c) q Hin Hhas) as Hw.
        destruct (lookup sp (ct_ports x1)) as [[d v]|] eqn:Esp.
        2:{ (* the merge would have failed *)
            exfalso. clear - Hb2 Hin Esp.
            revert pm x2 Hb2. induction (conns_from (Some s) conns) as [|[sp0 [tr0 tp0]] cs IHc]; intros pm x2 Hb2; [destruct Hin|].
            cbn [put_port_sizes] in Hb2. inv_bind Hb2. destruct Hin as [Heq|Hin'].
            - inversion Heq; subst. rewrite Esp in Hb. discriminate.
            - eapply IHc; eauto. }
        cbn [option_map snd] in Hw.
        inversion Hnd as [|? ? Hs Hnd2]; subst.
        destruct (children_keep l2 children conns c q v _ _ _ _ H Hc Hw) as [tc [Htc [Hnc [Hl Hcr]]]].
        { intros n sp' Hn Hx.
          (* the only wire into (c, q) comes from s, and s is not among the children still to come *)
          assert (Heq : ((Some n, sp'), (Some c, q)) = ((Some s, sp), (Some c, q))).
          { clear - Hndc Hx Hconn. induction conns as [|x conns IHc]; [destruct Hx|].
            cbn [map] in Hndc. inversion Hndc as [|? ? Hnot Hnd']; subst.
            destruct Hx as [Hx|Hx], Hconn as [Hy|Hy].
            - congruence.
            - subst x. exfalso. apply Hnot. apply in_map_iff. exists ((Some s, sp), (Some c, q)). auto.
            - subst x. exfalso. apply Hnot. apply in_map_iff. exists ((Some n, sp'), (Some c, q)). auto.
            - apply IHc; assumption. }
          inversion Heq; subst. exact (Hs Hn). }
        exists x1, tc, d, v. repeat split; auto.
        + eapply compile_children_acc; [exact H|left; reflexivity].
        + rewrite Hname. apply (find_child_name _ _ _ Hb).
      - cbn [app] in H, Hnd. cbn [compile_children] in H. inv_bind H. inv_bind H. inv_bind H. inv_bind H.
        inversion Hnd as [|? ? Hn Hnd2]; subst.
        eapply IH; [exact H|exact Hnd2|exact Hndc|exact Hconn|exact Hc|].
        eapply put_port_sizes_has; [exact Hb2|exact Hhas].
    Qed.
  End Children.

  Lemma pm0_has (children : list routine) pmn c :
    In c (map rname children) -> pm_has (Some c) (pmn, map (fun ch => (rname ch, @nil (string * D))) children).
  Proof.
    intro Hin. cbn. induction children as [|ch children IH]; [destruct Hin|].
    cbn. destruct (String.eqb c (rname ch)) eqn:E; [eauto|].
    apply IH. destruct Hin as [H|H]; [subst; rewrite String.eqb_refl in E; discriminate|exact H].
  Qed.

  Section Node.
    Variable rec : routine -> list (string * D) -> result (ctree D).
    Hypothesis Hrec : forall c ins t, rec c ins = Ok t -> ct_name t = rname c /\ ct_inputs t = ins.

    (* C02 at one node *)
    Theorem go_node_wires r inputs t :
      go_node ev statusD fvD rec r inputs = Ok t ->
      NoDup (map rname (rchildren r)) -> NoDup (map snd (rconnections r)) ->
      ct_inputs t = inputs /\
      (* a wire from a port of this routine into a child *)
      (forall sp c q, In ((None, sp), (Some c, q)) (rconnections r) -> In c (map rname (rchildren r)) ->
         exists tc d v, In tc (ct_children t) /\ ct_name tc = c /\
                        lookup sp (ct_ports t) = Some (d, v) /\ lookup (hash_name q) (ct_inputs tc) = Some v /\
                        exists cr, find_child c (rchildren r) = Some cr /\ rec cr (ct_inputs tc) = Ok tc) /\
      (* a wire from one child into another *)
      (forall s sp c q, In ((Some s, sp), (Some c, q)) (rconnections r) ->
         In s (map rname (rchildren r)) -> In c (map rname (rchildren r)) ->
         exists ts tc d v, In ts (ct_children t) /\ ct_name ts = s /\ lookup sp (ct_ports ts) = Some (d, v) /\
                           In tc (ct_children t) /\ ct_name tc = c /\ lookup (hash_name q) (ct_inputs tc) = Some v /\
                           exists cr, find_child c (rchildren r) = Some cr /\ rec cr (ct_inputs tc) = Ok tc).
    Proof.
      destruct r as [name type ips locals links ports resources conns rep constraints children].
      cbn [go_node rchildren rconnections]. intros H Hndc Hndt.
      inv_bind H. inv_bind H. inv_bind H. inv_bind H. inv_bind H. inv_bind H. inv_bind H. inv_bind H.
      destruct x6 as [pm3 kids]. inv_bind H. inv_bind H. inv_bind H. inv_bind H. inversion H; subst; clear H.
      apply of_opt_Ok in Hb5; [|intros b Hx; discriminate].
      destruct (children_order_topological children conns x5 Hndc Hb5) as [Hperm Htopo].
      assert (Hndo : NoDup x5) by (eapply Permutation_NoDup; [apply Permutation_sym; exact Hperm|exact Hndc]).
      cbn [ct_inputs ct_children ct_ports]. split; [reflexivity|]. split.
      - intros sp c q Hconn Hc.
        assert (Hhas1 : pm_has (Some c) x2).
        { eapply compile_links_has; [exact Hb2|]. apply pm0_has. exact Hc. }
        assert (Hin : In (sp, (Some c, q)) (conns_from None conns)) by (apply conns_from_in; exact Hconn).
        pose proof (put_port_sizes_wire D _ _ _ _ Hb4 (conns_from_nodup None conns Hndt) sp (Some c) q Hin Hhas1) as Hw.
        destruct (lookup sp x3) as [[d v]|] eqn:Esp.
        2:{ exfalso. clear - Hb4 Hin Esp.
            revert x2 x4 Hb4. induction (conns_from None conns) as [|[sp0 [tr0 tp0]] cs IHc]; intros x2 x4 Hb4; [destruct Hin|].
            cbn [put_port_sizes] in Hb4. inv_bind Hb4. destruct Hin as [Heq|Hin'].
            - inversion Heq; subst. rewrite Esp in Hb. discriminate.
            - eapply IHc; eauto. }
        cbn [option_map snd] in Hw.
        destruct (children_keep rec Hrec x5 children conns c q v _ _ _ _ Hb6) as [tc [Htc [Hnc [Hl Hcr]]]].
        + apply (Permutation_in _ (Permutation_sym Hperm)). exact Hc.
        + exact Hw.
        + intros n sp' _ Hx.
          assert (Heq : ((Some n, sp'), (Some c, q)) = ((@None string, sp), (Some c, q))).
          { clear - Hndt Hx Hconn. induction conns as [|x conns IHc]; [destruct Hx|].
            cbn [map] in Hndt. inversion Hndt as [|? ? Hnot Hnd']; subst.
            destruct Hx as [Hx|Hx], Hconn as [Hy|Hy].
            - congruence.
            - subst x. exfalso. apply Hnot. apply in_map_iff. exists ((None, sp), (Some c, q)). auto.
            - subst x. exfalso. apply Hnot. apply in_map_iff. exists ((Some n, sp'), (Some c, q)). auto.
            - apply IHc; assumption. }
          inversion Heq.
        + exists tc, d, v. repeat split; auto. rewrite lookup_app, Esp. reflexivity.
      - intros s sp c q Hconn Hs Hc.
        (* c sits somewhere in the order, and s -- one of its predecessors -- before it *)
        assert (Hco : In c x5) by (apply (Permutation_in _ (Permutation_sym Hperm)); exact Hc).
        destruct (in_split _ _ Hco) as [la [lb Hsplit]].
        assert (Hpred : In s (child_preds conns c)).
        { unfold child_preds. apply in_flat_map. exists ((Some s, sp), (Some c, q)). split; [exact Hconn|].
          cbn. rewrite String.eqb_refl. left. reflexivity. }
        pose proof (Htopo la c lb Hsplit s Hpred) as Hsla.
        destruct (in_split _ _ Hsla) as [l1 [l1' Hla]].
        assert (Horder : x5 = (l1 ++ s :: (l1' ++ c :: lb))%list).
        { rewrite Hsplit, Hla, <- app_assoc. reflexivity. }
        rewrite Horder in Hb6, Hndo.
        assert (Hhas2 : pm_has (Some c) x4).
        { eapply put_port_sizes_has; [exact Hb4|]. eapply compile_links_has; [exact Hb2|]. apply pm0_has. exact Hc. }
        destruct (children_sibling rec Hrec children conns s sp c q l1 (l1' ++ c :: lb) _ _ _ _ Hb6 Hndo Hndt Hconn) as
            [ts [tc [d [v [H1 [H2 [H3 [H4 [H5 [H6 H7]]]]]]]]]].
        + apply in_or_app. right. left. reflexivity.
        + exact Hhas2.
        + exists ts, tc, d, v. repeat split; assumption.
    Qed.
  End Node.

  Lemma go_name_inputs fuel : forall r inputs t,
      go ev statusD fvD fuel r inputs = Ok t -> ct_name t = rname r /\ ct_inputs t = inputs.
  Proof.
    intros r inputs t H. split.
    - apply (go_structure D ev statusD fvD fuel r inputs t H).
    - destruct fuel as [|fuel]; [discriminate|]. cbn [go] in H.
      destruct r as [name type ips locals links ports resources conns rep constraints children].
      cbn [go_node] in H.
      inv_bind H. inv_bind H. inv_bind H. inv_bind H. inv_bind H. inv_bind H. inv_bind H. inv_bind H.
      destruct x6 as [pm3 kids]. inv_bind H. inv_bind H. inv_bind H. inv_bind H. inversion H; subst. reflexivity.
  Qed.

  (* C02: every routine the traversal compiles -- the root and, recursively, each child -- obeys the wire law *)
  Theorem go_wires fuel r inputs t :
    go ev statusD fvD fuel r inputs = Ok t ->
    NoDup (map rname (rchildren r)) -> NoDup (map snd (rconnections r)) ->
    (forall sp c q, In ((None, sp), (Some c, q)) (rconnections r) -> In c (map rname (rchildren r)) ->
       exists tc d v, In tc (ct_children t) /\ ct_name tc = c /\
                      lookup sp (ct_ports t) = Some (d, v) /\ lookup (hash_name q) (ct_inputs tc) = Some v /\
                      exists cr, find_child c (rchildren r) = Some cr /\ go ev statusD fvD (pred fuel) cr (ct_inputs tc) = Ok tc) /\
    (forall s sp c q, In ((Some s, sp), (Some c, q)) (rconnections r) ->
       In s (map rname (rchildren r)) -> In c (map rname (rchildren r)) ->
       exists ts tc d v, In ts (ct_children t) /\ ct_name ts = s /\ lookup sp (ct_ports ts) = Some (d, v) /\
                         In tc (ct_children t) /\ ct_name tc = c /\ lookup (hash_name q) (ct_inputs tc) = Some v /\
                         exists cr, find_child c (rchildren r) = Some cr /\ go ev statusD fvD (pred fuel) cr (ct_inputs tc) = Ok tc).
  Proof.
    destruct fuel as [|fuel]; [discriminate|]. cbn [go pred]. intros H Hc Ht.
    destruct (go_node_wires (go ev statusD fvD fuel) (go_name_inputs fuel) r inputs t H Hc Ht) as [_ [H1 H2]].
    split; assumption.
  Qed.
End Wire.

(* the receiving end: with the compile step ev_subst, a port declared as its own variable `#q` (what
   preprocessing turns an unsized or symbol-sized port into) compiles to exactly the value its node was given *)
Lemma lookup_over_inputs {A} k (lv inputs : list (string * A)) v :
  lookup k inputs = Some v -> lookup k (over lv inputs) = Some v.
Proof. intro H. unfold over. rewrite lookup_app, H. reflexivity. Qed.

Lemma eval_ports_lookup (env : list (string * expr)) (ps : list port) cps p s :
  eval_ports ev_subst env ps = Ok cps -> NoDup (map p_name ps) -> In p ps ->
  ev_subst env (p_size p) = Ok s -> lookup (p_name p) cps = Some (p_dir p, s).
Proof.
  unfold eval_ports. revert cps. induction ps as [|p0 ps IH]; intros cps H Hnd Hin Hs; [destruct Hin|].
  cbn [mapM] in H. inv_bind H. inv_bind H. inversion H; subst. clear H. inv_bind Hb. inversion Hb; subst. clear Hb.
  cbn [map] in Hnd. inversion Hnd as [|? ? Hn Hnd']; subst.
  destruct Hin as [Heq|Hin].
  - subst p0. cbn. rewrite String.eqb_refl. congruence.
  - cbn. destruct (String.eqb (p_name p) (p_name p0)) eqn:E.
    + apply String.eqb_eq in E. exfalso. apply Hn. rewrite <- E. apply in_map. exact Hin.
    + apply IH; assumption.
Qed.

Lemma go_port_variable fuel r inputs t q d v :
  go ev_subst statusE fv fuel r inputs = Ok t ->
  lookup (hash_name q) inputs = Some v ->
  NoDup (map p_name (rports r)) -> In (Build_port q d (ESym (hash_name q))) (rports r) -> d <> DOut ->
  lookup q (ct_ports t) = Some (d, v).
Proof.
  destruct fuel as [|fuel]; [discriminate|]. cbn [go].
  destruct r as [name type ips locals links ports resources conns rep constraints children].
  cbn [go_node rports]. intros H Hl Hnd Hin Hd.
  inv_bind H. inv_bind H. inv_bind H. inv_bind H. inv_bind H. inv_bind H. inv_bind H. inv_bind H.
  destruct x6 as [pm3 kids]. inv_bind H. inv_bind H. inv_bind H. inv_bind H. inversion H; subst; clear H.
  cbn [ct_ports]. rewrite lookup_app.
  assert (Hnd' : NoDup (map p_name (filter non_output ports))).
  { clear - Hnd. induction ports as [|p ps IH]; cbn; [constructor|]. cbn in Hnd. inversion Hnd as [|? ? Hn Hnd']; subst.
    destruct (non_output p); [|apply IH; exact Hnd']. cbn. constructor; [|apply IH; exact Hnd'].
    intro Hx. apply Hn. apply in_map_iff in Hx. destruct Hx as [p' [Heq Hp']]. apply filter_In in Hp'.
    apply in_map_iff. exists p'. tauto. }
  assert (Hin' : In (Build_port q d (ESym (hash_name q))) (filter non_output ports)).
  { apply filter_In. split; [exact Hin|]. unfold non_output. cbn. destruct d; cbn; congruence. }
  assert (Hlk : lookup q x3 = Some (d, v)).
  { apply (eval_ports_lookup _ _ _ (Build_port q d (ESym (hash_name q))) v Hb3 Hnd' Hin').
    cbn [p_size]. apply ev_subst_sym. apply lookup_over_inputs. exact Hl. }
  rewrite Hlk. reflexivity.
Qed.

(* C02, both ends of a wire: in the compile model, when a child port is declared as its own variable `#q`
   (preprocessing does that to every unsized or symbol-sized input/through port), its compiled size IS the
   compiled size of the port at the other end of the wire *)
Theorem wire_ends_equal fuel r inputs t :
  go ev_subst statusE fv fuel r inputs = Ok t ->
  NoDup (map rname (rchildren r)) -> NoDup (map snd (rconnections r)) ->
  (forall sp c q, In ((None, sp), (Some c, q)) (rconnections r) -> In c (map rname (rchildren r)) ->
     exists tc d v cr, In tc (ct_children t) /\ ct_name tc = c /\ find_child c (rchildren r) = Some cr /\
       lookup sp (ct_ports t) = Some (d, v) /\
       (forall d', NoDup (map p_name (rports cr)) -> In (Build_port q d' (ESym (hash_name q))) (rports cr) -> d' <> DOut ->
                   lookup q (ct_ports tc) = Some (d', v))) /\
  (forall s sp c q, In ((Some s, sp), (Some c, q)) (rconnections r) ->
     In s (map rname (rchildren r)) -> In c (map rname (rchildren r)) ->
     exists ts tc d v cr, In ts (ct_children t) /\ ct_name ts = s /\ In tc (ct_children t) /\ ct_name tc = c /\
       find_child c (rchildren r) = Some cr /\ lookup sp (ct_ports ts) = Some (d, v) /\
       (forall d', NoDup (map p_name (rports cr)) -> In (Build_port q d' (ESym (hash_name q))) (rports cr) -> d' <> DOut ->
                   lookup q (ct_ports tc) = Some (d', v))).
Proof.
  intros H Hc Ht. destruct (go_wires expr ev_subst statusE fv fuel r inputs t H Hc Ht) as [H1 H2]. split.
  - intros sp c q Hconn Hin. destruct (H1 sp c q Hconn Hin) as [tc [d [v [Htc [Hn [Hsp [Hl [cr [Hf Hgo]]]]]]]]].
    exists tc, d, v, cr. repeat split; try assumption.
    intros d' Hnd Hp Hd. eapply go_port_variable; eassumption.
  - intros s sp c q Hconn Hs Hin.
    destruct (H2 s sp c q Hconn Hs Hin) as [ts [tc [d [v [Hts [Hns [Hsp [Htc [Hn [Hl [cr [Hf Hgo]]]]]]]]]]]].
    exists ts, tc, d, v, cr. repeat split; try assumption.
    intros d' Hnd Hp Hd. eapply go_port_variable; eassumption.
Qed.
