(* PortVarFacts.v — the preprocessing stage introduce_port_variables (model in Preprocess.v), for one routine:
   (1) afterwards EVERY input / through port is declared as its own variable `#p` -- the form the wire theorem of
       C02 (WireFacts.wire_ends_equal) asks of a child port;
   (2) no declaration is lost (C06): a constant or compound size becomes a retained constraint `#p = size`, a symbol
       seen before becomes a constraint `#p = #q` with the port q that introduced it, a new symbol becomes a local
       variable `s := #p`. *)
From Coq Require Import List String QArith ZArith Bool.
From Bq Require Import Expr ExprFacts RepModel Routine Compare Compile CompileFacts Preprocess.
Import ListNotations.
Open Scope string_scope.

Lemma insert_port_in p l x : In x (insert_port p l) <-> x = p \/ In x l.
Proof.
  induction l as [|q l IH]; cbn; [intuition (subst; auto)|].
  destruct (port_le p q); cbn; [intuition (subst; auto)|]. rewrite IH. intuition (subst; auto).
Qed.

Lemma sort_ports_in l x : In x (sort_ports l) <-> In x l.
Proof.
  unfold sort_ports. induction l as [|p l IH]; cbn; [tauto|].
  rewrite insert_port_in, IH. intuition (subst; auto).
Qed.

(* every key of the update is a key of the updated dictionary *)
Lemma dict_update_keys {A} (a b : list (string * A)) k v : In (k, v) b -> In k (keys (dict_update a b)).
Proof.
  intro H. unfold dict_update, keys. rewrite map_app. apply in_or_app.
  destruct (lookup k a) as [w|] eqn:E.
  - left. apply lookup_Some_in in E. rewrite map_map. apply in_map_iff. exists (k, w). split; [|exact E].
    cbn. destruct (lookup k b); reflexivity.
  - right. apply in_map_iff. exists (k, v). split; [reflexivity|]. apply filter_In. split; [exact H|]. cbn. rewrite E. reflexivity.
Qed.

Definition is_var_port (q : port) : Prop := p_size q = ESym (hash_name (p_name q)).

(* what one step of the loop adds, whatever branch it takes *)
Lemma ipv_step_shape ips locals p rest st st' :
  ipv_loop ips locals (p :: rest) st = Ok st' ->
  exists al cs,
    ipv_loop ips locals rest
             {| st_ports := (st_ports st ++ [Build_port (p_name p) (p_dir p) (ESym (hash_name (p_name p)))])%list;
                st_locals := al; st_params := (st_params st ++ [hash_name (p_name p)])%list; st_constraints := cs |} = Ok st'
    /\ (exists l1, al = (st_locals st ++ l1)%list) /\ (exists c1, cs = (st_constraints st ++ c1)%list)
    /\ (* the declaration of p is accounted for *)
       (match p_size p with
        | ESym s =>
            s = hash_name (p_name p)
            \/ ((mem s ips || mem s (keys locals)) = false /\ lookup s (st_locals st) = None /\ al = (st_locals st ++ [(s, ESym (hash_name (p_name p)))])%list)
            \/ (exists v, (((mem s ips || mem s (keys locals)) = false /\ lookup s (st_locals st) = Some v) \/ ((mem s ips || mem s (keys locals)) = true /\ v = ESym s))
                          /\ cs = (st_constraints st ++ [mk_constraint (ESym (hash_name (p_name p))) v])%list)
        | sz =>
            exists rhs, cs = (st_constraints st ++ [mk_constraint (ESym (hash_name (p_name p))) rhs])%list
                        /\ (is_constant_int sz = true -> rhs = sz)
                        /\ (is_constant_int sz = false -> rhs = subst (st_locals st) sz)
        end).
Proof.
  cbn [ipv_loop]. intro H.
  destruct (p_size p) as [q|s|o args|k i b lo hi] eqn:Esz.
  - (* a number *)
    destruct (is_constant_int (ENum q)) eqn:Ec.
    + do 2 eexists. split; [exact H|]. split; [exists []; rewrite app_nil_r; reflexivity|]. split; [eexists; reflexivity|].
      eexists. split; [reflexivity|]. split; [reflexivity|discriminate].
    + destruct (filter _ (fv (ENum q))) eqn:Em; [|discriminate].
      do 2 eexists. split; [exact H|]. split; [exists []; rewrite app_nil_r; reflexivity|]. split; [eexists; reflexivity|].
      eexists. split; [reflexivity|]. split; [discriminate|reflexivity].
  - (* a single symbol *)
    destruct (String.eqb s (hash_name (p_name p))) eqn:Eh.
    + do 2 eexists. split; [exact H|]. split; [exists []; rewrite app_nil_r; reflexivity|].
      split; [exists []; rewrite app_nil_r; reflexivity|]. left. apply String.eqb_eq. exact Eh.
    + destruct (mem s ips || mem s (keys locals)) eqn:Em.
      { (* the symbol is a declared parameter: a constraint against the parameter *)
        do 2 eexists. split; [exact H|]. split; [exists []; rewrite app_nil_r; reflexivity|]. split; [eexists; reflexivity|].
        right. right. exists (ESym s). split; [right; split; reflexivity|reflexivity]. }
      destruct (lookup s (st_locals st)) as [v|] eqn:El.
      * do 2 eexists. split; [exact H|]. split; [exists []; rewrite app_nil_r; reflexivity|]. split; [eexists; reflexivity|].
        right. right. exists v. split; [left; split; reflexivity|reflexivity].
      * do 2 eexists. split; [exact H|]. split; [eexists; reflexivity|]. split; [exists []; rewrite app_nil_r; reflexivity|].
        right. left. repeat split; reflexivity.
  - destruct (is_constant_int (EOp o args)) eqn:Ec; [discriminate Ec|].
    destruct (filter _ (fv (EOp o args))) eqn:Em; [|discriminate].
    do 2 eexists. split; [exact H|]. split; [exists []; rewrite app_nil_r; reflexivity|]. split; [eexists; reflexivity|].
    eexists. split; [reflexivity|]. split; [discriminate|reflexivity].
  - destruct (is_constant_int (EBig k i b lo hi)) eqn:Ec; [discriminate Ec|].
    destruct (filter _ (fv (EBig k i b lo hi))) eqn:Em; [|discriminate].
    do 2 eexists. split; [exact H|]. split; [exists []; rewrite app_nil_r; reflexivity|]. split; [eexists; reflexivity|].
    eexists. split; [reflexivity|]. split; [discriminate|reflexivity].
Qed.

(* the loop only appends; every port it emits is a variable port with the name and direction of the source port *)
Lemma ipv_loop_inv ips locals : forall ps st st',
    ipv_loop ips locals ps st = Ok st' ->
    (exists np, st_ports st' = (st_ports st ++ np)%list
                /\ map (fun q => (p_name q, p_dir q)) np = map (fun q => (p_name q, p_dir q)) ps
                /\ Forall is_var_port np)
    /\ (exists l1, st_locals st' = (st_locals st ++ l1)%list)
    /\ (exists c1, st_constraints st' = (st_constraints st ++ c1)%list).
Proof.
  induction ps as [|p rest IH]; intros st st' H.
  - cbn in H. inversion H; subst. repeat split; [exists []|exists []|exists []]; rewrite ?app_nil_r; repeat split; constructor.
  - destruct (ipv_step_shape _ _ _ _ _ _ H) as [al [cs [Hrest [[l1 Hl1] [[c1 Hc1] _]]]]].
    destruct (IH _ _ Hrest) as [[np [Hp [Hn Hv]]] [[l2 Hl2] [c2 Hc2]]]. cbn [st_ports st_locals st_constraints] in *.
    split; [|split].
    + exists (Build_port (p_name p) (p_dir p) (ESym (hash_name (p_name p))) :: np). split; [|split].
      * rewrite Hp, <- app_assoc. reflexivity.
      * cbn. rewrite Hn. reflexivity.
      * constructor; [reflexivity|exact Hv].
    + exists (l1 ++ l2)%list. rewrite Hl2, Hl1, app_assoc. reflexivity.
    + exists (c1 ++ c2)%list. rewrite Hc2, Hc1, app_assoc. reflexivity.
Qed.

(* (1) after the stage every input / through port of the routine is its own variable *)
Theorem ipv_ports_are_variables r r' :
  introduce_port_variables_node r = Ok r' ->
  forall q, In q (rports r') -> p_dir q <> DOut -> p_size q = ESym (hash_name (p_name q)).
Proof.
  destruct r as [n t ips lo li p rs c rp cs ch]. cbn [introduce_port_variables_node]. intro H.
  inv_bind H. inversion H; subst. clear H. cbn [rports].
  destruct (ipv_loop_inv _ _ _ _ _ Hb) as [[np [Hp [_ Hv]]] _]. cbn [st_ports app] in Hp.
  intros q Hq Hd. apply in_app_or in Hq. destruct Hq as [Hq|Hq].
  - rewrite Hp in Hq. rewrite Forall_forall in Hv. apply Hv. exact Hq.
  - apply filter_In in Hq. destruct Hq as [_ Hq]. exfalso. apply Hd.
    destruct (p_dir q); cbn in Hq; congruence.
Qed.

(* (2) nothing is lost: the declaration of every processed port reappears *)
Lemma ipv_loop_accounts ips locals : forall ps st st',
    ipv_loop ips locals ps st = Ok st' ->
    forall p, In p ps ->
      match p_size p with
      | ESym s =>
          s = hash_name (p_name p)
          \/ In (s, ESym (hash_name (p_name p))) (st_locals st')
          \/ (exists v, In (mk_constraint (ESym (hash_name (p_name p))) v) (st_constraints st'))
      | sz =>
          exists rhs, In (mk_constraint (ESym (hash_name (p_name p))) rhs) (st_constraints st')
                      /\ (is_constant_int sz = true -> rhs = sz)
      end.
Proof.
  induction ps as [|p0 rest IH]; intros st st' H p Hin; [destruct Hin|].
  destruct (ipv_step_shape _ _ _ _ _ _ H) as [al [cs [Hrest [_ [_ Hacc]]]]].
  destruct (ipv_loop_inv _ _ _ _ _ Hrest) as [_ [[l2 Hl2] [c2 Hc2]]]. cbn [st_locals st_constraints] in Hl2, Hc2.
  destruct Hin as [<-|Hin]; [|exact (IH _ _ Hrest p Hin)].
  destruct (p_size p0) as [q|s|o args|k i b lo hi].
  - destruct Hacc as [rhs [Hcs [Hc _]]]. exists rhs. split; [|exact Hc].
    rewrite Hc2, Hcs. apply in_or_app. left. apply in_or_app. right. left. reflexivity.
  - destruct Hacc as [Hs|[[_ [_ Hal]]|[v [_ Hcs]]]].
    + left. exact Hs.
    + right. left. rewrite Hl2, Hal. apply in_or_app. left. apply in_or_app. right. left. reflexivity.
    + right. right. exists v. rewrite Hc2, Hcs. apply in_or_app. left. apply in_or_app. right. left. reflexivity.
  - destruct Hacc as [rhs [Hcs [Hc _]]]. exists rhs. split; [|exact Hc].
    rewrite Hc2, Hcs. apply in_or_app. left. apply in_or_app. right. left. reflexivity.
  - destruct Hacc as [rhs [Hcs [Hc _]]]. exists rhs. split; [|exact Hc].
    rewrite Hc2, Hcs. apply in_or_app. left. apply in_or_app. right. left. reflexivity.
Qed.

(* (2') a port whose declared size is a declared PARAMETER or LOCAL VARIABLE of the routine does not define that symbol: it
   yields the constraint `#port = symbol`, so what flows into the port is compared with the value the routine gives it *)
Lemma ipv_loop_param ips locals : forall ps st st',
    ipv_loop ips locals ps st = Ok st' ->
    forall p s, In p ps -> p_size p = ESym s -> s <> hash_name (p_name p) -> (mem s ips || mem s (keys locals)) = true ->
      In (mk_constraint (ESym (hash_name (p_name p))) (ESym s)) (st_constraints st').
Proof.
  induction ps as [|p0 rest IH]; intros st st' H p s Hin Hsz Hne Hm; [destruct Hin|].
  destruct (ipv_step_shape _ _ _ _ _ _ H) as [al [cs [Hrest [_ [_ Hacc]]]]].
  destruct (ipv_loop_inv _ _ _ _ _ Hrest) as [_ [_ [c2 Hc2]]]. cbn [st_constraints] in Hc2.
  destruct Hin as [<-|Hin]; [|exact (IH _ _ Hrest p s Hin Hsz Hne Hm)].
  rewrite Hsz in Hacc. destruct Hacc as [Hs|[[Hf _]|[v [[[Hf _]|[_ Hv]] Hcs]]]]; try contradiction; try congruence.
  subst v. rewrite Hc2, Hcs. apply in_or_app. left. apply in_or_app. right. left. reflexivity.
Qed.

Theorem ipv_parameter_sized_port r r' :
  introduce_port_variables_node r = Ok r' ->
  forall p s, In p (rports r) -> p_dir p <> DOut -> p_size p = ESym s -> s <> hash_name (p_name p) ->
              (mem s (rparams r) || mem s (keys (rlocals r))) = true ->
              In (mk_constraint (ESym (hash_name (p_name p))) (ESym s)) (rconstraints r').
Proof.
  destruct r as [n t ips lo li ps rs c rp cs ch]. cbn [introduce_port_variables_node]. intro H.
  inv_bind H. inversion H; subst. clear H. cbn [rports rparams rconstraints].
  intros p s Hp Hd Hsz Hne Hm.
  assert (Hin : In p (sort_ports (filter (fun q => negb (dir_eqb (p_dir q) DOut)) ps))).
  { apply sort_ports_in. apply filter_In. split; [exact Hp|]. destruct (p_dir p); cbn; congruence. }
  apply in_or_app. right. exact (ipv_loop_param _ _ _ _ _ Hb p s Hin Hsz Hne Hm).
Qed.

Theorem ipv_declarations_accounted r r' :
  introduce_port_variables_node r = Ok r' ->
  forall p, In p (rports r) -> p_dir p <> DOut ->
    match p_size p with
    | ESym s =>
        s = hash_name (p_name p)                                              (* already its own variable *)
        \/ (exists v, lookup s (rlocals r') = Some v)                          (* the symbol is now defined by a local variable *)
        \/ (exists v, In (mk_constraint (ESym (hash_name (p_name p))) v) (rconstraints r'))
    | sz =>
        exists rhs, In (mk_constraint (ESym (hash_name (p_name p))) rhs) (rconstraints r')
                    /\ (is_constant_int sz = true -> rhs = sz)
    end.
Proof.
  destruct r as [n t ips lo li ps rs c rp cs ch]. cbn [introduce_port_variables_node]. intro H.
  inv_bind H. inversion H; subst. clear H. cbn [rports rlocals rconstraints].
  intros p Hp Hd.
  assert (Hin : In p (sort_ports (filter (fun q => negb (dir_eqb (p_dir q) DOut)) ps))).
  { apply sort_ports_in. apply filter_In. split; [exact Hp|]. destruct (p_dir p); cbn; congruence. }
  pose proof (ipv_loop_accounts _ _ _ _ _ Hb p Hin) as Hacc.
  destruct (p_size p) as [q|s|o args|k i b lo0 hi].
  - destruct Hacc as [rhs [Hc Hk]]. exists rhs. split; [apply in_or_app; right; exact Hc|exact Hk].
  - destruct Hacc as [Hs|[Hl|[v Hc]]].
    + left. exact Hs.
    + right. left. unfold dict_update.
      destruct (lookup s (dict_update lo (st_locals x))) as [v|] eqn:E; [exists v; exact E|].
      exfalso. apply lookup_None_notin in E. apply E. eapply dict_update_keys. exact Hl.
    + right. right. exists v. apply in_or_app. right. exact Hc.
  - destruct Hacc as [rhs [Hc Hk]]. exists rhs. split; [apply in_or_app; right; exact Hc|exact Hk].
  - destruct Hacc as [rhs [Hc Hk]]. exists rhs. split; [apply in_or_app; right; exact Hc|exact Hk].
Qed.
