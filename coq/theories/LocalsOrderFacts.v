(* LocalsOrderFacts.v — C09 for local variables: whichever dependency-respecting order the local variables of a
   routine are compiled in (the order depends on how they are LISTED: Kahn's algorithm takes the first ready one),
   every local variable gets the same compiled value. *)
From Coq Require Import List String QArith ZArith Bool Lia.
From Bq Require Import Expr ExprFacts RepModel Routine Compare Compile CompileFacts.
Import ListNotations.
Open Scope string_scope.

Lemma remove_str_in x i l : In x (remove_str i l) <-> In x l /\ x <> i.
Proof.
  induction l as [|y l IH]; cbn; [tauto|].
  destruct (String.eqb i y) eqn:E.
  - apply String.eqb_eq in E. subst. rewrite IH. split; [intros [H1 H2]; auto|]. intros [[H|H] H2]; [congruence|auto].
  - apply String.eqb_neq in E. cbn. rewrite IH. split.
    + intros [H|[H1 H2]]; [subst; split; [left; reflexivity|congruence]|split; [right; exact H1|exact H2]].
    + intros [[H|H] H2]; [left; exact H|right; split; assumption].
Qed.

(* substitution looks only at the symbols that occur *)
Lemma subst_ext_fv e : forall s s', (forall x, In x (fv e) -> lookup x s = lookup x s') -> subst s e = subst s' e.
Proof.
  induction e as [q|x|o args IH|k i b lo hi IHb IHlo IHhi] using expr_ind'; intros s s' H; cbn [subst].
  - reflexivity.
  - rewrite (H x); [reflexivity|cbn; left; reflexivity].
  - f_equal. apply map_ext_in. intros a Ha. rewrite Forall_forall in IH. apply IH; [exact Ha|].
    intros x Hx. apply H. cbn [fv]. apply in_flat_map. exists a. split; assumption.
  - cbn [fv] in H.
    rewrite (IHlo s s'), (IHhi s s'); [|intros x Hx; apply H; apply in_or_app; right; apply in_or_app; right; exact Hx
                                       |intros x Hx; apply H; apply in_or_app; right; apply in_or_app; left; exact Hx].
    f_equal. apply IHb. intros x Hx.
    destruct (String.eqb x i) eqn:E.
    + apply String.eqb_eq in E. subst. rewrite !lookup_remove_same. reflexivity.
    + rewrite !lookup_remove_other by exact E. apply H. apply in_or_app. left. apply remove_str_in. split; [exact Hx|].
      apply String.eqb_neq. exact E.
Qed.

Lemma NoDup_prefix {A} (l1 l2 : list A) : NoDup (l1 ++ l2) -> NoDup l1.
Proof.
  induction l1 as [|a l1 IH]; cbn; intro H; [constructor|].
  inversion H as [|? ? Hn Hnd]; subst. constructor; [|apply IH; exact Hnd].
  intro Hx. apply Hn. apply in_or_app. left. exact Hx.
Qed.

Section Locals.
  Variable locals : list (string * expr).

  Definition value_of (y : string) (lv : list (string * expr)) : expr :=
    match lookup y lv with Some v => v | None => ENum 0 end.

  (* the dictionary a local variable is compiled against: the ones compiled before it (latest first), then the rest *)
  Definition ext_at (lv : list (string * expr)) (before : list string) (ext : list (string * expr)) : list (string * expr) :=
    (map (fun y => (y, value_of y lv)) (rev before) ++ ext)%list.

  Lemma compile_locals_spec : forall names ext acc lv,
      compile_locals ev_subst names locals ext acc = Ok lv ->
      NoDup names -> (forall x, In x names -> ~ In x (keys acc)) ->
      (forall x, ~ In x names -> lookup x lv = lookup x acc) /\
      (forall l1 x l2, names = (l1 ++ x :: l2)%list ->
                       exists e, lookup x locals = Some e /\ lookup x lv = Some (subst (ext_at lv l1 ext) e)).
  Proof.
    induction names as [|x0 names IH]; intros ext acc lv H Hnd Hacc; cbn [compile_locals] in H.
    - inversion H; subst. split; [reflexivity|]. intros l1 x l2 Heq. destruct l1; discriminate.
    - inv_bind H. inv_bind H. apply of_opt_Ok in Hb; [|intros b Hx; discriminate].
      inversion Hnd as [|? ? Hnot Hnd']; subst.
      unfold ev_subst, subst_chk in Hb0. destruct (captures ext x); [discriminate|]. inversion Hb0; subst. clear Hb0.
      destruct (IH ((x0, subst ext x) :: ext) ((x0, subst ext x) :: acc) lv H Hnd') as [Hout Hin].
      { intros y Hy Hk. cbn in Hk. destruct Hk as [Hk|Hk]; [subst; exact (Hnot Hy)|].
        apply (Hacc y); [right; exact Hy|exact Hk]. }
      assert (Hx0 : lookup x0 lv = Some (subst ext x)).
      { rewrite (Hout x0 Hnot). cbn. rewrite String.eqb_refl. reflexivity. }
      split.
      + intros y Hy. rewrite Hout by (intro Hx; apply Hy; right; exact Hx).
        cbn. destruct (String.eqb y x0) eqn:E; [|reflexivity].
        apply String.eqb_eq in E. subst. exfalso. apply Hy. left. reflexivity.
      + intros l1 y l2 Heq. destruct l1 as [|z l1]; cbn in Heq; inversion Heq; subst.
        * exists x. split; [exact Hb|]. rewrite Hx0. unfold ext_at. cbn. reflexivity.
        * destruct (Hin l1 y l2 eq_refl) as [e [He Hl]]. exists e. split; [exact He|].
          assert (Hv : value_of z lv = subst ext x) by (unfold value_of; rewrite Hx0; reflexivity).
          rewrite Hl. f_equal. unfold ext_at. cbn [rev]. rewrite map_app. cbn [map].
          rewrite <- app_assoc. cbn [app]. rewrite Hv. reflexivity.
  Qed.

  Lemma lookup_ext_at_in lv before ext y :
    NoDup before -> In y before -> lookup y (ext_at lv before ext) = Some (value_of y lv).
  Proof.
    intros Hnd Hin. unfold ext_at. rewrite lookup_app.
    assert (H : lookup y (map (fun z => (z, value_of z lv)) (rev before)) = Some (value_of y lv)).
    { apply in_rev in Hin. induction (rev before) as [|z l IH]; [destruct Hin|].
      cbn. destruct (String.eqb y z) eqn:E; [apply String.eqb_eq in E; subst; reflexivity|].
      apply IH. destruct Hin as [->|Hin]; [rewrite String.eqb_refl in E; discriminate|exact Hin]. }
    rewrite H. reflexivity.
  Qed.

  Lemma lookup_ext_at_out lv before ext y :
    ~ In y before -> lookup y (ext_at lv before ext) = lookup y ext.
  Proof.
    intros Hnot. unfold ext_at. rewrite lookup_app.
    assert (H : lookup y (map (fun z => (z, value_of z lv)) (rev before)) = None).
    { assert (Hn : ~ In y (rev before)) by (intro Hx; apply Hnot; apply in_rev; exact Hx).
      induction (rev before) as [|z l IH]; [reflexivity|].
      cbn. destruct (String.eqb y z) eqn:E; [apply String.eqb_eq in E; subst; exfalso; apply Hn; left; reflexivity|].
      apply IH. intro Hx. apply Hn. right. exact Hx. }
    rewrite H. reflexivity.
  Qed.

  (* an order respects the dependencies: every local variable mentioned by x's definition comes before x *)
  Definition respects (o : list string) : Prop :=
    forall l1 x l2 e, o = (l1 ++ x :: l2)%list -> lookup x locals = Some e ->
                      forall y, In y (fv e) -> In y o -> In y l1.

  Theorem compile_locals_order_free inputs o1 o2 lv1 lv2 :
    compile_locals ev_subst o1 locals inputs [] = Ok lv1 ->
    compile_locals ev_subst o2 locals inputs [] = Ok lv2 ->
    NoDup o1 -> NoDup o2 -> (forall x, In x o1 <-> In x o2) ->
    respects o1 -> respects o2 ->
    forall x, lookup x lv1 = lookup x lv2.
  Proof.
    intros H1 H2 Hnd1 Hnd2 Hsame Hr1 Hr2.
    destruct (compile_locals_spec o1 inputs [] lv1 H1 Hnd1 (fun _ _ Hk => Hk)) as [Hout1 Hin1].
    destruct (compile_locals_spec o2 inputs [] lv2 H2 Hnd2 (fun _ _ Hk => Hk)) as [Hout2 Hin2].
    (* by strong induction on the position in o1 *)
    assert (G : forall n l1 x l2, List.length l1 = n -> o1 = (l1 ++ x :: l2)%list -> lookup x lv1 = lookup x lv2).
    { induction n as [n IHn] using (well_founded_induction lt_wf). intros l1 x l2 Hlen Ho1.
      destruct (Hin1 l1 x l2 Ho1) as [e [He Hl1]].
      assert (Hx2 : In x o2) by (apply Hsame; rewrite Ho1; apply in_or_app; right; left; reflexivity).
      destruct (in_split _ _ Hx2) as [m1 [m2 Ho2]].
      destruct (Hin2 m1 x m2 Ho2) as [e' [He' Hl2]]. rewrite He in He'. inversion He'; subst e'. clear He'.
      rewrite Hl1, Hl2. f_equal. apply subst_ext_fv. intros y Hy.
      assert (Hnd_l1 : NoDup l1) by (rewrite Ho1 in Hnd1; exact (NoDup_prefix _ _ Hnd1)).
      assert (Hnd_m1 : NoDup m1) by (rewrite Ho2 in Hnd2; exact (NoDup_prefix _ _ Hnd2)).
      destruct (in_dec string_dec y o1) as [Hyo|Hyo].
      - (* a local variable: compiled earlier in both orders, to the same value *)
        pose proof (Hr1 l1 x l2 e Ho1 He y Hy Hyo) as Hyl1.
        pose proof (Hr2 m1 x m2 e Ho2 He y Hy (proj1 (Hsame y) Hyo)) as Hym1.
        rewrite (lookup_ext_at_in lv1 l1 inputs y Hnd_l1 Hyl1), (lookup_ext_at_in lv2 m1 inputs y Hnd_m1 Hym1).
        f_equal. unfold value_of.
        destruct (in_split _ _ Hyl1) as [a [b Hab]].
        assert (Hpos : o1 = (a ++ y :: (b ++ x :: l2))%list) by (rewrite Ho1, Hab, <- app_assoc; reflexivity).
        rewrite (IHn (List.length a)) with (l1 := a) (x := y) (l2 := (b ++ x :: l2)%list); [reflexivity| |reflexivity|exact Hpos].
        rewrite <- Hlen, Hab, app_length. cbn. lia.
      - (* not a local variable of this routine: both look it up in what was handed down *)
        assert (Hy1 : ~ In y l1) by (intro Hx; apply Hyo; rewrite Ho1; apply in_or_app; left; exact Hx).
        assert (Hy2 : ~ In y m1).
        { intro Hx. apply Hyo. apply Hsame. rewrite Ho2. apply in_or_app. left. exact Hx. }
        rewrite (lookup_ext_at_out lv1 l1 inputs y Hy1), (lookup_ext_at_out lv2 m1 inputs y Hy2). reflexivity. }
    intro x. destruct (in_dec string_dec x o1) as [Hx|Hx].
    - destruct (in_split _ _ Hx) as [l1 [l2 Ho1]]. exact (G (List.length l1) l1 x l2 eq_refl Ho1).
    - rewrite (Hout1 x Hx), (Hout2 x (fun H => Hx (proj2 (Hsame x) H))). reflexivity.
  Qed.
End Locals.

(* compile_locals reads the definitions by name only *)
Lemma compile_locals_lookup_ext (locals locals' : list (string * expr)) :
  (forall x, lookup x locals = lookup x locals') ->
  forall names ext acc, compile_locals ev_subst names locals ext acc = compile_locals ev_subst names locals' ext acc.
Proof.
  intro H. induction names as [|x names IH]; intros ext acc; cbn [compile_locals]; [reflexivity|].
  rewrite (H x). destruct (lookup x locals') as [e|]; cbn [of_opt bind]; [|reflexivity].
  destruct (ev_subst ext e); cbn [bind]; try reflexivity. apply IH.
Qed.

From Coq Require Import Permutation.
From Bq Require Import TopoFacts.

Lemma local_order_respects (locals : list (string * expr)) o :
  NoDup (keys locals) -> local_order locals = Some o ->
  NoDup o /\ (forall x, In x o <-> In x (keys locals)) /\ respects locals o.
Proof.
  intros Hnd H. unfold local_order in H.
  pose proof (kahn_perm _ _ _ Hnd H) as Hperm.
  pose proof (kahn_topological _ _ _ Hnd H) as Htopo.
  split; [eapply Permutation_NoDup; [apply Permutation_sym; exact Hperm|exact Hnd]|]. split.
  - intro x. split; intro Hx; [exact (Permutation_in x Hperm Hx)|exact (Permutation_in x (Permutation_sym Hperm) Hx)].
  - intros l1 x l2 e Heq He y Hy Hyo. apply (Htopo l1 x l2 Heq y). rewrite He.
    apply filter_In. split; [exact Hy|]. apply mem_In. exact (Permutation_in y Hperm Hyo).
Qed.

(* C09, local variables: list them in any order -- every local variable compiles to the same value *)
Theorem locals_listing_free (locals locals' : list (string * expr)) inputs o1 o2 lv1 lv2 :
  NoDup (keys locals) -> Permutation locals locals' ->
  local_order locals = Some o1 -> local_order locals' = Some o2 ->
  compile_locals ev_subst o1 locals inputs [] = Ok lv1 ->
  compile_locals ev_subst o2 locals' inputs [] = Ok lv2 ->
  forall x, lookup x lv1 = lookup x lv2.
Proof.
  intros Hnd Hperm Ho1 Ho2 H1 H2.
  assert (Hnd' : NoDup (keys locals')).
  { eapply Permutation_NoDup; [|exact Hnd]. unfold keys. apply Permutation_map. exact Hperm. }
  assert (Hlk : forall x, lookup x locals' = lookup x locals).
  { intro x. symmetry. apply lookup_perm; assumption. }
  rewrite (compile_locals_lookup_ext locals' locals Hlk) in H2.
  destruct (local_order_respects locals o1 Hnd Ho1) as [N1 [S1 R1]].
  destruct (local_order_respects locals' o2 Hnd' Ho2) as [N2 [S2 R2]].
  assert (R2' : respects locals o2).
  { intros l1 x l2 e Heq He. apply (R2 l1 x l2 e Heq). rewrite Hlk. exact He. }
  apply (compile_locals_order_free locals inputs o1 o2 lv1 lv2 H1 H2 N1 N2); [|exact R1|exact R2'].
  intro x. rewrite S1, S2. unfold keys. split; intro Hx.
  - exact (Permutation_in x (Permutation_map fst Hperm) Hx).
  - exact (Permutation_in x (Permutation_sym (Permutation_map fst Hperm)) Hx).
Qed.
