(* Highwater.v — src/bartiq/compilation/derived_resources.py::calculate_highwater.
   (a) the abstract wire model with the cut theorem (proved in HighwaterFacts.v);
   (b) executable port-level model and wire-level specification on compiled trees, at a numeric point. *)
From Coq Require Import List String QArith ZArith Bool Qminmax Qreduction.
From Bq Require Import Expr StdSem RepModel Routine Compile CompileTop DenSrc.
From BqGen Require Import GenHighwater.
Import ListNotations.
Open Scope string_scope.

(* ---------- abstract wire model ----------
   positions: 0 = the routine's own input side, 1..n = children in execution order, n+1 = its output side *)
Record wire := { w_src : nat; w_tgt : nat; w_size : Q }.

Definition sumw (P : wire -> bool) (ws : list wire) : Q :=
  fold_right (fun w acc => if P w then w_size w + acc else acc) 0 ws.

Definition inflow_at (ws : list wire) (k : nat) : Q := sumw (fun w => Nat.eqb (w_tgt w) k) ws.
Definition outflow_at (ws : list wire) (k : nat) : Q := sumw (fun w => Nat.eqb (w_src w) k) ws.
(* wires alive just before position k: they started earlier and end at k or later *)
Definition alive (ws : list wire) (k : nat) : Q := sumw (fun w => Nat.ltb (w_src w) k && Nat.leb k (w_tgt w)) ws.
(* wires passing over child k without touching it *)
Definition bypass (ws : list wire) (k : nat) : Q := sumw (fun w => Nat.ltb (w_src w) k && Nat.ltb k (w_tgt w)) ws.

(* the running quantity of the code: active_flow before child k (k >= 1) *)
Fixpoint active (ws : list wire) (k : nat) : Q :=
  match k with
  | O => 0
  | S O => outflow_at ws 0
  | S j => gen_hw_next (active ws j) (inflow_at ws j) (outflow_at ws j) 0
  end.

(* the watermark list the code builds for n children with highwaters hw 1 .. hw n *)
Definition code_watermarks (ws : list wire) (n : nat) (hw : nat -> Q) : list Q :=
  (outflow_at ws 0 :: map (fun k => gen_hw_mark (active ws k) (inflow_at ws k) (outflow_at ws k) (hw k)) (seq 1 n) ++ [inflow_at ws (S n)])%list.

(* the cuts of the specification *)
Definition cut_watermarks (ws : list wire) (n : nat) (hw : nat -> Q) : list Q :=
  (alive ws 1 :: map (fun k => bypass ws k + hw k) (seq 1 n) ++ [alive ws (S n)])%list.

(* ---------- executable, on compiled trees at a point ---------- *)
Definition qsum (l : list (option Q)) : option Q := fold_right oadd (Some 0) l.

Definition port_vals (r : string -> Q) (t : ctree expr) (dirs : list dir) : list (option Q) :=
  flat_map (fun p => if existsb (dir_eqb (fst (snd p))) dirs then [evalQ r (snd (snd p))] else []) (ct_ports t).

Definition omax (a b : option Q) : option Q :=
  match a, b with Some x, Some y => Some (Qmax x y) | _, _ => None end.
Definition osub (a b : option Q) : option Q :=
  match a, b with Some x, Some y => Some (Qred (x - y)) | _, _ => None end.

Definition res_val (r : string -> Q) (t : ctree expr) (name : string) : option (option Q) :=
  match lookup name (ct_resources t) with Some (_, e) => Some (evalQ r e) | None => None end.

(* max over the watermarks that are not (numerically) zero, plus local ancillae; all zero -> ancillae *)
Definition finish (marks : list (option Q)) (anc : option Q) : option Q :=
  match all_some marks with
  | None => None
  | Some ms =>
      match filter (fun q => negb (Qeq_bool q 0)) ms with
      | [] => anc
      | m :: rest => oadd (Some (fold_right Qmax m rest)) anc
      end
  end.

(* calculate_highwater on one node, children's highwater taken from the tree itself *)
Definition olift4 (f : Q -> Q -> Q -> Q -> Q) (a b c d : option Q) : option Q :=
  match a, b, c, d with Some x, Some y, Some z, Some w => Some (Qred (f x y z w)) | _, _, _, _ => None end.

(* the directions that count as inflow / outflow, the two expressions of the loop and the resource names are the ones
   translated from derived_resources.py (GenHighwater.v) *)
Definition hw_model (r : string -> Q) (t : ctree expr) : option Q :=
  let inflow := qsum (port_vals r t gen_hw_inflow_dirs) in
  let step (st : option Q * list (option Q)) (c : ctree expr) :=
      let cin := qsum (port_vals r c gen_hw_inflow_dirs) in
      let cout := qsum (port_vals r c gen_hw_outflow_dirs) in
      let chw := match res_val r c gen_hw_resource_name with Some v => v | None => None end in
      (olift4 gen_hw_next (fst st) cin cout (match chw with Some v => Some v | None => Some 0 end),
       (snd st ++ [olift4 gen_hw_mark (fst st) cin cout chw])%list) in
  let st := fold_left step (ct_children t) (inflow, [inflow]) in
  let anc := match res_val r t gen_hw_ancillae_name with Some v => v | None => Some 0 end in
  finish (snd st ++ [qsum (port_vals r t gen_hw_outflow_dirs)])%list anc.

Fixpoint index_of (n : string) (l : list (ctree expr)) (k : nat) : option nat :=
  match l with
  | [] => None
  | c :: l' => if String.eqb (ct_name c) n then Some k else index_of n l' (S k)
  end.

(* the wires of a node, with the size carried by the source port; a through port of the node itself is a
   wire from its input side to its output side that passes every child (QREF allows no inner connection on it) *)
Definition wires_of (r : string -> Q) (t : ctree expr) : option (list wire) :=
  let n := List.length (ct_children t) in
  all_some (map (fun p => match evalQ r (snd (snd p)) with
                          | Some q => Some (Build_wire 0 (S n) q)
                          | None => None
                          end)
                (filter (fun p => dir_eqb (fst (snd p)) DThrough) (ct_ports t)) ++
            map (fun st =>
                   let '((sr, sp), (tr, tp)) := st in
                   let spos := match sr with None => Some 0%nat | Some c => index_of c (ct_children t) 1 end in
                   let tpos := match tr with None => Some (S n) | Some c => index_of c (ct_children t) 1 end in
                   let size := match sr with
                               | None => match lookup sp (ct_ports t) with Some (_, e) => evalQ r e | None => None end
                               | Some c => match find_ct c (ct_children t) with
                                           | Some k => match lookup sp (ct_ports k) with Some (_, e) => evalQ r e | None => None end
                                           | None => None
                                           end
                               end in
                   match spos, tpos, size with
                   | Some a, Some b, Some q => Some (Build_wire a b q)
                   | _, _, _ => None
                   end) (ct_connections t))%list.

Definition hw_spec (r : string -> Q) (t : ctree expr) : option Q :=
  match wires_of r t with
  | None => None
  | Some ws =>
      let n := List.length (ct_children t) in
      let child_hw (k : nat) := match nth_error (ct_children t) (k - 1) with
                                | Some c => match res_val r c "qubit_highwater" with Some (Some v) => Some v | _ => None end
                                | None => None
                                end in
      (* before the first child: the routine's total input size; after the last: its total output size
         (for a fully wired routine with children these are alive 1 and alive (n+1); a leaf has no inner wires) *)
      let marks := (qsum (port_vals r t [DIn; DThrough]) :: map (fun k => oadd (Some (bypass ws k)) (child_hw k)) (seq 1 n)
                         ++ [qsum (port_vals r t [DOut; DThrough])])%list in
      let anc := match res_val r t "local_ancillae" with Some v => v | None => Some 0 end in
      match all_some marks with
      | Some (m :: rest) => oadd (Some (fold_right Qmax m rest)) anc
      | _ => None
      end
  end.

(* every node of the tree: implementation's qubit_highwater vs model (tie) and vs the cut specification (spec) *)
Fixpoint check_hw_tree (fuel : nat) (r : string -> Q) (t : ctree expr) : list nat * list nat :=
  match fuel with
  | O => ([1%nat], [1%nat])
  | S f =>
      let got := match res_val r t "qubit_highwater" with Some v => v | None => None end in
      let here := ([match hw_model r t with Some m => cmp false got (Some m) | None => 2%nat end],
                   [match hw_spec r t with Some s => cmp false got (Some s) | None => 2%nat end;
                    (* never smaller than the total input size, the total output size *)
                    match got, qsum (port_vals r t [DIn; DThrough]), qsum (port_vals r t [DOut; DThrough]) with
                    | Some g, Some i, Some o => if Qle_bool i g && Qle_bool o g then 0%nat else 1%nat
                    | _, _, _ => 2%nat
                    end]) in
      let kids := map (check_hw_tree f r) (ct_children t) in
      ((fst here ++ flat_map fst kids)%list, (snd here ++ flat_map snd kids)%list)
  end.

(* C16 speaks of routines with non-negative port sizes: a point (parameters may be negative there) is used only if
   every port of every node has a non-negative size at it (and every declared number of ancillae is non-negative) *)
Fixpoint ports_nonneg (fuel : nat) (r : string -> Q) (t : ctree expr) : bool :=
  match fuel with
  | O => false
  | S f =>
      forallb (fun p => match evalQ r (snd (snd p)) with Some q => Qle_bool 0 q | None => true end) (ct_ports t)
      && match res_val r t "local_ancillae" with Some (Some a) => Qle_bool 0 a | _ => true end   (* a count of qubits *)
      && forallb (ports_nonneg f r) (ct_children t)
  end.

(* C16 is about the children in the order the SOURCE lists them (an execution order): the compiled tree is read in
   that order, whatever order the compiler kept them in *)
Fixpoint reorder_like (fuel : nat) (r : routine) (t : ctree expr) : ctree expr :=
  match fuel with
  | O => t
  | S f =>
      match t with
      | CT n ty ins sp ports res conns rep cs kids =>
          let kids' := flat_map (fun c => match find (fun k => String.eqb (ct_name k) (rname c)) kids with
                                          | Some k => [reorder_like f c k]
                                          | None => []
                                          end) (rchildren r) in
          CT n ty ins sp ports res conns rep cs (if Nat.eqb (List.length kids') (List.length kids) then kids' else kids)
      end
  end.

Definition check_highwater (impl : impl_result) (pts : list (list (string * Q))) : list nat * list nat :=
  match impl with
  | IOk t =>
      let rs := map (fun p => if ports_nonneg (S (ct_height t)) (envQ p (dfltQ 0)) t
                              then check_hw_tree (S (ct_height t)) (envQ p (dfltQ 0)) t else ([2%nat], [2%nat])) pts in
      (flat_map fst rs, flat_map snd rs)
  | IErr _ => ([1%nat], [])
  end.

Definition check_highwater_src (r : routine) (impl : impl_result) (pts : list (list (string * Q))) : list nat * list nat :=
  match impl with
  | IOk t => check_highwater (IOk (reorder_like (S (ct_height t)) r t)) pts
  | IErr _ => check_highwater impl pts
  end.
