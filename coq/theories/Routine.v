(* Routine.v — data structures mirroring src/bartiq/_routine.py field by field. *)
From Coq Require Import List String QArith ZArith Bool.
From Bq Require Import Expr RepModel.
Import ListNotations.
Open Scope string_scope.

Inductive dir := DIn | DOut | DThrough.
Inductive rtype := RAdditive | RMultiplicative | RQubits | ROther.
Inductive cstatus := CInconclusive | CSatisfied | CViolated.

Definition dir_eqb (a b : dir) : bool :=
  match a, b with DIn, DIn | DOut, DOut | DThrough, DThrough => true | _, _ => false end.
Definition rtype_eqb (a b : rtype) : bool :=
  match a, b with
  | RAdditive, RAdditive | RMultiplicative, RMultiplicative | RQubits, RQubits | ROther, ROther => true
  | _, _ => false
  end.

Record port := { p_name : string; p_dir : dir; p_size : expr }.
Record resource := { r_name : string; r_type : rtype; r_value : expr }.
Definition endpoint := (option string * string)%type.   (* (routine_name, port_name) *)
Record constraint := { c_lhs : expr; c_rhs : expr; c_status : cstatus }.
Record repetition := { rep_count : expr; rep_seq : sequence }.

Inductive routine :=
  Routine (name : string) (type : option string) (input_params : list string)
          (locals : list (string * expr))
          (links : list (string * list (string * string)))   (* source |-> [(child path, param)] *)
          (ports : list port) (resources : list resource)
          (connections : list (endpoint * endpoint))
          (rep : option repetition) (constraints : list constraint)
          (children : list routine).

Definition rname r := match r with Routine n _ _ _ _ _ _ _ _ _ _ => n end.
Definition rtype_of r := match r with Routine _ t _ _ _ _ _ _ _ _ _ => t end.
Definition rparams r := match r with Routine _ _ ips _ _ _ _ _ _ _ _ => ips end.
Definition rlocals r := match r with Routine _ _ _ l _ _ _ _ _ _ _ => l end.
Definition rlinks r := match r with Routine _ _ _ _ l _ _ _ _ _ _ => l end.
Definition rports r := match r with Routine _ _ _ _ _ p _ _ _ _ _ => p end.
Definition rresources r := match r with Routine _ _ _ _ _ _ rs _ _ _ _ => rs end.
Definition rconnections r := match r with Routine _ _ _ _ _ _ _ c _ _ _ => c end.
Definition rrep r := match r with Routine _ _ _ _ _ _ _ _ rp _ _ => rp end.
Definition rconstraints r := match r with Routine _ _ _ _ _ _ _ _ _ cs _ => cs end.
Definition rchildren r := match r with Routine _ _ _ _ _ _ _ _ _ _ ch => ch end.

Fixpoint height (r : routine) : nat :=
  match r with
  | Routine _ _ _ _ _ _ _ _ _ _ ch => S (fold_right (fun c acc => Nat.max (height c) acc) 0%nat ch)
  end.

(* ---------- compiled / evaluated trees, generic in the carrier D ----------
   D = expr : CompiledRoutine;  D = V : the bottom-up denotation (values). *)

Inductive dseq (D : Type) :=
| DConst (m : D) | DArith (a d : D) | DGeom (q : D)
| DClosed (sum prod : option D) (nts : D) | DCustom (term : D) (it : string).
Arguments DConst {D}. Arguments DArith {D}. Arguments DGeom {D}.
Arguments DClosed {D}. Arguments DCustom {D}.

Inductive ctree (D : Type) :=
  CT (name : string) (type : option string)
     (inputs : list (string * D))                    (* the dictionary this node was compiled with *)
     (src_params : list string)                      (* routine.input_params of the source node *)
     (ports : list (string * (dir * D)))
     (resources : list (string * (rtype * D)))
     (connections : list (endpoint * endpoint))
     (rep : option (D * dseq D))
     (constraints : list (D * D * cstatus))
     (children : list (ctree D)).
Arguments CT {D}.

Definition ct_name {D} (t : ctree D) := match t with CT n _ _ _ _ _ _ _ _ _ => n end.
Definition ct_type {D} (t : ctree D) := match t with CT _ ty _ _ _ _ _ _ _ _ => ty end.
Definition ct_inputs {D} (t : ctree D) := match t with CT _ _ i _ _ _ _ _ _ _ => i end.
Definition ct_src_params {D} (t : ctree D) := match t with CT _ _ _ sp _ _ _ _ _ _ => sp end.
Definition ct_ports {D} (t : ctree D) := match t with CT _ _ _ _ p _ _ _ _ _ => p end.
Definition ct_resources {D} (t : ctree D) := match t with CT _ _ _ _ _ r _ _ _ _ => r end.
Definition ct_connections {D} (t : ctree D) := match t with CT _ _ _ _ _ _ c _ _ _ => c end.
Definition ct_rep {D} (t : ctree D) := match t with CT _ _ _ _ _ _ _ r _ _ => r end.
Definition ct_constraints {D} (t : ctree D) := match t with CT _ _ _ _ _ _ _ _ c _ => c end.
Definition ct_children {D} (t : ctree D) := match t with CT _ _ _ _ _ _ _ _ _ ch => ch end.

(* results: bartiq's own errors are distinguished from Python-level failures
   (KeyError / AssertionError), which a well-formed input must never reach *)
Inductive result (A : Type) :=
| Ok (a : A)
| ECompile            (* BartiqCompilationError *)
| EPreprocess         (* BartiqPreprocessingError *)
| ECapture            (* a substitution would capture an iterator symbol *)
| EInternal (k : nat) (* KeyError / AssertionError / ... at site k *)
| EFuel.
Arguments Ok {A}. Arguments ECompile {A}. Arguments EPreprocess {A}.
Arguments ECapture {A}. Arguments EInternal {A}. Arguments EFuel {A}.

Definition bind {A B} (x : result A) (f : A -> result B) : result B :=
  match x with
  | Ok a => f a
  | ECompile => ECompile | EPreprocess => EPreprocess | ECapture => ECapture
  | EInternal k => EInternal k | EFuel => EFuel
  end.
Notation "'do' x <- e ; f" := (bind e (fun x => f)) (at level 200, x pattern, e at level 100, f at level 200, right associativity).

Definition of_opt {A} (err : result A) (o : option A) : result A :=
  match o with Some a => Ok a | None => err end.

Fixpoint mapM {A B} (f : A -> result B) (l : list A) : result (list B) :=
  match l with
  | [] => Ok []
  | a :: l' => do b <- f a; do bs <- mapM f l'; Ok (b :: bs)
  end.

Definition dot (a b : string) : string := a ++ "." ++ b.
Definition hash_name (p : string) : string := "#" ++ p.

(* first occurrence of every key (Python dict: one value per key) *)
Fixpoint dict_norm {A} (s : list (string * A)) : list (string * A) :=
  match s with
  | [] => []
  | (k, v) :: s' => (k, v) :: remove_key k (dict_norm s')
  end.

(* induction principle for compiled trees that reaches into the children *)
Section CtreeInd.
  Variable D : Type.
  Variable P : ctree D -> Prop.
  Hypothesis H : forall n ty ins sp ports res conns rep cstrs kids,
      Forall P kids -> P (CT n ty ins sp ports res conns rep cstrs kids).
  Fixpoint ctree_ind' (t : ctree D) : P t :=
    match t with
    | CT n ty ins sp ports res conns rep cstrs kids =>
        H n ty ins sp ports res conns rep cstrs kids
          ((fix go (l : list (ctree D)) : Forall P l :=
              match l with
              | [] => Forall_nil _
              | k :: l' => Forall_cons _ (ctree_ind' k) (go l')
              end) kids)
    end.
End CtreeInd.
