(* GradDescentQ.v — the rational instance: the order hypotheses of the C20 theorems are satisfiable,
   and a concrete run returns a value. *)
From Coq Require Import List Bool QArith Qabs.
From Bq Require Import GradDescent.
Import ListNotations.
Open Scope Q_scope.

Definition Qltb (a b : Q) : bool := negb (Qle_bool b a).

Definition Qorder_ok : Prop :=
  (forall a b, Qltb a b = negb (Qle_bool b a)) /\ (forall a, Qle_bool a a = true).

Definition Qrun :=
  gradient_descent Q Qplus Qminus Qmult Qdiv Qabs Qltb Qle_bool Qeq_bool 2 (1 # 100) 0
                   (fun x => (x - 1) * (x - 1)) 3 (Some (0, 4)) (1 # 4) 3 100 0.

Lemma Qrun_ok : Qorder_ok /\ exists o c h, Qrun = GDOk o c h.
Proof.
  split.
  - split; [reflexivity|]. intro a. apply Qle_bool_iff. apply Qle_refl.
  - vm_compute. eexists _, _, _. reflexivity.
Qed.
