(* GradDescent.v — src/bartiq/analysis.py::Optimizer.gradient_descent, statement by statement, over an
   abstract carrier (instantiated at binary64 floats for bit-exact correspondence and at Q for non-vacuity).
   Definitions only. *)
From Coq Require Import List Bool.
From BqGen Require Import GenGradDescent.
Import ListNotations.

Section GD.
  Variable T : Type.
  Variables (add sub mul div : T -> T -> T) (abs : T -> T) (ltb leb eqb : T -> T -> bool).
  Variables (two eps : T).

  (* the arithmetic and the tests of the loop are the terms translated from analysis.py (GenGradDescent.v), read over
     this carrier *)
  Definition ops : gd_ops T := Build_gd_ops T add sub mul div abs ltb leb eqb two.

  (* Python's min(a, b) / max(a, b): the first argument unless the second is strictly smaller / larger *)
  Definition pmin (a b : T) : T := GenGradDescent.pmin ops a b.
  Definition pmax (a b : T) : T := GenGradDescent.pmax ops a b.

  (* _numerical_gradient *)
  Definition grad (f : T -> T) (v : T) : T := gen_gd_grad ops f v eps.

  Inductive gd_result :=
  | GDOk (optimal cost : T) (hist : list T)
  | GDValueError      (* start out of bounds *)
  | GDRuntimeError.   (* for ... else: maximum iterations reached *)

  (* the for loop; hist is kept newest-first; None = ran out of iterations *)
  Fixpoint gd_loop (n : nat) (f : T -> T) (bounds : option (T * T)) (lr tol mom : T)
           (cur vel : T) (hist : list T) : option (T * list T) :=
    match n with
    | O => None
    | S n' =>
        let g := grad f cur in
        let vel' := gen_gd_velocity ops mom vel lr g in
        let nxt := gen_gd_next ops cur vel' in
        match bounds with
        | Some (b0, b1) =>
            let nx := gen_gd_clip ops nxt b0 b1 in
            if gen_gd_hit ops nx b0 b1 then Some (nx, nx :: hist)
            else if gen_gd_converged ops g tol then Some (cur, hist)
                 else gd_loop n' f bounds lr tol mom nx vel' (nx :: hist)
        | None =>
            if gen_gd_converged ops g tol then Some (cur, hist)
            else gd_loop n' f bounds lr tol mom nxt vel' (nxt :: hist)
        end
    end.

  Definition gradient_descent (zero : T) (f : T -> T) (x0 : T) (bounds : option (T * T)) (lr : T) (max_iter : nat) (tol mom : T)
    : gd_result :=
    let in_bounds := match bounds with Some (b0, b1) => gen_gd_start_ok ops x0 b0 b1 | None => true end in
    if negb in_bounds then GDValueError
    else match gd_loop max_iter f bounds lr tol mom x0 zero [x0] with
         | Some (cur, hist) => GDOk cur (f cur) (rev hist)
         | None => GDRuntimeError
         end.
End GD.

Arguments GDOk {T}. Arguments GDValueError {T}. Arguments GDRuntimeError {T}.
