(* Scoped.v — the scoped expression step and the scoped compile model (definitions only).
   `ev_scoped G` is `ev_subst` that refuses an expression one of whose symbols is neither defined by the
   node's dictionary nor among the allowed global symbols G: C04's "well-scoped" made executable. *)
From Coq Require Import List String QArith Bool.
From Bq Require Import Expr RepModel Routine Compare Compile Preprocess.
Import ListNotations.
Open Scope string_scope.

(* the scoped expression step: like ev_subst, but refuses an expression one of whose symbols is neither
   defined by the dictionary nor among the allowed global symbols G *)
Definition EUnbound {A} : result A := EInternal 40.

Definition ev_scoped (G : list string) (env : list (string * expr)) (e : expr) : result expr :=
  if forallb (fun x => mem x (keys env) || mem x G) (fv e) then ev_subst env e else EUnbound.


(* iterator symbols of custom sequences and number-of-terms symbols of closed-form sequences anywhere in
   the hierarchy: legitimately free in the sequence's own expressions *)
Fixpoint iterators (r : routine) : list string :=
  match r with
  | Routine _ _ _ _ _ _ _ _ rep _ ch =>
      (match rep with
       | Some rp => match rep_seq rp with SCustom _ it => [it] | SClosed _ _ nts => [nts] | _ => [] end
       | None => []
       end ++ flat_map iterators ch)%list
  end.

(* the symbols a compiled hierarchy may mention: the (preprocessed) root's input parameters *)
(* ... and the symbols introduced by the sizes of the root's own input / through ports *)
Definition scope_of (ir : routine) : list string :=
  (rparams ir ++ flat_map (fun p => fv (p_size p)) (filter non_output (rports ir)) ++ iterators ir)%list.

Definition compile_scoped (r : routine) : result (ctree expr) :=
  do ir <- preprocess r;
  go (ev_scoped (scope_of ir)) statusE fv (S (height ir)) ir [].
