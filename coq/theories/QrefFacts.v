(* QrefFacts.v — the naming scheme survives being joined with "." and split again (C13, and the deep links of C01). *)
From Coq Require Import List String Ascii Bool.
From Bq Require Import Expr Routine Preprocess.
Import ListNotations.
Open Scope string_scope.

Fixpoint no_dot (s : string) : bool :=
  match s with EmptyString => true | String c s' => negb (Ascii.eqb c "."%char) && no_dot s' end.

Lemma split_first_dot_aux_app acc c rest :
  no_dot c = true -> split_first_dot_aux acc (c ++ "." ++ rest) = Some (acc ++ c, rest).
Proof.
  revert acc. induction c as [|a c IH]; intros acc H; cbn in *.
  - assert (Hn : acc ++ "" = acc) by (clear; induction acc; cbn; [reflexivity|f_equal; assumption]).
    rewrite Hn. reflexivity.
  - apply andb_true_iff in H. destruct H as [Ha Hc]. apply negb_true_iff in Ha. rewrite Ha.
    rewrite (IH _ Hc). f_equal. f_equal.
    clear. induction acc as [|b acc IHa]; cbn; [reflexivity|]. f_equal. exact IHa.
Qed.

(* "child.rest" splits at the first dot into the child's name and the rest *)
Theorem split_first_dot_dot c rest : no_dot c = true -> split_first_dot (dot c rest) = Some (c, rest).
Proof. intro H. unfold split_first_dot, dot. rewrite (split_first_dot_aux_app "" c rest H). reflexivity. Qed.

(* a name without a dot is not split *)
Theorem split_first_dot_none s : no_dot s = true -> split_first_dot s = None.
Proof.
  unfold split_first_dot. generalize "". induction s as [|a s IH]; intros acc H; cbn in *; [reflexivity|].
  apply andb_true_iff in H. destruct H as [Ha Hs]. apply negb_true_iff in Ha. rewrite Ha. apply IH. exact Hs.
Qed.
