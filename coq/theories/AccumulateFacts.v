(* AccumulateFacts.v — C08: repetition sums are linear in the child's value (so weights factor out), the
   propagated resource is the plain sum/product of the children's symbols, and an explicit definition is kept. *)
From Coq Require Import List String QArith ZArith Bool Qreduction Qpower Field Ring Lia Setoid.
From Bq Require Import Expr ExprFacts StdSem StdSemFacts Rep RepModel Routine Compile Preprocess.
From BqGen Require Import GenRepetitions.
Import ListNotations.
Open Scope string_scope.
Open Scope Q_scope.

(* ---------- weights factor out of the repetition formulas ---------- *)
Theorem const_sum_linear r m e cnt g g1 :
  gen_ConstantSequence_get_sum m e cnt = Some g -> gen_ConstantSequence_get_sum m (EZ 1) cnt = Some g1 ->
  evalT r g == evalT r e * evalT r g1.
Proof. intros H H1. inversion H; inversion H1; subst. evalT_norm. ring. Qed.

Theorem arith_sum_linear r a d e cnt g g1 :
  gen_ArithmeticSequence_get_sum a d e cnt = Some g -> gen_ArithmeticSequence_get_sum a d (EZ 1) cnt = Some g1 ->
  evalT r g == evalT r e * evalT r g1.
Proof. intros H H1. inversion H; inversion H1; subst. evalT_norm. ring. Qed.

Theorem geom_sum_linear r q e cnt g g1 :
  gen_GeometricSequence_get_sum q e cnt = Some g -> gen_GeometricSequence_get_sum q (EZ 1) cnt = Some g1 ->
  evalT r g == evalT r e * evalT r g1.
Proof.
  intros H H1. inversion H; inversion H1; subst. evalT_norm. rewrite !evalT_epow. unfold Qdiv. ring.
Qed.

Theorem closed_sum_linear r su pr nts e cnt g g1 :
  gen_ClosedFormSequence_get_sum su pr nts e cnt = Some g -> gen_ClosedFormSequence_get_sum su pr nts (EZ 1) cnt = Some g1 ->
  evalT r g == evalT r e * evalT r g1.
Proof.
  destruct su as [s|]; cbn; [|discriminate]. intros H H1. inversion H; inversion H1; subst. evalT_norm. ring.
Qed.

(* ---------- the propagated value is the plain sum / product over the children that have the resource ---------- *)
Lemma evalT_sum_of_symbols r (cs : list string) x :
  evalT r (EOp OAdd (map (fun cn => ESym (dot cn x)) cs)) == fold_right Qplus 0 (map (fun cn => r (dot cn x)) cs).
Proof. unfold evalT. cbn. rewrite map_map. reflexivity. Qed.

Lemma evalT_prod_of_symbols r (cs : list string) x :
  evalT r (EOp OMul (map (fun cn => ESym (dot cn x)) cs)) == fold_right Qmult 1 (map (fun cn => r (dot cn x)) cs).
Proof. unfold evalT. cbn. rewrite map_map. reflexivity. Qed.

(* ---------- a routine's own explicit definition takes precedence ---------- *)
Lemma lookup_dict_update_left {A} x (a b : list (string * A)) v :
  lookup x a = Some v -> lookup x b = None -> lookup x (dict_update a b) = Some v.
Proof.
  intros Ha Hb. unfold dict_update. rewrite lookup_app.
  assert (H : lookup x (map (fun kv => match lookup (fst kv) b with Some v0 => (fst kv, v0) | None => kv end) a) = Some v).
  { clear - Ha Hb. induction a as [|[k w] a IH]; cbn in *; [discriminate|].
    destruct (String.eqb x k) eqn:E.
    - apply String.eqb_eq in E. subst. rewrite Hb. cbn. rewrite String.eqb_refl. exact Ha.
    - destruct (lookup k b); cbn; rewrite E; apply IH; exact Ha. }
  rewrite H. reflexivity.
Qed.

Lemma lookup_flat_map_none {A B} x (f : string * A -> list (string * B)) l :
  (forall kv, In kv l -> lookup x (f kv) = None) -> lookup x (flat_map f l) = None.
Proof.
  induction l as [|kv l IH]; intro H; cbn; [reflexivity|].
  rewrite lookup_app, (H kv (or_introl eq_refl)). apply IH. intros kv' Hin. apply H. right. exact Hin.
Qed.

Lemma lookup_override_none {A} x (L b : list (string * A)) :
  lookup x L = None ->
  lookup x (map (fun kv => match lookup (fst kv) b with Some v => (fst kv, v) | None => kv end) L) = None.
Proof.
  induction L as [|[k w] L IH]; cbn; [reflexivity|].
  destruct (String.eqb x k) eqn:E; [discriminate|]. intro H.
  destruct (lookup k b); cbn; rewrite E; apply IH; exact H.
Qed.

Lemma lookup_filter_none {A} x (P : string * A -> bool) (L : list (string * A)) :
  lookup x L = None -> lookup x (filter P L) = None.
Proof.
  induction L as [|[k w] L IH]; cbn; [reflexivity|].
  destruct (String.eqb x k) eqn:E; [discriminate|]. intro H.
  destruct (P (k, w)); cbn; [rewrite E|]; apply IH; exact H.
Qed.

Theorem propagate_keeps_own r r' x rs :
  propagate_child_resources_node r = Ok r' ->
  lookup x (res_dict (rresources r)) = Some rs ->
  lookup x (res_dict (rresources r')) = Some rs.
Proof.
  destruct r as [n t ips lo li p rsrc c rp cs ch]. cbn [propagate_child_resources_node]. intros H Hx.
  inversion H; subst; clear H. cbn [rresources] in *.
  set (own := res_dict rsrc) in *.
  match goal with |- context [dict_update own ?E] => set (extra := E) end.
  assert (Hextra : lookup x extra = None).
  { unfold extra, dict_update. rewrite lookup_app.
    assert (Hmk : forall ty o, lookup x (flat_map (fun kv : string * list string =>
                    match lookup (fst kv) own with
                    | Some _ => []
                    | None => [(fst kv, Build_resource (fst kv) ty (EOp o (map (fun cn => ESym (dot cn (fst kv))) (snd kv))))]
                    end) (collect_typed ty ch)) = None).
    { intros ty o. apply lookup_flat_map_none. intros [k v] _. cbn [fst snd].
      destruct (lookup k own) eqn:Ek; [reflexivity|]. cbn. destruct (String.eqb x k) eqn:E; [|reflexivity].
      apply String.eqb_eq in E. subst. congruence. }
    rewrite (lookup_override_none x _ _ (Hmk RAdditive OAdd)).
    apply lookup_filter_none. apply Hmk. }
  pose proof (lookup_dict_update_left x own extra rs Hx Hextra) as Hl.
  (* res_dict (map snd d) = d when every entry is keyed by its resource's name *)
  assert (Hkeyed : forall d : list (string * resource), (forall k v, In (k, v) d -> r_name v = k) -> res_dict (map snd d) = d).
  { induction d as [|[k v] d IHd]; intro Hk; [reflexivity|].
    change (res_dict (map snd ((k, v) :: d))) with ((r_name v, v) :: res_dict (map snd d)).
    rewrite (Hk k v (or_introl eq_refl)), IHd; [reflexivity|]. intros k' v' Hin. apply Hk. right. exact Hin. }
  rewrite Hkeyed; [exact Hl|].
  intros k v Hin. unfold dict_update in Hin. apply in_app_or in Hin. destruct Hin as [Hin|Hin].
  - apply in_map_iff in Hin. destruct Hin as [[k0 v0] [Heq Hin0]]. cbn [fst] in Heq.
    assert (Hown : r_name v0 = k0).
    { unfold own, res_dict in Hin0. apply in_map_iff in Hin0. destruct Hin0 as [z [Hz _]]. inversion Hz. reflexivity. }
    destruct (lookup k0 extra) eqn:Ee.
    + (* cannot happen for own names, but if it did the entry would be keyed consistently only via extra *)
      inversion Heq; subst. apply lookup_Some_in in Ee.
      unfold extra, dict_update in Ee. apply in_app_or in Ee. destruct Ee as [Ee|Ee].
      * apply in_map_iff in Ee. destruct Ee as [[k1 v1] [Heq1 Hin1]]. cbn [fst] in Heq1.
        apply in_flat_map in Hin1. destruct Hin1 as [kv [_ Hkv]].
        destruct (lookup (fst kv) own); [destruct Hkv|]. destruct Hkv as [Hkv|[]]. inversion Hkv; subst.
        destruct (lookup (fst kv) _) eqn:E2; inversion Heq1; subst; [|reflexivity].
        apply lookup_Some_in in E2. apply in_flat_map in E2. destruct E2 as [kv2 [_ Hkv2]].
        destruct (lookup (fst kv2) own); [destruct Hkv2|]. destruct Hkv2 as [Hkv2|[]]. inversion Hkv2; subst. reflexivity.
      * apply filter_In in Ee. destruct Ee as [Ee _]. apply in_flat_map in Ee. destruct Ee as [kv [_ Hkv]].
        destruct (lookup (fst kv) own); [destruct Hkv|]. destruct Hkv as [Hkv|[]]. inversion Hkv; subst. reflexivity.
    + inversion Heq; subst. first [reflexivity | exact Hown].
  - apply filter_In in Hin. destruct Hin as [Hin _].
    unfold extra, dict_update in Hin. apply in_app_or in Hin. destruct Hin as [Hin|Hin].
    + apply in_map_iff in Hin. destruct Hin as [[k1 v1] [Heq1 Hin1]]. cbn [fst] in Heq1.
      apply in_flat_map in Hin1. destruct Hin1 as [kv [_ Hkv]].
      destruct (lookup (fst kv) own); [destruct Hkv|]. destruct Hkv as [Hkv|[]]. inversion Hkv; subst.
      destruct (lookup (fst kv) _) eqn:E2; inversion Heq1; subst; [|reflexivity].
      apply lookup_Some_in in E2. apply in_flat_map in E2. destruct E2 as [kv2 [_ Hkv2]].
      destruct (lookup (fst kv2) own); [destruct Hkv2|]. destruct Hkv2 as [Hkv2|[]]. inversion Hkv2; subst. reflexivity.
    + apply filter_In in Hin. destruct Hin as [Hin _]. apply in_flat_map in Hin. destruct Hin as [kv [_ Hkv]].
      destruct (lookup (fst kv) own); [destruct Hkv|]. destruct Hkv as [Hkv|[]]. inversion Hkv; subst. reflexivity.
Qed.
