(* CompileTop.v — compile_routine (preprocessing + _compile at D = expr), the
   computed input_params, evaluate, and the comparison functions used by the
   case files.  Definitions only. *)
From Coq Require Import List String Ascii QArith ZArith Bool Qminmax.
From Bq Require Import Expr StdSem RepModel Routine Compile Preprocess Compare.
Import ListNotations.
Open Scope string_scope.

Definition compile_ir (r : routine) : result (ctree expr) :=
  go ev_subst statusE fv (S (height r)) r [].

Definition compile_routine (r : routine) : result (ctree expr) :=
  do ir <- preprocess r; compile_ir ir.

(* ---------- sorted(set(...)) of names ---------- *)
Fixpoint insert_str (x : string) (l : list string) : list string :=
  match l with
  | [] => [x]
  | y :: l' => if String.eqb x y then l else if String.ltb x y then x :: l else y :: insert_str x l'
  end.
Definition sort_dedup (l : list string) : list string := fold_right insert_str [] l.

(* new_input_params of _compile *)
Definition cinput_params (t : ctree expr) : list string :=
  let from_inputs := match ct_inputs t with
                     | [] => ct_src_params t
                     | ins => flat_map (fun kv => fv (snd kv)) ins
                     end in
  sort_dedup (from_inputs ++ flat_map (fun p => fv (snd (snd p))) (ct_ports t)).

(* ---------- evaluate (_evaluate_internal) ---------- *)
Definition subst_r (s : env) (e : expr) : result expr := ev_subst s e.

Definition eval_dseq (s : env) (q : dseq expr) : result (dseq expr) :=
  match q with
  | DConst m => do m' <- subst_r s m; Ok (DConst m')
  | DArith a d => do a' <- subst_r s a; do d' <- subst_r s d; Ok (DArith a' d')
  | DGeom x => do x' <- subst_r s x; Ok (DGeom x')
  | DClosed su pr n =>
      do su' <- match su with Some x => do y <- subst_r s x; Ok (Some y) | None => Ok None end;
      do pr' <- match pr with Some x => do y <- subst_r s x; Ok (Some y) | None => Ok None end;
      do n' <- subst_r s n; Ok (DClosed su' pr' n')
  | DCustom t it =>
      if mem it (keys s) || existsb (fun kv => mem it (fv (snd kv))) s then ECompile
      else do t' <- subst_r s t; Ok (DCustom t' it)
  end.

Fixpoint evaluate (s : env) (t : ctree expr) : result (ctree expr) :=
  match t with
  | CT n ty ins sp ports res conns rep cstrs kids =>
      do cstrs' <- mapM (fun c => let '(l, r, st) := c in
                                 do l' <- subst_r s l; do r' <- subst_r s r;
                                 match statusE l' r' with CViolated => ECompile | st' => Ok (l', r', st') end)
                       (filter (fun c => match snd c with CSatisfied => false | _ => true end) cstrs);
      do ports' <- mapM (fun p => do v <- subst_r s (snd (snd p)); Ok (fst p, (fst (snd p), v))) ports;
      do res' <- mapM (fun p => do v <- subst_r s (snd (snd p)); Ok (fst p, (fst (snd p), v))) res;
      do rep' <- match rep with
                 | None => Ok None
                 | Some (c, q) => do c' <- subst_r s c; do q' <- eval_dseq s q; Ok (Some (c', q'))
                 end;
      do kids' <- (fix go (l : list (ctree expr)) : result (list (ctree expr)) :=
                     match l with
                     | [] => Ok []
                     | k :: l' => do k' <- evaluate s k; do r <- go l'; Ok (k' :: r)
                     end) kids;
      Ok (CT n ty ins (sort_dedup (filter (fun x => negb (mem x (keys s))) sp)) ports' res' conns rep' cstrs' kids')
  end.

(* ---------- observables of an implementation run, as the case files state them ---------- *)

Inductive impl_result :=
| IOk (t : ctree expr)      (* inputs = [], src_params = the implementation's input_params *)
| IErr (cls : string).

Definition err_class {A} (r : result A) : string :=
  match r with
  | Ok _ => "ok"
  | ECompile => "BartiqCompilationError"
  | EPreprocess => "BartiqPreprocessingError"
  | ECapture => "capture"
  | EInternal _ => "internal"
  | EFuel => "fuel"
  end.

Definition find_ct {D} (n : string) (l : list (ctree D)) : option (ctree D) :=
  find (fun t => String.eqb (ct_name t) n) l.

Definition cmpx (inexact : bool) (r : string -> Q) (a b : expr) : nat :=
  cmp inexact (evalQ r a) (evalQ r b).

(* semantic comparison of two compiled trees at the given points: every resource
   and every port of every node, matched by name.  1 = differ (or missing), 0 = agree, 2 = undefined *)
(* the repetition of a node: count and sequence fields, compared field by field with comparison c *)
Definition cmp_rep (c : expr -> expr -> list nat) (ra rb : option (expr * dseq expr)) : list nat :=
  match ra, rb with
  | None, None => []
  | Some (ca, sa), Some (cb, sb) =>
      (c ca cb ++
       match sa, sb with
       | DConst m, DConst m' => c m m'
       | DArith x d, DArith x' d' => (c x x' ++ c d d')%list
       | DGeom q, DGeom q' => c q q'
       | DClosed su pr _, DClosed su' pr' _ =>
           (match su, su' with Some x, Some y => c x y | None, None => [] | _, _ => [1%nat] end ++
            match pr, pr' with Some x, Some y => c x y | None, None => [] | _, _ => [1%nat] end)%list
       | DCustom t i, DCustom t' i' => ((if String.eqb i i' then 0%nat else 1%nat) :: c t t')%list
       | _, _ => [1%nat]
       end)%list
  | _, _ => [1%nat]
  end.

Fixpoint cmp_trees (fuel : nat) (inexact : bool) (pts : list (string -> Q)) (a b : ctree expr) : list nat :=
  match fuel with
  | O => [1%nat]
  | S f =>
      let at_pts (x y : expr) := map (fun r => cmpx inexact r x y) pts in
      let res := flat_map (fun p => match lookup (fst p) (ct_resources b) with
                                    | Some (ty, v) => (if rtype_eqb ty (fst (snd p)) then 0%nat else 1%nat) :: at_pts (snd (snd p)) v
                                    | None => [1%nat]
                                    end) (ct_resources a) in
      let prt := flat_map (fun p => match lookup (fst p) (ct_ports b) with
                                    | Some (d, v) => (if dir_eqb d (fst (snd p)) then 0%nat else 1%nat) :: at_pts (snd (snd p)) v
                                    | None => [1%nat]
                                    end) (ct_ports a) in
      let sizes := [if Nat.eqb (List.length (ct_resources a)) (List.length (ct_resources b)) then 0%nat else 1%nat;
                    if Nat.eqb (List.length (ct_ports a)) (List.length (ct_ports b)) then 0%nat else 1%nat;
                    if Nat.eqb (List.length (ct_children a)) (List.length (ct_children b)) then 0%nat else 1%nat] in
      let kids := flat_map (fun k => match find_ct (ct_name k) (ct_children b) with
                                     | Some k' => cmp_trees f inexact pts k k'
                                     | None => [1%nat]
                                     end) (ct_children a) in
      (sizes ++ res ++ prt ++ cmp_rep at_pts (ct_rep a) (ct_rep b) ++ kids)%list
  end.

Fixpoint ct_height {D} (t : ctree D) : nat :=
  match t with CT _ _ _ _ _ _ _ _ _ kids => S (fold_right (fun c acc => Nat.max (ct_height c) acc) 0%nat kids) end.

Definition str_list_eqb (a b : list string) : bool :=
  Nat.eqb (List.length a) (List.length b) && forallb (fun xy => String.eqb (fst xy) (snd xy)) (combine a b).

(* input_params at every node: model's computed list vs the implementation's list *)
Fixpoint cmp_params (fuel : nat) (model impl : ctree expr) : list nat :=
  match fuel with
  | O => [1%nat]
  | S f =>
      (* sympy simplifies while substituting (x - x = 0), so the implementation may list fewer
         symbols than the syntactic model; it must never list one the model does not have *)
      (if forallb (fun x => mem x (cinput_params model)) (ct_src_params impl) then 0%nat else 1%nat)
        :: flat_map (fun k => match find_ct (ct_name k) (ct_children impl) with
                              | Some k' => cmp_params f k k'
                              | None => [1%nat]
                              end) (ct_children model)
  end.

Definition points_of (pts : list (list (string * Q))) : list (string -> Q) :=
  map (fun p => envQ p (dfltQ 0)) pts.

(* a repetition count is a natural number (C07's domain); at a point where some count of the hierarchy is negative
   or fractional the closed forms and sympy's conventions for empty / reversed ranges say different things, and
   neither is the property's business *)
Fixpoint counts_natural (fuel : nat) (rho : string -> Q) (t : ctree expr) : bool :=
  match fuel with
  | O => false
  | S f =>
      match ct_rep t with
      | Some (c, _) => match evalQ rho c with
                       | Some q => Qle_bool 0 q && Pos.eqb (Qden (Qred q)) 1
                       | None => false
                       end
      | None => true
      end && forallb (counts_natural f rho) (ct_children t)
  end.

(* The symbolic backend decides more equalities than the polynomial normal form of Compare.v does (Max(N + 2, N) - N is 2
   to sympy, an atom minus N to the model).  When the code rejects a constraint the model retains as UNDECIDED, the two
   agree as far as the model can tell provided the two sides of some retained undecided constraint differ BY ONE AND THE SAME
   non-zero amount at every sample point: C06 lets compilation fail exactly when the sizes differ for every assignment, and
   the backend says `unequal` exactly when the difference is a non-zero number. *)
Definition const_nonzero_difference (pts : list (string -> Q)) (l r : expr) : bool :=
  let ds := map (fun rho => match evalQ rho l, evalQ rho r with
                            | Some a, Some b => Some (Qred (a - b))
                            | _, _ => None
                            end) pts in
  match ds with
  | Some d :: rest => negb (Qeq_bool d 0) && forallb (fun x => match x with Some d' => Qeq_bool d d' | None => false end) rest
  | _ => false
  end.

(* (the sample points are laid over four default environments that give every name another value, so that "differ" means:
   by the SAME non-zero amount everywhere sampled -- which is what the backend's verdict `unequal` says) *)
Fixpoint undecided_but_violated (fuel : nat) (pts : list (string -> Q)) (t : ctree expr) : bool :=
  match fuel with
  | O => false
  | S f =>
      let pts' := (pts ++ [dfltQ 1; dfltQ 2; dfltQ 3; dfltQ 5])%list in
      existsb (fun c => match snd c with
                        | CInconclusive => const_nonzero_difference pts' (fst (fst c)) (snd (fst c))
                        | _ => false
                        end) (ct_constraints t)
      || existsb (undecided_but_violated f pts) (ct_children t)
  end.

(* tie: implementation vs model (compile_routine, or whatever model of the call is handed in) *)
Definition tie_model (model : result (ctree expr)) (impl : impl_result) (inexact : bool) (pts : list (list (string * Q))) : list nat :=
  match model, impl with
  | Ok m, IOk t => (cmp_trees (S (ct_height m)) inexact
                              (filter (fun rho => counts_natural (S (ct_height m)) rho m) (points_of pts)) m t
                    ++ cmp_params (S (ct_height m)) m t)%list
  | Ok m, IErr cls => [if String.eqb cls "BartiqCompilationError" && undecided_but_violated (S (ct_height m)) (points_of pts) m
                       then 0%nat else 1%nat]
  | res, IErr cls => [if String.eqb (err_class res) cls then 0%nat else 1%nat]
  | res, IOk _ => [1%nat]
  end.

Definition tie_compile (r : routine) (impl : impl_result) (inexact : bool) (pts : list (list (string * Q))) : list nat :=
  tie_model (compile_routine r) impl inexact pts.

(* debugging aid for the harness: values of every resource/port of both trees at one point *)
Fixpoint dbg_trees (fuel : nat) (r : string -> Q) (path : string) (a b : ctree expr)
  : list (string * string * option Q * option Q) :=
  match fuel with
  | O => []
  | S f =>
      (map (fun p => (path, fst p, evalQ r (snd (snd p)),
                      match lookup (fst p) (ct_resources b) with Some (_, v) => evalQ r v | None => None end)) (ct_resources a)
       ++ map (fun p => (path, hash_name (fst p), evalQ r (snd (snd p)),
                      match lookup (fst p) (ct_ports b) with Some (_, v) => evalQ r v | None => None end)) (ct_ports a)
       ++ flat_map (fun k => match find_ct (ct_name k) (ct_children b) with
                             | Some k' => dbg_trees f r (path ++ "/" ++ ct_name k) k k'
                             | None => [(path, ct_name k, None, None)]
                             end) (ct_children a))%list
  end.

Fixpoint dbg_params (fuel : nat) (path : string) (a b : ctree expr) : list (string * list string * list string) :=
  match fuel with
  | O => []
  | S f =>
      (if forallb (fun x => mem x (cinput_params a)) (ct_src_params b) then [] else [(path, cinput_params a, ct_src_params b)])
        ++ flat_map (fun k => match find_ct (ct_name k) (ct_children b) with
                              | Some k' => dbg_params f (path ++ "/" ++ ct_name k) k k'
                              | None => []
                              end) (ct_children a)
  end.


(* ---------- user-supplied function implementations (functions_map) ---------- *)
(* an implementation is given as parameter names and a body; every call f(args) is
   replaced by the body with the (already processed) arguments substituted *)
Definition fimpl := (string * (list string * expr))%type.

Fixpoint apply_funs (fm : list fimpl) (e : expr) : expr :=
  match e with
  | ENum _ | ESym _ => e
  | EOp (OFun f) args =>
      let args' := map (apply_funs fm) args in
      match lookup f fm with
      | Some (ps, body) => if Nat.eqb (List.length ps) (List.length args') then subst (combine ps args') body
                           else EOp (OFun f) args'
      | None => EOp (OFun f) args'
      end
  | EOp o args => EOp o (map (apply_funs fm) args)
  | EBig k i b lo hi => EBig k i (apply_funs fm b) (apply_funs fm lo) (apply_funs fm hi)
  end.

Fixpoint map_tree (f : expr -> expr) (t : ctree expr) : ctree expr :=
  match t with
  | CT n ty ins sp ports res conns rep cstrs kids =>
      CT n ty ins sp
         (map (fun p => (fst p, (fst (snd p), f (snd (snd p))))) ports)
         (map (fun p => (fst p, (fst (snd p), f (snd (snd p))))) res)
         conns
         (option_map (fun cs : expr * dseq expr =>
                        (f (fst cs),
                         match snd cs with
                         | DConst m => DConst (f m)
                         | DArith a d => DArith (f a) (f d)
                         | DGeom q => DGeom (f q)
                         | DClosed su pr n => DClosed (option_map f su) (option_map f pr) n
                         | DCustom t i => DCustom (f t) i
                         end)) rep)
         cstrs (map (map_tree f) kids)
  end.

(* ---------- comparisons used by the evaluation streams ---------- *)

(* values of tree a read in environment ra  vs  values of tree b read in environment rb *)
Fixpoint cmp_trees2 (fuel : nat) (c : option Q -> option Q -> nat) (ra rb : string -> Q) (a b : ctree expr) : list nat :=
  match fuel with
  | O => [1%nat]
  | S f =>
      let res := flat_map (fun p => match lookup (fst p) (ct_resources b) with
                                    | Some (_, v) => [c (evalQ ra (snd (snd p))) (evalQ rb v)]
                                    | None => [1%nat]
                                    end) (ct_resources a) in
      let prt := flat_map (fun p => match lookup (fst p) (ct_ports b) with
                                    | Some (_, v) => [c (evalQ ra (snd (snd p))) (evalQ rb v)]
                                    | None => [1%nat]
                                    end) (ct_ports a) in
      let kids := flat_map (fun k => match find_ct (ct_name k) (ct_children b) with
                                     | Some k' => cmp_trees2 f c ra rb k k'
                                     | None => [1%nat]
                                     end) (ct_children a) in
      ((if Nat.eqb (List.length (ct_resources a)) (List.length (ct_resources b)) then 0%nat else 1%nat)
         :: res ++ prt ++ cmp_rep (fun x y => [c (evalQ ra x) (evalQ rb y)]) (ct_rep a) (ct_rep b) ++ kids)%list
  end.

(* the environment after an assignment: assigned names read their value at r *)
Definition env_afterQ (r : string -> Q) (s : env) : option (string -> Q) :=
  match all_some (map (fun kv => match evalQ r (snd kv) with Some v => Some (fst kv, v) | None => None end) s) with
  | Some d => Some (fun x => match lookup x d with Some v => v | None => r x end)
  | None => None
  end.

Fixpoint params_equal (fuel : nat) (a b : ctree expr) : list nat :=
  match fuel with
  | O => [1%nat]
  | S f => (if str_list_eqb (ct_src_params a) (ct_src_params b) then 0%nat else 1%nat)
             :: flat_map (fun k => match find_ct (ct_name k) (ct_children b) with
                                   | Some k' => params_equal f k k'
                                   | None => [1%nat]
                                   end) (ct_children a)
  end.

(* input_params after evaluation = before minus the assigned names, at every node *)
Fixpoint params_removed (fuel : nat) (ks : list string) (before after : ctree expr) : list nat :=
  match fuel with
  | O => [1%nat]
  | S f => (if str_list_eqb (sort_dedup (filter (fun x => negb (mem x ks)) (ct_src_params before))) (ct_src_params after)
            then 0%nat else 1%nat)
             :: flat_map (fun k => match find_ct (ct_name k) (ct_children after) with
                                   | Some k' => params_removed f ks k k'
                                   | None => [1%nat]
                                   end) (ct_children before)
  end.

(* no symbol of ks occurs in any resource / port of the tree *)
Fixpoint no_symbols (fuel : nat) (ks : list string) (t : ctree expr) : bool :=
  match fuel with
  | O => false
  | S f => forallb (fun p => forallb (fun x => negb (mem x ks)) (fv (snd (snd p)))) (ct_resources t)
           && forallb (fun p => forallb (fun x => negb (mem x ks)) (fv (snd (snd p)))) (ct_ports t)
           && forallb (no_symbols f ks) (ct_children t)
  end.

Definition is_err (i : impl_result) : bool := match i with IErr _ => true | IOk _ => false end.

(* one evaluation case.
   compiled : the implementation's compiled tree
   s        : the assignment (in the order listed), fm : functions_map
   e1       : implementation's evaluate(compiled, s, fm)
   e2       : the same with the assignment listed in another order
   e3       : evaluate in two steps (s = s1 ++ s2, numeric, disjoint)      (IErr "skip" when not exercised)
   tie  = implementation vs model's evaluate
   spec = C05 itself, checked on the implementation's own trees *)
(* the 15-significant-digit clause of C05 on one resource of a child of an evaluated tree: the value the code reports
   against the exact value of the expression (a rational worked out from the assignment), within 6e-15 of it RELATIVELY
   (half a unit of the 15th digit is at most 5e-15 of the value; the conversion to a double adds about 1e-16) *)
Definition sig15 (t : impl_result) (child res : string) (exact : Q) : nat :=
  match t with
  | IOk tr =>
      match find_ct child (ct_children tr) with
      | Some k => match lookup res (ct_resources k) with
                  | Some (_, e) => cmpQ_rel (6 # 1000000000000000) (evalQ (dfltQ 0%Z) e) (Some exact)
                  | None => 2%nat
                  end
      | None => 2%nat
      end
  | IErr _ => 2%nat
  end.

Definition check_eval_case (compiled : ctree expr) (s : env) (fm : list fimpl) (self_ref : bool)
           (e1 e2 e3 : impl_result) (inexact : bool) (pts : list (list (string * Q))) : list nat * list nat :=
  let fuel := S (ct_height compiled) in
  (* C07's domain: every repetition count of the hierarchy is a natural number at the assigned point (a count linked from
     a port size such as L - N may come out negative: what a repetition over -14 rounds costs is nobody's business) *)
  let rs := filter (fun r => match env_afterQ r (map (fun kv => (fst kv, apply_funs fm (snd kv))) s) with
                             | Some r' => counts_natural fuel r' (map_tree (apply_funs fm) compiled)
                             | None => true
                             end) (points_of pts) in
  let model := match evaluate s compiled with Ok m => Ok (map_tree (apply_funs fm) m) | x => x end in
  let tie :=
      match model, e1 with
      | Ok m, IOk t => (flat_map (fun r => cmp_trees2 fuel (cmp inexact) r r m t) rs ++ params_equal fuel m t)%list
      | res, IErr cls =>
          (* (a substitution the model refuses because a value would be CAPTURED by a sum's dummy is what the code refuses
             with its own error: "tried to replace a symbol that is used as iterator") *)
          [if String.eqb (err_class res) cls
              || (String.eqb (err_class res) "capture" && String.eqb cls "BartiqCompilationError") then 0%nat else 1%nat]
      | res, IOk _ =>
          (* (with FLOATS among the values a size such as 10.125 against 3.125 differs by the float 7.0, which the backend
             does not take for a constant integer: it keeps the constraint undecided where the model, whose numbers are
             rationals, rejects it; nothing C05 or C06 says separates the two) *)
          if inexact && String.eqb (err_class res) "BartiqCompilationError" then [] else [1%nat]
      end in
  let spec :=
      match e1 with
      | IErr c1 =>
          (* an assignment that is rejected in one step must be rejected when supplied in several steps, and in any order *)
          let same (e : impl_result) := match e with
                                        | IOk _ => [1%nat]
                                        | IErr c => if String.eqb c "skip" || String.eqb c c1 then [] else [1%nat]
                                        end in
          (same e2 ++ same e3)%list
      | IOk t1 =>
          (* simultaneous: value of the result at r = value of the original at (r after s) *)
          (* (implementations of user functions also apply to calls inside the assigned values) *)
          (flat_map (fun r => match env_afterQ r (map (fun kv => (fst kv, apply_funs fm (snd kv))) s) with
                              | Some r' => cmp_trees2 fuel (cmp inexact) r r' t1 (map_tree (apply_funs fm) compiled)
                              | None => [2%nat]
                              end) rs
           (* remaining input parameters are exactly those not assigned *)
           ++ params_removed fuel (keys s) compiled t1
           (* order of the assignment is irrelevant *)
           ++ match e2 with
              | IOk t2 => (flat_map (fun r => cmp_trees2 fuel (cmp inexact) r r t1 t2) rs ++ params_equal fuel t1 t2)%list
              | IErr c => if String.eqb c "skip" then [] else [1%nat]
              end
           (* several steps = one step with the union *)
           ++ match e3 with
              | IOk t3 => (flat_map (fun r => cmp_trees2 fuel (cmp true) r r t1 t3) rs ++ params_equal fuel t1 t3)%list
              | IErr c => if String.eqb c "skip" then [] else [1%nat]
              end)%list
      end in
  (tie, spec).

(* ---------- C03: two compilations that differ by the renaming of one scope ---------- *)
(* back : top-level input of the renamed compilation |-> the input of the original it corresponds to *)
Definition rename_spec (i i' : impl_result) (back : list (string * string))
           (inexact : bool) (pts : list (list (string * Q))) : list nat :=
      match i, i' with
      | IOk t, IOk t' =>
          flat_map (fun ra => let rb := fun x => match lookup x back with Some y => ra y | None => ra x end in
                              cmp_trees2 (S (ct_height t)) (cmp inexact) ra rb t t') (points_of pts)
      | IErr a, IErr b => [if String.eqb a b then 0%nat else 1%nat]
      | _, _ => [1%nat]
      end.

(* a renaming ONTO the iterator symbol of a custom sequence further down: the renamed program may be refused (the code rejects
   substitutions that would touch an iterator); it must not compile to other numbers *)
Definition check_rename_case_refusable (r' : routine) (i i' : impl_result) (back : list (string * string))
           (inexact : bool) (pts : list (list (string * Q))) : list nat * list nat :=
  (tie_compile r' i' inexact pts,
   match i' with
   | IErr cls => if String.eqb cls "BartiqCompilationError" then [] else [1%nat]
   | _ => rename_spec i i' back inexact pts
   end).

Definition check_rename_case (r' : routine) (i i' : impl_result) (back : list (string * string))
           (inexact : bool) (pts : list (list (string * Q))) : list nat * list nat :=
  (tie_compile r' i' inexact pts, rename_spec i i' back inexact pts).

(* ---------- C09: the same routine listed in another order ---------- *)
(* retained constraints must agree as sets: same sides (semantically) and same status *)
Definition cstatus_eqb (a b : cstatus) : bool :=
  match a, b with CInconclusive, CInconclusive | CSatisfied, CSatisfied | CViolated, CViolated => true | _, _ => false end.

Fixpoint constraints_match (fuel : nat) (inexact : bool) (pts : list (string -> Q)) (a b : ctree expr) : list nat :=
  match fuel with
  | O => [1%nat]
  | S f =>
      let same (c d : expr * expr * cstatus) :=
          cstatus_eqb (snd c) (snd d) &&
          forallb (fun r => (Nat.eqb (cmpx inexact r (fst (fst c)) (fst (fst d))) 0
                             && Nat.eqb (cmpx inexact r (snd (fst c)) (snd (fst d))) 0)
                            || (Nat.eqb (cmpx inexact r (fst (fst c)) (snd (fst d))) 0
                                && Nat.eqb (cmpx inexact r (snd (fst c)) (fst (fst d))) 0)) pts in
      ((if Nat.eqb (List.length (ct_constraints a)) (List.length (ct_constraints b)) then 0%nat else 1%nat)
         :: map (fun c => if existsb (same c) (ct_constraints b) then 0%nat else 1%nat) (ct_constraints a)
         ++ flat_map (fun k => match find_ct (ct_name k) (ct_children b) with
                               | Some k' => constraints_match f inexact pts k k'
                               | None => [1%nat]
                               end) (ct_children a))%list
  end.

Definition check_permute_case (r' : routine) (i i' : impl_result) (inexact : bool) (pts : list (list (string * Q)))
  : list nat * list nat :=
  let tie := tie_compile r' i' inexact pts in
  let spec :=
      match i, i' with
      | IOk t, IOk t' =>
          (flat_map (fun ra => cmp_trees2 (S (ct_height t)) (cmp inexact) ra ra t t') (points_of pts)
           ++ params_equal (S (ct_height t)) t t'
           ++ constraints_match (S (ct_height t)) inexact (points_of pts) t t')%list
      | IErr a, IErr b => [if String.eqb a b then 0%nat else 1%nat]
      | _, _ => [1%nat]
      end in
  (tie, spec).
