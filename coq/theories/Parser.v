(* Parser.v -- the standard mathematical reading of bartiq's expression language:
   a lexer, a precedence-climbing parser with Python's table (additive below multiplicative below unary minus
   below right-associative power; the caret is read as power), a minimal-parentheses printer, and exact rational
   evaluation.  This is the SPECIFICATION side of C11/C12 (what a string ought to mean); the implementation
   (ast_parser.py + CPython's ast.parse + sympy) is compared against it by the streams.  Definitions only. *)
From Coq Require Import List String Ascii QArith ZArith Bool Qround Qreduction Qpower.
From Bq Require Import Expr StdSem.
Import ListNotations.
Open Scope string_scope.

Inductive binop := BAdd | BSub | BMul | BDiv | BFloorDiv | BMod | BPow.

Inductive pexpr :=
| PNum (q : Q)
| PSym (s : string)
| PBin (o : binop) (a b : pexpr)
| PNeg (a : pexpr)
| PCall (f : string) (args : list pexpr).

Inductive token := TNum (q : Q) | TName (s : string) | TOp (o : string) | TLParen | TRParen | TComma.

(* ---------- lexer ---------- *)
Definition is_digit (c : ascii) : bool := let n := nat_of_ascii c in Nat.leb 48 n && Nat.leb n 57.
Definition is_alpha (c : ascii) : bool :=
  let n := nat_of_ascii c in (Nat.leb 65 n && Nat.leb n 90) || (Nat.leb 97 n && Nat.leb n 122) || Nat.eqb n 95.
(* characters of a (namespaced, possibly port) identifier: letters, digits, _ . # *)
Definition is_name_char (c : ascii) : bool := is_alpha c || is_digit c || Ascii.eqb c "."%char || Ascii.eqb c "#"%char.
Definition is_space (c : ascii) : bool := Ascii.eqb c " "%char.

Fixpoint take_while (p : ascii -> bool) (s : string) : string * string :=
  match s with
  | EmptyString => (EmptyString, EmptyString)
  | String c s' => if p c then let '(a, b) := take_while p s' in (String c a, b) else (EmptyString, s)
  end.

Definition digit_val (c : ascii) : Z := Z.of_nat (nat_of_ascii c - 48).
Fixpoint digits_val (acc : Z) (s : string) : Z :=
  match s with EmptyString => acc | String c s' => digits_val (acc * 10 + digit_val c) s' end.
Fixpoint pow10 (n : nat) : positive := match n with O => 1%positive | S k => (10 * pow10 k)%positive end.

(* 12 | 12.5 | 1.5e-7 | 2E3   (.5 is not accepted: Python accepts it; the streams do not use it) *)
Definition lex_mantissa (s : string) : Q * string :=
  let '(ip, rest) := take_while is_digit s in
  match rest with
  | String "."%char rest' =>
      let '(fp, rest'') := take_while is_digit rest' in
      (Qred (Qmake (digits_val (digits_val 0 ip) fp) (pow10 (String.length fp))), rest'')
  | _ => (inject_Z (digits_val 0 ip), rest)
  end.

Definition scale10 (q : Q) (e : Z) : Q :=
  if Z.leb 0 e then Qred (q * inject_Z (Zpos (pow10 (Z.to_nat e)))) else Qred (q / inject_Z (Zpos (pow10 (Z.to_nat (- e))))).

Definition lex_number (s : string) : Q * string :=
  let '(m, rest) := lex_mantissa s in
  match rest with
  | String c rest' =>
      if Ascii.eqb c "e"%char || Ascii.eqb c "E"%char then
        match rest' with
        | String "-"%char r2 =>
            let '(ds, r3) := take_while is_digit r2 in
            if Nat.eqb (String.length ds) 0 then (m, rest) else (scale10 m (- digits_val 0 ds), r3)
        | String "+"%char r2 =>
            let '(ds, r3) := take_while is_digit r2 in
            if Nat.eqb (String.length ds) 0 then (m, rest) else (scale10 m (digits_val 0 ds), r3)
        | _ =>
            let '(ds, r3) := take_while is_digit rest' in
            if Nat.eqb (String.length ds) 0 then (m, rest) else (scale10 m (digits_val 0 ds), r3)
        end
      else (m, rest)
  | _ => (m, rest)
  end.

Fixpoint lex (fuel : nat) (s : string) : option (list token) :=
  match fuel with
  | O => None
  | S f =>
      match s with
      | EmptyString => Some []
      | String c s' =>
          if is_space c then lex f s'
          else if is_digit c then
                 let '(q, rest) := lex_number s in
                 match lex f rest with Some ts => Some (TNum q :: ts) | None => None end
          else if is_alpha c || Ascii.eqb c "#"%char then
                 let '(nm, rest) := take_while is_name_char s in
                 match lex f rest with Some ts => Some (TName nm :: ts) | None => None end
          else
            let two := match s' with String d _ => String c (String d EmptyString) | _ => EmptyString end in
            if String.eqb two "**" || String.eqb two "//" then
              match s' with String _ s'' => match lex f s'' with Some ts => Some (TOp two :: ts) | None => None end | _ => None end
            else if Ascii.eqb c "("%char then match lex f s' with Some ts => Some (TLParen :: ts) | None => None end
            else if Ascii.eqb c ")"%char then match lex f s' with Some ts => Some (TRParen :: ts) | None => None end
            else if Ascii.eqb c ","%char then match lex f s' with Some ts => Some (TComma :: ts) | None => None end
            else if Ascii.eqb c "^"%char then match lex f s' with Some ts => Some (TOp "**" :: ts) | None => None end
            else if existsb (Ascii.eqb c) ["+"%char; "-"%char; "*"%char; "/"%char; "%"%char] then
                   match lex f s' with Some ts => Some (TOp (String c EmptyString) :: ts) | None => None end
            else None
      end
  end.

(* ---------- parser ---------- *)
Definition binop_of (lvl : nat) (o : string) : option binop :=
  match lvl with
  | 0%nat => if String.eqb o "+" then Some BAdd else if String.eqb o "-" then Some BSub else None
  | 1%nat => if String.eqb o "*" then Some BMul else if String.eqb o "/" then Some BDiv
             else if String.eqb o "//" then Some BFloorDiv else if String.eqb o "%" then Some BMod else None
  | _ => None
  end.

(* levels: 0 additive, 1 multiplicative, 2 unary, 3 power, 4 atom *)
Fixpoint pe (fuel : nat) (lvl : nat) (ts : list token) {struct fuel} : option (pexpr * list token) :=
  match fuel with
  | O => None
  | S f =>
      match lvl with
      | 0%nat => match pe f 1 ts with Some (l, ts') => chain f 0 l ts' | None => None end
      | 1%nat => match pe f 2 ts with Some (l, ts') => chain f 1 l ts' | None => None end
      | 2%nat =>
          match ts with
          | TOp o :: ts' =>
              if String.eqb o "-" then match pe f 2 ts' with Some (a, r) => Some (PNeg a, r) | None => None end
              else if String.eqb o "+" then pe f 2 ts'
              else None
          | _ => pe f 3 ts
          end
      | 3%nat =>
          match pe f 4 ts with
          | Some (b, TOp o :: ts') =>
              if String.eqb o "**" then match pe f 2 ts' with Some (e, r) => Some (PBin BPow b e, r) | None => None end
              else Some (b, TOp o :: ts')
          | other => other
          end
      | _ =>
          match ts with
          | TNum q :: rest => Some (PNum q, rest)
          | TName n :: TLParen :: TRParen :: rest => Some (PCall n [], rest)
          | TName n :: TLParen :: rest =>
              match pargs f rest with Some (args, r) => Some (PCall n args, r) | None => None end
          | TName n :: rest => Some (PSym n, rest)
          | TLParen :: rest => match pe f 0 rest with Some (e, TRParen :: r) => Some (e, r) | _ => None end
          | _ => None
          end
      end
  end
with chain (fuel : nat) (lvl : nat) (lhs : pexpr) (ts : list token) {struct fuel} : option (pexpr * list token) :=
  match fuel with
  | O => None
  | S f =>
      match ts with
      | TOp o :: ts' =>
          match binop_of lvl o with
          | Some b => match pe f (S lvl) ts' with Some (r, ts'') => chain f lvl (PBin b lhs r) ts'' | None => None end
          | None => Some (lhs, ts)
          end
      | _ => Some (lhs, ts)
      end
  end
with pargs (fuel : nat) (ts : list token) {struct fuel} : option (list pexpr * list token) :=
  match fuel with
  | O => None
  | S f =>
      match pe f 0 ts with
      | Some (a, TComma :: r) => match pargs f r with Some (l, r') => Some (a :: l, r') | None => None end
      | Some (a, TRParen :: r) => Some ([a], r)
      | _ => None
      end
  end.

Definition parse_tokens (ts : list token) : option pexpr :=
  match pe (20 * List.length ts + 8) 0 ts with Some (e, []) => Some e | _ => None end.

Definition parse (s : string) : option pexpr :=
  match lex (S (String.length s)) s with Some ts => parse_tokens ts | None => None end.

(* ---------- printer with exactly the parentheses standard precedence requires ---------- *)
Definition prec (e : pexpr) : nat :=
  match e with
  | PBin (BAdd | BSub) _ _ => 1
  | PBin BPow _ _ => 4
  | PBin _ _ _ => 2
  | PNeg _ => 3
  | _ => 5
  end%nat.

Definition op_tok (o : binop) : string :=
  match o with BAdd => "+" | BSub => "-" | BMul => "*" | BDiv => "/" | BFloorDiv => "//" | BMod => "%" | BPow => "**" end.

Definition paren (b : bool) (ts : list token) : list token := if b then (TLParen :: ts ++ [TRParen])%list else ts.

Fixpoint ptoks (e : pexpr) : list token :=
  match e with
  | PNum q => [TNum q]
  | PSym s => [TName s]
  | PNeg a => (TOp "-" :: paren (Nat.ltb (prec a) 3) (ptoks a))%list
  | PBin BPow a b =>
      (paren (Nat.leb (prec a) 4) (ptoks a) ++ TOp "**" :: paren (Nat.ltb (prec b) 3) (ptoks b))%list
  | PBin o a b =>
      let p := prec (PBin o a b) in
      (paren (Nat.ltb (prec a) p) (ptoks a) ++ TOp (op_tok o) :: paren (Nat.leb (prec b) p) (ptoks b))%list
  | PCall f args =>
      (TName f :: TLParen ::
         (fix go (l : list pexpr) : list token :=
            match l with
            | [] => []
            | [a] => ptoks a
            | a :: l' => (ptoks a ++ TComma :: go l')%list
            end) args ++ [TRParen])%list
  end.

(* ---------- meaning ---------- *)
Definition lower_ascii (c : ascii) : ascii :=
  let n := nat_of_ascii c in if Nat.leb 65 n && Nat.leb n 90 then ascii_of_nat (n + 32) else c.
Fixpoint lower (s : string) : string :=
  match s with EmptyString => EmptyString | String c s' => String (lower_ascii c) (lower s') end.

Definition binop_op (o : binop) : op :=
  match o with BAdd => OAdd | BSub => OSub | BMul => OMul | BDiv => ODiv | BFloorDiv => OFloorDiv | BMod => OMod | BPow => OPow end.

(* builtins: the table (lower-case bartiq name |-> how the implementation's result is named in the interchange format)
   is generated from SPECIAL_FUNCS; names outside it stay uninterpreted, case preserved *)
Fixpoint to_expr (table : list (string * string)) (e : pexpr) : expr :=
  match e with
  | PNum q => ENum q
  | PSym s => ESym s
  | PBin o a b => EOp (binop_op o) [to_expr table a; to_expr table b]
  | PNeg a => EOp ONeg [to_expr table a]
  | PCall f args =>
      let args' := map (to_expr table) args in
      match lookup (lower f) table with
      | Some callee =>
          (* sum_over(body, i, lo, hi) / prod_over(...) are Sum / Product objects over the iterator symbol i *)
          if String.eqb (lower f) "sum_over" || String.eqb (lower f) "prod_over" then
            match args, args' with
            | [_; PSym i; _; _], [b; _; lo; hi] => EBig (if String.eqb (lower f) "sum_over" then BSum else BProd) i b lo hi
            | _, _ => EOp (OFun callee) args'
            end
          else
          if String.eqb callee "floor" then EOp OFloor args'
          else if String.eqb callee "ceiling" then EOp OCeil args'
          else if String.eqb callee "Max" then EOp OMax args'
          else if String.eqb callee "Min" then EOp OMin args'
          else if String.eqb callee "Mod" then EOp OMod args'
          else EOp (OFun callee) args'
      | None => EOp (OFun f) args'
      end
  end.

Definition evalP (table : list (string * string)) (r : string -> Q) (e : pexpr) : option Q := evalQ r (to_expr table e).

(* ---------- case files: a string, what the implementation made of it, points ---------- *)
Definition check_parse (table : list (string * string)) (s : string) (impl : option expr) (inexact : bool)
           (pts : list (list (string * Q))) : list nat * list nat :=
  match parse s, impl with
  | None, None => ([], [0%nat])                 (* not in the language: rejected by both *)
  | None, Some _ => ([], [1%nat])
  | Some p, None =>
      (* a string of the language must be read -- unless it has no value in standard arithmetic at any point
         (a literal division or modulo by zero such as x % (2 // 3)): refusing that is not a misreading *)
      if forallb (fun pt => match evalP table (envQ pt (dfltQ 0)) p with None => true | Some _ => false end) pts
      then ([], [2%nat]) else ([], [1%nat])
  | Some p, Some e =>
      ([], map (fun pt => let r := envQ pt (dfltQ 0) in
                          if inexact then cmpQ_tol (1 # 1000000000) (evalP table r p) (evalQ r e)
                          else match evalP table r p, evalQ r e with
                               | Some x, Some y =>
                                   (* integers are read exactly, however many digits they have *)
                                   if is_int x && is_int y then (if Qeq_bool x y then 0%nat else 1%nat)
                                   else cmpQ_rel (1 # 1000000000000) (Some x) (Some y)
                               | a, b => cmpQ_rel (1 # 1000000000000) a b
                               end) pts)
  end.

(* ---------- C12: an expression, the text the implementation wrote for it, and what it read back ---------- *)
Fixpoint fun_names (e : expr) : list string :=
  match e with
  | ENum _ | ESym _ => []
  | EOp (OFun f) args => f :: flat_map fun_names args
  | EOp _ args => flat_map fun_names args
  | EBig _ _ b lo hi => (fun_names b ++ fun_names lo ++ fun_names hi)%list
  end.

Fixpoint insert_sorted (x : string) (l : list string) : list string :=
  match l with [] => [x] | y :: l' => if String.leb x y then x :: l else y :: insert_sorted x l' end.
Definition sort_strings (l : list string) : list string := fold_right insert_sorted [] l.
Fixpoint slist_eqb (a b : list string) : bool :=
  match a, b with [] , [] => true | x :: a', y :: b' => String.eqb x y && slist_eqb a' b' | _, _ => false end.
Fixpoint nodup_sorted (l : list string) : list string :=
  match l with
  | x :: ((y :: _) as l') => if String.eqb x y then nodup_sorted l' else x :: nodup_sorted l'
  | _ => l
  end.

(* constants the printer spells in its own way *)
Fixpoint sympyish (e : expr) : expr :=
  match e with
  | ESym "PI" => EOp (OFun "<const>pi") []
  | EOp (OFun "exp") [ENum q] => if Qeq_bool q 1 then EOp (OFun "<const>E") [] else e
  | EOp (OFun "abs") args => EOp (OFun "Abs") (map sympyish args)     (* Python's abs() of a sympy object is the class Abs *)
  | EOp o args => EOp o (map sympyish args)
  | EBig k i b lo hi => EBig k i (sympyish b) (sympyish lo) (sympyish hi)
  | _ => e
  end.

(* numeric literals are kept to 15 significant digits: every float of the original appears (up to sign, which the
   printer may move into an operator) among the number tokens of the written text *)
Definition floats_kept (floats : list Q) (text : string) : nat :=
  match lex (S (String.length text)) text with
  | None => 2%nat
  | Some ts =>
      let nums := flat_map (fun t => match t with TNum q => [q] | _ => [] end) ts in
      if forallb (fun x => existsb (fun y => Nat.eqb (cmpQ_rel (1 # 100000000000000) (Some (Qabs' x)) (Some y)) 0) nums) floats
      then 0%nat else 1%nat
  end.

Fixpoint discontinuous (e : expr) : bool :=
  match e with
  | ENum _ | ESym _ => false
  | EOp (OFloor | OCeil | OMod | OFloorDiv) _ => true
  | EOp _ args => existsb discontinuous args
  | EBig _ _ b lo hi => discontinuous b || discontinuous lo || discontinuous hi
  end.

Definition check_roundtrip (table : list (string * string)) (a : expr) (floats : list Q) (text : string) (b : expr) (inexact fs_equal : bool)
           (pts : list (list (string * Q))) : list nat * list nat :=
  (* values: exact expressions to 1e-12; with floats, operations like mod amplify the 1e-15 rounding of a literal, so
     values are compared to 1e-9 and the literals themselves to 15 significant digits (literals_agree) *)
  let c (x y : option Q) :=
      if inexact then (if discontinuous a then 2%nat   (* floor/ceil/mod of a 15-digit float may jump: not a value comparison *)
                       else cmpQ_tol (1 # 1000000000) x y)
      else cmpQ_rel (1 # 1000000000000) x y in
  let b2n (x : bool) := if x then 0%nat else 1%nat in
  (* tie: the standard reading of the written text (model parser) has the value of the original *)
  let tie := match parse text with
             | Some p => map (fun pt => let r := envQ pt (dfltQ 0) in c (evalQ r (sympyish (to_expr table p))) (evalQ r a)) pts
             | None => [1%nat]
             end in
  (* spec: what the implementation reads back is mathematically equal, with the same free symbols and the same
     uninterpreted function calls *)
  let spec := (map (fun pt => let r := envQ pt (dfltQ 0) in c (evalQ r a) (evalQ r b)) pts
               ++ [floats_kept floats text; b2n fs_equal;
                   b2n (slist_eqb (nodup_sorted (sort_strings (fv a))) (nodup_sorted (sort_strings (fv b))));
                   b2n (slist_eqb (sort_strings (fun_names a)) (sort_strings (fun_names b)))])%list in
  (tie, spec).
