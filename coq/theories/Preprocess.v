(* Preprocess.v — the four default preprocessing stages of
   src/bartiq/compilation/preprocessing.py, clause by clause.  Definitions only. *)
From Coq Require Import List String Ascii QArith ZArith Bool.
From Bq Require Import Expr RepModel Routine.
From BqGen Require Import GenTables.
Import ListNotations.
Open Scope string_scope.

(* {**a, **b} keeping Python's key order: a's keys (values overridden by b), then b's new keys *)
Definition dict_update {A} (a b : list (string * A)) : list (string * A) :=
  (map (fun kv => match lookup (fst kv) b with Some v => (fst kv, v) | None => kv end) a
   ++ filter (fun kv => match lookup (fst kv) a with Some _ => false | None => true end) b)%list.

Definition set_children (r : routine) (ch : list routine) : routine :=
  match r with Routine n t ips lo li p rs c rp cs _ => Routine n t ips lo li p rs c rp cs ch end.

(* postorder_transform *)
Fixpoint postorder (f : routine -> result routine) (fuel : nat) (r : routine) : result routine :=
  match fuel with
  | O => EFuel
  | S k => do ch <- mapM (postorder f k) (rchildren r); f (set_children r ch)
  end.

(* ---------- propagate_child_resources ---------- *)

Fixpoint add_to_multimap (k v : string) (m : list (string * list string)) : list (string * list string) :=
  match m with
  | [] => [(k, [v])]
  | (k', vs) :: m' => if String.eqb k k' then (k', (vs ++ [v])%list) :: m' else (k', vs) :: add_to_multimap k v m'
  end.

Definition collect_typed (ty : rtype) (children : list routine) : list (string * list string) :=
  fold_left (fun m c =>
               fold_left (fun m' rs => if rtype_eqb (r_type rs) ty then add_to_multimap (r_name rs) (rname c) m' else m')
                         (rresources c) m)
            children [].

Definition res_dict (rs : list resource) : list (string * resource) := map (fun x => (r_name x, x)) rs.

Definition propagate_child_resources_node (r : routine) : result routine :=
  match r with
  | Routine n t ips lo li p rs c rp cs ch =>
      let own := res_dict rs in
      let mk (ty : rtype) (o : op) :=
          flat_map (fun kv => match lookup (fst kv) own with
                              | Some _ => []
                              | None => [(fst kv, Build_resource (fst kv) ty
                                                     (EOp o (map (fun cn => ESym (dot cn (fst kv))) (snd kv))))]
                              end) (collect_typed ty ch) in
      let extra := dict_update (mk RAdditive OAdd) (mk RMultiplicative OMul) in
      Ok (Routine n t ips lo li p (map snd (dict_update own extra)) c rp cs ch)
  end.

(* ---------- propagate_linked_params ---------- *)

Fixpoint split_first_dot_aux (acc s : string) : option (string * string) :=
  match s with
  | EmptyString => None
  | String c s' => if Ascii.eqb c "."%char then Some (acc, s') else split_first_dot_aux (acc ++ String c EmptyString) s'
  end.
Definition split_first_dot (s : string) : option (string * string) := split_first_dot_aux "" s.

Fixpoint update_child (n : string) (f : routine -> routine) (cs : list routine) : option (list routine) :=
  match cs with
  | [] => None
  | c :: cs' => if String.eqb (rname c) n then Some (f c :: cs')
                else match update_child n f cs' with Some r => Some (c :: r) | None => None end
  end.

Definition add_param_and_link (new_ip further param : string) (c : routine) : routine :=
  match c with
  | Routine n t ips lo li p rs cn rp cs ch =>
      Routine n t (ips ++ [new_ip])%list lo
              (* {new_input_param: ((further, param),), **old}: an existing entry of the same name wins *)
              (match lookup new_ip li with Some _ => li | None => (new_ip, [(further, param)]) :: li end)
              p rs cn rp cs ch
  end.

Fixpoint plp_targets (targets : list (string * string)) (children : list routine)
  : result (list (string * string) * list routine) :=
  match targets with
  | [] => Ok ([], children)
  | (path, param) :: rest =>
      match split_first_dot path with
      | Some (child_path, further) =>
          let new_ip := dot further param in
          do ch' <- of_opt (EInternal 9) (update_child child_path (add_param_and_link new_ip further param) children);
          do r <- plp_targets rest ch';
          Ok ((child_path, new_ip) :: fst r, snd r)
      | None =>
          do r <- plp_targets rest children;
          Ok ((path, param) :: fst r, snd r)
      end
  end.

Fixpoint plp_links (links : list (string * list (string * string))) (children : list routine)
  : result (list (string * list (string * string)) * list routine) :=
  match links with
  | [] => Ok ([], children)
  | (src, targets) :: rest =>
      do r1 <- plp_targets targets children;
      do r2 <- plp_links rest (snd r1);
      Ok ((src, fst r1) :: fst r2, snd r2)
  end.

Fixpoint propagate_linked_params (fuel : nat) (r : routine) : result routine :=
  match fuel with
  | O => EFuel
  | S k =>
      match r with
      | Routine n t ips lo li p rs c rp cs ch =>
          do lr <- plp_links li ch;
          do ch' <- mapM (propagate_linked_params k) (snd lr);
          Ok (Routine n t ips lo (fst lr) p rs c rp cs ch')
      end
  end.

(* ---------- promote_unlinked_inputs ---------- *)

Definition pair_mem (cp : string * string) (l : list (string * string)) : bool :=
  existsb (fun x => String.eqb (fst x) (fst cp) && String.eqb (snd x) (snd cp)) l.

Definition promote_unlinked_inputs_node (r : routine) : result routine :=
  match r with
  | Routine n t ips lo li p rs c rp cs ch =>
      let all_targets := flat_map snd li in
      let additional :=
          flat_map (fun child =>
                      flat_map (fun ip => if pair_mem (rname child, ip) all_targets then []
                                          else [(dot (rname child) ip, [(rname child, ip)])])
                               (rparams child)) ch in
      Ok (Routine n t (ips ++ keys (dict_norm additional))%list lo (dict_update li additional) p rs c rp cs ch)
  end.

(* ---------- introduce_port_variables ---------- *)

Definition is_single_parameter (e : expr) : bool := match e with ESym _ => true | _ => false end.
Definition is_constant_int (e : expr) : bool :=
  match e with ENum q => Pos.eqb (Qden q) 1 | _ => false end.

(* _sort_key = (not is_single_parameter(size), name), compared as Python tuples *)
Definition port_le (a b : port) : bool :=
  let ka := negb (is_single_parameter (p_size a)) in
  let kb := negb (is_single_parameter (p_size b)) in
  match ka, kb with
  | false, true => true
  | true, false => false
  | _, _ => String.leb (p_name a) (p_name b)
  end.

Fixpoint insert_port (p : port) (l : list port) : list port :=
  match l with
  | [] => [p]
  | q :: l' => if port_le p q then p :: q :: l' else q :: insert_port p l'
  end.
Definition sort_ports (l : list port) : list port := fold_right insert_port [] l.

Record ipv_state := {
  st_ports : list port; st_locals : list (string * expr);
  st_params : list string; st_constraints : list constraint }.

Definition mk_constraint (l r : expr) : constraint := Build_constraint l r CInconclusive.

Fixpoint ipv_loop (ips : list string) (locals : list (string * expr)) (ps : list port) (st : ipv_state)
  : result ipv_state :=
  match ps with
  | [] => Ok st
  | p :: rest =>
      let nvn := hash_name (p_name p) in
      let nv := ESym nvn in
      let finish (al : list (string * expr)) (cs : list constraint) :=
          ipv_loop ips locals rest
                   {| st_ports := (st_ports st ++ [Build_port (p_name p) (p_dir p) nv])%list;
                      st_locals := al;
                      st_params := (st_params st ++ [nvn])%list;
                      st_constraints := cs |} in
      match p_size p with
      | ESym s =>
          if String.eqb s nvn then finish (st_locals st) (st_constraints st)
          else if mem s ips || mem s (keys locals)
          then (* the symbol is a declared parameter or local variable: the port does not define it, it has to agree with it *)
               finish (st_locals st) (st_constraints st ++ [mk_constraint nv (ESym s)])%list
          else match lookup s (st_locals st) with
               | None => finish (st_locals st ++ [(s, nv)])%list (st_constraints st)
               | Some v => finish (st_locals st) (st_constraints st ++ [mk_constraint nv v])%list
               end
      | sz =>
          if is_constant_int sz then finish (st_locals st) (st_constraints st ++ [mk_constraint nv sz])%list
          else
            let missing := filter (fun x => negb (mem x ips) && negb (mem x (keys locals))
                                            && negb (mem x (keys (st_locals st)))) (fv sz) in
            match missing with
            | _ :: _ => EPreprocess
            | [] =>
                let new_size := subst (st_locals st) sz in
                finish (st_locals st) (st_constraints st ++ [mk_constraint nv new_size])%list
            end
      end
  end.

Definition introduce_port_variables_node (r : routine) : result routine :=
  match r with
  | Routine n t ips lo li p rs c rp cs ch =>
      let non_out := filter (fun q => negb (dir_eqb (p_dir q) DOut)) p in
      do st <- ipv_loop ips lo (sort_ports non_out) {| st_ports := []; st_locals := []; st_params := []; st_constraints := [] |};
      Ok (Routine n t (ips ++ st_params st)%list (dict_update lo (st_locals st)) li
                  (st_ports st ++ filter (fun q => dir_eqb (p_dir q) DOut) p)%list
                  rs c rp (cs ++ st_constraints st)%list ch)
  end.

(* applies to the children of the root only (each in postorder) *)
Definition introduce_port_variables (fuel : nat) (r : routine) : result routine :=
  do ch <- mapM (postorder introduce_port_variables_node fuel) (rchildren r);
  Ok (set_children r ch).

(* ---------- the pipeline, in the order generated from DEFAULT_PREPROCESSING_STAGES ---------- *)

Definition stage_by_name (s : string) (fuel : nat) (r : routine) : result routine :=
  if String.eqb s "propagate_child_resources" then postorder propagate_child_resources_node fuel r
  else if String.eqb s "propagate_linked_params" then propagate_linked_params fuel r
  else if String.eqb s "promote_unlinked_inputs" then postorder promote_unlinked_inputs_node fuel r
  else if String.eqb s "introduce_port_variables" then introduce_port_variables fuel r
  else EInternal 20.

Definition preprocess (r : routine) : result routine :=
  fold_left (fun acc s => do x <- acc; stage_by_name s (S (height x)) x) gen_preprocessing_stages (Ok r).
