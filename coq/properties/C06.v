(* C06 -- Size mismatches are always detected; consistent sizes are never rejected.
   [statusE] (theories/Compare.v) models SympyBackend.compare (expand the difference; 0 = equal, a non-zero integer
   literal = unequal, else ambiguous) by a polynomial normal form; evalT is the standard rational reading.
   Proved: the verdicts are SOUND for every pair of expressions and every assignment, the failure of a constraint
   evaluation can only come from a 'violated' verdict, and integer literals -- more generally any two closed
   arithmetic terms, whatever shape they are written in -- are decided completely, by value.
   Exercised by the stream size-mismatch (partial): that the constraints preprocessing generates are the right
   ones for every re-declared port (constant, repeated symbol, compound over parameters and locals), i.e. that
   mismatch at the port <=> BartiqCompilationError, against the bottom-up denotation. *)
From Coq Require Import List String QArith ZArith.
From Bq Require Import Expr StdSem RepModel Routine Compare Compile CompareFacts CompareClosedFacts Preprocess PortVarFacts.
Import ListNotations.
Open Scope Q_scope.

(* never reject a consistent routine: a failing constraint evaluation always goes back to a 'violated' verdict ... *)
Theorem C06_failure_means_violated : forall env cs,
  eval_constraints ev_subst statusE env cs = ECompile ->
  exists c l r, In c cs /\ ev_subst env (c_lhs c) = Ok l /\ ev_subst env (c_rhs c) = Ok r /\ statusE l r = CViolated.
Proof. exact constraint_failure_means_violated. Qed.
Print Assumptions C06_failure_means_violated.

(* ... and 'violated' is only said of two sizes that differ by the same non-zero integer under EVERY assignment
   (so compilation itself fails only if the sizes differ for every assignment, and evaluation with an assignment
   fails only if the sizes really differ under it) *)
Theorem C06_violated_sound : forall l r,
  statusE l r = CViolated -> exists z : Z, z <> 0%Z /\ forall rho, evalT rho l - evalT rho r == inject_Z z.
Proof. exact statusE_violated_sound. Qed.
Print Assumptions C06_violated_sound.

Theorem C06_violated_never_equal : forall l r, statusE l r = CViolated -> forall rho, ~ evalT rho l == evalT rho r.
Proof. exact violated_never_equal. Qed.
Print Assumptions C06_violated_never_equal.

(* a constraint is dropped as satisfied only if the two sizes agree under every assignment *)
Theorem C06_satisfied_sound : forall l r, statusE l r = CSatisfied -> forall rho, evalT rho l == evalT rho r.
Proof. exact statusE_satisfied_sound. Qed.
Print Assumptions C06_satisfied_sound.

(* detection: two integer sizes are always decided, equal or not *)
Theorem C06_integers_decided : forall a b, statusE (EZ a) (EZ b) = if Z.eqb a b then CSatisfied else CViolated.
Proof. exact statusE_integers. Qed.
Print Assumptions C06_integers_decided.

(* ... and so are two closed arithmetic terms of any shape (numbers under + - * / // % ** max min floor ceiling): they are
   compared BY VALUE (cfold is the value the backend works out on the spot), never left undecided when the sizes are integers *)
Theorem C06_closed_terms_compared_by_value : forall l r a b,
  cfold l = Some a -> cfold r = Some b ->
  statusE l r = if Qeq_bool a b then CSatisfied
                else match q_int (a - b) with Some _ => CViolated | None => CInconclusive end.
Proof. exact statusE_closed. Qed.
Print Assumptions C06_closed_terms_compared_by_value.

Theorem C06_closed_integer_sizes_decided : forall l r (x y : Z),
  cfold l = Some (inject_Z x) -> cfold r = Some (inject_Z y) ->
  statusE l r = if Z.eqb x y then CSatisfied else CViolated.
Proof. exact closed_integer_sizes_decided. Qed.
Print Assumptions C06_closed_integer_sizes_decided.

(* the folded value is the value: what cfold returns is what every assignment gives the term *)
Theorem C06_folded_value_is_the_value : forall rho e q, cfold e = Some q -> evalT rho e = q.
Proof. exact cfold_sound. Qed.
Print Assumptions C06_folded_value_is_the_value.

(* a port whose declared size is a declared PARAMETER or LOCAL VARIABLE of the routine (input_params: [N], port size: N;
   local_variables: {L: 2*M}, port size: L) yields the constraint `#port = N`: the incoming size is compared with the value
   the routine gives the name (findings F25, F26: the port used to DEFINE the name instead -- the parameter then overrode
   that definition, the user's local definition became dead code -- and nothing was ever compared) *)
Theorem C06_port_sized_by_a_declared_name_is_checked_against_it : forall r r',
  introduce_port_variables_node r = Ok r' ->
  forall p s, In p (rports r) -> p_dir p <> DOut -> p_size p = ESym s -> s <> hash_name (p_name p) ->
              (mem s (rparams r) || mem s (keys (rlocals r))) = true ->
              In (mk_constraint (ESym (hash_name (p_name p))) (ESym s)) (rconstraints r').
Proof. exact ipv_parameter_sized_port. Qed.
Print Assumptions C06_port_sized_by_a_declared_name_is_checked_against_it.

(* Max / Min of terms that differ by constants are worked out like the symbolic backend does (Max(N + 2, N) is N + 2): a port
   fed max(N + 2, N) - N qubits against a declaration of 6 is a VIOLATED constraint, against 2 a satisfied one *)
Example C06_max_of_shifted_terms_decided :
  let N := ESym "N" in
  let fed := EOp OSub [EOp OMax [eadd N (EZ 2); N]; N] in
  statusE fed (EZ 6) = CViolated /\ statusE fed (EZ 2) = CSatisfied /\ statusE (EOp OMin [N; eadd N (EZ 1); N]) N = CSatisfied.
Proof. vm_compute. repeat split; reflexivity. Qed.

(* non-vacuity: a symbolic consistent pair, a symbolic contradiction, an undecided pair *)
Example C06_nonvacuous :
  let N := ESym "N" in
  statusE (emul (EZ 2) (eadd N (EZ 1))) (eadd (emul N (EZ 2)) (EZ 2)) = CSatisfied /\
  statusE (eadd N (EZ 1)) N = CViolated /\
  statusE N (EZ 3) = CInconclusive.
Proof. repeat split; vm_compute; reflexivity. Qed.

(* no declaration is lost on the way to the comparison: after introduce_port_variables, for every input / through
   port p of the routine -- a constant or a compound size reappears as a retained constraint `#p = size` (the
   constant literally), a symbol seen at an earlier port reappears as a constraint between the two port variables,
   a new symbol becomes a local variable defined by the port variable *)
Theorem C06_every_declaration_becomes_a_constraint_or_a_definition : forall r r',
  introduce_port_variables_node r = Ok r' ->
  forall p, In p (rports r) -> p_dir p <> DOut ->
    match p_size p with
    | ESym s =>
        s = hash_name (p_name p)
        \/ (exists v, lookup s (rlocals r') = Some v)
        \/ (exists v, In (mk_constraint (ESym (hash_name (p_name p))) v) (rconstraints r'))
    | sz =>
        exists rhs, In (mk_constraint (ESym (hash_name (p_name p))) rhs) (rconstraints r')
                    /\ (is_constant_int sz = true -> rhs = sz)
    end.
Proof. exact ipv_declarations_accounted. Qed.
Print Assumptions C06_every_declaration_becomes_a_constraint_or_a_definition.
