From Coq Require Import List String.
From Bq Require Import Expr ExprFacts.
Import ListNotations.
Theorem C06_placeholder : forall e, subst [] e = e.
Proof. exact subst_nil. Qed.
Print Assumptions C06_placeholder.
