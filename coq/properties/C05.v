(* C05 — Evaluation is simultaneous substitution, composable and order-free.
   Statements only; proofs are [exact <lemma of theories/EvaluateFacts.v>].
   [evaluate] is the model of _evaluate_internal (theories/CompileTop.v); [vals_of rho t] are the
   values of every port, resource and repetition field of every node of t at the point rho,
   for an arbitrary carrier V and interpretation I of the operators. *)
From Coq Require Import List String QArith Permutation.
From Bq Require Import Expr ExprFacts RepModel Routine Compare Compile CompileTop EvaluateFacts.
Import ListNotations.
Open Scope string_scope.

(* the order in which a (duplicate-free) assignment is listed is irrelevant: identical result *)
Theorem C05_order_free : forall s s' t,
  NoDup (keys s) -> Permutation s s' -> evaluate s t = evaluate s' t.
Proof. exact evaluate_perm. Qed.
Print Assumptions C05_order_free.

(* all at once: the result read at rho is the original read where every assigned input has its value at rho *)
Theorem C05_simultaneous :
  forall (V : Type) (ofQ : Q -> V) (I : op -> list V -> V) (B : bigop -> (V -> V) -> V -> V -> V),
    (forall k f g lo hi, (forall v, f v = g v) -> B k f lo hi = B k g lo hi) ->
    forall s t t' rho,
      evaluate s t = Ok t' ->
      vals_of V ofQ I B rho t' = vals_of V ofQ I B (env_after ofQ I B rho s) t.
Proof. exact evaluate_sound. Qed.
Print Assumptions C05_simultaneous.

(* several steps with closed (numeric) values = one step with the union *)
Theorem C05_compose :
  forall (V : Type) (ofQ : Q -> V) (I : op -> list V -> V) (B : bigop -> (V -> V) -> V -> V -> V),
    (forall k f g lo hi, (forall v, f v = g v) -> B k f lo hi = B k g lo hi) ->
    forall s1 s2 t t1 t2 t12 rho,
      closed_env s1 ->
      evaluate s1 t = Ok t1 -> evaluate s2 t1 = Ok t2 -> evaluate (s1 ++ s2)%list t = Ok t12 ->
      vals_of V ofQ I B rho t2 = vals_of V ofQ I B rho t12.
Proof. exact evaluate_compose. Qed.
Print Assumptions C05_compose.

(* an empty assignment changes no expression *)
Theorem C05_empty : forall e, ev_subst [] e = Ok e.
Proof. exact ev_subst_nil. Qed.
Print Assumptions C05_empty.

(* unassigned inputs are untouched *)
Theorem C05_untouched : forall s e e' x,
  ev_subst s e = Ok e' -> lookup x s = None ->
  (forall y v, lookup y s = Some v -> ~ In x (fv v)) ->
  (In x (fv e') <-> In x (fv e)).
Proof. exact ev_subst_untouched. Qed.
Print Assumptions C05_untouched.

(* the remaining input parameters are exactly those not assigned (sorted, as the code returns them) *)
Theorem C05_params : forall s t t',
  evaluate s t = Ok t' ->
  ct_src_params t' = sort_dedup (filter (fun x => negb (mem x (keys s))) (ct_src_params t)).
Proof. exact evaluate_params. Qed.
Print Assumptions C05_params.

(* sequential substitution (the pinned tree's behaviour) is refuted *)
Theorem C05_seq_refuted : subst_seq swap_env swap_expr <> subst swap_env swap_expr.
Proof. exact subst_seq_not_simultaneous. Qed.
Print Assumptions C05_seq_refuted.

(* non-vacuity: {N := M+1, M := 3} on T = N + M evaluates, and M does not leak into N's value *)
Example C05_nonvacuous :
  let t := CT "r" None [] ["M"; "N"] [] [("T", (RAdditive, eadd (ESym "N") (ESym "M")))] [] None [] [] in
  exists t', evaluate [("N", eadd (ESym "M") (EZ 1)); ("M", EZ 3)] t = Ok t' /\
             ct_resources t' = [("T", (RAdditive, eadd (eadd (ESym "M") (EZ 1)) (EZ 3)))] /\ ct_src_params t' = [].
Proof. eexists. repeat split; vm_compute; reflexivity. Qed.
