(* C18 — Rendering is total and complete on every routine bartiq accepts.
   Tables regenerated from src/bartiq/integrations/latex.py on every run (GenLatex.v): the port directions that
   have a section, the attribute sections, and whether the subscript formatter falls back to text when a part
   around the first underscore is empty.  sympy's latex() on expressions is an oracle (exercised by the streams). *)
From Coq Require Import List String Bool.
From Bq Require Import Latex LatexFacts.
From BqGen Require Import GenLatex.
Import ListNotations.
Open Scope string_scope.

(* every port has a section to be rendered in, whatever its direction *)
Theorem C18_every_port_direction_has_a_section : all_port_directions_rendered = true.
Proof. reflexivity. Qed.
Print Assumptions C18_every_port_direction_has_a_section.

(* input parameters have a section; resources are rendered by _format_resources (checked by the translator) *)
Theorem C18_input_params_have_a_section : In "input_params" gen_latex_attr_sections.
Proof. cbn. auto. Qed.
Print Assumptions C18_input_params_have_a_section.

(* no legal name makes the name formatting raise *)
Theorem C18_names_never_raise : forall p, p <> "" -> name_raises p = false.
Proof. exact (fun p => no_name_raises p eq_refl). Qed.
Print Assumptions C18_names_never_raise.
