(* C18 — Rendering is total and complete on every routine bartiq accepts.
   Tables regenerated from src/bartiq/integrations/latex.py on every run (GenLatex.v): the port directions that
   have a section, the attribute sections, and whether the subscript formatter falls back to text when a part
   around the first underscore is empty.  sympy's latex() on expressions is an oracle (exercised by the streams). *)
From Coq Require Import List String Bool Permutation.
From Bq Require Import Expr Routine Latex LatexFacts LatexWalkFacts.
From BqGen Require Import GenLatex.
Import ListNotations.
Open Scope string_scope.

(* every port has a section to be rendered in, whatever its direction *)
Theorem C18_every_port_direction_has_a_section : all_port_directions_rendered = true.
Proof. reflexivity. Qed.
Print Assumptions C18_every_port_direction_has_a_section.

(* input parameters have a section; resources are rendered by _format_resources (checked by the translator) *)
Theorem C18_input_params_have_a_section : In "input_params" gen_latex_attr_sections.
Proof. cbn. auto. Qed.
Print Assumptions C18_input_params_have_a_section.

(* no legal name makes the name formatting raise *)
Theorem C18_names_never_raise : forall p, p <> "" -> name_raises p = false.
Proof. exact (fun p => no_name_raises p eq_refl). Qed.
Print Assumptions C18_names_never_raise.

(* ---------- completeness of the rendering: the traversal and the assembly of the sections, translated from latex.py ---------- *)

(* _walk yields every routine of the hierarchy exactly once (any depth, any fan-out) *)
Theorem C18_walk_reaches_every_subroutine : forall r, Permutation (gen_latex_walk r) (subroutines r).
Proof. exact walk_is_every_subroutine. Qed.
Print Assumptions C18_walk_reaches_every_subroutine.

(* unless disabled, every resource of every routine of the hierarchy has a line: the root's under its bare name, a
   subroutine's under that subroutine's name; and there are exactly as many lines as resources *)
Theorem C18_every_resource_has_a_line : forall r s x,
  In s (subroutines r) -> In x (rresources s) ->
  (s = r /\ In (None, r_name x) (gen_latex_resource_lines r true))
  \/ In (Some (rname s), r_name x) (gen_latex_resource_lines r true).
Proof. exact every_resource_has_a_line. Qed.
Print Assumptions C18_every_resource_has_a_line.

Theorem C18_resource_lines_count : forall r,
  List.length (gen_latex_resource_lines r true) = resources_of (subroutines r) /\
  List.length (gen_latex_resource_lines r false) = List.length (rresources r).
Proof. exact (fun r => conj (resource_lines_count_all r) (resource_lines_count_root r)). Qed.
Print Assumptions C18_resource_lines_count.

(* with subroutine resources disabled the top-level routine's resources are still all there *)
Theorem C18_root_resources_always_listed : forall r x flag, In x (rresources r) -> In (None, r_name x) (gen_latex_resource_lines r flag).
Proof. exact root_resources_have_lines. Qed.
Print Assumptions C18_root_resources_always_listed.

(* every port of the top-level routine has a line in the section of its direction, and nothing is listed twice *)
Theorem C18_every_port_has_a_line : forall r p, In p (rports r) -> In (p_dir p, p_name p) (gen_latex_port_lines r).
Proof. exact every_port_has_a_line. Qed.
Print Assumptions C18_every_port_has_a_line.

Theorem C18_port_lines_count : forall r, List.length (gen_latex_port_lines r) = List.length (rports r).
Proof. exact port_lines_count. Qed.
Print Assumptions C18_port_lines_count.

Theorem C18_every_input_param_has_an_entry : forall r x, In x (rparams r) -> In x (gen_latex_param_entries r).
Proof. exact every_input_param_has_an_entry. Qed.
Print Assumptions C18_every_input_param_has_an_entry.

Example C18_walk_nonvacuous :
  let leaf n := Routine n None [] [] [] [] [Build_resource "T" RAdditive (ESym "N")] [] None [] [] in
  let mid := Routine "m" None [] [] [] [] [] [] None [] [leaf "x"; leaf "y"] in
  let root := Routine "root" None [] [] [] [] [Build_resource "Q" ROther (ESym "N")] [] None [] [mid] in
  map rname (gen_latex_walk root) = ["x"; "y"; "m"; "root"] /\
  gen_latex_resource_lines root true = [(None, "Q"); (Some "x", "T"); (Some "y", "T")] /\
  gen_latex_resource_lines root false = [(None, "Q")].
Proof. repeat split; vm_compute; reflexivity. Qed.
