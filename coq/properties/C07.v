(* C07 — Repetition arithmetic equals the unrolled sum.
   Statements only; every proof is [exact <lemma of theories/Rep.v>].
   gen_* are generated from the current src/bartiq/repetitions.py. *)
From Coq Require Import List String QArith ZArith.
From Bq Require Import Expr ExprFacts StdSem Rep RepModel Routine Compare Compile CompileFacts Derived DerivedFacts.
From BqGen Require Import GenRepetitions.
Import ListNotations.
Open Scope Q_scope.

(* additive resource, constant sequence: sum over i < count of multiplier * child *)
Theorem C07_const_sum : forall r m e cnt n,
  evalT r cnt == ofn n ->
  exists g, gen_ConstantSequence_get_sum m e cnt = Some g /\
            evalT r g == sumn n (fun _ => evalT r m * evalT r e).
Proof. exact const_sum_correct. Qed.
Print Assumptions C07_const_sum.

(* arithmetic: i-th term is initial_term + i * difference *)
Theorem C07_arith_sum : forall r a d e cnt n,
  evalT r cnt == ofn n ->
  exists g, gen_ArithmeticSequence_get_sum a d e cnt = Some g /\
            evalT r g == sumn n (fun i => (evalT r a + ofn i * evalT r d) * evalT r e).
Proof. exact arith_sum_correct. Qed.
Print Assumptions C07_arith_sum.

(* geometric, ratio other than 1: i-th term is ratio ^ i *)
Theorem C07_geom_sum : forall r q e cnt n,
  evalT r cnt == ofn n -> ~ evalT r q == 1 ->
  exists g, gen_GeometricSequence_get_sum q e cnt = Some g /\
            evalT r g == sumn n (fun i => Qpower (evalT r q) (Z.of_nat i) * evalT r e).
Proof. exact geom_sum_correct. Qed.
Print Assumptions C07_geom_sum.

(* custom: i-th term is term_expression with the iterator set to i *)
Theorem C07_custom_sum : forall r term it e cnt n,
  evalT r cnt == ofn n -> ~ In it (fv e) ->
  exists g, gen_CustomSequence_get_sum term it e cnt = Some g /\
            evalT r g == sumn n (fun k => evalT (upd r it (ofn k)) term * evalT r e).
Proof. exact custom_sum_correct. Qed.
Print Assumptions C07_custom_sum.

(* closed form: child times the user's sum formula taken at count *)
Theorem C07_closed_sum : forall r (s : expr) prod nts e cnt,
  captures [(nts, cnt)] s = false ->
  exists g, gen_ClosedFormSequence_get_sum (Some s) prod nts e cnt = Some g /\
            evalT r g == evalT r e * evalT (upd r nts (evalT r cnt)) s.
Proof. exact closed_sum_correct. Qed.
Print Assumptions C07_closed_sum.

(* multiplicative resource, constant sequence: child ^ (count * multiplier) *)
Theorem C07_const_prod : forall r m e cnt n k,
  evalT r cnt == ofn n -> evalT r m == ofn k ->
  exists g, gen_ConstantSequence_get_prod m e cnt = Some g /\
            evalT r g == prodn n (fun _ => Qpower (evalT r e) (Z.of_nat k)).
Proof. exact const_prod_correct. Qed.
Print Assumptions C07_const_prod.

(* embedded at any level, for DERIVED resources too: compilation with derived resources (Derived.go_d, the model of
   `_add_derived_resources`) is natural like plain compilation -- reading the compiled hierarchy at rho gives what the same
   traversal computes directly over values -- provided each calculator commutes with taking values.  So the resource a
   calculator adds to a child enters the repeated parent's sum exactly as a declared one does (the clause of the traversal
   that builds the sum walks the compiled child's resources, whatever put them there). *)
Theorem C07_derived_resources_enter_like_declared_ones :
  forall (V : Type) (ofQ : Q -> V) (I : op -> list V -> V) (B : bigop -> (V -> V) -> V -> V -> V),
    (forall k f g lo hi, (forall v, f v = g v) -> B k f lo hi = B k g lo hi) ->
    forall (rho : string -> V) calcsE calcsV,
      Forall2 (calc_natural V ofQ I B rho) calcsE calcsV ->
      forall fuel r inputs t,
        go_d ev_subst statusE fv calcsE fuel r inputs = Ok t ->
        go_d (ev_val V ofQ I B rho) (fun _ _ => CInconclusive) (fun _ => []) calcsV fuel r (valenv V ofQ I B rho inputs)
        = Ok (valtree V ofQ I B rho t).
Proof. exact go_d_natural. Qed.
Print Assumptions C07_derived_resources_enter_like_declared_ones.

(* the hypothesis is met by the calculator of the correspondence stream (a * <resource> + b on childless routines) *)
Theorem C07_leaf_calculator_commutes : forall V ofQ I B rho x ty of a b,
  calc_natural V ofQ I B rho (leaf_calc_e x ty of a b) (leaf_calc_v ofQ I x ty of a b).
Proof. exact leaf_calc_natural. Qed.
Print Assumptions C07_leaf_calculator_commutes.
