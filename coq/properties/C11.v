(* C11 -- The expression language means standard arithmetic.
   [parse]/[ptoks] (theories/Parser.v) are the standard grammar: additive below multiplicative below unary minus
   below right-associative power, calls, parentheses.  They are the SPECIFICATION the implementation is compared
   with on every case of the stream expr-strings (all operator pairs and triples).  What is proved:
   (1) the specification grammar reads EVERY tree back from its minimal printing -- any depth, any operators, any
       function calls (C11_parse_print_all, by induction; the parser's fuel is shown to be linear in the number of
       tokens); the earlier exhaustive check over the 49537 trees with at most four operators is kept as a test;
   (2) the operator, function and reserved-word tables regenerated from the sources are the standard ones.
   Not proved (trusted, exercised by the stream): CPython's ast.parse, the re module, sympy's arithmetic. *)
From Coq Require Import List String QArith ZArith.
From Bq Require Import Expr StdSem Parser ParserFacts ParserRoundTrip MultiplicityFacts.
From BqGen Require Import GenParser.
Import ListNotations.
Open Scope string_scope.

(* the grammar and its printer are inverse on every tree *)
Theorem C11_parse_print_all : forall e, parse_tokens (ptoks e) = Some e.
Proof. exact parse_tokens_ptoks. Qed.
Print Assumptions C11_parse_print_all.

(* ... also in context: followed by any token that cannot continue the expression at that level, the tree is read
   back and the rest is left untouched (left-associative chains, right-associative powers, nested calls) *)
Theorem C11_parse_print_prefix : forall e lvl rest, (lvl < prec e)%nat -> safe lvl rest ->
  forall f, (B e + 2 <= f)%nat -> pe f lvl (ptoks e ++ rest) = Some (e, rest).
Proof. exact pe_ptoks_prefix. Qed.
Print Assumptions C11_parse_print_prefix.

Theorem C11_parse_print : forall e, In e (trees_upto 4) -> parse_tokens (ptoks e) = Some e.
Proof. exact parse_print_upto_4. Qed.
Print Assumptions C11_parse_print.

Theorem C11_parse_print_domain_size : N.of_nat (List.length (trees_upto 4)) = 49537%N.
Proof. exact trees_upto_4_count. Qed.
Print Assumptions C11_parse_print_domain_size.

Theorem C11_parse_print_calls : forall e, In e call_samples -> parse_tokens (ptoks e) = Some e.
Proof. exact parse_print_calls. Qed.
Print Assumptions C11_parse_print_calls.

Theorem C11_op_tables : forall node meaning,
  In (node, meaning) standard_binary -> lookup node gen_binary_op_map = Some meaning.
Proof. exact binary_table_standard. Qed.
Print Assumptions C11_op_tables.

(* `//` goes through the parser's own helper: Python's floor division except on exact rationals with a non-zero divisor,
   where the translated arithmetic (quotient recovered from the remainder) is the floor of the exact quotient *)
Theorem C11_floordiv_helper : lookup "_floordiv" gen_operator_helper_fallbacks = Some "operator.floordiv" /\
  forall a b : Q, ~ b == 0 -> gen_helper_floordiv a b == Qfloordiv a b.
Proof. exact (conj floordiv_helper_fallback floordiv_helper_is_floor). Qed.
Print Assumptions C11_floordiv_helper.

Theorem C11_unary_minus : lookup "ast.USub" gen_unary_op_map = Some "operator.neg".
Proof. exact unary_minus_is_negation. Qed.
Print Assumptions C11_unary_minus.

Theorem C11_reserved_words :
  lookup "__lambda__" gen_restricted_names = Some "'lambda'" /\ lookup "__in__" gen_restricted_names = Some "'in'".
Proof. exact reserved_words_restored. Qed.
Print Assumptions C11_reserved_words.

Theorem C11_funcs_caseless : forall table f args callee,
  lookup (lower f) table = Some callee -> to_expr table (PCall f args) = to_expr table (PCall (lower f) args).
Proof. exact builtin_caseless. Qed.
Print Assumptions C11_funcs_caseless.

Theorem C11_unknown_functions_uninterpreted : forall table f args,
  lookup (lower f) table = None -> to_expr table (PCall f args) = EOp (OFun f) (map (to_expr table) args).
Proof. exact unknown_function_preserved. Qed.
Print Assumptions C11_unknown_functions_uninterpreted.

Theorem C11_lookup_is_by_lower_case_name : gen_function_lookup_is_caseless = true.
Proof. reflexivity. Qed.
Print Assumptions C11_lookup_is_by_lower_case_name.

(* a built-in whose reading the model carries in full: multiplicity(p, n) is the p-adic valuation of n, also for
   negative n (p >= 2, n <> 0, |n| < 2^200) *)
Theorem C11_multiplicity_is_the_valuation : forall (p n : Z) v,
  multiplicityQ (inject_Z p) (inject_Z n) = Some v ->
  exists k, v = inject_Z k /\ (0 <= k)%Z /\ (p ^ k | n)%Z /\ ~ (p ^ (k + 1) | n)%Z.
Proof. exact multiplicity_meaning. Qed.
Print Assumptions C11_multiplicity_is_the_valuation.
