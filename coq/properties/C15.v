(* C15 — Resource aggregation is a linear, loss-free rewrite.
   Proved here: the expansion order is a complete, topological listing of the dictionary's keys, and ANY
   dependency cycle among the keys makes the expansion fail (no result).  The linearity / path-sum statement is
   the executable specification [paths] / [spec_value] of theories/Aggregate.v, compared with the real code on
   every case of the stream (exhaustive on 3 names in the quick tier, on 4 names in the thorough tier). *)
From Coq Require Import List String QArith Permutation.
From Bq Require Import Expr Compile TopoFacts Aggregate AggregateFacts.
Import ListNotations.
Open Scope string_scope.

(* a cyclic dictionary is rejected: no expanded dictionary, hence no result *)
Theorem C15_cycle_rejected : forall (d : adict) (cycle : list string),
  NoDup (keys d) -> cycle <> [] ->
  (forall x, In x cycle -> In x (keys d)) ->
  (forall x, In x cycle -> exists p, In p (agg_preds d x) /\ In p cycle) ->
  expand_dict d = None.
Proof. exact cyclic_dict_rejected. Qed.
Print Assumptions C15_cycle_rejected.

(* when it succeeds, every key is expanded exactly once, after all the keys it decomposes into *)
Theorem C15_expansion_order : forall (d : adict) (order : list string),
  NoDup (keys d) -> agg_order d = Some order ->
  Permutation order (keys d) /\
  (forall l1 x l2, order = (l1 ++ x :: l2)%list -> forall p, In p (agg_preds d x) -> In p l1).
Proof. exact expansion_order. Qed.
Print Assumptions C15_expansion_order.

(* non-vacuity: a diamond with a direct edge is expanded to the path sum; a 2-cycle is rejected *)
Example C15_nonvacuous :
  let d := [("A", [("B", 2); ("C", 3); ("T", 1)]); ("B", [("T", 5)]); ("C", [("T", 7); ("B", 1)])] in
  (exists e, expand_dict d = Some e /\ lookup "A" e = Some [("T", 2*5 + 3*7 + 3*1*5 + 1)])
  /\ expand_dict [("A", [("B", 1)]); ("B", [("A", 1)])] = None.
Proof. split; [eexists; split; vm_compute; reflexivity | vm_compute; reflexivity]. Qed.
