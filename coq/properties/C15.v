(* C15 — Resource aggregation is a linear, loss-free rewrite.
   Proved here, for dictionaries of any size and nesting depth and any rational multipliers:
   the expansion order is a complete, topological listing of the keys and ANY dependency cycle makes the expansion
   fail; the expanded dictionary IS the path sum and mentions base resources only; applying it to a routine's
   resources adds, to each base resource, the decomposed resources' previous values times the path-sum multiplier;
   decomposed resources are removed or kept with type `other`; untouched resources keep their type.
   "The order of entries is irrelevant" follows: the result is characterised by [paths], which does not look at
   the order of the dictionary's keys (only at lookups).  The hierarchy walk (every routine gets the same
   treatment) and the symbolic multipliers are exercised by the stream: model and [paths] specification vs the
   real code, exhaustively on 3 (quick) / 4 (thorough) names. *)
From Coq Require Import List String QArith Permutation.
From Bq Require Import Expr RepModel Routine Compile TopoFacts Aggregate AggregateFacts AggregateSumFacts.
Import ListNotations.
Open Scope string_scope.

(* a cyclic dictionary is rejected: no expanded dictionary, hence no result *)
Theorem C15_cycle_rejected : forall (d : adict) (cycle : list string),
  NoDup (keys d) -> cycle <> [] ->
  (forall x, In x cycle -> In x (keys d)) ->
  (forall x, In x cycle -> exists p, In p (agg_preds d x) /\ In p cycle) ->
  expand_dict d = None.
Proof. exact cyclic_dict_rejected. Qed.
Print Assumptions C15_cycle_rejected.

(* when it succeeds, every key is expanded exactly once, after all the keys it decomposes into *)
Theorem C15_expansion_order : forall (d : adict) (order : list string),
  NoDup (keys d) -> agg_order d = Some order ->
  Permutation order (keys d) /\
  (forall l1 x l2, order = (l1 ++ x :: l2)%list -> forall p, In p (agg_preds d x) -> In p l1).
Proof. exact expansion_order. Qed.
Print Assumptions C15_expansion_order.

(* ---- the rewrite is the linear path sum (unbounded: any number of names, any nesting, any rational weights) ----
   [paths f d a b] is the specification: the total multiplier from the decomposed resource a to the base resource
   b along ALL decomposition paths (fuel f >= the number of entries).  [get0 b m] is m[b] or 0, [rv b l] the value
   of resource b in a routine's resource list or 0. *)

(* (1) nested dictionaries are fully expanded: every entry of the expanded dictionary mentions base resources only,
   once each, with the path sum as multiplier *)
Theorem C15_expansion_is_path_sum : forall (d : adict),
  NoDup (keys d) -> (forall a m, lookup a d = Some m -> NoDup (keys m)) ->
  forall e, expand_dict d = Some e ->
  Permutation (keys e) (keys d)
  /\ forall a m, lookup a e = Some m ->
       NoDup (keys m)
       /\ (forall x, In x (keys m) -> is_key d x = false)
       /\ (forall b, is_key d b = false -> (get0 b m == paths (List.length d) d a b)%Q).
Proof. exact expand_dict_is_path_sum. Qed.
Print Assumptions C15_expansion_is_path_sum.

(* (2) in a routine, each base resource ends up with its previous value plus the sum over the decomposed resources
   present of their previous value times the path-sum multiplier; both removal modes *)
Theorem C15_linear_path_sum : forall (d e : adict) (resources : rlist) (rm : bool) (b : string),
  NoDup (keys d) -> (forall a m, lookup a d = Some m -> NoDup (keys m)) ->
  expand_dict d = Some e -> is_key d b = false ->
  (rv b (aggregate_node resources e rm)
   == rv b resources
      + fold_right (fun nr s => (if is_key d (fst nr) then snd (snd nr) * paths (List.length d) d (fst nr) b else 0) + s)
                   0 resources)%Q.
Proof. exact aggregate_is_linear_path_sum. Qed.
Print Assumptions C15_linear_path_sum.

(* (3) decomposed resources are removed or, when asked, kept with their value and type `other` *)
Theorem C15_decomposed_removed_or_kept : forall (e : adict),
  (forall a m x, lookup a e = Some m -> In x (keys m) -> lookup x e = None) ->
  forall (rm : bool) (resources : rlist) a ma ty val,
  NoDup (keys resources) -> lookup a e = Some ma -> lookup a resources = Some (ty, val) ->
  lookup a (aggregate_node resources e rm) = if rm then None else Some (ROther, val).
Proof. exact aggregate_node_decomposed. Qed.
Print Assumptions C15_decomposed_removed_or_kept.

(* (4) a resource that is not decomposed keeps its type; with (2), one that receives nothing keeps its value *)
Theorem C15_untouched_type : forall (e : adict) (rm : bool) (resources : rlist) b tyb vb,
  lookup b e = None -> lookup b resources = Some (tyb, vb) ->
  exists q, lookup b (aggregate_node resources e rm) = Some (tyb, q).
Proof. exact aggregate_node_keeps_type. Qed.
Print Assumptions C15_untouched_type.

(* non-vacuity: a diamond with a direct edge is expanded to the path sum; a 2-cycle is rejected *)
Example C15_nonvacuous :
  let d := [("A", [("B", 2); ("C", 3); ("T", 1)]); ("B", [("T", 5)]); ("C", [("T", 7); ("B", 1)])] in
  (exists e, expand_dict d = Some e /\ lookup "A" e = Some [("T", 2*5 + 3*7 + 3*1*5 + 1)])
  /\ expand_dict [("A", [("B", 1)]); ("B", [("A", 1)])] = None.
Proof. split; [eexists; split; vm_compute; reflexivity | vm_compute; reflexivity]. Qed.
