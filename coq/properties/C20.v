(* C20 — Minimisation respects its bounds and reports a consistent optimum.
   [gradient_descent] is the statement-by-statement model of Optimizer.gradient_descent over an abstract
   carrier; the theorems hold for every carrier whose comparison is a total order (binary64 floats without
   NaN, rationals), every cost function, every step size, momentum and iteration budget. *)
From Coq Require Import List Bool QArith.
From Bq Require Import GradDescent GradDescentFacts GradDescentQ.
From BqGen Require Import GenGradDescent.
Import ListNotations.

Theorem C20_result_properties :
  forall (T : Type) (add sub mul div : T -> T -> T) (abs : T -> T) (ltb leb eqb : T -> T -> bool) (two eps zero : T),
    (forall a b, ltb a b = negb (leb b a)) -> (forall a, leb a a = true) ->
    forall f x0 bounds lr max_iter tol mom optimal cost hist,
      (match bounds with Some (b0, b1) => leb b0 b1 = true | None => True end) ->
      gradient_descent T add sub mul div abs ltb leb eqb two eps zero f x0 bounds lr max_iter tol mom = GDOk optimal cost hist ->
      all_within T leb bounds hist /\ all_within T leb bounds [optimal] /\
      hd x0 hist = x0 /\ (exists h, hist = x0 :: h) /\ last hist x0 = optimal /\ cost = f optimal.
Proof. exact gd_ok_properties. Qed.
Print Assumptions C20_result_properties.

Theorem C20_out_of_bounds_start_is_an_error :
  forall (T : Type) (add sub mul div : T -> T -> T) (abs : T -> T) (ltb leb eqb : T -> T -> bool) (two eps zero : T)
         f x0 b0 b1 lr max_iter tol mom,
    leb b0 x0 && leb x0 b1 = false ->
    gradient_descent T add sub mul div abs ltb leb eqb two eps zero f x0 (Some (b0, b1)) lr max_iter tol mom = GDValueError.
Proof. exact gd_out_of_bounds. Qed.
Print Assumptions C20_out_of_bounds_start_is_an_error.

Theorem C20_no_convergence_is_an_error :
  forall (T : Type) (add sub mul div : T -> T -> T) (abs : T -> T) (ltb leb eqb : T -> T -> bool) (two eps zero : T)
         f x0 bounds lr max_iter tol mom,
    gd_loop T add sub mul div abs ltb leb eqb two eps max_iter f bounds lr tol mom x0 zero [x0] = None ->
    (match bounds with Some (b0, b1) => leb b0 x0 && leb x0 b1 | None => true end) = true ->
    gradient_descent T add sub mul div abs ltb leb eqb two eps zero f x0 bounds lr max_iter tol mom = GDRuntimeError.
Proof. exact gd_not_converged. Qed.
Print Assumptions C20_no_convergence_is_an_error.

(* non-vacuity: the order hypotheses hold over Q, and a run over Q returns a value meeting the premises *)
Theorem C20_nonvacuous_Q : Qorder_ok /\ exists o c h, Qrun = GDOk o c h.
Proof. exact Qrun_ok. Qed.
Print Assumptions C20_nonvacuous_Q.

(* the arithmetic and the tests of the loop ARE what analysis.py says, read over the carrier: the model's [gd_loop] and
   [gradient_descent] are defined through the terms translated on every run (GenGradDescent.v) *)
Theorem C20_translated_loop_terms :
  forall (T : Type) (o : GenGradDescent.gd_ops T) (f : T -> T) (mom vel lr g cur nxt b0 b1 tol x0 v eps : T),
    GenGradDescent.gen_gd_velocity o mom vel lr g = o_sub o (o_mul o mom vel) (o_mul o lr g) /\
    GenGradDescent.gen_gd_next o cur vel = o_add o cur vel /\
    GenGradDescent.gen_gd_clip o nxt b0 b1 = GenGradDescent.pmax o (GenGradDescent.pmin o nxt b1) b0 /\
    GenGradDescent.gen_gd_hit o nxt b0 b1 = (o_eqb o nxt b0 || o_eqb o nxt b1)%bool /\
    GenGradDescent.gen_gd_converged o g tol = o_ltb o (o_abs o g) tol /\
    GenGradDescent.gen_gd_start_ok o x0 b0 b1 = (o_leb o b0 x0 && o_leb o x0 b1)%bool /\
    GenGradDescent.gen_gd_grad o f v eps = o_div o (o_sub o (f (o_add o v eps)) (f (o_sub o v eps))) (o_mul o (o_two o) eps) /\
    GenGradDescent.gen_gd_skeleton_checked = true.
Proof. intros. repeat split; reflexivity. Qed.
Print Assumptions C20_translated_loop_terms.
