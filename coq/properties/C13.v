(* C13 — Routines survive QREF export and import.
   Deciding method: every exported document is re-imported (and re-compiled) by the real code and the two sides
   are compared inside Coq for equal structure and mathematically equal expressions (stream hier-qref) -- a
   round-trip validation per document, not a proof about all documents.  What is proved: for the NAMING LAYER of
   the format (endpoints `child.port`, link targets `path.to.child.param`, children, every other field carried
   as it is) the model of the import applied to the model of the export gives the routine back, for every
   hierarchy (C13_import_of_export); names that are not of the expected form are refused, not misread; the
   preprocessing stage that peels deep links uses exactly the first-dot split.  The model's export is tied to the
   real exporter on every case of the stream: the connection and link strings of the real exported document must
   be exactly the model's, and the model's import must read each of them.  Expression text is C12's subject. *)
From Coq Require Import List String.
From Bq Require Import Expr StdSem RepModel Routine Preprocess QrefFacts QrefModel QrefModelFacts.
Import ListNotations.
Open Scope string_scope.

Theorem C13_path_split : forall c rest, no_dot c = true -> split_first_dot (dot c rest) = Some (c, rest).
Proof. exact split_first_dot_dot. Qed.
Print Assumptions C13_path_split.

Theorem C13_plain_name_not_split : forall s, no_dot s = true -> split_first_dot s = None.
Proof. exact split_first_dot_none. Qed.
Print Assumptions C13_plain_name_not_split.

(* the naming layer, whole hierarchies: import (export r) = r *)
Theorem C13_import_of_export : forall r, names_ok r = true -> of_q (to_q r) = Some r.
Proof. exact of_q_to_q. Qed.
Print Assumptions C13_import_of_export.

Theorem C13_endpoint_round_trip : forall e, endpoint_ok e = true -> dec_endpoint (enc_endpoint e) = Some e.
Proof. exact dec_enc_endpoint. Qed.
Print Assumptions C13_endpoint_round_trip.

Theorem C13_link_target_round_trip : forall path param,
  no_dot param = true -> dec_target (enc_target (path, param)) = Some (path, param).
Proof. exact dec_enc_target. Qed.
Print Assumptions C13_link_target_round_trip.

(* three-part endpoints and undotted link targets are refused (the real code raises), never read as something else *)
Theorem C13_malformed_endpoint_refused : forall a b c, no_dot a = true -> no_dot b = true -> no_dot c = true ->
  dec_endpoint (a ++ "." ++ b ++ "." ++ c) = None.
Proof. exact dec_endpoint_three. Qed.
Print Assumptions C13_malformed_endpoint_refused.

Example C13_round_trip_nonvacuous :
  let b := Routine "b" None ["x"] [] [] [Build_port "in_0" DIn (ESym "#in_0")] [] [] None [] [] in
  let a := Routine "a" None [] [] [] [Build_port "in_0" DIn (ESym "#in_0")] [] [((None, "in_0"), (Some "b", "in_0"))] None [] [b] in
  let root := Routine "root" None ["N"] [] [("N", [("a.b", "x")])] [Build_port "in_0" DIn (ESym "N")] []
                      [((None, "in_0"), (Some "a", "in_0"))] None [] [a] in
  names_ok root = true /\ of_q (to_q root) = Some root /\
  wiring_of (to_q root) = W "root" [("in_0", "a.in_0")] [("N", ["a.b.x"])] [W "a" [("in_0", "b.in_0")] [] [W "b" [] [] []]].
Proof. repeat split; vm_compute; reflexivity. Qed.

(* a two-level link N -> a.b.x becomes N -> a.(b.x) at the root and (b.x) -> b.x inside a *)
Example C13_deep_link_peeled :
  let b := Routine "b" None ["x"] [] [] [] [] [] None [] [] in
  let a := Routine "a" None [] [] [] [] [] [] None [] [b] in
  let root := Routine "root" None ["N"] [] [("N", [("a.b", "x")])] [] [] [] None [] [a] in
  exists r', propagate_linked_params 5 root = Ok r' /\
             rlinks r' = [("N", [("a", "b.x")])] /\
             map rlinks (rchildren r') = [[("b.x", [("b", "x")])]] /\
             map rparams (rchildren r') = [["b.x"]].
Proof. eexists. repeat split; vm_compute; reflexivity. Qed.

(* the import keeps links as a mapping keyed by the source: entries that share a source are merged, nothing is lost
   (every target listed for a source is still listed for it, in order), the merged list has distinct sources, and a
   list whose sources are already distinct -- every internal Routine -- is left exactly as it is *)
Theorem C13_merged_links_keep_every_target : forall (T : Type) (li : list (string * list T)) s,
  targets_of s (merge_links li) = targets_of s li.
Proof. exact @merge_links_targets. Qed.
Print Assumptions C13_merged_links_keep_every_target.

Theorem C13_merged_links_have_distinct_sources : forall (T : Type) (li : list (string * list T)), NoDup (map fst (merge_links li)).
Proof. exact @merge_links_nodup. Qed.
Print Assumptions C13_merged_links_have_distinct_sources.

Theorem C13_distinct_links_unchanged : forall (T : Type) (li : list (string * list T)), NoDup (map fst li) -> merge_links li = li.
Proof. exact @merge_links_distinct. Qed.
Print Assumptions C13_distinct_links_unchanged.

Example C13_merge_example :
  merge_links [("N", ["a.x"]); ("M", ["c.z"]); ("N", ["b.y"])] = [("N", ["a.x"; "b.y"]); ("M", ["c.z"])].
Proof. vm_compute. reflexivity. Qed.
