(* C13 — Routines survive QREF export and import.
   Deciding method: every exported document is re-imported (and re-compiled) by the real code and the two sides
   are compared inside Coq for equal structure and mathematically equal expressions (stream hier-qref) -- a
   round-trip validation per document, not a proof about all documents.  What is proved: the naming scheme on
   which multi-level link targets and endpoints rest survives joining with "." and splitting again, and the
   preprocessing stage that peels deep links uses exactly that split. *)
From Coq Require Import List String.
From Bq Require Import Expr Routine Preprocess QrefFacts.
Import ListNotations.
Open Scope string_scope.

Theorem C13_path_split : forall c rest, no_dot c = true -> split_first_dot (dot c rest) = Some (c, rest).
Proof. exact split_first_dot_dot. Qed.
Print Assumptions C13_path_split.

Theorem C13_plain_name_not_split : forall s, no_dot s = true -> split_first_dot s = None.
Proof. exact split_first_dot_none. Qed.
Print Assumptions C13_plain_name_not_split.

(* a two-level link N -> a.b.x becomes N -> a.(b.x) at the root and (b.x) -> b.x inside a *)
Example C13_deep_link_peeled :
  let b := Routine "b" None ["x"] [] [] [] [] [] None [] [] in
  let a := Routine "a" None [] [] [] [] [] [] None [] [b] in
  let root := Routine "root" None ["N"] [] [("N", [("a.b", "x")])] [] [] [] None [] [a] in
  exists r', propagate_linked_params 5 root = Ok r' /\
             rlinks r' = [("N", [("a", "b.x")])] /\
             map rlinks (rchildren r') = [[("b.x", [("b", "x")])]] /\
             map rparams (rchildren r') = [["b.x"]].
Proof. eexists. repeat split; vm_compute; reflexivity. Qed.
