(* C02 — Port sizes follow the wires. *)
From Coq Require Import List String QArith.
From Bq Require Import Expr ExprFacts RepModel Routine Compare Compile CompileFacts CompileTop Preprocess StructureFacts WireFacts PortVarFacts.
Import ListNotations.
Open Scope string_scope.

(* the wire law for one merge of compiled port sizes into the parameter map (any carrier D):
   when no port is the target of two wires, the variable `#p` of every wired target port holds exactly
   the compiled size of the port at the other end *)
Theorem C02_wire_law :
  forall (D : Type) (cs : list (string * endpoint)) (cports : list (string * (dir * D))) (pm pm' : pmap D),
    put_port_sizes cs cports pm = Ok pm' ->
    NoDup (map snd cs) ->
    forall sp tr tp, In (sp, (tr, tp)) cs -> pm_has D tr pm ->
                     pm_get D tr (hash_name tp) pm' = option_map snd (lookup sp cports).
Proof. exact put_port_sizes_wire. Qed.
Print Assumptions C02_wire_law.

(* a port declared without a size, or whose size was replaced by its variable `#p` in preprocessing,
   compiles to exactly what the parameter map holds for `#p` *)
Theorem C02_port_variable : forall env x v, lookup x env = Some v -> ev_subst env (ESym x) = Ok v.
Proof. exact ev_subst_sym. Qed.
Print Assumptions C02_port_variable.

(* sizes are part of the compiled tree, so the meaning theorem of C01 covers them: the size of every port at
   rho is the value the bottom-up numeric traversal computes for it (declared expressions are read in the
   subroutine's own scope) *)
Theorem C02_sizes_have_their_bottom_up_value :
  forall (V : Type) (ofQ : Q -> V) (I : op -> list V -> V) (B : bigop -> (V -> V) -> V -> V -> V),
    (forall k f g lo hi, (forall v, f v = g v) -> B k f lo hi = B k g lo hi) ->
    forall (rho : string -> V) (fuel : nat) (r : routine) (inputs : list (string * expr)) (t : ctree expr),
      go ev_subst statusE fv fuel r inputs = Ok t ->
      den V ofQ I B rho fuel r (valenv V ofQ I B rho inputs) = Ok (valtree V ofQ I B rho t).
Proof. exact go_natural. Qed.
Print Assumptions C02_sizes_have_their_bottom_up_value.

(* ---- a whole node, every node ----
   When the traversal answers on ANY routine (the root or, recursively, any child: each is compiled by a call of
   `go`), with any carrier: if the children have distinct names and no port is the target of two wires (what
   verify_topology enforces), then
   - for every wire from a port of the routine into a child c's port q, the child was compiled with its
     variable `#q` bound to exactly the compiled size of that port of the routine, and
   - for every wire from a child s into a child c, s was compiled first (topological order) and c was compiled
     with `#q` bound to exactly the compiled size of s's port.
   The child tree returned is the one produced by compiling the child with those inputs. *)
Theorem C02_node_wires :
  forall (D : Type) ev statusD fvD fuel r inputs (t : ctree D),
    go ev statusD fvD fuel r inputs = Ok t ->
    NoDup (map rname (rchildren r)) -> NoDup (map snd (rconnections r)) ->
    (forall sp c q, In ((None, sp), (Some c, q)) (rconnections r) -> In c (map rname (rchildren r)) ->
       exists tc d v, In tc (ct_children t) /\ ct_name tc = c /\
                      lookup sp (ct_ports t) = Some (d, v) /\ lookup (hash_name q) (ct_inputs tc) = Some v /\
                      exists cr, find_child c (rchildren r) = Some cr /\ go ev statusD fvD (pred fuel) cr (ct_inputs tc) = Ok tc) /\
    (forall s sp c q, In ((Some s, sp), (Some c, q)) (rconnections r) ->
       In s (map rname (rchildren r)) -> In c (map rname (rchildren r)) ->
       exists ts tc d v, In ts (ct_children t) /\ ct_name ts = s /\ lookup sp (ct_ports ts) = Some (d, v) /\
                         In tc (ct_children t) /\ ct_name tc = c /\ lookup (hash_name q) (ct_inputs tc) = Some v /\
                         exists cr, find_child c (rchildren r) = Some cr /\ go ev statusD fvD (pred fuel) cr (ct_inputs tc) = Ok tc).
Proof. exact go_wires. Qed.
Print Assumptions C02_node_wires.

(* both ends of a wire, in the compile model: a child port declared as its own variable `#q` (preprocessing does
   that to every unsized or symbol-sized input / through port) carries exactly the compiled size of the port at
   the other end of the wire -- "an input port declared without a size carries the size of whatever is wired to it" *)
Theorem C02_wire_ends_equal :
  forall fuel r inputs t,
    go ev_subst statusE fv fuel r inputs = Ok t ->
    NoDup (map rname (rchildren r)) -> NoDup (map snd (rconnections r)) ->
    (forall sp c q, In ((None, sp), (Some c, q)) (rconnections r) -> In c (map rname (rchildren r)) ->
       exists tc d v cr, In tc (ct_children t) /\ ct_name tc = c /\ find_child c (rchildren r) = Some cr /\
         lookup sp (ct_ports t) = Some (d, v) /\
         (forall d', NoDup (map p_name (rports cr)) -> In (Build_port q d' (ESym (hash_name q))) (rports cr) -> d' <> DOut ->
                     lookup q (ct_ports tc) = Some (d', v))) /\
    (forall s sp c q, In ((Some s, sp), (Some c, q)) (rconnections r) ->
       In s (map rname (rchildren r)) -> In c (map rname (rchildren r)) ->
       exists ts tc d v cr, In ts (ct_children t) /\ ct_name ts = s /\ In tc (ct_children t) /\ ct_name tc = c /\
         find_child c (rchildren r) = Some cr /\ lookup sp (ct_ports ts) = Some (d, v) /\
         (forall d', NoDup (map p_name (rports cr)) -> In (Build_port q d' (ESym (hash_name q))) (rports cr) -> d' <> DOut ->
                     lookup q (ct_ports tc) = Some (d', v))).
Proof. exact wire_ends_equal. Qed.
Print Assumptions C02_wire_ends_equal.

(* ... and preprocessing establishes the hypothesis of the last theorem: after introduce_port_variables every
   input / through port of the routine it was applied to (every non-root routine) is declared as its own variable *)
Theorem C02_preprocessing_makes_ports_variables : forall r r',
  introduce_port_variables_node r = Ok r' ->
  forall q, In q (rports r') -> p_dir q <> DOut -> p_size q = ESym (hash_name (p_name q)).
Proof. exact ipv_ports_are_variables. Qed.
Print Assumptions C02_preprocessing_makes_ports_variables.

(* non-vacuity: a routine with a parent-to-child wire and a child-to-child wire (listed out of order) compiles,
   meets the hypotheses, and the sizes at the ends agree *)
Definition C02_example : routine :=
  Routine "root" None ["N"] [] [] [Build_port "in_0" DIn (ESym "N"); Build_port "out_0" DOut (ESym "#out_0")] []
          [((Some "a", "out_0"), (Some "b", "in_0")); ((None, "in_0"), (Some "a", "in_0")); ((Some "b", "out_0"), (None, "out_0"))]
          None []
          [Routine "b" None [] [] [] [Build_port "in_0" DIn (ESym "#in_0"); Build_port "out_0" DOut (eadd (ESym "#in_0") (EZ 1))] [] [] None [] [];
           Routine "a" None [] [] [] [Build_port "in_0" DIn (ESym "#in_0"); Build_port "out_0" DOut (emul (EZ 2) (ESym "#in_0"))] [] [] None [] []].

Example C02_example_compiles :
  exists t, go ev_subst statusE fv 3 C02_example [] = Ok t
            /\ NoDup (map rname (rchildren C02_example)) /\ NoDup (map snd (rconnections C02_example))
            /\ map (fun k => (ct_name k, ct_ports k)) (ct_children t)
               = [("a", [("in_0", (DIn, ESym "N")); ("out_0", (DOut, emul (EZ 2) (ESym "N")))]);
                  ("b", [("in_0", (DIn, emul (EZ 2) (ESym "N"))); ("out_0", (DOut, eadd (emul (EZ 2) (ESym "N")) (EZ 1)))])].
Proof.
  eexists. split; [vm_compute; reflexivity|]. split; [|split].
  - cbn. repeat constructor; cbn; intuition discriminate.
  - cbn. repeat constructor; cbn; intuition discriminate.
  - reflexivity.
Qed.

Example C02_nonvacuous :
  put_port_sizes [("in_0", (Some "a", "i"))] [("in_0", (DIn, ESym "N"))] ([], [("a", [])])
  = Ok ([], [("a", [("#i", ESym "N")])]).
Proof. reflexivity. Qed.
