(* C02 — Port sizes follow the wires. *)
From Coq Require Import List String QArith.
From Bq Require Import Expr ExprFacts RepModel Routine Compare Compile CompileFacts CompileTop StructureFacts.
Import ListNotations.
Open Scope string_scope.

(* the wire law for one merge of compiled port sizes into the parameter map (any carrier D):
   when no port is the target of two wires, the variable `#p` of every wired target port holds exactly
   the compiled size of the port at the other end *)
Theorem C02_wire_law :
  forall (D : Type) (cs : list (string * endpoint)) (cports : list (string * (dir * D))) (pm pm' : pmap D),
    put_port_sizes cs cports pm = Ok pm' ->
    NoDup (map snd cs) ->
    forall sp tr tp, In (sp, (tr, tp)) cs -> pm_has D tr pm ->
                     pm_get D tr (hash_name tp) pm' = option_map snd (lookup sp cports).
Proof. exact put_port_sizes_wire. Qed.
Print Assumptions C02_wire_law.

(* a port declared without a size, or whose size was replaced by its variable `#p` in preprocessing,
   compiles to exactly what the parameter map holds for `#p` *)
Theorem C02_port_variable : forall env x v, lookup x env = Some v -> ev_subst env (ESym x) = Ok v.
Proof. exact ev_subst_sym. Qed.
Print Assumptions C02_port_variable.

(* sizes are part of the compiled tree, so the meaning theorem of C01 covers them: the size of every port at
   rho is the value the bottom-up numeric traversal computes for it (declared expressions are read in the
   subroutine's own scope) *)
Theorem C02_sizes_have_their_bottom_up_value :
  forall (V : Type) (ofQ : Q -> V) (I : op -> list V -> V) (B : bigop -> (V -> V) -> V -> V -> V),
    (forall k f g lo hi, (forall v, f v = g v) -> B k f lo hi = B k g lo hi) ->
    forall (rho : string -> V) (fuel : nat) (r : routine) (inputs : list (string * expr)) (t : ctree expr),
      go ev_subst statusE fv fuel r inputs = Ok t ->
      den V ofQ I B rho fuel r (valenv V ofQ I B rho inputs) = Ok (valtree V ofQ I B rho t).
Proof. exact go_natural. Qed.
Print Assumptions C02_sizes_have_their_bottom_up_value.

Example C02_nonvacuous :
  put_port_sizes [("in_0", (Some "a", "i"))] [("in_0", (DIn, ESym "N"))] ([], [("a", [])])
  = Ok ([], [("a", [("#i", ESym "N")])]).
Proof. reflexivity. Qed.
