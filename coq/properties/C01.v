(* C01 — Compilation preserves the meaning of every resource.
   Statements only; proofs are [exact <lemma>] of theories/CompileFacts.v.

   compile model:  go ev_subst ...   (the traversal of _compile.py with D = expr, checked simultaneous substitution)
   denotation:     den rho ...       (THE SAME traversal with D = V: only evaluation of the ORIGINAL local
                                      expressions in numeric dictionaries; no substitution anywhere)
   The theorem is for EVERY carrier V and EVERY interpretation I of the operators (so no totalised
   division or power can make it true for the wrong reason), every tree, every depth. *)
From Coq Require Import List String QArith.
From Bq Require Import Expr ExprFacts RepModel Routine Compare Compile Preprocess CompileFacts CompileTop Derived DerivedFacts.
From BqGen Require Import GenTables.
Import ListNotations.
Open Scope string_scope.

(* evaluating the compiled hierarchy at rho = the bottom-up numeric reading at rho *)
Theorem C01_compile_preserves_meaning :
  forall (V : Type) (ofQ : Q -> V) (I : op -> list V -> V) (B : bigop -> (V -> V) -> V -> V -> V),
    (forall k f g lo hi, (forall v, f v = g v) -> B k f lo hi = B k g lo hi) ->
    forall (rho : string -> V) (fuel : nat) (r : routine) (inputs : list (string * expr)) (t : ctree expr),
      go ev_subst statusE fv fuel r inputs = Ok t ->
      den V ofQ I B rho fuel r (valenv V ofQ I B rho inputs) = Ok (valtree V ofQ I B rho t).
Proof. exact go_natural. Qed.
Print Assumptions C01_compile_preserves_meaning.

(* from the top: preprocessing, then compilation with no inputs *)
Theorem C01_compile_routine :
  forall (V : Type) (ofQ : Q -> V) (I : op -> list V -> V) (B : bigop -> (V -> V) -> V -> V -> V),
    (forall k f g lo hi, (forall v, f v = g v) -> B k f lo hi = B k g lo hi) ->
    forall (rho : string -> V) (r : routine) (t : ctree expr),
      compile_routine r = Ok t ->
      exists ir, preprocess r = Ok ir /\
                 den V ofQ I B rho (S (height ir)) ir [] = Ok (valtree V ofQ I B rho t).
Proof. exact compile_routine_den. Qed.
Print Assumptions C01_compile_routine.

(* the repaired _process_repeated_resources passes the child's resource symbol, which the
   parameter map defines; passing the compiled value would substitute into it twice *)
Theorem C01_repeated_child_by_symbol : gen_rep_argument = "symbol".
Proof. reflexivity. Qed.
Print Assumptions C01_repeated_child_by_symbol.

(* sequential substitution (sympy's default for a list of pairs) does NOT have this property *)
Theorem C01_seq_refuted :
  exists (s : env) (e : expr) (r : string -> Q),
    captures s e = false /\
    ~ (eval idQ stdQ_I BQ0 r (subst_seq s e) == eval idQ stdQ_I BQ0 (env_after idQ stdQ_I BQ0 r s) e).
Proof. exact subst_seq_refuted. Qed.
Print Assumptions C01_seq_refuted.

(* non-vacuity: a two-level routine with swapped links compiles, and T = N + 2*M reads M + 2*N *)
Example C01_nonvacuous :
  exists t, compile_routine C01_example = Ok t /\ cinput_params t = ["M"; "N"].
Proof. eexists. split; vm_compute; reflexivity. Qed.

(* compile_routine(..., derived_resources=()) is plain compilation: with no calculator the traversal with derived
   resources (Derived.go_d) is `go` itself, for every carrier *)
Theorem C01_no_derived_resources_is_plain_compilation : forall D ev statusD fvD fuel r inputs,
  go_d (D := D) ev statusD fvD [] fuel r inputs = go ev statusD fvD fuel r inputs.
Proof. exact go_d_nil. Qed.
Print Assumptions C01_no_derived_resources_is_plain_compilation.
