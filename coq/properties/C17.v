(* C17 — Well-formed input never crashes; ill-formed wiring is rejected up front.
   [verification_problems] = hand model of qref.verification.verify_topology (the qref package is outside the
   repository: modelled and tied by the fault stream) + bartiq's own verify_uncompiled_repetitions with the
   predicates regenerated from verification.py.  Not provable here, guarded by per-case time limits and the
   exception-class observable of every stream: exceptions and non-termination inside sympy. *)
From Coq Require Import List String Bool Arith QArith ZArith.
From Bq Require Import Expr StdSem Rep RepModel Routine Compare Compile CompileTop TopoFacts Verify VerifyFacts.
From BqGen Require Import GenRepetitions.
Import ListNotations.
Open Scope string_scope.

(* any reported problem => BartiqCompilationError, before any result is produced; skipping verification bypasses it *)
Theorem C17_problems_are_rejected : forall r,
  verification_problems r <> 0%nat -> compile_routine_checked false r = ECompile.
Proof. exact problems_reject. Qed.
Print Assumptions C17_problems_are_rejected.

Theorem C17_skip_verification_bypasses : forall r, compile_routine_checked true r = compile_routine r.
Proof. exact skip_bypasses. Qed.
Print Assumptions C17_skip_verification_bypasses.

(* a repeated routine without exactly one child, or with resources of its own, is a problem *)
Theorem C17_bad_repetition_is_a_problem : forall r rp,
  rrep r = Some rp -> (List.length (rchildren r) <> 1%nat \/ rresources r <> []) ->
  (repetition_problems (S (height r)) r <> 0)%nat.
Proof. exact bad_repetition_is_a_problem. Qed.
Print Assumptions C17_bad_repetition_is_a_problem.

(* ... at any depth of the document *)
Theorem C17_problem_below_is_a_problem : forall f r c,
  In c (rchildren r) -> (repetition_problems f c <= repetition_problems (S f) r)%nat.
Proof. exact child_problem_propagates. Qed.
Print Assumptions C17_problem_below_is_a_problem.

(* a connection cycle (through the port graph, of any length) is a problem *)
Theorem C17_wiring_cycle_is_a_problem : forall r (cycle : list string),
  cycle <> [] ->
  (forall x, In x cycle -> In x (graph_nodes (topo_graph r))) ->
  (forall x, In x cycle -> exists p, In p (graph_preds (topo_graph r) x) /\ In p cycle) ->
  NoDup (graph_nodes (topo_graph r)) ->
  has_cycle r = true.
Proof. exact wiring_cycle_is_a_problem. Qed.
Print Assumptions C17_wiring_cycle_is_a_problem.

(* a multiply connected port is a problem *)
Theorem C17_double_wiring_is_a_problem : forall r x,
  (1 < count_occ_str x (map (fun st => ep_name (snd st)) (rconnections r)))%nat \/
  (1 < count_occ_str x (map (fun st => ep_name (fst st)) (rconnections r)))%nat ->
  (disconnected_problems r <> 0)%nat.
Proof. exact double_wiring_is_a_problem. Qed.
Print Assumptions C17_double_wiring_is_a_problem.

(* no internal exception from the child loop: at every depth, for every input, the compile model never fails to
   find a child it is about to compile (KeyError in children[...]) nor its parameter dictionary (KeyError in
   parameter_map[child.name]) *)
Theorem C17_child_loop_lookups_hit : forall fuel r inputs,
  go ev_subst statusE fv fuel r inputs <> EInternal 2 /\ go ev_subst statusE fv fuel r inputs <> EInternal 8.
Proof. exact compile_model_lookups_hit. Qed.
Print Assumptions C17_child_loop_lookups_hit.

(* non-vacuity: a two-child feedback loop a.o -> b.i, b.o -> a.i is reported as a cycle *)
Example C17_nonvacuous :
  let leaf n := Routine n None [] [] [] [Build_port "i" DIn (ESym "#i"); Build_port "o" DOut (ESym "#o")] [] [] None [] [] in
  let r := Routine "root" None [] [] [] [] [] [((Some "a", "o"), (Some "b", "i")); ((Some "b", "o"), (Some "a", "i"))] None [] [leaf "a"; leaf "b"] in
  has_cycle r = true /\ compile_routine_checked false r = ECompile.
Proof. split; vm_compute; reflexivity. Qed.

(* a well-formed repetition at the edge of its family has a value: the product over an arithmetic sequence whose difference is
   the literal 0 -- where the gamma closed form has a pole and the code used to raise ZeroDivisionError (finding F27) -- is,
   in the formula generated from the repaired source, the unrolled product of initial_term * child over the rounds *)
Theorem C17_arithmetic_product_with_zero_difference_is_the_unrolled_product : forall r a q e cnt n,
  Qeq_bool q 0 = true -> (evalT r cnt == ofn n)%Q ->
  exists g, gen_ArithmeticSequence_get_prod a (ENum q) e cnt = Some g /\
            (evalT r g == prodn n (fun _ => evalT r a * evalT r e))%Q.
Proof. exact arith_prod_zero_difference_correct. Qed.
Print Assumptions C17_arithmetic_product_with_zero_difference_is_the_unrolled_product.
