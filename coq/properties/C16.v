(* C16 — Qubit highwater is the maximum over all cuts.
   Wire model: positions 0 = the routine's input side, 1..n = children in execution order, n+1 = its output
   side; [forward]: every wire goes from an earlier to a later position (children listed chronologically,
   fully wired).  active/inflow/outflow are the quantities calculate_highwater computes; alive/bypass are the
   cuts of the statement. *)
From Coq Require Import List String QArith Qminmax.
From Bq Require Import Routine Highwater HighwaterFacts.
From BqGen Require Import GenHighwater.
Import ListNotations.
Open Scope Q_scope.

(* loop invariant: before child k the running flow is the total size of the wires alive at that moment *)
Theorem C16_active_flow_is_cut : forall ws, forward ws -> forall k, (1 <= k)%nat -> active ws k == alive ws k.
Proof. exact active_is_cut. Qed.
Print Assumptions C16_active_flow_is_cut.

(* the list of watermarks the code maximises over is, element by element, the list of cuts:
   before the first child, (wires bypassing child k) + (child k's own highwater), after the last child *)
Theorem C16_highwater_is_max_cut : forall ws n hw,
  forward ws -> (forall w, In w ws -> (w_tgt w <= S n)%nat) ->
  Forall2 Qeq (code_watermarks ws n hw) (cut_watermarks ws n hw).
Proof. exact watermarks_are_cuts. Qed.
Print Assumptions C16_highwater_is_max_cut.

(* so the maximum is never smaller than any single cut: total input, any child's highwater plus the wires
   bypassing it, total output *)
Theorem C16_max_dominates : forall m rest x, In x (m :: rest) -> x <= fold_right Qmax m rest.
Proof. exact max_ge_each. Qed.
Print Assumptions C16_max_dominates.

(* what the quantities above are made of is read off derived_resources.py on every run (GenHighwater.v): inside the loop
   the watermark recorded for a child is (active flow - the child's inflow + the child's highwater), the new active flow
   is (active flow - the child's inflow + the child's outflow); input and through ports flow in, output and through
   ports flow out; [active] and [code_watermarks] are DEFINED through these translated expressions *)
Theorem C16_translated_loop_body : forall a i o h : Q,
  gen_hw_mark a i o h == a - i + h /\ gen_hw_next a i o h == a - i + o.
Proof. intros; unfold gen_hw_mark, gen_hw_next; split; reflexivity. Qed.
Print Assumptions C16_translated_loop_body.

Theorem C16_translated_flow_directions :
  gen_hw_inflow_dirs = [DIn; DThrough] /\ gen_hw_outflow_dirs = [DOut; DThrough] /\ gen_hw_shape_checked = true.
Proof. repeat split; reflexivity. Qed.
Print Assumptions C16_translated_flow_directions.

(* non-vacuity: in(3) -> a -> b -> out, plus a wire in(2) -> out bypassing both children *)
Example C16_nonvacuous :
  let ws := [Build_wire 0 1 3; Build_wire 1 2 4; Build_wire 2 3 1; Build_wire 0 3 2] in
  forward ws /\ code_watermarks ws 2 (fun k => if Nat.eqb k 1 then 9 else 5) = [3 + (2 + 0); 3 + (2 + 0) - (3 + 0) + 9; 3 + (2 + 0) - (3 + 0) + (4 + 0) - (4 + 0) + 5; 1 + (2 + 0)].
Proof.
  cbn. split; [|reflexivity]. intros w [H|[H|[H|[H|[]]]]]; subst; cbn; auto.
Qed.
