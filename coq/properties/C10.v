(* C10 — Compilation preserves the structure of the hierarchy.
   For an arbitrary carrier D (so for the compile model and for the denotation alike). *)
From Coq Require Import List String QArith.
From Bq Require Import Expr RepModel Routine Compare Compile CompileTop StructureFacts.
Import ListNotations.
Open Scope string_scope.

(* every node of the result carries the source node's name, type and connections, the same ports with the
   same directions (input/through first, then output), the same resource names and types (without a
   repetition), and exactly the source's children, listed in an order consistent with the wiring *)
Theorem C10_structure :
  forall (D : Type) (ev : list (string * D) -> expr -> result D) (statusD : D -> D -> cstatus) (fvD : D -> list string)
         (fuel : nat) (r : routine) (inputs : list (string * D)) (t : ctree D),
    go ev statusD fvD fuel r inputs = Ok t ->
    ct_name t = rname r /\ ct_type t = rtype_of r /\ ct_connections t = rconnections r /\
    map (cport_sig D) (ct_ports t) = map port_sig (filter non_output (rports r) ++ filter is_output (rports r)) /\
    (rrep r = None -> names_types (ct_resources t) = map res_sig (rresources r)) /\
    (exists order, children_order (rchildren r) (rconnections r) = Some order /\ map (@ct_name D) (ct_children t) = order).
Proof. exact go_structure. Qed.
Print Assumptions C10_structure.

(* non-vacuity, and the additions allowed by the property: the propagated additive resource T *)
Example C10_nonvacuous :
  exists t, compile_routine CompileFacts.C01_example = Ok t /\ ct_name t = "root" /\
            map (@ct_name expr) (ct_children t) = ["a"] /\
            names_types (ct_resources t) = [("T", RAdditive)].
Proof. eexists. repeat split; vm_compute; reflexivity. Qed.
