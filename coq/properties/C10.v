(* C10 — Compilation preserves the structure of the hierarchy.
   For an arbitrary carrier D (so for the compile model and for the denotation alike). *)
From Coq Require Import List String QArith.
From Bq Require Import Expr RepModel Routine Compare Compile CompileTop StructureFacts Preprocess SkeletonFacts.
Import ListNotations.
Open Scope string_scope.

(* every node of the result carries the source node's name, type and connections, the same ports with the
   same directions (input/through first, then output), the same resource names and types (without a
   repetition), and exactly the source's children, listed in an order consistent with the wiring *)
Theorem C10_structure :
  forall (D : Type) (ev : list (string * D) -> expr -> result D) (statusD : D -> D -> cstatus) (fvD : D -> list string)
         (fuel : nat) (r : routine) (inputs : list (string * D)) (t : ctree D),
    go ev statusD fvD fuel r inputs = Ok t ->
    ct_name t = rname r /\ ct_type t = rtype_of r /\ ct_connections t = rconnections r /\
    map (cport_sig D) (ct_ports t) = map port_sig (filter non_output (rports r) ++ filter is_output (rports r)) /\
    (rrep r = None -> names_types (ct_resources t) = map res_sig (rresources r)) /\
    (exists order, children_order (rchildren r) (rconnections r) = Some order /\ map (@ct_name D) (ct_children t) = order).
Proof. exact go_structure. Qed.
Print Assumptions C10_structure.

(* non-vacuity, and the additions allowed by the property: the propagated additive resource T *)
Example C10_nonvacuous :
  exists t, compile_routine CompileFacts.C01_example = Ok t /\ ct_name t = "root" /\
            map (@ct_name expr) (ct_children t) = ["a"] /\
            names_types (ct_resources t) = [("T", RAdditive)].
Proof. eexists. repeat split; vm_compute; reflexivity. Qed.

(* ---------- the whole pipeline, the whole tree ---------- *)

(* preprocessing (whatever the generated list of stages is): at every node of the hierarchy the name, type, connections
   and repetition are unchanged, the ports are the same ports (names and directions, up to order), every source
   resource is still there unchanged, any new resource is additive or multiplicative under a name the node did not
   define, input parameters and constraints are only appended to, and the children are the same children in the same
   order *)
Theorem C10_preprocessing_keeps_the_skeleton : forall r ir, preprocess r = Ok ir -> skel r ir.
Proof. exact preprocess_skel. Qed.
Print Assumptions C10_preprocessing_keeps_the_skeleton.

(* compilation proper, at every depth and for any carrier: each node of the result is the image of the routine it was
   compiled from (C10_structure at that node), and its children are the images of that routine's children *)
Theorem C10_every_node_has_the_shape_of_its_source :
  forall (D : Type) (ev : list (string * D) -> expr -> result D) (statusD : D -> D -> cstatus) (fvD : D -> list string)
         (fuel : nat) (r : routine) (inputs : list (string * D)) (t : ctree D),
    go ev statusD fvD fuel r inputs = Ok t -> shape_ok D r t.
Proof. exact go_shape. Qed.
Print Assumptions C10_every_node_has_the_shape_of_its_source.

(* exactly the routines of the source: with distinct child names at every node, the compiled tree has as many nodes *)
Theorem C10_same_number_of_routines :
  forall (D : Type) (ev : list (string * D) -> expr -> result D) (statusD : D -> D -> cstatus) (fvD : D -> list string)
         (fuel : nat) (r : routine) (inputs : list (string * D)) (t : ctree D),
    names_distinct r -> go ev statusD fvD fuel r inputs = Ok t -> nodes_t D t = nodes_r r.
Proof. exact go_nodes. Qed.
Print Assumptions C10_same_number_of_routines.

Theorem C10_whole_pipeline : forall r t,
  compile_routine r = Ok t -> exists ir, preprocess r = Ok ir /\ skel r ir /\ shape_ok expr ir t.
Proof. exact compile_routine_whole_tree. Qed.
Print Assumptions C10_whole_pipeline.

(* the additions the property allows, at the root: every source resource is there with its name and type, and anything
   else is additive or multiplicative under a name the source did not define *)
Theorem C10_root_resources : forall r t,
  compile_routine r = Ok t -> rrep r = None ->
  (forall x, In x (rresources r) -> In (r_name x, r_type x) (names_types (ct_resources t))) /\
  (forall nt, In nt (names_types (ct_resources t)) ->
              In nt (map res_sig (rresources r)) \/
              ((snd nt = RAdditive \/ snd nt = RMultiplicative) /\ ~ In (fst nt) (map r_name (rresources r)))).
Proof. exact compile_routine_root_resources. Qed.
Print Assumptions C10_root_resources.

Example C10_whole_tree_nonvacuous :
  exists ir t, preprocess CompileFacts.C01_example = Ok ir /\ compile_routine CompileFacts.C01_example = Ok t /\
               nodes_r CompileFacts.C01_example = 2%nat /\ nodes_t expr t = 2%nat /\
               map r_name (rresources CompileFacts.C01_example) = [] /\ map r_name (rresources ir) = ["T"].
Proof. eexists. eexists. repeat split; vm_compute; reflexivity. Qed.

Example C10_names_distinct_nonvacuous : names_distinct CompileFacts.C01_example.
Proof. cbn. repeat (split || constructor); intro H; destruct H. Qed.
