(* C19 — Big-O analysis returns the dominant power.
   gen_leading_terms is regenerated from src/bartiq/analysis.py (_less_than,
   _term_less_than_or_equal_to_all_others, _get_leading_terms) on every run. *)
From Coq Require Import List Arith.
From Bq Require Import BigO.
From BqGen Require Import GenBigO.
Import ListNotations.

(* for the exponent tuples of a polynomial in one variable, listed with the highest power first (what
   sympy's Poly.terms() returns): exactly the leading power is kept *)
Theorem C19_leading_power : forall d rest,
  (forall e, In e rest -> e <= d) ->
  gen_leading_terms (map single (d :: rest)) = [single d].
Proof. exact leading_power. Qed.
Print Assumptions C19_leading_power.

(* whatever the order and the number of generators, the first listed term is never dropped *)
Theorem C19_first_term_kept : forall t rest, exists l, gen_leading_terms (t :: rest) = t :: l.
Proof. exact first_term_kept. Qed.
Print Assumptions C19_first_term_kept.

(* a constant polynomial (degree 0) gives the single term x^0 = 1, i.e. O(1) *)
Theorem C19_constant : gen_leading_terms [single 0] = [single 0].
Proof. reflexivity. Qed.
Print Assumptions C19_constant.

Example C19_nonvacuous : gen_leading_terms (map single [6; 4; 3; 0]) = [single 6] /\ (forall e, In e [4; 3; 0] -> e <= 6).
Proof. split; [reflexivity|]. intros e [H|[H|[H|[]]]]; subst; repeat constructor. Qed.
