(* C03 — Subroutine-local names never capture or leak.
   Statements only; proofs are [exact <lemma>] of theories/RenameFacts.v, EvaluateFacts.v, CompileFacts.v.

   How the three parts of the property are carried:
   (a) renaming a scope: every expression of a subroutine is compiled by ONE simultaneous substitution of the
       subroutine's scope dictionary (model: Compile.go; tie: stream hier-compile / hier-rename).  Theorem
       C03_scope_rename says that substitution is invariant under any renaming injective on the scope, even onto
       names that occur in the compiled values (ancestors', siblings', top-level names).
   (b) no leak between scopes: the traversal is written once for an ABSTRACT carrier D of compiled values
       (Compile.go, Section Go): it can only look values up and pass them on, and substitutes only into SOURCE
       expressions of the node being compiled.  C03_values_never_resubstituted instantiates it at numeric values:
       the compiled tree's meaning is computed without substituting into any compiled value.
   (c) evaluation: C03_evaluate_no_resubstitution: assigned values are read in the ORIGINAL environment rho,
       never in the substituted one. *)
From Coq Require Import List String QArith.
From Bq Require Import Expr ExprFacts RepModel Routine Compare Compile CompileFacts CompileTop EvaluateFacts RenameFacts NodeRenameFacts.
Import ListNotations.
Open Scope string_scope.

Theorem C03_scope_rename : forall f e s,
    bound e = [] ->
    (forall x, In x (fv e) -> In x (keys s)) ->
    (forall x y, In x (keys s) -> In y (keys s) -> f x = f y -> x = y) ->
    subst (rename_keys f s) (rename f e) = subst s e.
Proof. exact subst_rename_scope. Qed.
Print Assumptions C03_scope_rename.

Theorem C03_rename_equivariant : forall f e, injective f ->
    forall s, rename f (subst s e) = subst (rename_env f s) (rename f e).
Proof. exact subst_rename. Qed.
Print Assumptions C03_rename_equivariant.

Theorem C03_rename_meaning :
  forall (V : Type) (ofQ : Q -> V) (I : op -> list V -> V) (B : bigop -> (V -> V) -> V -> V -> V),
    (forall k f g lo hi, (forall v, f v = g v) -> B k f lo hi = B k g lo hi) ->
    forall f e, injective f -> forall r, eval ofQ I B r (rename f e) = eval ofQ I B (fun x => r (f x)) e.
Proof. exact eval_rename. Qed.
Print Assumptions C03_rename_meaning.

Theorem C03_values_never_resubstituted :
  forall (V : Type) (ofQ : Q -> V) (I : op -> list V -> V) (B : bigop -> (V -> V) -> V -> V -> V),
    (forall k f g lo hi, (forall v, f v = g v) -> B k f lo hi = B k g lo hi) ->
    forall (rho : string -> V) (fuel : nat) (r : routine) (inputs : list (string * expr)) (t : ctree expr),
      go ev_subst statusE fv fuel r inputs = Ok t ->
      den V ofQ I B rho fuel r (valenv V ofQ I B rho inputs) = Ok (valtree V ofQ I B rho t).
Proof. exact go_natural. Qed.
Print Assumptions C03_values_never_resubstituted.

Theorem C03_evaluate_no_resubstitution :
  forall (V : Type) (ofQ : Q -> V) (I : op -> list V -> V) (B : bigop -> (V -> V) -> V -> V -> V),
    (forall k f g lo hi, (forall v, f v = g v) -> B k f lo hi = B k g lo hi) ->
    forall s t t' rho,
      evaluate s t = Ok t' ->
      vals_of V ofQ I B rho t' = vals_of V ofQ I B (env_after ofQ I B rho s) t.
Proof. exact evaluate_sound. Qed.
Print Assumptions C03_evaluate_no_resubstitution.

(* sequential substitution re-substitutes: {N := M, M := N} into N + 2*M *)
Theorem C03_seq_refuted : subst_seq swap_env swap_expr <> subst swap_env swap_expr.
Proof. exact subst_seq_not_simultaneous. Qed.
Print Assumptions C03_seq_refuted.

(* non-vacuity of C03_scope_rename: scope {N := M_top, M := N_top}, expression N + 2*M, renamed N->M', M->N *)
Example C03_nonvacuous :
  let s := [("N", ESym "Mtop"); ("M", ESym "N")] in
  let f := fun x => if String.eqb x "N" then "Q" else if String.eqb x "M" then "N" else x in
  subst (rename_keys f s) (rename f swap_expr) = subst s swap_expr
  /\ subst s swap_expr = eadd (ESym "Mtop") (emul (EZ 2) (ESym "N")).
Proof. split; vm_compute; reflexivity. Qed.

(* ---------- a whole node ---------- *)

(* for ANY carrier and any expression step that does not care how the scope's names are spelled: a subroutine (without a
   repetition) whose parameters, local variables, link sources and every occurrence of them in its own expressions are
   renamed by an injective map that leaves port variables and child.resource references alone compiles to the same node --
   same port sizes, resources, constraints, and identically the same children; only the stored names are the new ones *)
Theorem C03_node_rename :
  forall (D : Type) (ev : list (string * D) -> expr -> result D) (statusD : D -> D -> cstatus) (fvD : D -> list string)
         (f : string -> string),
    injective f ->
    (forall env e, ev (rkeys D f env) (rename f e) = ev env e) ->
    (forall p, f (hash_name p) = hash_name p) -> (forall a b, f (dot a b) = dot a b) ->
    forall rec r inputs t,
      rrep r = None ->
      go_node ev statusD fvD rec r inputs = Ok t ->
      go_node ev statusD fvD rec (rename_node f r) (rkeys D f inputs) = Ok (rename_stored D f t).
Proof. intros D ev statusD fvD f Hinj Hren Hh Hd rec r inputs t. apply go_node_rename; assumption. Qed.
Print Assumptions C03_node_rename.

(* the compile model: if every expression of the node is well-scoped (its symbols are names of the node's scope or one of
   the global names G) and binder-free, renaming the scope -- also onto names used by ancestors, siblings, descendants or
   top-level inputs -- changes nothing in what is compiled *)
Theorem C03_compile_node_rename : forall (f : string -> string) (G : list string),
  injective f -> (forall g, In g G -> f g = g) ->
  (forall p, f (hash_name p) = hash_name p) -> (forall a b, f (dot a b) = dot a b) ->
  forall fuel r inputs t,
    rrep r = None ->
    go (ev_strict G) statusE fv (S fuel) r inputs = Ok t ->
    go ev_subst statusE fv (S fuel) r inputs = Ok t /\
    go ev_subst statusE fv (S fuel) (rename_node f r) (rkeys expr f inputs) = Ok (rename_stored expr f t).
Proof. exact compile_node_rename. Qed.
Print Assumptions C03_compile_node_rename.

(* non-vacuity: a leaf with parameters x, y, a local variable L = x + 1 and a resource T = L * y, compiled with x := N,
   y := M; its names x <-> N exchanged (N is a name of the OUTER scope, occurring in the values) *)
Example C03_node_rename_nonvacuous :
  let f := swap_names "x" "N" in
  let leaf := Routine "a" None ["x"; "y"] [("L", eadd (ESym "x") (EZ 1))] [] [] [Build_resource "T" RAdditive (emul (ESym "L") (ESym "y"))] [] None [] [] in
  let ins := [("x", ESym "N"); ("y", ESym "M")] in
  injective f /\ f "#in_0" = "#in_0" /\ rparams (rename_node f leaf) = ["N"; "y"] /\
  exists t, go (ev_strict []) statusE fv 2 leaf ins = Ok t /\
            go ev_subst statusE fv 2 (rename_node f leaf) (rkeys expr f ins) = Ok (rename_stored expr f t) /\
            map (fun nr => snd (snd nr)) (ct_resources t) = [emul (eadd (ESym "N") (EZ 1)) (ESym "M")].
Proof.
  cbn zeta. split; [apply swap_names_injective|]. split; [reflexivity|]. split; [reflexivity|].
  eexists. repeat split; vm_compute; reflexivity.
Qed.
