(* C03 — Subroutine-local names never capture or leak.
   Statements only; proofs are [exact <lemma>] of theories/RenameFacts.v, EvaluateFacts.v, CompileFacts.v.

   How the three parts of the property are carried:
   (a) renaming a scope: every expression of a subroutine is compiled by ONE simultaneous substitution of the
       subroutine's scope dictionary (model: Compile.go; tie: stream hier-compile / hier-rename).  Theorem
       C03_scope_rename says that substitution is invariant under any renaming injective on the scope, even onto
       names that occur in the compiled values (ancestors', siblings', top-level names).
   (b) no leak between scopes: the traversal is written once for an ABSTRACT carrier D of compiled values
       (Compile.go, Section Go): it can only look values up and pass them on, and substitutes only into SOURCE
       expressions of the node being compiled.  C03_values_never_resubstituted instantiates it at numeric values:
       the compiled tree's meaning is computed without substituting into any compiled value.
   (c) evaluation: C03_evaluate_no_resubstitution: assigned values are read in the ORIGINAL environment rho,
       never in the substituted one. *)
From Coq Require Import List String QArith.
From Bq Require Import Expr ExprFacts RepModel Routine Compare Compile CompileFacts CompileTop EvaluateFacts RenameFacts.
Import ListNotations.
Open Scope string_scope.

Theorem C03_scope_rename : forall f e s,
    bound e = [] ->
    (forall x, In x (fv e) -> In x (keys s)) ->
    (forall x y, In x (keys s) -> In y (keys s) -> f x = f y -> x = y) ->
    subst (rename_keys f s) (rename f e) = subst s e.
Proof. exact subst_rename_scope. Qed.
Print Assumptions C03_scope_rename.

Theorem C03_rename_equivariant : forall f e, injective f ->
    forall s, rename f (subst s e) = subst (rename_env f s) (rename f e).
Proof. exact subst_rename. Qed.
Print Assumptions C03_rename_equivariant.

Theorem C03_rename_meaning :
  forall (V : Type) (ofQ : Q -> V) (I : op -> list V -> V) (B : bigop -> (V -> V) -> V -> V -> V),
    (forall k f g lo hi, (forall v, f v = g v) -> B k f lo hi = B k g lo hi) ->
    forall f e, injective f -> forall r, eval ofQ I B r (rename f e) = eval ofQ I B (fun x => r (f x)) e.
Proof. exact eval_rename. Qed.
Print Assumptions C03_rename_meaning.

Theorem C03_values_never_resubstituted :
  forall (V : Type) (ofQ : Q -> V) (I : op -> list V -> V) (B : bigop -> (V -> V) -> V -> V -> V),
    (forall k f g lo hi, (forall v, f v = g v) -> B k f lo hi = B k g lo hi) ->
    forall (rho : string -> V) (fuel : nat) (r : routine) (inputs : list (string * expr)) (t : ctree expr),
      go ev_subst statusE fv fuel r inputs = Ok t ->
      den V ofQ I B rho fuel r (valenv V ofQ I B rho inputs) = Ok (valtree V ofQ I B rho t).
Proof. exact go_natural. Qed.
Print Assumptions C03_values_never_resubstituted.

Theorem C03_evaluate_no_resubstitution :
  forall (V : Type) (ofQ : Q -> V) (I : op -> list V -> V) (B : bigop -> (V -> V) -> V -> V -> V),
    (forall k f g lo hi, (forall v, f v = g v) -> B k f lo hi = B k g lo hi) ->
    forall s t t' rho,
      evaluate s t = Ok t' ->
      vals_of V ofQ I B rho t' = vals_of V ofQ I B (env_after ofQ I B rho s) t.
Proof. exact evaluate_sound. Qed.
Print Assumptions C03_evaluate_no_resubstitution.

(* sequential substitution re-substitutes: {N := M, M := N} into N + 2*M *)
Theorem C03_seq_refuted : subst_seq swap_env swap_expr <> subst swap_env swap_expr.
Proof. exact subst_seq_not_simultaneous. Qed.
Print Assumptions C03_seq_refuted.

(* non-vacuity of C03_scope_rename: scope {N := M_top, M := N_top}, expression N + 2*M, renamed N->M', M->N *)
Example C03_nonvacuous :
  let s := [("N", ESym "Mtop"); ("M", ESym "N")] in
  let f := fun x => if String.eqb x "N" then "Q" else if String.eqb x "M" then "N" else x in
  subst (rename_keys f s) (rename f swap_expr) = subst s swap_expr
  /\ subst s swap_expr = eadd (ESym "Mtop") (emul (EZ 2) (ESym "N")).
Proof. split; vm_compute; reflexivity. Qed.
