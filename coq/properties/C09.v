(* C09 — Results do not depend on listing order.
   What is proved: every lookup the traversal performs is by (unique) name, and lookups, substitution and
   evaluation are invariant under permutation of the listing; the LOCAL VARIABLES of a routine compile to the same
   values however they are listed (any two dependency-respecting compilation orders agree, and the order the
   model derives from a listing is one).  What is exercised by the stream only (partial): that any two topological
   processing orders of the CHILDREN give semantically equal results, and that the preprocessing stages are
   order-insensitive. *)
From Coq Require Import List String QArith Permutation.
From Bq Require Import Expr ExprFacts RepModel Routine Compare Compile CompileTop EvaluateFacts ListingFacts LocalsOrderFacts InputsOrderFacts SiblingOrderFacts.
Import ListNotations.
Open Scope string_scope.

(* dictionaries (ports, resources, local variables, links, parameter maps) *)
Theorem C09_lookup_order_free : forall (A : Type) x (s s' : list (string * A)),
  NoDup (keys s) -> Permutation s s' -> lookup x s = lookup x s'.
Proof. exact @lookup_perm. Qed.
Print Assumptions C09_lookup_order_free.

(* children *)
Theorem C09_children_by_name : forall n cs cs',
  NoDup (map rname cs) -> Permutation cs cs' -> find_child n cs = find_child n cs'.
Proof. exact find_child_perm. Qed.
Print Assumptions C09_children_by_name.

(* connections *)
Theorem C09_wires_as_a_set : forall src conns conns' x,
  Permutation conns conns' -> In x (conns_from src conns) -> In x (conns_from src conns').
Proof. exact conns_from_perm. Qed.
Print Assumptions C09_wires_as_a_set.

Theorem C09_predecessors_as_a_set : forall conns conns' c x,
  Permutation conns conns' -> In x (child_preds conns c) -> In x (child_preds conns' c).
Proof. exact child_preds_perm. Qed.
Print Assumptions C09_predecessors_as_a_set.

(* the substitution of a dictionary listed in any order *)
Theorem C09_substitution_order_free : forall e s s',
  NoDup (keys s) -> Permutation s s' -> subst s e = subst s' e.
Proof. exact subst_perm. Qed.
Print Assumptions C09_substitution_order_free.

Theorem C09_evaluate_order_free : forall s s' t,
  NoDup (keys s) -> Permutation s s' -> evaluate s t = evaluate s' t.
Proof. exact evaluate_perm. Qed.
Print Assumptions C09_evaluate_order_free.

(* local variables: list them in any order *)
Theorem C09_local_variables_listing_free : forall (locals locals' : list (string * expr)) inputs o1 o2 lv1 lv2,
  NoDup (keys locals) -> Permutation locals locals' ->
  local_order locals = Some o1 -> local_order locals' = Some o2 ->
  compile_locals ev_subst o1 locals inputs [] = Ok lv1 ->
  compile_locals ev_subst o2 locals' inputs [] = Ok lv2 ->
  forall x, lookup x lv1 = lookup x lv2.
Proof. exact locals_listing_free. Qed.
Print Assumptions C09_local_variables_listing_free.

(* ... indeed ANY two orders that respect the dependencies give the same values *)
Theorem C09_local_variables_order_free : forall (locals : list (string * expr)) inputs o1 o2 lv1 lv2,
  compile_locals ev_subst o1 locals inputs [] = Ok lv1 ->
  compile_locals ev_subst o2 locals inputs [] = Ok lv2 ->
  NoDup o1 -> NoDup o2 -> (forall x, In x o1 <-> In x o2) ->
  respects locals o1 -> respects locals o2 ->
  forall x, lookup x lv1 = lookup x lv2.
Proof. exact compile_locals_order_free. Qed.
Print Assumptions C09_local_variables_order_free.

Example C09_locals_nonvacuous :
  let locals := [("w", eadd (ESym "L") (EZ 3)); ("L", emul (EZ 2) (ESym "n"))] in
  let locals' := [("L", emul (EZ 2) (ESym "n")); ("w", eadd (ESym "L") (EZ 3))] in
  local_order locals = Some ["L"; "w"] /\ local_order locals' = Some ["L"; "w"] /\
  exists lv, compile_locals ev_subst ["L"; "w"] locals [("n", ESym "N")] [] = Ok lv /\
             lookup "w" lv = Some (eadd (emul (EZ 2) (ESym "N")) (EZ 3)).
Proof. repeat split; try (vm_compute; reflexivity). eexists. split; vm_compute; reflexivity. Qed.

Example C09_nonvacuous :
  let s := [("N", ESym "M"); ("M", EZ 3)] in
  NoDup (keys s) /\ Permutation s (rev s) /\ subst s swap_expr = subst (rev s) swap_expr.
Proof.
  cbn. repeat split.
  - repeat constructor; cbn; intuition discriminate.
  - apply perm_swap.
Qed.

(* ---------- the listing order of a whole dictionary of inputs: the whole subtree ---------- *)

(* for ANY carrier and any expression step that reads its dictionary through lookups: two listings of the same inputs
   dictionary (same value for every key, same keys, same values) compile a routine to the same tree -- resources, port
   sizes, constraints, repetition and, identically, all children; only the stored copy of the inputs is listed as given.
   (The order of input parameters and of link entries only decides the order in which such a dictionary is filled.) *)
Theorem C09_inputs_dictionary_listing_free :
  forall (D : Type) (ev : list (string * D) -> expr -> result D) (statusD : D -> D -> cstatus) (fvD : D -> list string),
    (forall env env' e, (forall k, lookup k env = lookup k env') -> ev env e = ev env' e) ->
    forall fuel r inputs inputs' t,
      env_sim inputs inputs' -> go ev statusD fvD fuel r inputs = Ok t ->
      go ev statusD fvD fuel r inputs' = Ok (set_inputs D t inputs').
Proof. exact go_sim. Qed.
Print Assumptions C09_inputs_dictionary_listing_free.

(* the compile model is such a step: any permutation of an inputs dictionary with distinct keys *)
Theorem C09_compile_inputs_listing_free : forall fuel r (inputs inputs' : list (string * expr)) t,
  Permutation inputs inputs' -> NoDup (keys inputs) -> go ev_subst statusE fv fuel r inputs = Ok t ->
  go ev_subst statusE fv fuel r inputs' = Ok (set_inputs expr t inputs').
Proof. exact compile_inputs_listing_free. Qed.
Print Assumptions C09_compile_inputs_listing_free.

Example C09_inputs_listing_nonvacuous :
  let leaf := Routine "a" None ["x"; "y"] [] [] [] [Build_resource "T" RAdditive (eadd (ESym "x") (emul (EZ 2) (ESym "y")))] [] None [] [] in
  let i1 := [("x", ESym "N"); ("y", ESym "M")] in
  let i2 := [("y", ESym "M"); ("x", ESym "N")] in
  exists t, go ev_subst statusE fv 2 leaf i1 = Ok t /\ go ev_subst statusE fv 2 leaf i2 = Ok (set_inputs expr t i2) /\
            map (fun nr => snd (snd nr)) (ct_resources t) = [eadd (ESym "N") (emul (EZ 2) (ESym "M"))].
Proof. eexists. repeat split; vm_compute; reflexivity. Qed.

(* ---------- the order in which the children are PROCESSED ---------- *)

(* two neighbouring children of the processing order that are not wired to each other, and feed no common port, can be
   compiled in either order: the same two compiled children, the same later children (except possibly for how the stored
   copy of their inputs dictionary is listed, which C09_inputs_dictionary_listing_free shows to be immaterial), and a
   parameter map that holds the same value under every key.  Any two topological processing orders are connected by such
   swaps. *)
Theorem C09_independent_siblings_commute :
  forall (D : Type) (ev : list (string * D) -> expr -> result D) (statusD : D -> D -> cstatus) (fvD : D -> list string),
    (forall env env' e, (forall k, lookup k env = lookup k env') -> ev env e = ev env' e) ->
    forall fuel a b rest children conns pm acc pm1 kids,
      no_wire conns a b -> no_wire conns b a -> targets_apart conns a b ->
      compile_children (go ev statusD fvD fuel) (a :: b :: rest) children conns pm acc = Ok (pm1, kids) ->
      exists ta tb restk restk' pm2,
        kids = (rev acc ++ ta :: tb :: restk)%list /\
        compile_children (go ev statusD fvD fuel) (b :: a :: rest) children conns pm acc = Ok (pm2, (rev acc ++ tb :: ta :: restk')%list) /\
        Forall2 (tree_sim D) restk restk' /\ pm_rel D pm1 pm2.
Proof. exact go_children_swap. Qed.
Print Assumptions C09_independent_siblings_commute.

Example C09_siblings_nonvacuous :
  let leaf n := Routine n None ["x"] [] [] [] [Build_resource "T" RAdditive (emul (EZ 2) (ESym "x"))] [] None [] [] in
  let pm := (@nil (string * expr), [("a", [("x", ESym "N")]); ("b", [("x", ESym "M")])]) in
  no_wire [] "a" "b" /\ no_wire [] "b" "a" /\ targets_apart [] "a" "b" /\
  exists pm1 ta tb,
    compile_children (go ev_subst statusE fv 2) ["a"; "b"] [leaf "a"; leaf "b"] [] pm [] = Ok (pm1, [ta; tb]) /\
    compile_children (go ev_subst statusE fv 2) ["b"; "a"] [leaf "a"; leaf "b"] [] pm [] = Ok (pm1, [tb; ta]) /\
    map (fun nr => snd (snd nr)) (ct_resources ta) = [emul (EZ 2) (ESym "N")].
Proof.
  cbn zeta. split; [intros sp tp []|]. split; [intros sp tp []|]. split; [intros e1 e2 []|].
  eexists. eexists. eexists. repeat split; vm_compute; reflexivity.
Qed.

(* ... and so for any two processing orders connected by a sequence of such swaps (every two topological orders of the
   children are): the same compiled children as a multiset -- up to the listing of their stored inputs -- and a parameter
   map holding the same value under every key *)
Theorem C09_processing_orders_connected_by_swaps :
  forall (D : Type) (ev : list (string * D) -> expr -> result D) (statusD : D -> D -> cstatus) (fvD : D -> list string),
    (forall env env' e, (forall k, lookup k env = lookup k env') -> ev env e = ev env' e) ->
    forall fuel conns names names',
      reorder conns names names' ->
      forall children pm acc pm1 kids,
        compile_children (go ev statusD fvD fuel) names children conns pm acc = Ok (pm1, kids) ->
        exists pm2 kids2, compile_children (go ev statusD fvD fuel) names' children conns pm acc = Ok (pm2, kids2)
                          /\ pm_rel D pm1 pm2 /\ kids_equiv D kids kids2.
Proof. exact go_children_reorder. Qed.
Print Assumptions C09_processing_orders_connected_by_swaps.

Example C09_reorder_nonvacuous : reorder [] ["a"; "b"; "c"] ["b"; "a"; "c"] /\ reorder [] ["a"; "b"; "c"] ["b"; "c"; "a"].
Proof.
  assert (N : forall x y, no_wire [] x y) by (intros x y sp tp []).
  assert (T : forall x y, targets_apart [] x y) by (intros x y e1 e2 []).
  split.
  - apply (ro_swap [] [] "a" "b" ["c"]); [apply N|apply N|apply T].
  - eapply ro_trans; [apply (ro_swap [] [] "a" "b" ["c"]); [apply N|apply N|apply T]|].
    apply (ro_swap [] ["b"] "a" "c" []); [apply N|apply N|apply T].
Qed.

(* every two orders in which no child is fed by a later one, over the same children, are connected by swaps of neighbouring
   independent children (provided no port is fed by two different children) *)
Theorem C09_topological_orders_connected : forall conns l' l,
  (forall a b, a <> b -> targets_apart conns a b) ->
  NoDup l -> Permutation l l' -> ordered conns l -> ordered conns l' -> reorder conns l l'.
Proof. exact topological_orders_connected. Qed.
Print Assumptions C09_topological_orders_connected.

(* ... the compiler's own processing order (Kahn's algorithm over the children as listed) is such an order, so: however the
   children are LISTED, the loop over the children gives the same compiled children (as a multiset, up to the listing of
   their stored inputs) and a parameter map holding the same value under every key *)
Theorem C09_children_listing_free :
  forall (D : Type) (ev : list (string * D) -> expr -> result D) (statusD : D -> D -> cstatus) (fvD : D -> list string),
    (forall env env' e, (forall k, lookup k env = lookup k env') -> ev env e = ev env' e) ->
    forall fuel children children' conns order order',
      Permutation children children' -> NoDup (map rname children) ->
      (forall a b, a <> b -> targets_apart conns a b) ->
      children_order children conns = Some order -> children_order children' conns = Some order' ->
      reorder conns order order' /\
      forall chs pm acc pm1 kids,
        compile_children (go ev statusD fvD fuel) order chs conns pm acc = Ok (pm1, kids) ->
        exists pm2 kids2, compile_children (go ev statusD fvD fuel) order' chs conns pm acc = Ok (pm2, kids2)
                          /\ pm_rel D pm1 pm2 /\ kids_equiv D kids kids2.
Proof. exact children_listing_free. Qed.
Print Assumptions C09_children_listing_free.
