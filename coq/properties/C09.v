(* C09 — Results do not depend on listing order.
   What is proved: every lookup the traversal performs is by (unique) name, and lookups, substitution and
   evaluation are invariant under permutation of the listing.  What is exercised by the stream only
   (partial): that any two topological processing orders of the children give semantically equal results,
   and that the preprocessing stages are order-insensitive. *)
From Coq Require Import List String QArith Permutation.
From Bq Require Import Expr ExprFacts RepModel Routine Compare Compile CompileTop EvaluateFacts ListingFacts.
Import ListNotations.
Open Scope string_scope.

(* dictionaries (ports, resources, local variables, links, parameter maps) *)
Theorem C09_lookup_order_free : forall (A : Type) x (s s' : list (string * A)),
  NoDup (keys s) -> Permutation s s' -> lookup x s = lookup x s'.
Proof. exact @lookup_perm. Qed.
Print Assumptions C09_lookup_order_free.

(* children *)
Theorem C09_children_by_name : forall n cs cs',
  NoDup (map rname cs) -> Permutation cs cs' -> find_child n cs = find_child n cs'.
Proof. exact find_child_perm. Qed.
Print Assumptions C09_children_by_name.

(* connections *)
Theorem C09_wires_as_a_set : forall src conns conns' x,
  Permutation conns conns' -> In x (conns_from src conns) -> In x (conns_from src conns').
Proof. exact conns_from_perm. Qed.
Print Assumptions C09_wires_as_a_set.

Theorem C09_predecessors_as_a_set : forall conns conns' c x,
  Permutation conns conns' -> In x (child_preds conns c) -> In x (child_preds conns' c).
Proof. exact child_preds_perm. Qed.
Print Assumptions C09_predecessors_as_a_set.

(* the substitution of a dictionary listed in any order *)
Theorem C09_substitution_order_free : forall e s s',
  NoDup (keys s) -> Permutation s s' -> subst s e = subst s' e.
Proof. exact subst_perm. Qed.
Print Assumptions C09_substitution_order_free.

Theorem C09_evaluate_order_free : forall s s' t,
  NoDup (keys s) -> Permutation s s' -> evaluate s t = evaluate s' t.
Proof. exact evaluate_perm. Qed.
Print Assumptions C09_evaluate_order_free.

Example C09_nonvacuous :
  let s := [("N", ESym "M"); ("M", EZ 3)] in
  NoDup (keys s) /\ Permutation s (rev s) /\ subst s swap_expr = subst (rev s) swap_expr.
Proof.
  cbn. repeat split.
  - repeat constructor; cbn; intuition discriminate.
  - apply perm_swap.
Qed.
