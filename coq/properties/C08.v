(* C08 — Additive and multiplicative resources accumulate up the hierarchy.
   Proved: for EVERY non-repeated routine the compile model compiles (any depth), a propagated additive
   (multiplicative) resource -- the sum (product) of references `child.x` that preprocessing installs -- gets a
   value which at every point is the sum (product) of the children's own compiled values of x
   (C08_propagated_sum_accumulates / _product_); the routine's own explicit definition is never replaced; the
   repetition weights are linear in the child's value.  Exercised by the stream: that the propagated resources are
   installed for exactly the children that have the resource with a propagating type, repeated routines, and the
   weighted leaf-sum consequence (real compiled values vs the bottom-up denotation at every node). *)
From Coq Require Import List String QArith.
From Bq Require Import Expr StdSem Rep RepModel Routine Compare Compile Preprocess AccumulateFacts QrefFacts ChildRefFacts.
From BqGen Require Import GenRepetitions.
Import ListNotations.
Open Scope string_scope.
Open Scope Q_scope.

(* the value default propagation installs reads as the plain sum (product) of the children's own values *)
Theorem C08_propagated_sum : forall r (cs : list string) x,
  evalT r (EOp OAdd (map (fun cn => ESym (dot cn x)) cs)) == fold_right Qplus 0 (map (fun cn => r (dot cn x)) cs).
Proof. exact evalT_sum_of_symbols. Qed.
Print Assumptions C08_propagated_sum.

Theorem C08_propagated_product : forall r (cs : list string) x,
  evalT r (EOp OMul (map (fun cn => ESym (dot cn x)) cs)) == fold_right Qmult 1 (map (fun cn => r (dot cn x)) cs).
Proof. exact evalT_prod_of_symbols. Qed.
Print Assumptions C08_propagated_product.

(* ... and in the compiled tree the references are the children's OWN compiled values: for every routine r the
   compile model compiles (go at any fuel: the root or any descendant), not repeated, with distinct dot-free child
   names and distinct resource names *)
Theorem C08_propagated_sum_accumulates : forall fuel r inputs t,
  go ev_subst statusE fv fuel r inputs = Ok t -> rrep r = None ->
  NoDup (map r_name (rresources r)) ->
  (forall k, In k (ct_children t) -> no_dot (ct_name k) = true) -> NoDup (map (@ct_name expr) (ct_children t)) ->
  forall x ty (cs : list string),
    In (Build_resource x ty (EOp OAdd (map (fun c => ESym (dot c x)) cs))) (rresources r) ->
    (forall c, In c cs -> exists v, child_value t c x = Some v) ->
    exists V, lookup x (ct_resources t) = Some (ty, V) /\
              forall rho, evalT rho V == fold_right Qplus 0 (map (fun c => match child_value t c x with
                                                                             | Some v => evalT rho v
                                                                             | None => 0
                                                                             end) cs).
Proof. exact propagated_sum_is_sum_of_children. Qed.
Print Assumptions C08_propagated_sum_accumulates.

Theorem C08_propagated_product_accumulates : forall fuel r inputs t,
  go ev_subst statusE fv fuel r inputs = Ok t -> rrep r = None ->
  NoDup (map r_name (rresources r)) ->
  (forall k, In k (ct_children t) -> no_dot (ct_name k) = true) -> NoDup (map (@ct_name expr) (ct_children t)) ->
  forall x ty (cs : list string),
    In (Build_resource x ty (EOp OMul (map (fun c => ESym (dot c x)) cs))) (rresources r) ->
    (forall c, In c cs -> exists v, child_value t c x = Some v) ->
    exists V, lookup x (ct_resources t) = Some (ty, V) /\
              forall rho, evalT rho V == fold_right Qmult 1 (map (fun c => match child_value t c x with
                                                                             | Some v => evalT rho v
                                                                             | None => 1
                                                                             end) cs).
Proof. exact propagated_product_is_product_of_children. Qed.
Print Assumptions C08_propagated_product_accumulates.

(* a routine's own explicit definition takes precedence: propagation never replaces or retypes it *)
Theorem C08_explicit_definition_kept : forall r r' x rs,
  propagate_child_resources_node r = Ok r' ->
  lookup x (res_dict (rresources r)) = Some rs ->
  lookup x (res_dict (rresources r')) = Some rs.
Proof. exact propagate_keeps_own. Qed.
Print Assumptions C08_explicit_definition_kept.

(* repetition sums are linear in the child's value, so the weight of a repeated ancestor factors out
   (formulas regenerated from repetitions.py) *)
Theorem C08_weight_constant : forall r m e cnt g g1,
  gen_ConstantSequence_get_sum m e cnt = Some g -> gen_ConstantSequence_get_sum m (EZ 1) cnt = Some g1 ->
  evalT r g == evalT r e * evalT r g1.
Proof. exact const_sum_linear. Qed.
Print Assumptions C08_weight_constant.

Theorem C08_weight_arithmetic : forall r a d e cnt g g1,
  gen_ArithmeticSequence_get_sum a d e cnt = Some g -> gen_ArithmeticSequence_get_sum a d (EZ 1) cnt = Some g1 ->
  evalT r g == evalT r e * evalT r g1.
Proof. exact arith_sum_linear. Qed.
Print Assumptions C08_weight_arithmetic.

Theorem C08_weight_geometric : forall r q e cnt g g1,
  gen_GeometricSequence_get_sum q e cnt = Some g -> gen_GeometricSequence_get_sum q (EZ 1) cnt = Some g1 ->
  evalT r g == evalT r e * evalT r g1.
Proof. exact geom_sum_linear. Qed.
Print Assumptions C08_weight_geometric.

Theorem C08_weight_closed_form : forall r su pr nts e cnt g g1,
  gen_ClosedFormSequence_get_sum su pr nts e cnt = Some g -> gen_ClosedFormSequence_get_sum su pr nts (EZ 1) cnt = Some g1 ->
  evalT r g == evalT r e * evalT r g1.
Proof. exact closed_sum_linear. Qed.
Print Assumptions C08_weight_closed_form.

(* non-vacuity: root without T over children a (T additive) and b (T additive): T := a.T + b.T, own Q kept *)
Example C08_nonvacuous :
  let leaf n := Routine n None [] [] [] [] [Build_resource "T" RAdditive (EZ 3)] [] None [] [] in
  let root := Routine "root" None [] [] [] [] [Build_resource "Q" ROther (EZ 1)] [] None [] [leaf "a"; leaf "b"] in
  exists r', propagate_child_resources_node root = Ok r' /\
             map r_name (rresources r') = ["Q"; "T"] /\
             lookup "T" (res_dict (rresources r')) = Some (Build_resource "T" RAdditive (EOp OAdd [ESym "a.T"; ESym "b.T"])).
Proof. eexists. repeat split; vm_compute; reflexivity. Qed.
