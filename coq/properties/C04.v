(* C04 — Compiled routines are closed over the top-level inputs. *)
From Coq Require Import List String QArith.
From Bq Require Import Expr ExprFacts RepModel Routine Compare Compile CompileTop StructureFacts.
Import ListNotations.
Open Scope string_scope.

(* the step every compiled expression goes through: if the expression's own symbols are all defined by the
   node's scope dictionary (well-scoped source), every symbol of the result comes from a VALUE of that
   dictionary -- and those are, inductively, expressions over the top-level inputs; no key of the dictionary
   (parameter, local variable, `#port`, `child.resource`) survives *)
Theorem C04_symbols_come_from_values : forall s e y,
  (forall x, In x (fv e) -> In x (keys s)) -> In y (fv (subst s e)) ->
  exists k v, lookup k s = Some v /\ In y (fv v).
Proof. exact subst_symbols_from_values. Qed.
Print Assumptions C04_symbols_come_from_values.

(* in general: a symbol of the result is either an unassigned symbol of the source or comes from a value *)
Theorem C04_fv_subst : forall e s x,
  In x (fv (subst s e)) ->
  (In x (fv e) /\ lookup x s = None) \/ (exists y v, In y (fv e) /\ lookup y s = Some v /\ In x (fv v)).
Proof. exact fv_subst. Qed.
Print Assumptions C04_fv_subst.

(* consequently a total assignment of closed values turns an expression into a closed one *)
Theorem C04_total_assignment_closes : forall s e,
  (forall x, In x (fv e) -> In x (keys s)) -> closed_env s -> fv (subst s e) = [].
Proof. exact subst_closed. Qed.
Print Assumptions C04_total_assignment_closes.

Example C04_nonvacuous :
  let s := [("N", EZ 4); ("#in_0", EZ 7); ("a.T", EZ 12)] in
  let e := eadd (ESym "a.T") (emul (ESym "N") (ESym "#in_0")) in
  (forall x, In x (fv e) -> In x (keys s)) /\ closed_env s /\ fv (subst s e) = [].
Proof.
  cbn. repeat split.
  - intros x [H|[H|[H|[]]]]; subst; auto.
  - intros x v. cbn. repeat (destruct (String.eqb x _); [intro H; inversion H; reflexivity|]). discriminate.
Qed.
