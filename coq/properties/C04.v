(* C04 — Compiled routines are closed over the top-level inputs. *)
From Coq Require Import List String QArith.
From Bq Require Import Expr ExprFacts RepModel Routine Compare Compile CompileTop CompileFacts StructureFacts Scoped InvFacts.
Import ListNotations.
Open Scope string_scope.

(* the step every compiled expression goes through: if the expression's own symbols are all defined by the
   node's scope dictionary (well-scoped source), every symbol of the result comes from a VALUE of that
   dictionary -- and those are, inductively, expressions over the top-level inputs; no key of the dictionary
   (parameter, local variable, `#port`, `child.resource`) survives *)
Theorem C04_symbols_come_from_values : forall s e y,
  (forall x, In x (fv e) -> In x (keys s)) -> In y (fv (subst s e)) ->
  exists k v, lookup k s = Some v /\ In y (fv v).
Proof. exact subst_symbols_from_values. Qed.
Print Assumptions C04_symbols_come_from_values.

(* in general: a symbol of the result is either an unassigned symbol of the source or comes from a value *)
Theorem C04_fv_subst : forall e s x,
  In x (fv (subst s e)) ->
  (In x (fv e) /\ lookup x s = None) \/ (exists y v, In y (fv e) /\ lookup y s = Some v /\ In x (fv v)).
Proof. exact fv_subst. Qed.
Print Assumptions C04_fv_subst.

(* consequently a total assignment of closed values turns an expression into a closed one *)
Theorem C04_total_assignment_closes : forall s e,
  (forall x, In x (fv e) -> In x (keys s)) -> closed_env s -> fv (subst s e) = [].
Proof. exact subst_closed. Qed.
Print Assumptions C04_total_assignment_closes.

Example C04_nonvacuous :
  let s := [("N", EZ 4); ("#in_0", EZ 7); ("a.T", EZ 12)] in
  let e := eadd (ESym "a.T") (emul (ESym "N") (ESym "#in_0")) in
  (forall x, In x (fv e) -> In x (keys s)) /\ closed_env s /\ fv (subst s e) = [].
Proof.
  cbn. repeat split.
  - intros x [H|[H|[H|[]]]]; subst; auto.
  - intros x v. cbn. repeat (destruct (String.eqb x _); [intro H; inversion H; reflexivity|]). discriminate.
Qed.

(* ---- the whole tree ----
   `ev_scoped G` is the compile step that refuses an expression mentioning a symbol which is neither defined
   by the node's dictionary (parameters, local variables, `#port` variables, `child.resource` references) nor in
   G: the executable form of "well-scoped".  If the scoped traversal answers, the compile model answers the
   SAME tree, and every symbol of every value stored anywhere in it -- node inputs, port sizes, resources,
   repetition counts and sequence fields, retained constraints, at every depth -- is in G.
   `compile_scoped` instantiates G with the preprocessed root's input parameters (plus the iterator symbols of
   custom sequences, which are legitimately free in their terms; partial: they are allowed in every field, the
   stream checks that they occur in the terms only).  The stream runs compile_scoped on every generated case and
   reports when it does not answer although compile_routine does (hypothesis met at scale). *)
Theorem C04_compiled_tree_closed : forall G fuel r inputs t,
  Penv expr (over_G G) inputs ->
  go (ev_scoped G) statusE fv fuel r inputs = Ok t ->
  go ev_subst statusE fv fuel r inputs = Ok t /\ Ptree expr (over_G G) t.
Proof. exact compiled_tree_closed. Qed.
Print Assumptions C04_compiled_tree_closed.

(* the invariant theorem behind it, for every carrier and every predicate the expression step preserves *)
Theorem C04_go_invariant : forall (D : Type) ev statusD fvD (P : D -> Prop),
  (forall env e v, Penv D P env -> ev env e = Ok v -> P v) ->
  forall fuel r inputs t, Penv D P inputs -> go ev statusD fvD fuel r inputs = Ok t -> Ptree D P t.
Proof. exact go_inv. Qed.
Print Assumptions C04_go_invariant.

Example C04_tree_nonvacuous :
  exists t, compile_scoped C01_example = Ok t /\ compile_routine C01_example = Ok t
            /\ ct_src_params t = ["N"; "M"].
Proof. eexists. split; [vm_compute; reflexivity|]. split; vm_compute; reflexivity. Qed.
