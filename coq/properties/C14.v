(* C14 — Operations are pure and reproducible.
   What a theorem can carry here is small: in the model every operation is a Gallina function, so it has no
   state to modify and returns equal results on equal inputs by construction; the order in which children are
   processed and exported is a function of the document alone (no set-iteration or hash dependence), and it is
   a complete topological listing of the children.  Everything else the property names -- in-place mutation
   through aliasing, cache state, interpreter hash randomisation -- lives in the runtime and is covered by
   monitored runs of the real code in six processes (stream repro): labelled a test, not a proof. *)
From Coq Require Import List String Permutation.
From Bq Require Import Expr Routine Compile TopoFacts.
Import ListNotations.
Open Scope string_scope.

(* the processing / export order of the children: complete and consistent with the wiring *)
Theorem C14_children_order_is_a_topological_listing : forall children conns order,
  NoDup (map rname children) -> children_order children conns = Some order ->
  Permutation order (map rname children) /\
  (forall l1 x l2, order = (l1 ++ x :: l2)%list -> forall p, In p (child_preds conns x) -> In p l1).
Proof. exact children_order_topological. Qed.
Print Assumptions C14_children_order_is_a_topological_listing.
