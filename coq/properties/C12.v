(* C12 -- Expressions survive being written out and read back.
   Deciding method: round-trip validation of each expression (stream expr-trees): the real serializer's text is read
   back by the real parser and the two sympy objects are compared inside Coq by value, free symbols and uninterpreted
   calls; independently the text is read by the specification grammar (theories/Parser.v) and must have the value of
   the original.  What is proved: the specification grammar reads minimal-parentheses printing back exactly,
   for every tree (unbounded, by induction), it reads the caret the printer emits as right-associative power, and the printer overrides
   regenerated from sympy_serializer.py are the expected ones.  sympy's StrPrinter itself is an oracle. *)
From Coq Require Import List String QArith.
From Bq Require Import Expr Parser ParserFacts ParserRoundTrip.
From BqGen Require Import GenParser.
Import ListNotations.
Open Scope string_scope.

Theorem C12_minimal_printing_reads_back : forall e, parse_tokens (ptoks e) = Some e.
Proof. exact parse_tokens_ptoks. Qed.
Print Assumptions C12_minimal_printing_reads_back.

(* the printer writes powers with a caret; the grammar reads the caret as right-associative power, binding tighter
   than unary minus on its left and accepting a unary minus on its right *)
Theorem C12_caret_is_power :
  gen_printer_pow_is_caret = true /\
  parse "x ^ y ^ 2" = Some (PBin BPow (PSym "x") (PBin BPow (PSym "y") (PNum 2))) /\
  parse "-x ^ 2" = Some (PNeg (PBin BPow (PSym "x") (PNum 2))) /\
  parse "x ^ -1" = Some (PBin BPow (PSym "x") (PNeg (PNum 1))) /\
  parse "(x ^ 2) ^ y" = Some (PBin BPow (PBin BPow (PSym "x") (PNum 2)) (PSym "y")).
Proof. repeat split; vm_compute; reflexivity. Qed.
Print Assumptions C12_caret_is_power.

(* Sum / Product objects, pi and e have their own spelling, which the function table reads back *)
Theorem C12_printer_overrides :
  (forall m, In m ["_print_Sum"; "_print_Product"; "_print_Pi"; "_print_Exp1"; "_print_Pow"] -> In m gen_printer_overrides) /\
  (exists v, lookup "sum_over" gen_special_funcs = Some v) /\ (exists v, lookup "prod_over" gen_special_funcs = Some v) /\
  (exists v, lookup "PI" gen_special_params = Some v) /\ (exists v, lookup "exp" gen_special_funcs = Some v).
Proof.
  split; [|repeat split; eexists; reflexivity].
  intros m H. cbn in H. repeat (destruct H as [H|H]; [subst; cbn; tauto|]). destruct H.
Qed.
Print Assumptions C12_printer_overrides.
