#!/usr/bin/env python3
"""Regenerate coq/generated/*.v from /repo's current working tree.
Exit 0 and print one line per file; exit 2 (fail-closed) if any source shape is
outside the whitelisted grammar, naming the offending node."""
import hashlib
import json
import os
import sys

HERE = os.path.dirname(os.path.abspath(__file__))
sys.path.insert(0, HERE)
from pyexpr import Untranslatable  # noqa: E402

REPO = os.environ.get("BARTIQ_REPO", "/repo")
OUT = os.path.join(HERE, "..", "coq", "generated")
# committed copies of the generated files as they are on the tree the proofs were written against; when a source file can
# no longer be translated (its shape left the whitelisted grammar) the copy serves as a HAND-WRITTEN model for that run and
# is tied to the code by the correspondence streams only (the second of the two ties; see DESIGN.md section 10.6)
SNAP = os.path.join(HERE, "..", "coq", "snapshots")


def _targets():
    import gen_repetitions

    t = [("GenRepetitions.v", ["src/bartiq/repetitions.py"], lambda: gen_repetitions.generate(os.path.join(REPO, "src/bartiq/repetitions.py")))]
    for modname in ("gen_tables", "gen_bigo", "gen_verification", "gen_latex", "gen_parser", "gen_highwater", "gen_graddesc"):
        try:
            mod = __import__(modname)
        except ModuleNotFoundError:
            continue
        t.extend(mod.targets(REPO))
    return t


def main():
    os.makedirs(OUT, exist_ok=True)
    shas = {}
    failures = []
    fallbacks = []
    for fname, sources, gen in _targets():
        try:
            text = gen()
        except Exception as e:  # Untranslatable: shape outside the grammar; anything else: source does not parse, file missing
            why = str(e) if isinstance(e, Untranslatable) else f"{type(e).__name__}: {e}"
            snap = os.path.join(SNAP, fname)
            if os.path.exists(snap) and os.environ.get("VERIF_NO_SNAPSHOT") != "1":
                fallbacks.append((fname, why))
                text = open(snap).read()
            else:
                failures.append((fname, why))
                # leave a file that cannot compile so nothing stale is used
                text = f'(* translation failed: see translator output *)\nDefinition translation_failed : nat := "{fname}".\n'
        path = os.path.join(OUT, fname)
        old = open(path).read() if os.path.exists(path) else None
        if old != text:
            with open(path, "w") as f:
                f.write(text)
        for s in sources:
            p = os.path.join(REPO, s)
            shas[s] = hashlib.sha256(open(p, "rb").read()).hexdigest() if os.path.exists(p) else None
        print(f"generated {fname} ({'changed' if old != text else 'unchanged'})")
    with open(os.path.join(OUT, "MANIFEST.sha"), "w") as f:
        json.dump({"sources": shas, "failures": failures, "fallbacks": fallbacks}, f, indent=1)
    for fname, why in fallbacks:
        print(f"TRANSLATION-FALLBACK {fname}: {why}")
    for fname, why in failures:
        print(f"TRANSLATION-FAILED {fname}: {why}")
    return 2 if failures else 0


if __name__ == "__main__":
    sys.exit(main())
