"""analysis.py::Optimizer.gradient_descent / _numerical_gradient -> coq/generated/GenGradDescent.v

The arithmetic and the tests of the loop (new velocity, next value, clipping to the bounds, 'hit a bound', 'converged', 'start
within bounds', the finite-difference gradient) are translated expression by expression into terms over an abstract number
carrier (the model instantiates it at binary64 floats and at Q).  The control skeleton around them (order of the statements,
the breaks, the for-else, what is appended to the history and when) is checked statement by statement; anything else is
Untranslatable (fail closed)."""
import ast
import os

from pyexpr import Untranslatable, coq_string

BIN = {ast.Add: "add", ast.Sub: "sub", ast.Mult: "mul", ast.Div: "div"}


def _term(e, env):
    """Python arithmetic over floats -> a term over the carrier T"""
    s = ast.unparse(e)
    if s in env:
        return env[s]
    if isinstance(e, ast.BinOp) and type(e.op) in BIN:
        return f"(o_{BIN[type(e.op)]} o {_term(e.left, env)} {_term(e.right, env)})"
    if isinstance(e, ast.Constant) and e.value == 2 and isinstance(e.value, int):
        return "(o_two o)"
    if isinstance(e, ast.Call) and isinstance(e.func, ast.Name) and not e.keywords:
        if e.func.id == "abs" and len(e.args) == 1:
            return f"(o_abs o {_term(e.args[0], env)})"
        if e.func.id in ("min", "max") and len(e.args) == 2:
            return f"(p{e.func.id} {_term(e.args[0], env)} {_term(e.args[1], env)})"
        if e.func.id in env.get("__functions__", ()) and len(e.args) == 1:
            return f"({e.func.id} {_term(e.args[0], env)})"
    raise Untranslatable(f"gradient_descent: term {s}")


def _test(e, env):
    """a Python condition -> a boolean term"""
    if isinstance(e, ast.BoolOp) and isinstance(e.op, (ast.Or, ast.And)):
        op = " || " if isinstance(e.op, ast.Or) else " && "
        return "(" + op.join(_test(v, env) for v in e.values) + ")"
    if isinstance(e, ast.Compare):
        parts, left = [], e.left
        for op, right in zip(e.ops, e.comparators):
            f = {ast.Lt: "ltb", ast.LtE: "leb", ast.Eq: "eqb"}.get(type(op))
            if f is None:
                raise Untranslatable(f"gradient_descent: comparison {ast.unparse(e)}")
            parts.append(f"o_{f} o {_term(left, env)} {_term(right, env)}")
            left = right
        return "(" + " && ".join(parts) + ")"
    raise Untranslatable(f"gradient_descent: test {ast.unparse(e)}")


def _body(fn):
    return [s for s in fn.body if not (isinstance(s, ast.Expr) and isinstance(s.value, ast.Constant))]


def generate(repo):
    tree = ast.parse(open(os.path.join(repo, "src/bartiq/analysis.py")).read())
    fns = {n.name: n for n in ast.walk(tree) if isinstance(n, ast.FunctionDef)}
    for f in ("gradient_descent", "_numerical_gradient"):
        if f not in fns:
            raise Untranslatable(f"{f} missing")
    ng = fns["_numerical_gradient"]
    nb = _body(ng)
    if [a.arg for a in ng.args.args] != ["f", "value", "epsilon"] or len(ng.args.defaults) != 1 or len(nb) != 1 or not isinstance(nb[0], ast.Return):
        raise Untranslatable("_numerical_gradient: signature / body")
    eps_text = ast.unparse(ng.args.defaults[0])
    grad = _term(nb[0].value, {"value": "value", "epsilon": "epsilon", "__functions__": ("f",)})
    gd = fns["gradient_descent"]
    if [a.arg for a in gd.args.args] != ["cost_func", "x0", "bounds", "learning_rate", "max_iter", "tolerance", "momentum"]:
        raise Untranslatable("gradient_descent: signature")
    b = _body(gd)
    t = [ast.unparse(s) for s in b]
    if len(b) != 7:
        raise Untranslatable(f"gradient_descent: {len(b)} statements")
    if t[0] != "if x0 is None:\n    x0 = random.uniform(*bounds) if bounds else random.uniform(-1, 1)":
        raise Untranslatable("gradient_descent: default start")
    # the start check: `if bounds and not (<within>): raise ValueError(...)`
    st = b[1]
    if not (isinstance(st, ast.If) and isinstance(st.test, ast.BoolOp) and isinstance(st.test.op, ast.And) and len(st.test.values) == 2
            and ast.unparse(st.test.values[0]) == "bounds" and isinstance(st.test.values[1], ast.UnaryOp) and isinstance(st.test.values[1].op, ast.Not)
            and len(st.body) == 1 and isinstance(st.body[0], ast.Raise) and ast.unparse(st.body[0].exc).startswith("ValueError(") and not st.orelse):
        raise Untranslatable("gradient_descent: start check")
    benv = {"bounds[0]": "b0", "bounds[1]": "b1"}
    start_ok = _test(st.test.values[1].operand, {**benv, "x0": "x0"})
    if t[2] != "current_value = x0" or t[3] != "velocity = 0.0" or t[4] != "x_history = [current_value]":
        raise Untranslatable("gradient_descent: initialisation")
    loop = b[5]
    if not (isinstance(loop, ast.For) and ast.unparse(loop.iter) == "range(max_iter)" and len(loop.body) == 7
            and len(loop.orelse) == 1 and isinstance(loop.orelse[0], ast.Raise) and ast.unparse(loop.orelse[0].exc).startswith("RuntimeError(")):
        raise Untranslatable("gradient_descent: loop header / for-else")
    lb = loop.body
    lt = [ast.unparse(s) for s in lb]
    if lt[0] != "gradient = Optimizer._numerical_gradient(cost_func, current_value)":
        raise Untranslatable("gradient_descent: gradient call")
    if not (isinstance(lb[1], ast.Assign) and ast.unparse(lb[1].targets[0]) == "velocity"
            and isinstance(lb[2], ast.Assign) and ast.unparse(lb[2].targets[0]) == "next_value"):
        raise Untranslatable("gradient_descent: velocity / next value")
    env = {"momentum": "momentum", "velocity": "velocity", "learning_rate": "learning_rate", "gradient": "gradient",
           "current_value": "current_value", "next_value": "next_value", "tolerance": "tolerance", **benv}
    velocity = _term(lb[1].value, env)
    nxt = _term(lb[2].value, env)
    cl = lb[3]
    if not (isinstance(cl, ast.If) and ast.unparse(cl.test) == "bounds" and len(cl.body) == 2 and not cl.orelse
            and isinstance(cl.body[0], ast.Assign) and ast.unparse(cl.body[0].targets[0]) == "next_value"
            and isinstance(cl.body[1], ast.If) and not cl.body[1].orelse
            and [ast.unparse(s) for s in cl.body[1].body] == ["x_history.append(next_value)", "current_value = next_value", "break"]):
        raise Untranslatable("gradient_descent: clipping block")
    clip = _term(cl.body[0].value, env)
    hit = _test(cl.body[1].test, env)
    cv = lb[4]
    if not (isinstance(cv, ast.If) and [ast.unparse(s) for s in cv.body] == ["break"] and not cv.orelse):
        raise Untranslatable("gradient_descent: convergence test")
    conv = _test(cv.test, env)
    if lt[5] != "x_history.append(next_value)" or lt[6] != "current_value = next_value":
        raise Untranslatable("gradient_descent: end of the loop body")
    if t[6] != "return {'optimal_value': current_value, 'minimum_cost': cost_func(current_value), 'x_history': x_history}":
        raise Untranslatable("gradient_descent: result")
    out = ["(* GENERATED by translator/gen_graddesc.py from src/bartiq/analysis.py — do not edit *)",
           "From Coq Require Import List Bool String.", "Import ListNotations.", "",
           "(* the operations of the number carrier (binary64 floats, or Q) *)",
           "Record gd_ops (T : Type) := { o_add : T -> T -> T; o_sub : T -> T -> T; o_mul : T -> T -> T; o_div : T -> T -> T;",
           "                              o_abs : T -> T; o_ltb : T -> T -> bool; o_leb : T -> T -> bool; o_eqb : T -> T -> bool; o_two : T }.",
           "Arguments o_add {T}. Arguments o_sub {T}. Arguments o_mul {T}. Arguments o_div {T}. Arguments o_abs {T}.",
           "Arguments o_ltb {T}. Arguments o_leb {T}. Arguments o_eqb {T}. Arguments o_two {T}.", "",
           "Section GenGD.",
           "  Variable T : Type.",
           "  Variable o : gd_ops T.",
           "  (* Python's min(a, b) / max(a, b): the first argument unless the second is strictly smaller / larger *)",
           "  Definition pmin (a b : T) : T := if o_ltb o b a then b else a.",
           "  Definition pmax (a b : T) : T := if o_ltb o a b then b else a.",
           f"  Definition gen_gd_grad (f : T -> T) (value epsilon : T) : T := {grad}.",
           f"  Definition gen_gd_velocity (momentum velocity learning_rate gradient : T) : T := {velocity}.",
           f"  Definition gen_gd_next (current_value velocity : T) : T := {nxt}.",
           f"  Definition gen_gd_clip (next_value b0 b1 : T) : T := {clip}.",
           f"  Definition gen_gd_hit (next_value b0 b1 : T) : bool := {hit}.",
           f"  Definition gen_gd_converged (gradient tolerance : T) : bool := {conv}.",
           f"  Definition gen_gd_start_ok (x0 b0 b1 : T) : bool := {start_ok}.",
           "End GenGD.",
           "Arguments pmin {T}. Arguments pmax {T}. Arguments gen_gd_grad {T}. Arguments gen_gd_velocity {T}. Arguments gen_gd_next {T}.",
           "Arguments gen_gd_clip {T}. Arguments gen_gd_hit {T}. Arguments gen_gd_converged {T}. Arguments gen_gd_start_ok {T}.", "",
           f"Definition gen_gd_epsilon_text : string := {coq_string(eps_text)}.",
           "(* the skeleton around these expressions (statement order, the two breaks, the for-else raising RuntimeError, the start",
           "   check raising ValueError, what is appended to the history and when, the returned triple) was checked statement by statement *)",
           "Definition gen_gd_skeleton_checked : bool := true.", ""]
    return "\n".join(out)


def targets(repo):
    return [("GenGradDescent.v", ["src/bartiq/analysis.py"], lambda: generate(repo))]
