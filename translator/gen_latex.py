"""integrations/latex.py -> coq/generated/GenLatex.v
* which port directions have a section in SECTIONS (from the getter functions' filters)
* which routine attributes have a section
* whether _format_param_math_with_subscript falls back to text formatting when a part around the first "_" is empty"""
import ast
import os

from pyexpr import Untranslatable, coq_string


def generate(repo):
    tree = ast.parse(open(os.path.join(repo, "src/bartiq/integrations/latex.py")).read())
    funcs = {n.name: n for n in tree.body if isinstance(n, ast.FunctionDef)}
    sections = None
    for n in tree.body:
        if isinstance(n, ast.Assign) and isinstance(n.targets[0], ast.Name) and n.targets[0].id == "SECTIONS":
            sections = n.value
    if not isinstance(sections, ast.List):
        raise Untranslatable("SECTIONS list not found")
    dirs, attrs = [], []
    for el in sections.elts:
        if not (isinstance(el, ast.Tuple) and len(el.elts) == 2):
            raise Untranslatable("SECTIONS entry shape")
        getter = el.elts[0]
        if isinstance(getter, ast.Call) and ast.unparse(getter.func) == "attrgetter" and isinstance(getter.args[0], ast.Constant):
            attrs.append(getter.args[0].value)
        elif isinstance(getter, ast.Name) and getter.id in funcs:
            body = [s for s in funcs[getter.id].body if not (isinstance(s, ast.Expr) and isinstance(s.value, ast.Constant))]
            src = ast.unparse(body[0]) if len(body) == 1 else ""
            pre, post = "return [port for port in routine.ports if port.direction == '", "']"
            if not (src.startswith(pre) and src.endswith(post)):
                raise Untranslatable(f"port getter {getter.id}: {src}")
            dirs.append(src[len(pre):-len(post)])
        else:
            raise Untranslatable(f"SECTIONS getter {ast.unparse(getter)}")
    # resources are rendered separately
    rt = funcs.get("routine_to_latex")
    if rt is None or "_format_resources(routine, show_non_root_resources)" not in ast.unparse(rt):
        raise Untranslatable("routine_to_latex no longer renders resources through _format_resources")
    fm = funcs.get("_format_param_math_with_subscript")
    if fm is None:
        raise Untranslatable("_format_param_math_with_subscript missing")
    src = ast.unparse(fm)
    if "symbol, subscript = param.split('_', 1)" not in src:
        raise Untranslatable("_format_param_math_with_subscript: split changed")
    guard = ("if not symbol or not subscript:\n        return _format_param_text(param)" in src) or \
            ("if not (symbol and subscript):\n        return _format_param_text(param)" in src)
    fl = funcs.get("_format_local_param")
    if fl is None or "return _format_param_math(param) if param.count('_') <= 1 else _format_param_text(param)" not in ast.unparse(fl):
        raise Untranslatable("_format_local_param changed")
    # ---- the traversal and the assembly of the sections (what gets an entry), translated from fixed statement shapes
    def body_of(name):
        f = funcs.get(name)
        if f is None:
            raise Untranslatable(f"{name} missing")
        return [ast.unparse(st) for st in f.body if not (isinstance(st, ast.Expr) and isinstance(st.value, ast.Constant))]

    walk = body_of("_walk")
    loop, own = "for child in routine.children:\n    yield from _walk(child)", "yield routine"
    if walk == [loop, own]:
        walk_def = "(flat_map gen_latex_walk ch ++ [r])%list"
        others = "removelast (gen_latex_walk r)"         # `r is not routine`: the root is the last one yielded
        root_pos = "last"
    elif walk == [own, loop]:
        walk_def = "(r :: flat_map gen_latex_walk ch)"
        others = "tl (gen_latex_walk r)"
        root_pos = "first"
    else:
        raise Untranslatable(f"_walk: {walk}")
    if body_of("_format_resources") != [
            "lines = _get_resources_lines(routine.resources)",
            "if show_non_root_resources:\n    subroutines_to_process = [r for r in _walk(routine) if r is not routine]\n"
            "    for subroutine in subroutines_to_process:\n        lines += _get_resources_lines(subroutine.resources, subroutine.name)",
            "return _format_section_multi_line('Resources', lines) if lines else None"]:
        raise Untranslatable("_format_resources changed")
    if body_of("_get_resources_lines") != [
            "lines: list[str] = []",
            "for resource in resources:\n    if path is None:\n        resource_path = resource.name\n    else:\n"
            "        resource_path = f'{path}.{resource.name}'\n"
            "    lines.append(f'&{_format_param(resource_path)} = {_latex_expression(str(resource.value))}')",
            "return lines"]:
        raise Untranslatable("_get_resources_lines changed")
    if body_of("_format_input_params") != ["input_params = [_format_param(input_param) for input_param in input_params]",
                                           "return _format_section_one_line('Input parameters', input_params)"]:
        raise Untranslatable("_format_input_params changed")
    ps = body_of("_format_port_sizes")
    if len(ps) != 3 or ps[0] != "lines = []" or not ps[1].startswith("for port in ports:\n") or ps[1].count("lines.append(") != 1 \
            or "\n    lines.append(line)" not in ps[1] or ps[2] != "return _format_section_multi_line(f'{label} ports', lines)":
        raise Untranslatable("_format_port_sizes changed")
    rt_src = ast.unparse(rt)
    if "*[format_line(data) for getter, format_line in SECTIONS if (data := getter(routine))]" not in rt_src.replace("(getter, format_line)", "getter, format_line") \
            or "if (resource_section := _format_resources(routine, show_non_root_resources)):\n        lines.append(resource_section)" not in rt_src:
        raise Untranslatable("routine_to_latex: assembly of the sections changed")
    dir_con = {"input": "DIn", "output": "DOut", "through": "DThrough"}
    model = [
        "(* _walk: the subroutines in the order they are yielded *)",
        "Fixpoint gen_latex_walk (r : routine) : list routine :=",
        f"  match r with Routine _ _ _ _ _ _ _ _ _ _ ch => {walk_def} end.",
        f"Definition gen_latex_walk_root_position : string := {coq_string(root_pos)}.",
        "",
        "(* _format_resources / _get_resources_lines: one line per resource, the root's first (no path), then -- if asked --",
        "   those of every other routine of the walk under that routine's name *)",
        "Definition gen_latex_resource_lines (r : routine) (show_non_root : bool) : list (option string * string) :=",
        "  (map (fun x => (None, r_name x)) (rresources r) ++",
        "   (if show_non_root then flat_map (fun s => map (fun x => (Some (rname s), r_name x)) (rresources s))",
        f"                                   ({others}) else []))%list.",
        "",
        "(* SECTIONS: one entry per input parameter; one line per port of each direction that has a getter *)",
        "Definition gen_latex_param_entries (r : routine) : list string := " + ("rparams r" if "input_params" in attrs else "[]") + ".",
        "Definition gen_latex_port_lines (r : routine) : list (dir * string) :=",
        "  (" + " ++ ".join(f"map (fun p => ({dir_con[d]}, p_name p)) (filter (fun p => dir_eqb (p_dir p) {dir_con[d]}) (rports r))" for d in dirs)
        + ")%list.", ""]
    out = ["(* GENERATED by translator/gen_latex.py from src/bartiq/integrations/latex.py — do not edit *)",
           "From Coq Require Import List String Bool.", "From Bq Require Import Expr Routine.", "Import ListNotations.", "Open Scope string_scope.", "",
           *model,
           f"Definition gen_latex_port_directions : list string := [{'; '.join(coq_string(d) for d in dirs)}].",
           f"Definition gen_latex_attr_sections : list string := [{'; '.join(coq_string(a) for a in attrs)}].",
           f"Definition gen_latex_empty_part_guard : bool := {'true' if guard else 'false'}.", ""]
    return "\n".join(out)


def targets(repo):
    return [("GenLatex.v", ["src/bartiq/integrations/latex.py"], lambda: generate(repo))]
