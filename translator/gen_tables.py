"""Tables read from the compilation sources -> coq/generated/GenTables.v

* DEFAULT_PREPROCESSING_STAGES (order of the four stages)            preprocessing.py
* _process_repeated_resources: resource type -> sum / prod / skip / error, and
  what is passed to sequence_sum/prod (the child's value or its symbol)  _compile.py
* ResourceType / PortDirection / ConstraintStatus members                _routine.py
* compile_routine's verification guard shape                             _compile.py
"""
import ast
import os

from pyexpr import Untranslatable, coq_string


def _find(tree, kind, name):
    for n in ast.walk(tree):
        if isinstance(n, kind) and getattr(n, "name", None) == name:
            return n
    raise Untranslatable(f"{kind.__name__} {name} not found")


def _stages(src):
    tree = ast.parse(open(src).read())
    for n in tree.body:
        if isinstance(n, ast.Assign) and len(n.targets) == 1 and isinstance(n.targets[0], ast.Name) \
                and n.targets[0].id == "DEFAULT_PREPROCESSING_STAGES":
            if not isinstance(n.value, (ast.Tuple, ast.List)) or not all(isinstance(e, ast.Name) for e in n.value.elts):
                raise Untranslatable("DEFAULT_PREPROCESSING_STAGES is not a tuple of names")
            return [e.id for e in n.value.elts]
    raise Untranslatable("DEFAULT_PREPROCESSING_STAGES not found")


def _is_type_eq(node, var, attr_chain):
    """node is `<var>.<attr_chain> == "<lit>"` -> lit"""
    if isinstance(node, ast.Compare) and len(node.ops) == 1 and isinstance(node.ops[0], ast.Eq) \
            and isinstance(node.comparators[0], ast.Constant) and isinstance(node.comparators[0].value, str):
        if ast.unparse(node.left) == ".".join([var] + attr_chain):
            return node.comparators[0].value
    return None


def _rep_table(src):
    tree = ast.parse(open(src).read())
    fn = _find(tree, ast.FunctionDef, "_process_repeated_resources")
    loops = [n for n in fn.body if isinstance(n, ast.For) and ast.unparse(n.iter) == "child_resources.values()"]
    if len(loops) != 1 or not isinstance(loops[0].target, ast.Name) or loops[0].target.id != "resource":
        raise Untranslatable("_process_repeated_resources: main loop not recognised")
    loop = loops[0]
    loop_body = list(loop.body)
    symbol_names = {}
    # optional: <name> = backend.as_expression(f"{children[0].name}.{resource.name}")  (the child's resource symbol)
    if isinstance(loop_body[0], ast.Assign) and len(loop_body[0].targets) == 1 and isinstance(loop_body[0].targets[0], ast.Name) \
            and ast.unparse(loop_body[0].value) == "backend.as_expression(f'{children[0].name}.{resource.name}')":
        symbol_names[loop_body[0].targets[0].id] = "symbol"
        loop_body = loop_body[1:]
    if not isinstance(loop_body[0], ast.If):
        raise Untranslatable("_process_repeated_resources: loop does not start with the type dispatch")
    # the statements after the dispatch must build the new resource from new_value
    tail = "\n".join(ast.unparse(s) for s in loop_body[1:])
    if tail != "new_resource = replace(resource, value=new_value)\nnew_resources[resource.name] = new_resource":
        raise Untranslatable(f"_process_repeated_resources: loop tail changed: {tail}")
    rows = []   # (type literal, needs_constant_sequence, action)
    argument = set()
    node = loop_body[0]
    has_else_raise = False
    while True:
        test, body, orelse = node.test, node.body, node.orelse
        cond_type, need_const = None, False
        t = _is_type_eq(test, "resource", ["type"])
        env_branch = False
        if t is not None:
            cond_type = t
        elif isinstance(test, ast.BoolOp) and isinstance(test.op, ast.And) and len(test.values) == 2:
            t1 = _is_type_eq(test.values[0], "resource", ["type"])
            t2 = _is_type_eq(test.values[1], "repetition", ["sequence", "type"])
            if t1 is None or t2 != "constant":
                raise Untranslatable(f"dispatch condition {ast.unparse(test)}")
            cond_type, need_const = t1, True
        elif "os.environ.get(REPETITION_ALLOW_ARBITRARY_RESOURCES_ENV" in ast.unparse(test):
            env_branch = True   # off unless the user sets the env flag; not modelled
        else:
            raise Untranslatable(f"dispatch condition {ast.unparse(test)}")
        if not env_branch:
            real = [s for s in body if not (isinstance(s, ast.Expr) and isinstance(s.value, ast.Constant))]
            if len(real) == 1 and isinstance(real[0], ast.Continue):
                action = "skip"
            elif len(real) == 1 and isinstance(real[0], ast.Assign) and ast.unparse(real[0].targets[0]) == "new_value" \
                    and isinstance(real[0].value, ast.Call) and isinstance(real[0].value.func, ast.Attribute) \
                    and ast.unparse(real[0].value.func.value) == "repetition" \
                    and real[0].value.func.attr in ("sequence_sum", "sequence_prod") and len(real[0].value.args) == 2 \
                    and ast.unparse(real[0].value.args[1]) == "backend":
                action = "sum" if real[0].value.func.attr == "sequence_sum" else "prod"
                arg = ast.unparse(real[0].value.args[0])
                if arg == "resource.value":
                    argument.add("value")
                elif arg in symbol_names:
                    argument.add(symbol_names[arg])
                elif arg in ("backend.as_expression(f'{children[0].name}.{resource.name}')",
                             "backend.as_expression(f'{child.name}.{resource.name}')",
                             "child_symbol(resource)"):
                    argument.add("symbol")
                else:
                    raise Untranslatable(f"argument of {real[0].value.func.attr}: {arg}")
            else:
                raise Untranslatable(f"dispatch body for {cond_type}: {ast.unparse(body[0])[:80]}")
            rows.append((cond_type, need_const, action))
        if len(orelse) == 1 and isinstance(orelse[0], ast.If):
            node = orelse[0]
            continue
        if len(orelse) == 1 and isinstance(orelse[0], ast.Raise) and "BartiqCompilationError" in ast.unparse(orelse[0]):
            has_else_raise = True
        break
    if not has_else_raise:
        raise Untranslatable("dispatch does not end in raise BartiqCompilationError")
    if len(argument) != 1:
        raise Untranslatable(f"sequence_sum/prod called with different kinds of argument: {argument}")
    return rows, argument.pop()


def _guard(src):
    tree = ast.parse(open(src).read())
    fn = _find(tree, ast.FunctionDef, "compile_routine")
    first = [s for s in fn.body if not (isinstance(s, ast.Expr) and isinstance(s.value, ast.Constant))][0]
    if not isinstance(first, ast.If):
        raise Untranslatable("compile_routine does not start with the verification guard")
    guard = ast.unparse(first.test)
    body = "\n".join(ast.unparse(s) for s in first.body)
    calls_topology = "verify_topology(routine)" in body
    calls_reps = "verify_uncompiled_repetitions(routine)" in body
    raises = "raise BartiqCompilationError" in body and "if len(problems) > 0" in body
    # the statements after the guard: from_qref, preprocessing, _compile
    rest = "\n".join(ast.unparse(s) for s in fn.body[fn.body.index(first) + 1:])
    return guard, calls_topology, calls_reps, raises, rest


def _enum_members(src, cls):
    tree = ast.parse(open(src).read())
    c = _find(tree, ast.ClassDef, cls)
    return [s.targets[0].id for s in c.body if isinstance(s, ast.Assign) and isinstance(s.targets[0], ast.Name)]


def generate(repo):
    stages = _stages(os.path.join(repo, "src/bartiq/compilation/preprocessing.py"))
    rows, argument = _rep_table(os.path.join(repo, "src/bartiq/compilation/_compile.py"))
    guard, topo, reps, raises, rest = _guard(os.path.join(repo, "src/bartiq/compilation/_compile.py"))
    rtypes = _enum_members(os.path.join(repo, "src/bartiq/_routine.py"), "ResourceType")
    dirs = _enum_members(os.path.join(repo, "src/bartiq/_routine.py"), "PortDirection")
    out = [
        "(* GENERATED by translator/gen_tables.py — do not edit *)",
        "From Coq Require Import List String Bool.",
        "Import ListNotations.",
        "Open Scope string_scope.",
        "",
        "Definition gen_preprocessing_stages : list string :=",
        "  [" + "; ".join(coq_string(s) for s in stages) + "].",
        "",
        "(* _process_repeated_resources: resource type, sequence-is-constant -> action *)",
        "Definition gen_rep_action (t : string) (seq_is_constant : bool) : string :=",
    ]
    body = '"error"'
    for t, need_const, action in reversed(rows):
        cond = f"String.eqb t {coq_string(t)}" + (" && seq_is_constant" if need_const else "")
        body = f"if {cond} then {coq_string(action)} else ({body})"
    out.append("  " + body + ".")
    out += [
        "",
        "(* what is passed to sequence_sum / sequence_prod: the child's compiled value, or its `child.resource` symbol *)",
        f"Definition gen_rep_argument : string := {coq_string(argument)}.",
        "",
        f"Definition gen_resource_types : list string := [{'; '.join(coq_string(s) for s in rtypes)}].",
        f"Definition gen_port_directions : list string := [{'; '.join(coq_string(s) for s in dirs)}].",
        "",
        "(* compile_routine: verification guard *)",
        f"Definition gen_verification_guard : string := {coq_string(guard)}.",
        f"Definition gen_guard_calls_verify_topology : bool := {'true' if topo else 'false'}.",
        f"Definition gen_guard_calls_verify_repetitions : bool := {'true' if reps else 'false'}.",
        f"Definition gen_guard_raises_on_problems : bool := {'true' if raises else 'false'}.",
        "",
    ]
    return "\n".join(out)


def targets(repo):
    srcs = ["src/bartiq/compilation/preprocessing.py", "src/bartiq/compilation/_compile.py", "src/bartiq/_routine.py"]
    return [("GenTables.v", srcs, lambda: generate(repo))]
