"""repetitions.py  ->  coq/generated/GenRepetitions.v

For each sequence class, `get_sum` and `get_prod` become Gallina functions
    gen_<Class>_<method> (fields...) (e_ count_ : expr) : option expr
(None = the method raises BartiqCompilationError).  Also emitted: the list of
sequence classes with their `type` literal, and Repetition.sequence_sum/prod's
delegation (which argument is passed as count)."""
import ast

from pyexpr import ExprTranslator, Untranslatable, coq_string

CLASSES = ["ConstantSequence", "ArithmeticSequence", "GeometricSequence", "ClosedFormSequence", "CustomSequence"]
METHODS = ["get_sum", "get_prod"]


def _fields(cls: ast.ClassDef):
    out = []
    for st in cls.body:
        if isinstance(st, ast.AnnAssign) and isinstance(st.target, ast.Name):
            out.append((st.target.id, ast.unparse(st.annotation)))
    return out


def _type_literal(ann: str) -> str:
    # Literal['constant']
    if ann.startswith("Literal[") and ann.endswith("]"):
        return ast.literal_eval(ann[len("Literal["):-1])
    raise Untranslatable(f"type annotation {ann}")


def _field_kind(name, ann):
    if ann == "TExpr[T] | None":
        return "option"
    if ann == "T":
        return "symbol"
    if ann == "TExpr[T]":
        return "expr"
    raise Untranslatable(f"field {name}: {ann}")


def _is_self_attr(node, attr=None):
    return (
        isinstance(node, ast.Attribute)
        and isinstance(node.value, ast.Name)
        and node.value.id == "self"
        and (attr is None or node.attr == attr)
    )


def _translate_method(cls_name, fields, fn: ast.FunctionDef):
    args = [a.arg for a in fn.args.args]
    if args != ["self", "expr", "count", "backend"]:
        raise Untranslatable(f"{cls_name}.{fn.name}: signature {args}")
    body = [s for s in fn.body if not (isinstance(s, ast.Expr) and isinstance(s.value, ast.Constant))]
    kinds = {n: _field_kind(n, a) for n, a in fields}
    symbol_fields = set(n for n, k in kinds.items() if k == "symbol")

    # fields that are used as a *name* (dict key through backend.serialize) are symbols too
    for node in ast.walk(fn):
        if (
            isinstance(node, ast.Call)
            and isinstance(node.func, ast.Attribute)
            and node.func.attr == "serialize"
            and len(node.args) == 1
            and _is_self_attr(node.args[0])
        ):
            symbol_fields.add(node.args[0].attr)

    params = []
    self_fields = {}
    for n, k in kinds.items():
        if n in symbol_fields:
            params.append(f"(f_{n} : string)")
            self_fields[n] = f"(ESym f_{n})"
            self_fields[n + "!name"] = f"f_{n}"
        elif k == "option":
            params.append(f"(f_{n} : option expr)")
        else:
            params.append(f"(f_{n} : expr)")
            self_fields[n] = f"f_{n}"
    names = {"expr": "e_", "count": "count_"}

    def tr_block(stmts, tr: ExprTranslator, opt_bound):
        """Translate a statement list ending in Return/Raise into an `option expr` term."""
        if not stmts:
            raise Untranslatable(f"{cls_name}.{fn.name}: falls off the end")
        st, rest = stmts[0], stmts[1:]
        if isinstance(st, ast.Return) and not rest:
            return f"Some {tr.tr(st.value)}"
        if isinstance(st, ast.Raise) and not rest:
            if isinstance(st.exc, ast.Call) and isinstance(st.exc.func, ast.Name) and st.exc.func.id == "BartiqCompilationError":
                return "None"
            raise Untranslatable(f"raise of {ast.dump(st.exc)[:80]}")
        if isinstance(st, ast.Assign) and len(st.targets) == 1 and isinstance(st.targets[0], ast.Name):
            tgt = st.targets[0].id
            v = st.value
            # gamma = backend.func("gamma")
            if (
                isinstance(v, ast.Call)
                and isinstance(v.func, ast.Attribute)
                and isinstance(v.func.value, ast.Name)
                and v.func.value.id == "backend"
                and v.func.attr == "func"
                and len(v.args) == 1
                and isinstance(v.args[0], ast.Constant)
                and isinstance(v.args[0].value, str)
            ):
                tr2 = ExprTranslator(tr.names, tr.self_fields, {**tr.funcs, tgt: v.args[0].value}, tr.envs)
                return tr_block(rest, tr2, opt_bound)
            # inputs = {backend.serialize(self.sym): count}
            if isinstance(v, ast.Dict) and len(v.keys) == 1:
                k, val = v.keys[0], v.values[0]
                if (
                    isinstance(k, ast.Call)
                    and isinstance(k.func, ast.Attribute)
                    and k.func.attr == "serialize"
                    and _is_self_attr(k.args[0])
                    and k.args[0].attr in symbol_fields
                ):
                    envterm = f"[(f_{k.args[0].attr}, {tr.tr(val)})]"
                    tr2 = ExprTranslator(tr.names, tr.self_fields, tr.funcs, {**tr.envs, tgt: envterm})
                    return tr_block(rest, tr2, opt_bound)
            # x = <an expression over what is already known>: a local name, inlined
            try:
                val = tr.tr(v)
            except Untranslatable:
                raise Untranslatable(f"assignment {ast.unparse(st)}")
            tr2 = ExprTranslator({**tr.names, tgt: val}, tr.self_fields, tr.funcs, tr.envs)
            return tr_block(rest, tr2, opt_bound)
        # if self.<field> == 0: <block ending in return>   (followed by the general case)
        if (
            isinstance(st, ast.If)
            and rest
            and not st.orelse
            and isinstance(st.test, ast.Compare)
            and len(st.test.ops) == 1
            and isinstance(st.test.ops[0], ast.Eq)
            and _is_self_attr(st.test.left)
            and kinds.get(st.test.left.attr) == "expr"
            and isinstance(st.test.comparators[0], ast.Constant)
            and st.test.comparators[0].value == 0
            and not isinstance(st.test.comparators[0].value, bool)
        ):
            return (f"if is_zero_lit f_{st.test.left.attr} then {tr_block(st.body, tr, opt_bound)} "
                    f"else {tr_block(rest, tr, opt_bound)}")
        if isinstance(st, ast.If) and not rest:
            t = st.test
            # self.f is not None
            if (
                isinstance(t, ast.Compare)
                and len(t.ops) == 1
                and isinstance(t.ops[0], ast.IsNot)
                and _is_self_attr(t.left)
                and isinstance(t.comparators[0], ast.Constant)
                and t.comparators[0].value is None
                and kinds.get(t.left.attr) == "option"
            ):
                f = t.left.attr
                tr2 = ExprTranslator(tr.names, {**tr.self_fields, f: f"v_{f}"}, tr.funcs, tr.envs)
                return (
                    f"match f_{f} with Some v_{f} => {tr_block(st.body, tr2, opt_bound)} "
                    f"| None => {tr_block(st.orelse, tr, opt_bound)} end"
                )
            raise Untranslatable(f"if-test {ast.unparse(t)}")
        raise Untranslatable(f"statement {ast.unparse(st)[:100]}")

    term = tr_block(body, ExprTranslator(names, self_fields), None)
    return f"Definition gen_{cls_name}_{fn.name} {' '.join(params)} (e_ count_ : expr) : option expr :=\n  {term}.\n"


def generate(src_path: str) -> str:
    tree = ast.parse(open(src_path).read())
    classes = {n.name: n for n in tree.body if isinstance(n, ast.ClassDef)}
    out = [
        "(* GENERATED by translator/gen_repetitions.py from src/bartiq/repetitions.py — do not edit *)",
        "From Coq Require Import List String QArith ZArith.",
        "From Bq Require Import Expr.",
        "Import ListNotations.",
        "Open Scope string_scope.",
        "",
    ]
    type_table = []
    for cname in CLASSES:
        if cname not in classes:
            raise Untranslatable(f"class {cname} missing")
        cls = classes[cname]
        fields = _fields(cls)
        tfield = [a for n, a in fields if n == "type"]
        if len(tfield) != 1:
            raise Untranslatable(f"{cname}: no type field")
        type_table.append((cname, _type_literal(tfield[0])))
        data_fields = [(n, a) for n, a in fields if n != "type"]
        methods = {n.name: n for n in cls.body if isinstance(n, ast.FunctionDef)}
        for m in METHODS:
            if m not in methods:
                raise Untranslatable(f"{cname}.{m} missing")
            out.append(_translate_method(cname, data_fields, methods[m]))
    out.append(
        "Definition gen_sequence_types : list (string * string) :=\n  ["
        + "; ".join(f"({coq_string(c)}, {coq_string(t)})" for c, t in type_table)
        + "].\n"
    )
    # Repetition.sequence_sum / sequence_prod: which method, which count
    rep = classes.get("Repetition")
    if rep is None:
        raise Untranslatable("class Repetition missing")
    deleg = []
    for fn in rep.body:
        if isinstance(fn, ast.FunctionDef) and fn.name in ("sequence_sum", "sequence_prod"):
            body = [s for s in fn.body if not (isinstance(s, ast.Expr) and isinstance(s.value, ast.Constant))]
            if len(body) != 1 or not isinstance(body[0], ast.Return):
                raise Untranslatable(f"Repetition.{fn.name}: body")
            call = body[0].value
            want = "get_sum" if fn.name == "sequence_sum" else "get_prod"
            if ast.unparse(call) != f"self.sequence.{want}(expr, self.count, backend)":
                raise Untranslatable(f"Repetition.{fn.name}: {ast.unparse(call)}")
            deleg.append(fn.name)
    if sorted(deleg) != ["sequence_prod", "sequence_sum"]:
        raise Untranslatable("Repetition.sequence_sum/prod missing")
    out.append("(* Repetition.sequence_sum/prod delegate to get_sum/get_prod with (expr, self.count): checked by the translator *)")
    out.append("Definition gen_repetition_delegates_ok : bool := true.\n")
    return "\n".join(out)


if __name__ == "__main__":
    import sys

    print(generate(sys.argv[1]))
