"""ast_parser.py / sympy_interpreter.py / sympy_serializer.py -> coq/generated/GenParser.v (tables only)"""
import ast
import os

from pyexpr import Untranslatable, coq_string


def _assign(tree, name):
    for n in tree.body:
        if isinstance(n, ast.Assign) and isinstance(n.targets[0], ast.Name) and n.targets[0].id == name:
            return n.value
        if isinstance(n, ast.AnnAssign) and isinstance(n.target, ast.Name) and n.target.id == name:
            return n.value
    raise Untranslatable(f"{name} not found")


def _pairs(d, what):
    if not isinstance(d, ast.Dict):
        raise Untranslatable(f"{what} is not a dict literal")
    out = []
    for k, v in zip(d.keys, d.values):
        ks = k.value if isinstance(k, ast.Constant) else ast.unparse(k)
        if isinstance(v, ast.Lambda):
            vs = "<lambda " + ast.unparse(v.body) + ">"
        else:
            vs = ast.unparse(v)
        out.append((ks, vs))
    return out


_QOPS = {ast.Sub: "Qminus", ast.Add: "Qplus", ast.Mult: "Qmult", ast.Div: "Qdiv", ast.Mod: "Qmod_std", ast.FloorDiv: "Qfloordiv"}


def _qexpr(e, args):
    """A Python arithmetic expression over the function's arguments, as a term over Q (the model's standard operators)."""
    if isinstance(e, ast.Name) and e.id in args:
        return e.id
    if isinstance(e, ast.BinOp) and type(e.op) in _QOPS:
        return f"({_QOPS[type(e.op)]} {_qexpr(e.left, args)} {_qexpr(e.right, args)})"
    raise Untranslatable(f"operator helper: expression {ast.unparse(e)}")


def _operator_helpers(tree, binary):
    """Module-level functions named in _BINARY_OP_MAP (not operator.xxx): `if <exact rational operands, rhs != 0>:
    return <arithmetic>` followed by `return operator.<op>(lhs, rhs)`.  The arithmetic branch is translated; the guard and
    the fallback are checked to have exactly this shape."""
    out = []
    for node_name, v in binary:
        if v.startswith("operator."):
            continue
        fn = next((n for n in tree.body if isinstance(n, ast.FunctionDef) and n.name == v), None)
        if fn is None:
            raise Untranslatable(f"_BINARY_OP_MAP value {v} is neither operator.xxx nor a module-level function")
        args = [a.arg for a in fn.args.args]
        body = [n for n in fn.body if not (isinstance(n, ast.Expr) and isinstance(n.value, ast.Constant))]   # docstring
        if len(args) != 2 or len(body) != 2 or not isinstance(body[0], ast.If) or body[0].orelse or len(body[0].body) != 1 \
                or not isinstance(body[0].body[0], ast.Return) or not isinstance(body[1], ast.Return):
            raise Untranslatable(f"operator helper {v}: shape")
        a, b = args
        guard = ast.unparse(body[0].test)
        want = f"getattr({a}, 'is_Rational', False) and getattr({b}, 'is_Rational', False) and ({b} != 0)"
        if guard not in (want, want.replace(f"({b} != 0)", f"{b} != 0")):
            raise Untranslatable(f"operator helper {v}: guard {guard}")
        fb = ast.unparse(body[1].value)
        if not (fb.startswith("operator.") and fb.endswith(f"({a}, {b})")):
            raise Untranslatable(f"operator helper {v}: fallback {fb}")
        out.append((v, fb[:-len(f"({a}, {b})")], f"Definition gen_helper{v} ({a} {b} : Q) : Q := {_qexpr(body[0].body[0].value, args)}.\n"))
    return out


def _table(name, pairs):
    return (f"Definition {name} : list (string * string) :=\n  ["
            + "; ".join(f"({coq_string(k)}, {coq_string(v)})" for k, v in pairs) + "].\n")


def generate(repo):
    p = ast.parse(open(os.path.join(repo, "src/bartiq/symbolics/ast_parser.py")).read())
    i = ast.parse(open(os.path.join(repo, "src/bartiq/symbolics/sympy_interpreter.py")).read())
    s = ast.parse(open(os.path.join(repo, "src/bartiq/symbolics/sympy_serializer.py")).read())
    binary = _pairs(_assign(p, "_BINARY_OP_MAP"), "_BINARY_OP_MAP")
    helpers = _operator_helpers(p, binary)
    unary = _pairs(_assign(p, "_UNARY_OP_MAP"), "_UNARY_OP_MAP")
    restricted = _pairs(_assign(p, "_RESTRICTED_NAMES"), "_RESTRICTED_NAMES")
    stages = _assign(p, "_PREPROCESSING_STAGES")
    if not isinstance(stages, ast.Tuple):
        raise Untranslatable("_PREPROCESSING_STAGES")
    stage_names = [ast.unparse(e) for e in stages.elts]
    patterns = []
    for nm in ("_IDENTIFIER", "_NAMESPACE_IDENTIFIER", "_PORT_PATTERN", "_WILDCARD_PATTERN", "_LAMBDA_PATTERN", "_IN_PATTERN"):
        patterns.append((nm, ast.unparse(_assign(p, nm))))
    repl = {}
    for fn in p.body:
        if isinstance(fn, ast.FunctionDef) and fn.name in ("_replace_lambda", "_replace_in", "_replace_ports", "_replace_xor_op"):
            repl[fn.name] = ast.unparse(fn.body[-1])
    funcs = _pairs(_assign(i, "SPECIAL_FUNCS"), "SPECIAL_FUNCS")
    params = _pairs(_assign(i, "SPECIAL_PARAMS"), "SPECIAL_PARAMS")
    # create_function: lookup by lower-cased name
    cf = None
    for n in ast.walk(i):
        if isinstance(n, ast.FunctionDef) and n.name == "create_function":
            cf = ast.unparse(n)
    if cf is None or "elif name.lower() in SPECIAL_FUNCS:" not in cf or "func = SPECIAL_FUNCS[name.lower()]" not in cf \
            or "func = Function(name)" not in cf or "return func(*args)" not in cf:
        raise Untranslatable("create_function: lookup shape changed")
    # binary operation node: left and right converted and combined in that order
    cn = ast.unparse(p)
    if "return _BINARY_OP_MAP[type(node.op)](self.convert_node(node.left), self.convert_node(node.right))" not in cn:
        raise Untranslatable("BinOp conversion changed")
    if "return _UNARY_OP_MAP[type(node.op)](self.convert_node(node.operand))" not in cn:
        raise Untranslatable("UnaryOp conversion changed")
    if "self.interpreter.create_function((_resolve_value(node.func), list(map(self.convert_node, node.args))))" not in cn:
        raise Untranslatable("Call conversion changed")
    printer = [n.name for n in ast.walk(s) if isinstance(n, ast.FunctionDef) and n.name.startswith("_print")]
    pow_template = "f'{base_str} ^ {exp_str}'" in ast.unparse(s)
    out = ["(* GENERATED by translator/gen_parser.py — do not edit *)", "From Coq Require Import List String Bool QArith.",
           "From Bq Require Import StdSem.", "Import ListNotations.", "Open Scope string_scope.", "",
           "(* operator helpers of ast_parser.py: on exact rational operands with a non-zero divisor the helper computes the"
           "\n   translated arithmetic, otherwise it falls back to the named Python operator *)",
           *[h[2] for h in helpers], _table("gen_operator_helper_fallbacks", [(h[0], h[1]) for h in helpers]),
           _table("gen_binary_op_map", binary), _table("gen_unary_op_map", unary), _table("gen_restricted_names", restricted),
           f"Definition gen_parser_stages : list string := [{'; '.join(coq_string(x) for x in stage_names)}].\n",
           _table("gen_parser_patterns", patterns), _table("gen_parser_replacements", sorted(repl.items())),
           _table("gen_special_funcs", funcs), _table("gen_special_params", params),
           "(* create_function looks names up by name.lower(); unknown names become Function(name) applied to the arguments in order;"
           "\n   BinOp/UnaryOp/Call nodes are converted operands-first in source order: shapes checked by the translator *)",
           "Definition gen_function_lookup_is_caseless : bool := true.\n",
           f"Definition gen_printer_overrides : list string := [{'; '.join(coq_string(x) for x in sorted(printer))}].",
           f"Definition gen_printer_pow_is_caret : bool := {'true' if pow_template else 'false'}.\n"]
    return "\n".join(out)


def targets(repo):
    srcs = ["src/bartiq/symbolics/ast_parser.py", "src/bartiq/symbolics/sympy_interpreter.py", "src/bartiq/symbolics/sympy_serializer.py"]
    return [("GenParser.v", srcs, lambda: generate(repo))]
