"""Fail-closed translation of small Python arithmetic expressions (as found in
bartiq's formula-like methods) into Gallina terms over Bq.Expr.expr.

Anything outside the whitelisted shapes raises Untranslatable with the offending
node, which the check treats as "the tie between model and source is broken"."""
import ast
from fractions import Fraction


class Untranslatable(Exception):
    pass


def coq_string(s: str) -> str:
    return '"' + s.replace('"', '""') + '"'


def coq_q(fr: Fraction) -> str:
    n, d = fr.numerator, fr.denominator
    return f"(({n})#{d})" if n < 0 else f"({n}#{d})"


def coq_num(value) -> str:
    if isinstance(value, bool):
        raise Untranslatable(f"bool constant {value}")
    if isinstance(value, int):
        return f"(EZ ({value}))"
    if isinstance(value, float):
        fr = Fraction(value)  # exact dyadic value of the float
        return f"(ENum {coq_q(fr)})"
    raise Untranslatable(f"constant {value!r}")


_BINOPS = {ast.Add: "eadd", ast.Sub: "esub", ast.Mult: "emul", ast.Div: "ediv", ast.Pow: "epow"}


class ExprTranslator:
    """names: python name -> Gallina term (of type expr);
    self_fields: attribute of `self` -> Gallina term;
    funcs: local python name bound to backend.func("f") -> "f"."""

    def __init__(self, names, self_fields, funcs=None, envs=None):
        self.names = dict(names)
        self.self_fields = dict(self_fields)
        self.funcs = dict(funcs or {})
        self.envs = dict(envs or {})

    def tr(self, node) -> str:
        if isinstance(node, ast.Constant):
            return coq_num(node.value)
        if isinstance(node, ast.Name):
            if node.id in self.names:
                return self.names[node.id]
            raise Untranslatable(f"unknown name {node.id} at line {node.lineno}")
        if isinstance(node, ast.Attribute):
            if isinstance(node.value, ast.Name) and node.value.id == "self" and node.attr in self.self_fields:
                return self.self_fields[node.attr]
            raise Untranslatable(f"attribute {ast.dump(node)}")
        if isinstance(node, ast.BinOp):
            if type(node.op) not in _BINOPS:
                raise Untranslatable(f"operator {type(node.op).__name__} at line {node.lineno}")
            return f"({_BINOPS[type(node.op)]} {self.tr(node.left)} {self.tr(node.right)})"
        if isinstance(node, ast.UnaryOp) and isinstance(node.op, ast.USub):
            return f"(eneg {self.tr(node.operand)})"
        if isinstance(node, ast.Call):
            return self.tr_call(node)
        raise Untranslatable(f"node {ast.dump(node)[:200]}")

    def tr_call(self, node: ast.Call) -> str:
        if node.keywords:
            raise Untranslatable("keyword arguments")
        f = node.func
        if isinstance(f, ast.Name) and f.id in self.funcs:
            args = "; ".join(self.tr(a) for a in node.args)
            return f"(efun {coq_string(self.funcs[f.id])} [{args}])"
        if isinstance(f, ast.Attribute) and isinstance(f.value, ast.Name) and f.value.id == "backend":
            if f.attr in ("sequence_sum", "sequence_prod") and len(node.args) == 4:
                kind = "BSum" if f.attr == "sequence_sum" else "BProd"
                term, it, lo, hi = node.args
                return f"(EBig {kind} {self.tr_iter(it)} {self.tr(term)} {self.tr(lo)} {self.tr(hi)})"
            if f.attr == "as_expression" and len(node.args) == 1 and isinstance(node.args[0], ast.Constant) and isinstance(node.args[0].value, str):
                # backend.as_expression("1/2"): the text of an exact rational literal, parsed to that number
                import re
                from fractions import Fraction
                txt = node.args[0].value.strip()
                if not re.fullmatch(r"\d+(/\d+)?", txt):
                    raise Untranslatable(f"as_expression of {txt!r}")
                return f"(ENum {coq_q(Fraction(txt))})"
            if f.attr == "substitute" and len(node.args) == 3:
                e, env, fm = node.args
                if not (isinstance(fm, ast.Dict) and not fm.keys):
                    raise Untranslatable("substitute with non-empty functions map")
                if not (isinstance(env, ast.Name) and env.id in self.envs):
                    raise Untranslatable("substitute with unknown environment")
                return f"(subst {self.envs[env.id]} {self.tr(e)})"
        raise Untranslatable(f"call {ast.dump(node)[:200]}")

    def tr_iter(self, node) -> str:
        # iterator symbols are modelled by their name (a string)
        if (
            isinstance(node, ast.Attribute)
            and isinstance(node.value, ast.Name)
            and node.value.id == "self"
            and node.attr + "!name" in self.self_fields
        ):
            return self.self_fields[node.attr + "!name"]
        raise Untranslatable(f"iterator {ast.dump(node)}")
