"""analysis.py Big-O helpers -> coq/generated/GenBigO.v

Supported shapes (fail-closed otherwise):
  def f(t1, t2):            return all(a <op> b for a, b in zip(t1, t2))          (op in <=, <, >=, >, ==)
  def g(c, others):         if not others: return <bool>;  return all|any(f(c, t) for t in others)
  def h(poly):              terms, _ = zip(*poly.terms()); acc = []; for t in terms: if [not] g(t, acc): acc.append(t); return [mk(poly.gens, x) for x in acc]
"""
import ast
import os

from pyexpr import Untranslatable

CMP = {ast.LtE: "Nat.leb {a} {b}", ast.Lt: "Nat.ltb {a} {b}", ast.GtE: "Nat.leb {b} {a}", ast.Gt: "Nat.ltb {b} {a}", ast.Eq: "Nat.eqb {a} {b}"}


def _fn(tree, name):
    for n in tree.body:
        if isinstance(n, ast.FunctionDef) and n.name == name:
            return n
    raise Untranslatable(f"function {name} not found")


def _body(fn):
    return [s for s in fn.body if not (isinstance(s, ast.Expr) and isinstance(s.value, ast.Constant))]


def _quantifier(call):
    """all(...)/any(...) over a single generator -> (kind, elt, target, iter)"""
    if not (isinstance(call, ast.Call) and isinstance(call.func, ast.Name) and call.func.id in ("all", "any") and len(call.args) == 1
            and isinstance(call.args[0], ast.GeneratorExp) and len(call.args[0].generators) == 1
            and not call.args[0].generators[0].ifs):
        raise Untranslatable(f"expected all(...)/any(...): {ast.unparse(call)}")
    g = call.args[0].generators[0]
    return call.func.id, call.args[0].elt, g.target, g.iter


def _less_than(fn):
    args = [a.arg for a in fn.args.args]
    body = _body(fn)
    if len(args) != 2 or len(body) != 1 or not isinstance(body[0], ast.Return):
        raise Untranslatable(f"{fn.name}: shape")
    kind, elt, target, it = _quantifier(body[0].value)
    if ast.unparse(it) != f"zip({args[0]}, {args[1]})" or not (isinstance(target, ast.Tuple) and len(target.elts) == 2):
        raise Untranslatable(f"{fn.name}: iteration {ast.unparse(it)}")
    a, b = target.elts[0].id, target.elts[1].id
    if not (isinstance(elt, ast.Compare) and len(elt.ops) == 1 and type(elt.ops[0]) in CMP):
        raise Untranslatable(f"{fn.name}: comparison {ast.unparse(elt)}")
    l, r = ast.unparse(elt.left), ast.unparse(elt.comparators[0])
    if {l, r} != {a, b}:
        raise Untranslatable(f"{fn.name}: compares {l} and {r}")
    x, y = ("fst ab", "snd ab") if l == a else ("snd ab", "fst ab")
    cmp = CMP[type(elt.ops[0])].format(a=f"({x})", b=f"({y})")
    q = "forallb" if kind == "all" else "existsb"
    return f"Definition gen_less_than (t1 t2 : list nat) : bool :=\n  {q} (fun ab => {cmp}) (combine t1 t2).\n"


def _le_all(fn, less_name):
    args = [a.arg for a in fn.args.args]
    body = _body(fn)
    if len(args) != 2 or len(body) != 2:
        raise Untranslatable(f"{fn.name}: shape")
    guard, ret = body
    if not (isinstance(guard, ast.If) and ast.unparse(guard.test) == f"not {args[1]}" and len(guard.body) == 1
            and isinstance(guard.body[0], ast.Return) and isinstance(guard.body[0].value, ast.Constant)
            and isinstance(guard.body[0].value.value, bool) and not guard.orelse):
        raise Untranslatable(f"{fn.name}: empty-list guard")
    empty = "true" if guard.body[0].value.value else "false"
    if not isinstance(ret, ast.Return):
        raise Untranslatable(f"{fn.name}: return")
    kind, elt, target, it = _quantifier(ret.value)
    if ast.unparse(it) != args[1] or not isinstance(target, ast.Name):
        raise Untranslatable(f"{fn.name}: iteration")
    t = target.id
    if ast.unparse(elt) == f"{less_name}({args[0]}, {t})":
        call = "gen_less_than c t"
    elif ast.unparse(elt) == f"{less_name}({t}, {args[0]})":
        call = "gen_less_than t c"
    else:
        raise Untranslatable(f"{fn.name}: element {ast.unparse(elt)}")
    q = "forallb" if kind == "all" else "existsb"
    return (f"Definition gen_term_le_all (c : list nat) (others : list (list nat)) : bool :=\n"
            f"  match others with [] => {empty} | _ => {q} (fun t => {call}) others end.\n")


def _leading(fn, le_all_name):
    body = _body(fn)
    src = [ast.unparse(s) for s in body]
    if len(body) != 4 or src[0] != "terms, _ = zip(*poly.terms())" or src[1] != "leading_terms = []":
        raise Untranslatable(f"{fn.name}: prologue {src[:2]}")
    loop = body[2]
    if not (isinstance(loop, ast.For) and ast.unparse(loop.target) == "term" and ast.unparse(loop.iter) == "terms"
            and len(loop.body) == 1 and isinstance(loop.body[0], ast.If) and not loop.body[0].orelse
            and [ast.unparse(s) for s in loop.body[0].body] == ["leading_terms.append(term)"]):
        raise Untranslatable(f"{fn.name}: loop")
    test = ast.unparse(loop.body[0].test)
    if test == f"not {le_all_name}(term, leading_terms)":
        cond = "negb (gen_term_le_all t lead)"
    elif test == f"{le_all_name}(term, leading_terms)":
        cond = "gen_term_le_all t lead"
    else:
        raise Untranslatable(f"{fn.name}: loop test {test}")
    if src[3] != "return [_make_term_expression(poly.gens, leading_term) for leading_term in leading_terms]":
        raise Untranslatable(f"{fn.name}: return {src[3]}")
    return (f"Definition gen_leading_terms (terms : list (list nat)) : list (list nat) :=\n"
            f"  fold_left (fun lead t => if {cond} then (lead ++ [t])%list else lead) terms [].\n")


def generate(repo):
    tree = ast.parse(open(os.path.join(repo, "src/bartiq/analysis.py")).read())
    out = ["(* GENERATED by translator/gen_bigo.py from src/bartiq/analysis.py — do not edit *)",
           "From Coq Require Import List Arith Bool.", "Import ListNotations.", "",
           _less_than(_fn(tree, "_less_than")),
           _le_all(_fn(tree, "_term_less_than_or_equal_to_all_others"), "_less_than"),
           _leading(_fn(tree, "_get_leading_terms"), "_term_less_than_or_equal_to_all_others")]
    # _make_term_expression: prod(gen**order for gen, order in zip(gens, term))
    mk = _fn(tree, "_make_term_expression")
    if [ast.unparse(s) for s in _body(mk)] != ["powers = [gen ** order for gen, order in zip(gens, term)]", "return prod(powers)"]:
        raise Untranslatable("_make_term_expression changed")
    conv = _fn(tree, "_convert_to_big_O")
    csrc = "\n".join(ast.unparse(s) for s in _body(conv))
    need = ["if len(expr.free_symbols) == 0:\n    return _add_big_o_function(1)", "poly = Poly(expr, *gens)",
            "leading_terms = _get_leading_terms(poly)", "return sum(map(_add_big_o_function, leading_terms))"]
    for n in need:
        if n not in csrc:
            raise Untranslatable(f"_convert_to_big_O: missing `{n}`")
    out.append("(* _make_term_expression is prod(gen ** order); _convert_to_big_O returns O(1) for symbol-free input and\n"
               "   sum(O(term)) over gen_leading_terms (Poly(expr, *gens).terms()) otherwise: shapes checked by the translator *)")
    out.append("Definition gen_bigo_shapes_ok : bool := true.\n")
    return "\n".join(out)


def targets(repo):
    return [("GenBigO.v", ["src/bartiq/analysis.py"], lambda: generate(repo))]
