#!/usr/bin/env python3
"""debug_case.py <replay.json | problem index from last evidence> : show model vs implementation values for one hierarchy case."""
import json, os, subprocess, sys
sys.path.insert(0, os.path.dirname(os.path.abspath(__file__)))
import exprs as E, hier as H, lib

payload = json.load(open(sys.argv[1]))
case = payload.get("case") or payload["first"]["case"]
stream = sys.argv[2] if len(sys.argv) > 2 else "hier-compile"
imp = lib.run_impl(stream, [case], per_case_timeout=60)[0]
print("IMPL:", json.dumps(imp)[:3000] if not imp.get("ok") else "ok")
names = H.tree_input_params(imp["tree"]) if imp.get("ok") else set()
pts = H.make_points(lib.Rng("dbg"), names, 1)
txt = lib.CASE_HEADER.format(imports="RepModel Routine Compile Preprocess CompileTop", gen_imports="")
txt += f"Definition r0 : routine := {H.routine_to_coq(case['routine'])}.\n"
txt += f"Definition i0 : impl_result := {H.impl_to_coq(imp)}.\n"
txt += f"Definition pts := {H.points_to_coq(pts)}.\n"
txt += "Eval vm_compute in (err_class (preprocess r0), err_class (compile_routine r0)).\n"
txt += "Eval vm_compute in match compile_routine r0, i0 with Ok m, IOk t => dbg_trees 10 (envQ (hd [] pts) (dfltQ 0)) \"\" m t | _, _ => [] end.\n"
txt += "Eval vm_compute in match compile_routine r0, i0 with Ok m, IOk t => dbg_params 10 \"\" m t | _, _ => [] end.\n"
if "-v" in sys.argv:
    txt += "Eval vm_compute in preprocess r0.\nEval vm_compute in compile_routine r0.\n"
os.makedirs("/verif/build/dbg", exist_ok=True)
open("/verif/build/dbg/dbg_case.v", "w").write(txt)
print(json.dumps(H.to_qref(case["routine"]), indent=1) if "-q" in sys.argv else "")
p = subprocess.run(["coqc"] + lib.COQ_FLAGS + ["/verif/build/dbg/dbg_case.v"], cwd=lib.COQ, capture_output=True, text=True, timeout=600)
print(p.stdout[-6000:], p.stderr[-2000:])
