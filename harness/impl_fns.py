"""Implementation-side functions, one per stream.  Imported only inside impl_worker (bartiq on PYTHONPATH)."""
from exprs import from_sympy, to_str


def _seq_to_qref(seq):
    k = seq["kind"]
    if k == "constant":
        return {"type": "constant", "multiplier": to_str(seq["multiplier"])}
    if k == "arithmetic":
        return {"type": "arithmetic", "initial_term": to_str(seq["initial_term"]), "difference": to_str(seq["difference"])}
    if k == "geometric":
        return {"type": "geometric", "ratio": to_str(seq["ratio"])}
    if k == "closed_form":
        d = {"type": "closed_form", "num_terms_symbol": seq["num_terms_symbol"]}
        if seq.get("sum") is not None:
            d["sum"] = to_str(seq["sum"])
        if seq.get("prod") is not None:
            d["prod"] = to_str(seq["prod"])
        return d
    if k == "custom":
        return {"type": "custom", "term_expression": to_str(seq["term_expression"]), "iterator_symbol": seq["iterator_symbol"]}
    raise ValueError(k)


def impl_rep_direct(case):
    from qref.schema_v1 import RepetitionV1

    from bartiq import sympy_backend as B
    from bartiq.repetitions import repetition_from_qref

    rep = repetition_from_qref(RepetitionV1(count=to_str(case["count"]), sequence=_seq_to_qref(case["seq"])), B)
    e = B.as_expression(to_str(case["expr"]))
    out = {}
    s, inex = from_sympy(rep.sequence_sum(e, B))
    out["sum"], out["inexact"] = s, inex
    if case.get("want_prod"):
        p, inex2 = from_sympy(rep.sequence_prod(e, B))
        out["prod"] = p
        out["inexact"] = inex or inex2
    return out
