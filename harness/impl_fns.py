"""Implementation-side functions, one per stream.  Imported only inside impl_worker (bartiq on PYTHONPATH)."""
from exprs import from_sympy, to_str


def _seq_to_qref(seq):
    k = seq["kind"]
    if k == "constant":
        return {"type": "constant", "multiplier": to_str(seq["multiplier"])}
    if k == "arithmetic":
        return {"type": "arithmetic", "initial_term": to_str(seq["initial_term"]), "difference": to_str(seq["difference"])}
    if k == "geometric":
        return {"type": "geometric", "ratio": to_str(seq["ratio"])}
    if k == "closed_form":
        d = {"type": "closed_form", "num_terms_symbol": seq["num_terms_symbol"]}
        if seq.get("sum") is not None:
            d["sum"] = to_str(seq["sum"])
        if seq.get("prod") is not None:
            d["prod"] = to_str(seq["prod"])
        return d
    if k == "custom":
        return {"type": "custom", "term_expression": to_str(seq["term_expression"]), "iterator_symbol": seq["iterator_symbol"]}
    raise ValueError(k)


def impl_rep_direct(case):
    from qref.schema_v1 import RepetitionV1

    from bartiq import sympy_backend as B
    from bartiq.repetitions import repetition_from_qref

    rep = repetition_from_qref(RepetitionV1(count=to_str(case["count"]), sequence=_seq_to_qref(case["seq"])), B)
    e = B.as_expression(to_str(case["expr"]))
    out = {}
    s, inex = from_sympy(rep.sequence_sum(e, B))
    out["sum"], out["inexact"] = s, inex
    if case.get("want_prod"):
        p, inex2 = from_sympy(rep.sequence_prod(e, B))
        out["prod"] = p
        out["inexact"] = inex or inex2
    return out


# ------------------------------------------------------------------ hierarchies

def _ep(e):
    return e.port_name if e.routine_name is None else f"{e.routine_name}.{e.port_name}"


def walk_compiled(c, flags):
    def ex(v):
        e, inex = from_sympy(v)
        if inex:
            flags["inexact"] = True
        return e

    rep = None
    if c.repetition is not None:
        s = c.repetition.sequence
        k = s.type
        if k == "constant":
            seq = {"kind": k, "multiplier": ex(s.multiplier)}
        elif k == "arithmetic":
            seq = {"kind": k, "initial_term": ex(s.initial_term), "difference": ex(s.difference)}
        elif k == "geometric":
            seq = {"kind": k, "ratio": ex(s.ratio)}
        elif k == "closed_form":
            seq = {"kind": k, "sum": None if s.sum is None else ex(s.sum), "prod": None if s.prod is None else ex(s.prod),
                   "num_terms_symbol": ex(s.num_terms_symbol)}
        else:
            seq = {"kind": k, "term_expression": ex(s.term_expression), "iterator_symbol": str(s.iterator_symbol)}
        rep = {"count": ex(c.repetition.count), "sequence": seq}
    return {
        "name": c.name, "type": c.type, "input_params": list(c.input_params),
        "ports": [{"name": p.name, "direction": str(getattr(p.direction, "value", p.direction)), "size": ex(p.size)} for p in c.ports.values()],
        "resources": [{"name": r.name, "type": r.type.value, "value": ex(r.value)} for r in c.resources.values()],
        "connections": [[_ep(s), _ep(t)] for s, t in c.connections.items()],
        "repetition": rep,
        "constraints": [{"lhs": ex(k.lhs), "rhs": ex(k.rhs), "status": k.status.name} for k in c.constraints],
        # (a child is listed under the KEY the children mapping holds it under: the key is the child's name)
        "children": [dict(walk_compiled(ch, flags), name=k) for k, ch in c.children.items()],
        "children_order": list(c.children_order),
    }


def impl_hier_compile(case):
    from bartiq import compile_routine
    from hier import to_qref

    flags = {"inexact": False}
    kw = {}
    if case.get("derived_none"):
        # derived resources whose calculator says "not applicable" (None) for every routine: nothing may change
        kw["derived_resources"] = [{"name": nm, "type": "other", "calculate": (lambda routine, backend: None)}
                                   for nm in case["derived_none"]]
    if case.get("derived_leaf"):
        # a derived resource its calculator works out for childless routines only (None elsewhere)
        dl = case["derived_leaf"]

        def _calc(routine, backend, _dl=dl):
            if routine.children:
                return None
            base = routine.resources.get(_dl["of"])
            return _dl["b"] if base is None else _dl["a"] * base.value + _dl["b"]
        kw["derived_resources"] = list(kw.get("derived_resources", [])) + [{"name": dl["name"], "type": dl["type"], "calculate": _calc}]
    doc = to_qref(case["routine"])
    if case.get("null_resource"):
        # one resource declared WITHOUT a value (value: null, which the schema admits): such a routine cannot be compiled
        path, rname = case["null_resource"]
        node = doc["program"]
        for nm in path:
            node = [c for c in node["children"] if c["name"] == nm][0]
        for rs in node.get("resources", []):
            if rs["name"] == rname:
                rs["value"] = None
    if case.get("native"):
        # integer literals handed over as native ints (a port of size 0 is the integer 0, not the text "0")
        from hier import native_numbers
        doc = native_numbers(doc)
    if case.get("as_object"):
        # qref sorts ports, resources, connections and links by name when a document is validated; to let the LISTED order
        # reach bartiq the validated object's lists are put back, in place, into the order the case lists them in
        from qref import SchemaV1
        doc = SchemaV1(**doc)
        _force_listing(doc.program, case["routine"])
    if case.get("env"):
        # an environment switch spelled the way its own documentation spells it (BARTIQ_...=False means off)
        import os
        old_env = {k: os.environ.get(k) for k in case["env"]}
        os.environ.update(case["env"])
        try:
            res = compile_routine(doc, **kw)
        finally:
            for k, v in old_env.items():
                if v is None:
                    os.environ.pop(k, None)
                else:
                    os.environ[k] = v
    else:
        res = compile_routine(doc, **kw)
    routine = res.routine
    if case.get("via_export"):
        # what the user gets as a DOCUMENT: the compiled hierarchy exported and read back (C10 speaks of the compiled result,
        # whichever way it is looked at)
        from bartiq import sympy_backend as _sbx
        from bartiq._routine import CompiledRoutine as _CRx
        routine = _CRx.from_qref(res.to_qref(), _sbx)
    tree = walk_compiled(routine, flags)
    return {"tree": tree, "inexact": flags["inexact"]}


def _force_listing(q, r):
    def reorder(lst, key, wanted):
        idx = {k: i for i, k in enumerate(wanted)}
        lst[:] = sorted(lst, key=lambda x: idx.get(key(x), len(idx)))

    from hier import to_qref
    ref = to_qref(r)["program"] if "program" not in r else r["program"]
    reorder(q.ports, lambda p: p.name, [p["name"] for p in ref.get("ports", [])])
    reorder(q.resources, lambda x: x.name, [x["name"] for x in ref.get("resources", [])])
    # parameter links: entry by entry in the listed order (two entries with one source need not be neighbours)
    try:
        reorder(q.linked_params, lambda l: (str(l.source), tuple(sorted(str(t) for t in l.targets))),
                [(l["source"], tuple(sorted(l["targets"]))) for l in ref.get("linked_params", [])])
    except Exception:
        pass
    conn_key = lambda c: (f"{c.source}", f"{c.target}") if not isinstance(c, str) else c   # noqa: E731
    want = []
    for c in ref.get("connections", []):
        want.append(tuple(x.strip() for x in c.split("->")) if isinstance(c, str) else (c["source"], c["target"]))
    try:
        reorder(q.connections, lambda c: (str(c.source), str(c.target)), want)
    except Exception:
        pass
    by_name = {c["name"]: c for c in r["children"]}
    for ch in q.children:
        if ch.name in by_name:
            _force_listing(ch, by_name[ch.name])


# ------------------------------------------------------------------ evaluation

FUN_LIBRARY = {
    "inc": (lambda x: x + 1),
    "sq": (lambda x: x * x),
    "lin2": (lambda x, y: x + 2 * y),
    # implementations that are sensitive to the last digit of their argument: they must be handed the exact value
    "ceil3": (lambda x: __import__("sympy").ceiling(3 * x)),
    "parity": (lambda x: x % 2),
    "floor3y": (lambda x, y: __import__("sympy").floor(3 * x) + y),
}


def _make_scale(k):
    # implementations that come out of ONE factory: different objects sharing one code object (what a loop over a parameter,
    # or a closure over a configuration value, produces)
    return lambda x: k * x + 1


FUN_LIBRARY.update({"scale2": _make_scale(2), "scale3": _make_scale(3), "scale5": _make_scale(5)})


def _assign_value(v):
    """assignment values arrive as ["int", n] | ["float", x] | ["str", text]"""
    kind, val = v[0], v[1]
    if kind == "int":
        return int(val)
    if kind == "float":
        return float(val)
    return str(val)


def _try_eval(c, assigns, fmap, fmaps=None):
    from bartiq import evaluate

    flags = {"inexact": False}
    try:
        cur = c
        for i, step in enumerate(assigns):
            fm = fmaps[i] if fmaps is not None else fmap
            cur = evaluate(cur, {k: _assign_value(v) for k, v in step}, functions_map=fm or None).routine
        return {"ok": True, "tree": walk_compiled(cur, flags), "inexact": flags["inexact"]}
    except BaseException as e:  # noqa: BLE001
        if type(e).__name__ == "CaseTimeout":
            raise
        return {"ok": False, "exc": type(e).__name__, "msg": str(e)[:300]}


def impl_eval(case):
    from bartiq import compile_routine
    from hier import to_qref

    flags = {"inexact": False}
    c = compile_routine(to_qref(case["routine"])).routine
    out = {"compiled": walk_compiled(c, flags)}
    fmap = {f: FUN_LIBRARY[impl] for f, impl in case.get("functions", [])}
    out["e1"] = _try_eval(c, [case["assign"]], fmap)
    out["e2"] = _try_eval(c, [case["perm"]], fmap) if case.get("perm") else {"ok": False, "exc": "skip"}
    if case.get("split"):
        out["e3"] = _try_eval(c, case["split"], fmap)
    elif fmap:
        # the functions supplied in a step of their own: numbers first, then an EMPTY assignment with the functions map
        out["e3"] = _try_eval(c, [case["assign"], []], None, fmaps=[None, fmap])
    else:
        out["e3"] = {"ok": False, "exc": "skip"}
    out["inexact"] = flags["inexact"] or any(out[k].get("inexact") for k in ("e1", "e2", "e3"))
    return out


def impl_hier_rename(case):
    from hier import rename_at

    out = {}
    for tag, r in (("a", case["routine"]), ("b", rename_at(case["routine"], case["path"], case["pi"]))):
        try:
            out[tag] = dict(impl_hier_compile({"routine": r, "derived_leaf": case.get("derived_leaf")}), ok=True)
        except BaseException as e:  # noqa: BLE001
            if type(e).__name__ == "CaseTimeout":
                raise
            out[tag] = {"ok": False, "exc": type(e).__name__, "msg": str(e)[:300]}
    return out


def impl_hier_permute(case):
    import random

    from hier import permute_lists

    out = {}
    perm = permute_lists(case["routine"], random.Random(case["seed"]), case.get("child_perm"), reverse=bool(case.get("reverse")))
    for tag, r in (("a", case["routine"]), ("b", perm)):
        try:
            out[tag] = dict(impl_hier_compile({"routine": r, "as_object": tag == "b" and bool(case.get("as_object"))}), ok=True)
        except BaseException as e:  # noqa: BLE001
            if type(e).__name__ == "CaseTimeout":
                raise
            out[tag] = {"ok": False, "exc": type(e).__name__, "msg": str(e)[:300]}
    return out


# ------------------------------------------------------------------ aggregation (C15)

def impl_aggregate(case):
    from bartiq import compile_routine
    from bartiq.transform import add_aggregated_resources

    def node(nd, children=()):
        return {"name": nd["name"], "input_params": ["N", "eps"],
                "resources": [{"name": n, "type": t, "value": to_str(v)} for n, t, v in nd["resources"]],
                "children": list(children)}

    nodes = case["nodes"]
    kids = [node(n) for n in nodes[1:]]
    names = [n["name"] for n in nodes[1:]]
    if case.get("twin") and len(nodes) > 1:
        # a second routine of the SAME NAME as the child, with other resources, deeper in the hierarchy and listed before it
        # (root -> [wrap -> [a'], a]): routines are told apart by where they are, not by what they are called
        first = nodes[1]
        inner = node({"name": first["name"], "resources": [[n, t, ["o", "add", [v, ["n", 1, 1]]]] for n, t, v in first["resources"]]})
        wrap = {"name": "wrap", "input_params": ["N", "eps"], "resources": [], "children": [inner],
                "linked_params": [{"source": "N", "targets": [f"{first['name']}.N"]}, {"source": "eps", "targets": [f"{first['name']}.eps"]}]}
        kids = [wrap] + kids
        names = ["wrap"] + names
    prog = node(nodes[0], kids)
    prog["linked_params"] = [{"source": "N", "targets": [f"{n}.N" for n in names]},
                             {"source": "eps", "targets": [f"{n}.eps" for n in names]}] if names else []
    d = {a: {b: (to_str(m)) for b, m in mp} for a, mp in case["dict"]}
    import copy
    snapshot = copy.deepcopy(d)
    if case.get("via_stage"):
        # the same rewrite requested as a post-processing stage of compile_routine
        from bartiq.compilation.postprocessing import aggregate_resources
        out = compile_routine({"version": "v1", "program": prog},
                              postprocessing_stages=[aggregate_resources(d, remove_decomposed=case["remove"])]).routine
    else:
        c = compile_routine({"version": "v1", "program": prog}).routine
        out = add_aggregated_resources(c, d, remove_decomposed=case["remove"])
    flags = {"inexact": False}
    trees = [out] + [out.children[n["name"]] for n in nodes[1:]]
    res = []
    for t in trees:
        lst = []
        for r in t.resources.values():
            e, inex = from_sympy(r.value)
            flags["inexact"] = flags["inexact"] or inex
            lst.append([r.name, r.type.value, e])
        res.append(lst)
    return {"nodes": res, "inexact": flags["inexact"], "dict_unchanged": d == snapshot}


# ------------------------------------------------------------------ highwater (C16)

def impl_highwater(case):
    from bartiq import compile_routine
    from bartiq.compilation.derived_resources import calculate_highwater
    from hier import to_qref

    flags = {"inexact": False}
    doc = to_qref(case["routine"])
    if case.get("native"):
        from hier import native_numbers
        doc = native_numbers(doc)      # integer literals as native ints (size: 0, not size: "0")
    if case.get("remap"):
        # the hierarchy handed over as a Routine OBJECT that was edited programmatically: at every level one child was taken
        # out of the children mapping and put back (so it now comes LAST in the mapping), the listed order (children_order)
        # untouched: the listed order is what counts, not the order the mapping happens to have
        import dataclasses
        import random as _random
        from bartiq import sympy_backend as _sb
        from bartiq._routine import Routine as _Routine
        _rr = _random.Random(case["remap"])

        def _remap(r):
            kids = {n: _remap(c) for n, c in r.children.items()}
            if len(kids) >= 2:
                n = _rr.choice(sorted(kids))
                moved = kids.pop(n)
                kids = {**kids, n: moved}
            return dataclasses.replace(r, children=kids)
        doc = _remap(_Routine.from_qref(doc, _sb))
    res = compile_routine(doc,
                          derived_resources=[{"name": "qubit_highwater", "type": "qubits", "calculate": calculate_highwater}])
    out = {"tree": walk_compiled(res.routine, flags), "inexact": flags["inexact"]}
    # the same hierarchy evaluated by the real evaluate() at natural-number points: the NUMBERS it reports at every node
    from bartiq import evaluate
    import random
    rng = random.Random(case.get("eval_seed", 0))
    evals = []
    for _ in range(case.get("n_eval", 0)):
        a = {p: rng.randint(0, 6) for p in res.routine.input_params}      # (zero included: an empty register, no ancillae)
        try:
            ef = {"inexact": False}
            evals.append({"assign": a, "ok": True, "tree": walk_compiled(evaluate(res.routine, a).routine, ef)})
        except BaseException as e:  # noqa: BLE001
            if type(e).__name__ == "CaseTimeout":
                raise
            evals.append({"assign": a, "ok": False, "exc": type(e).__name__})
    out["evals"] = evals
    return out


# ------------------------------------------------------------------ Big-O (C19)

def impl_bigo(case):
    import sympy

    from bartiq import sympy_backend as B
    from bartiq.analysis import BigO

    expr = B.as_expression(case["expr"])
    x = sympy.Symbol(case["var"])
    if case.get("assume"):
        xa = sympy.Symbol(case["var"], **{k: True for k in case["assume"]})
        expr = expr.subs(x, xa)
        x = xa
    res = BigO(expr, variable=x).expr
    terms = [list(t) for t, _ in sympy.Poly(expr, x).terms()] if expr.free_symbols else []
    e, _ = from_sympy(res)
    return {"result": e, "terms": terms, "text": str(res)}


# ------------------------------------------------------------------ gradient descent (C20)

def _cost(kind, a, b, c):
    if kind == 0:
        return lambda x: a * (x - b) * (x - b) + c
    if kind == 1:
        return lambda x: a * (x - b) * (x - b) * (x - b) * (x - b) + c * x
    if kind == 2:
        return lambda x: a * x * x * x + b * x * x + c * x
    if kind == 4:
        return lambda x: c + 0.0 * x
    return lambda x: a * x + b


def _f(v):
    # (a one-element array stands for its element)
    try:
        return float(v)
    except TypeError:
        return float(list(v)[0])


def impl_graddesc(case):
    from bartiq.analysis import Optimizer

    f = _cost(case["kind"], *[float.fromhex(h) for h in case["abc"]])
    bounds = tuple(float.fromhex(h) for h in case["bounds"]) if case["bounds"] else None
    if bounds is not None and case.get("bounds_list"):
        bounds = list(bounds)      # the interval as a two-element LIST (what an options file read from JSON / YAML holds)
    try:
        r = Optimizer.gradient_descent(f, x0=float.fromhex(case["x0"]), bounds=bounds,
                                       learning_rate=float.fromhex(case["lr"]), max_iter=case["max_iter"],
                                       tolerance=float.fromhex(case["tol"]), momentum=float.fromhex(case["mom"]))
    except ValueError:
        return {"cls": 1}
    except RuntimeError:
        return {"cls": 2}
    return {"cls": 0, "opt": _f(r["optimal_value"]).hex(), "cost": _f(r["minimum_cost"]).hex(),
            "hist": [_f(h).hex() for h in r["x_history"]]}


def impl_minimize(case):
    from bartiq.analysis import minimize

    kw = {"x0": case["x0"], "bounds": (list(case["bounds"]) if case.get("bounds_list") else tuple(case["bounds"])) if case["bounds"] else None,
          "learning_rate": case["lr"], "max_iter": case["max_iter"], "tolerance": case["tol"]}
    if case.get("reuse"):
        # one options dictionary used for several minimisations in a row: the call under test is the second one with it
        try:
            minimize("(x - 1)**2 + 1", "x", optimizer="gradient_descent", optimizer_kwargs=kw)
        except (ValueError, RuntimeError):
            pass
    if case.get("x0_int"):
        kw["x0"] = int(case["x0"])
    if case.get("x0_array"):
        # the start handed over the way scipy-style callers do: a one-element array
        try:
            import numpy as _np
            kw["x0"] = _np.array([float(case["x0"])])
        except ImportError:
            pass
    param = case.get("param", "x")
    import re as _re
    expr = _re.sub(r"\bx\b", param, case["expr"])
    try:
        r = minimize(expr, param, optimizer="gradient_descent", optimizer_kwargs=kw)
    except ValueError:
        return {"cls": 1}
    except RuntimeError:
        return {"cls": 2}
    return {"cls": 0, "opt": _f(r["optimal_value"]).hex(), "cost": _f(r["minimum_cost"]).hex(),
            "hist": [_f(h).hex() for h in r["x_history"]]}


# ------------------------------------------------------------------ size mismatches (C06)

def impl_mismatch(case):
    from bartiq import compile_routine, evaluate
    from bartiq.errors import BartiqCompilationError
    from hier import to_qref

    flags = {"inexact": False}
    try:
        doc = to_qref(case["routine"])
        if case.get("native"):
            # sizes that are plain integer literals handed over as native numbers (size: 0, not size: "0")
            from hier import native_numbers
            doc = native_numbers(doc)
        c = compile_routine(doc).routine
    except BaseException as e:  # noqa: BLE001
        if type(e).__name__ == "CaseTimeout":
            raise
        return {"compile": {"ok": False, "exc": type(e).__name__, "msg": str(e)[:200]}, "evals": [], "params": []}
    out = {"compile": {"ok": True, "tree": walk_compiled(c, flags)}, "params": list(c.input_params), "evals": []}
    import random
    rng = random.Random(case["seed"])
    def run(steps):
        try:
            cur = c
            for st in steps:
                cur = evaluate(cur, st).routine
            return "ok"
        except BartiqCompilationError:
            return "BartiqCompilationError"
        except BaseException as e:  # noqa: BLE001
            if type(e).__name__ == "CaseTimeout":
                raise
            return type(e).__name__

    for _ in range(case["n_assign"]):
        a = {p: rng.randint(case.get("lo", 1), 3) for p in c.input_params}
        cls = run([a])
        # the same assignment supplied in two successive evaluate calls (both orders) must have the same outcome
        keys = list(a)
        stepwise = []
        if len(keys) >= 2:
            k = rng.randint(1, len(keys) - 1)
            first, second = {x: a[x] for x in keys[:k]}, {x: a[x] for x in keys[k:]}
            stepwise = [run([first, second]), run([second, first])]
        out["evals"].append([a, cls, stepwise])
    return out


# ------------------------------------------------------------------ robustness (C17)

def _cls(e):
    n = type(e).__name__
    return n if n in ("BartiqCompilationError", "BartiqPreprocessingError") else "internal:" + n


def impl_robust(case):
    import random

    from bartiq import compile_routine, evaluate
    from hier import to_qref

    try:
        doc = to_qref(case["routine"])
        if case.get("native"):
            from hier import native_numbers
            doc = native_numbers(doc)      # integer literals as native ints (difference: 0, not difference: "0")
        c = compile_routine(doc).routine
    except BaseException as e:  # noqa: BLE001
        if type(e).__name__ == "CaseTimeout":
            raise
        return {"compile": _cls(e), "msg": str(e)[:200], "evals": []}
    out = {"compile": "ok", "evals": []}
    rng = random.Random(case["seed"])
    params = list(c.input_params)
    for mode in ("partial", "total", "total-zero"):
        if mode == "partial":
            keys = [p for p in params if rng.random() < 0.5]
        else:
            keys = params
        a = {}
        for p in keys:
            base = p.rsplit(".", 1)[-1]
            a[p] = 0 if (mode == "total-zero" and base in ("K", "R")) else rng.randint(1, 4)
        try:
            evaluate(c, a)
            out["evals"].append("ok")
        except BaseException as e:  # noqa: BLE001
            if type(e).__name__ == "CaseTimeout":
                raise
            out["evals"].append(_cls(e))
            out.setdefault("msgs", []).append(f"{mode}: {type(e).__name__}: {str(e)[:150]}")
    return out


# ------------------------------------------------------------------ purity and reproducibility (C14)

def impl_repro(case):
    import copy
    import hashlib
    import json as _json
    import pickle

    from bartiq import compile_routine, evaluate
    from bartiq.transform import add_aggregated_resources
    from hier import native_numbers, to_qref
    from qref import SchemaV1

    if case.get("warm"):
        # unrelated work first: caches (lru_cache in _value_of, sympy's own) and interned objects are now warm
        import random

        from hier import gen_hierarchy
        wr = random.Random(12345)
        for _ in range(case["warm"]):
            try:
                compile_routine(to_qref(gen_hierarchy(wr, max_depth=2)))
            except Exception:
                pass
    if case.get("warm"):
        # ... and the SAME hierarchy compiled first through ANOTHER backend object whose parser reads the texts differently
        # (every user function f(...) as log2(...), every 2 as 3): what that backend made of a text is its own business
        try:
            import re as _re

            from bartiq.symbolics.sympy_backend import SympyBackend as _SB, parse_to_sympy as _p2s
            other = _SB(lambda text: _p2s(_re.sub(r"\b2\b", "3", _re.sub(r"\b[fg]\(", "log2(", text))))
            compile_routine(SchemaV1(**to_qref(case["routine"])), backend=other)
        except Exception:
            pass
    if case.get("twin_first"):
        # the same routine with every integer literal written as an integer-valued float (3 -> 3.0), compiled, evaluated and
        # aggregated first: numerically equal numbers of another type must not leak into the later compilation
        try:
            tw = compile_routine(SchemaV1(**native_numbers(to_qref(case["routine"]), as_float=True)))
            evaluate(tw.routine, {p: 2.0 for p in tw.routine.input_params})
            add_aggregated_resources(tw.routine, {"T": {"zz_base": 2.0}})
        except Exception:
            pass
    doc = SchemaV1(**(native_numbers(to_qref(case["routine"])) if case.get("native") else to_qref(case["routine"])))
    before = doc.model_dump_json()
    res1 = compile_routine(doc)
    out = {"mutated_input_doc": doc.model_dump_json() != before}
    res2 = compile_routine(doc)
    # the same hierarchy handed over as a live Routine OBJECT (built once, compiled twice): the object must come back as it
    # went in, and the second compilation must give what the document gives
    try:
        from bartiq import sympy_backend as _sb3
        from bartiq._routine import Routine as _R3
        robj3 = _R3.from_qref(doc, _sb3)
        snap3 = pickle.dumps(robj3)
        ro1 = compile_routine(robj3)
        if pickle.dumps(robj3) != snap3:
            out["mutated_input_doc"] = True
        ro2 = compile_routine(robj3)
        if ro1.routine != ro2.routine or ro1.to_qref().model_dump_json() != res1.to_qref().model_dump_json():
            out["mutated_input_doc"] = True
    except Exception:
        pass
    # derived-resource calculators come and go: what an earlier, since discarded calculator looked like must not decide how a
    # later one is called (two calling conventions: with and without resource_name)
    try:
        def _mk_named(extra):
            def _calc(routine, backend, resource_name):
                return len(routine.children) + extra if resource_name == "zz_kids" else None
            return _calc
        try:
            cold = compile_routine(doc, derived_resources=[{"name": "zz_kids", "type": "other", "calculate": _mk_named(1)}]).to_qref().model_dump_json()
        except Exception:
            cold = None      # (a hierarchy that cannot be compiled with an extra resource of type other: nothing to compare)
        for _k in range(12 if cold is not None else 0):
            compile_routine(doc, derived_resources=[{"name": "zz_tmp", "type": "other", "calculate": (lambda routine, backend, _k=_k: _k)}])
            compile_routine(doc, derived_resources=[{"name": "zz_kids", "type": "other", "calculate": _mk_named(1)}])
        warm = cold if cold is None else compile_routine(doc, derived_resources=[{"name": "zz_kids", "type": "other", "calculate": _mk_named(1)}]).to_qref().model_dump_json()
        if warm != cold:
            out["compile_repeatable_after_churn"] = False
    except Exception:
        out["compile_repeatable_after_churn"] = False
    exp1 = res1.to_qref().model_dump_json()
    exp2 = res2.to_qref().model_dump_json()
    out["compile_repeatable"] = exp1 == exp2 and res1.routine == res2.routine and out.pop("compile_repeatable_after_churn", True)
    out["export_sha"] = hashlib.sha256(exp1.encode()).hexdigest()
    out["export"] = _json.loads(exp1)
    # export must not change the compiled routine, and be repeatable
    snap = pickle.dumps(res1.routine)
    exp1b = res1.to_qref().model_dump_json()
    out["export_pure"] = pickle.dumps(res1.routine) == snap and exp1b == exp1
    # what the caller does to a document it was handed must not show up in the next export of the same result
    handed = res1.to_qref()
    try:
        handed.program.name = "edited_by_caller"
        handed.program.resources = []
        handed.program.ports = []
    except Exception:
        pass
    out["export_pure"] = out["export_pure"] and res1.to_qref().model_dump_json() == exp1
    # evaluate
    params = list(res1.routine.input_params)
    assign = {p: (i % 3) + 1 for i, p in enumerate(params)}
    a_before = copy.deepcopy(assign)
    try:
        e1 = evaluate(res1.routine, assign)
        e2 = evaluate(res1.routine, assign)
        first = e1.to_qref().model_dump_json()
        handed = e1.to_qref()
        try:
            handed.program.name = "edited_by_caller"
            handed.program.resources = []
        except Exception:
            pass
        if e1.to_qref().model_dump_json() != first:
            out["export_pure"] = False
        out["evaluate_pure"] = pickle.dumps(res1.routine) == snap and assign == a_before
        out["evaluate_repeatable"] = e1.routine == e2.routine
        out["eval_sha"] = hashlib.sha256(e1.to_qref().model_dump_json().encode()).hexdigest()
        # a user function that reads a setting of the caller's: evaluated again after the setting changed, with the SAME callable,
        # the result is what a fresh callable with the new setting gives (nothing of the earlier evaluation is remembered)
        try:
            setting = {"k": 2}

            def _sf(*a):
                return setting["k"] * sum(a) + 1 if a else setting["k"]
            evaluate(res1.routine, assign, functions_map={"f": _sf, "g": _sf})
            setting["k"] = 3
            again = evaluate(res1.routine, assign, functions_map={"f": _sf, "g": _sf}).to_qref().model_dump_json()

            def _fresh(*a):
                return 3 * sum(a) + 1 if a else 3
            cold = evaluate(res1.routine, assign, functions_map={"f": _fresh, "g": _fresh}).to_qref().model_dump_json()
            if again != cold:
                out["evaluate_repeatable"] = False
        except Exception:
            pass
    except Exception as ex:
        out["evaluate_pure"] = pickle.dumps(res1.routine) == snap and assign == a_before
        out["evaluate_repeatable"] = True
        out["eval_sha"] = "exc:" + type(ex).__name__
    # aggregation
    names = sorted({r for r in res1.routine.resources})
    # a NESTED dictionary (an entry mentions another key) with text, integer and float multipliers
    top = names[0] if names else "none"
    d = {top: {"zz_mid": 2, "zz_base": "3*zz_eps"}, "zz_mid": {"zz_base": "50*zz_eps", "zz_other": 1, "zz_f": 0.5}}
    d_before = copy.deepcopy(d)
    d_repr = repr(d)
    g1 = add_aggregated_resources(res1.routine, d)
    g2 = add_aggregated_resources(res1.routine, d, remove_decomposed=False)
    g3 = add_aggregated_resources(res1.routine, d)
    out["aggregate_pure"] = pickle.dumps(res1.routine) == snap and d == d_before and repr(d) == d_repr
    out["aggregate_repeatable"] = g1 == g3 and g2 is not None
    # a derived resource recomputed on the compiled object it was derived for: the same value every time (the second and
    # third call traverse the children of the SAME object again)
    try:
        from bartiq import sympy_backend as _sb3
        from bartiq.compilation.derived_resources import calculate_highwater as _hw
        rh = compile_routine(doc, derived_resources=[{"name": "qubit_highwater", "type": "qubits", "calculate": _hw}]).routine
        vals = [str(_hw(rh, _sb3)) for _ in range(3)]
        stored = str(rh.resources["qubit_highwater"].value) if "qubit_highwater" in rh.resources else None
        out["derived_repeatable"] = len(set(vals)) == 1 and (stored is None or vals[0] == stored)
    except BaseException:  # noqa: BLE001
        out["derived_repeatable"] = True       # (no highwater for this routine: nothing to compare)
    # a live Routine object compiled cold, then again after the process has created far more new symbol names than sympy's
    # symbol cache holds (1000 by default): what was interned when the object was built is no longer, equal symbols are
    # not identical any more, and the result must still be the same
    try:
        from bartiq import Routine as _Routine
        from bartiq import sympy_backend as _sb2
        import sympy as _sympy
        robj = _Routine.from_qref(doc, _sb2)
        cold = compile_routine(robj).to_qref().model_dump_json()
        for i in range(2500):
            _sympy.Symbol(f"zz_unrelated_{i}")
        try:
            later = compile_routine(robj).to_qref().model_dump_json()
        except BaseException as ex:  # noqa: BLE001
            later = "exc:" + type(ex).__name__
        out["same_after_cache_eviction"] = cold == later
    except BaseException:  # noqa: BLE001
        out["same_after_cache_eviction"] = True      # (the routine does not compile as an object either: nothing to compare)
    # a dictionary whose first entry mentions several keys defined LATER (their relative order in the expansion comes
    # out of a set of strings), every one of them held by the routine, of different types, all feeding one new name:
    # the exported aggregated document is compared across processes (agg_sha)
    try:
        d3 = {"zz_sel": {n: i + 2 for i, n in enumerate(names)}}
        for i, n in enumerate(names):
            d3[n] = {"zz_new": i + 1, "zz_keep_" + n: 1}
        g4 = add_aggregated_resources(res1.routine, d3)
        from bartiq import routine_to_qref as _r2q
        from bartiq import sympy_backend as _sb
        out["agg_sha"] = hashlib.sha256(_r2q(g4, _sb).model_dump_json().encode()).hexdigest()
    except Exception as ex:
        out["agg_sha"] = "exc:" + type(ex).__name__
    # the same dictionary used as a post-processing stage of compile_routine
    try:
        from bartiq.compilation.postprocessing import aggregate_resources
        d2 = copy.deepcopy(d_before)
        c1 = compile_routine(doc, postprocessing_stages=[aggregate_resources(d2)])
        c2 = compile_routine(doc, postprocessing_stages=[aggregate_resources(d2)])
        out["aggregate_pure"] = out["aggregate_pure"] and d2 == d_before and repr(d2) == d_repr and doc.model_dump_json() == before
        out["aggregate_repeatable"] = out["aggregate_repeatable"] and c1.routine == c2.routine
    except ImportError:
        pass
    # user functions: the map handed to evaluate is not modified, and evaluating twice gives the same result
    fmap = {"f": FUN_LIBRARY["inc"], "g": FUN_LIBRARY["lin2"]}
    f_before = dict(fmap)
    try:
        h1 = evaluate(res1.routine, assign, functions_map=fmap)
        h2 = evaluate(res1.routine, assign, functions_map=fmap)
        out["evaluate_repeatable"] = out["evaluate_repeatable"] and h1.routine == h2.routine
    except Exception:
        pass
    out["evaluate_pure"] = out["evaluate_pure"] and fmap == f_before and assign == a_before and pickle.dumps(res1.routine) == snap
    return out


# ------------------------------------------------------------------ QREF export / import (C13)

def walk_routine(r, flags):
    """An uncompiled bartiq Routine in the generator's JSON format."""
    def ex(v):
        e, inex = from_sympy(v)
        if inex:
            flags["inexact"] = True
        return e

    rep = None
    if r.repetition is not None:
        s = r.repetition.sequence
        k = s.type
        if k == "constant":
            seq = {"kind": k, "multiplier": ex(s.multiplier)}
        elif k == "arithmetic":
            seq = {"kind": k, "initial_term": ex(s.initial_term), "difference": ex(s.difference)}
        elif k == "geometric":
            seq = {"kind": k, "ratio": ex(s.ratio)}
        elif k == "closed_form":
            seq = {"kind": k, "sum": None if s.sum is None else ex(s.sum), "prod": None if s.prod is None else ex(s.prod),
                   "num_terms_symbol": str(s.num_terms_symbol)}
        else:
            seq = {"kind": k, "term_expression": ex(s.term_expression), "iterator_symbol": str(s.iterator_symbol)}
        rep = {"count": ex(r.repetition.count), "sequence": seq}
    return {
        "name": r.name, "type": r.type, "input_params": list(r.input_params),
        "local_variables": [[k, ex(v)] for k, v in r.local_variables.items()],
        "linked_params": [[s, [[t[0], t[1]] for t in ts]] for s, ts in r.linked_params.items()],
        "ports": [{"name": p.name, "direction": str(getattr(p.direction, "value", p.direction)), "size": ex(p.size)} for p in r.ports.values()],
        "resources": [{"name": x.name, "type": x.type.value, "value": ex(x.value)} for x in r.resources.values()],
        "connections": [[_ep(s), _ep(t)] for s, t in r.connections.items()],
        "repetition": rep,
        "children": [walk_routine(c, flags) for c in r.children.values()],
    }


def impl_qref(case):
    from bartiq import CompiledRoutine, Routine, compile_routine
    from bartiq import sympy_backend as B
    from hier import to_qref
    from qref import SchemaV1

    flags = {"inexact": False}
    doc = SchemaV1(**to_qref(case["routine"]))
    out = {}

    def stage(name, fn):
        try:
            out[name] = {"ok": True, **fn()}
        except BaseException as e:  # noqa: BLE001
            if type(e).__name__ == "CaseTimeout":
                raise
            out[name] = {"ok": False, "exc": type(e).__name__, "msg": str(e)[:200]}

    state = {}

    def uncompiled():
        r = Routine.from_qref(doc, B)
        d = r.to_qref(B)                       # pydantic validates the exported document on construction
        SchemaV1(**d.model_dump())             # ... and it must survive a dump / reload as well
        r2 = Routine.from_qref(d, B)
        state["reexported"] = d

        def wiring(n):
            # the strings the exporter wrote for connections and parameter links, node by node
            return {"name": n["name"],
                    "connections": [[c["source"], c["target"]] for c in n.get("connections", [])],
                    "links": [[l["source"], list(l["targets"])] for l in n.get("linked_params", [])],
                    "children": [wiring(c) for c in n.get("children", [])]}
        return {"a": walk_routine(r, flags), "b": walk_routine(r2, flags), "wiring": wiring(d.model_dump()["program"])}

    def compiled():
        c = compile_routine(doc)
        d = c.to_qref()
        SchemaV1(**d.model_dump())
        c2 = CompiledRoutine.from_qref(d, B)
        state["c"] = c
        return {"a": walk_compiled(c.routine, flags), "b": walk_compiled(c2, flags)}

    def recompiled():
        c3 = compile_routine(state["reexported"])
        return {"a": walk_compiled(state["c"].routine, flags), "b": walk_compiled(c3.routine, flags)}

    stage("uncompiled", uncompiled)
    stage("compiled", compiled)
    if out["uncompiled"]["ok"] and out["compiled"]["ok"]:
        stage("recompiled", recompiled)
    else:
        out["recompiled"] = {"ok": False, "exc": "skipped"}
    out["inexact"] = flags["inexact"]
    return out


# ------------------------------------------------------------------ LaTeX rendering (C18)

def _latex_sections(text):
    """Split the rendered text into sections: header -> list of entry strings."""
    body = text
    if body.startswith("$\\begin{align}\n"):
        body = body[len("$\\begin{align}\n"):]
    if body.endswith("\n\\end{align}$"):
        body = body[: -len("\n\\end{align}$")]
    out = {}
    for sec in body.split("\\newline\n"):
        if sec.startswith("&\\underline{\\text{"):
            head, _, rest = sec.partition(":}}\\\\\n")
            name = head[len("&\\underline{\\text{"):]
            if name == "Input parameters":
                entries = [e for e in rest[1:].split(", ")] if rest.startswith("&") else []
            else:
                entries = rest.split("\\\\\n") if rest else []
            out[name] = entries
        else:
            out.setdefault("_header", []).append(sec)
    return out


def impl_latex(case):
    from bartiq import compile_routine
    from bartiq.integrations.latex import routine_to_latex
    from hier import to_qref
    from qref import SchemaV1

    if case.get("native"):
        # integer literals (sizes, counts, values) handed over as native numbers, as a document written in Python or YAML has them
        from hier import native_numbers
        doc = SchemaV1(**native_numbers(to_qref(case["routine"])))
    else:
        doc = SchemaV1(**to_qref(case["routine"]))
    out = {}
    variants = [("src", doc)]
    if case.get("compiled"):
        try:
            variants.append(("cmp", compile_routine(doc).to_qref()))
        except BaseException as e:  # noqa: BLE001
            if type(e).__name__ == "CaseTimeout":
                raise
            out["cmp"] = {"ok": False, "stage": "compile", "exc": type(e).__name__}
    for tag, d in variants:
        res = {}
        for flag in (True, False):
            for paged in (False, True):
                key = f"{'all' if flag else 'root'}_{'paged' if paged else 'flat'}"
                try:
                    t = routine_to_latex(d, show_non_root_resources=flag, paged=paged)
                    if paged:
                        joined = "$\\begin{align}\n" + "\\newline\n".join(p[len("$\\begin{align}\n"):-len("\n\\end{align}$")] for p in t) + "\n\\end{align}$"
                        secs = _latex_sections(joined)
                    else:
                        secs = _latex_sections(t)
                    res[key] = {"ok": True, "counts": {k: len(v) for k, v in secs.items()}}
                except BaseException as e:  # noqa: BLE001
                    if type(e).__name__ == "CaseTimeout":
                        raise
                    res[key] = {"ok": False, "exc": type(e).__name__, "msg": str(e)[:120]}
        prog = d.program
        def nres(r):
            return len(r.resources) + sum(nres(c) for c in r.children)
        res["expect"] = {"params": len(prog.input_params), "in": sum(1 for p in prog.ports if p.direction == "input"),
                         "out": sum(1 for p in prog.ports if p.direction == "output"),
                         "through": sum(1 for p in prog.ports if p.direction == "through"),
                         "root_res": len(prog.resources), "all_res": nres(prog)}
        out[tag] = res
    return out


# ------------------------------------------------------------------ parser / serializer (C11, C12)

def _sympy_mod_sites(text):
    """Call sites of known library defects the parsing of `text` goes through (known finding F21): sympy's Mod.eval,
    'by ratio' branch, called with a symbolic divisor and a dividend that is a NEGATIVE non-integer rational multiple
    of it, returning a simplified (non-Mod) result.  Decided by a second parse with a cleared cache and a watch on
    Mod.eval, after the result under test was produced."""
    from sympy.core.cache import clear_cache
    from sympy.core.mod import Mod

    from bartiq import sympy_backend as B

    hits = []
    orig = Mod.__dict__["eval"]

    def watched(cls, p, q):
        rv = orig.__func__(cls, p, q)
        try:
            if rv is not None and not isinstance(rv, Mod) and not (p.is_number and q.is_number):
                r = p / q
                if r.is_Rational and not r.is_integer and r < 0:
                    hits.append("sympy.Mod.eval:by-ratio:negative-multiple-of-symbolic-divisor")
        except Exception:
            pass
        return rv

    try:
        clear_cache()
        Mod.eval = classmethod(watched)
        B.as_expression(text)
    except Exception:
        pass
    finally:
        Mod.eval = orig
        clear_cache()
    return sorted(set(hits))


def impl_parse(case):
    from bartiq import sympy_backend as B

    for t in case.get("prelude", []):
        B.as_expression(t)        # what was parsed earlier in the process must not matter
    e = B.as_expression(case["text"])
    ex, inex = from_sympy(e)
    out = {"expr": ex, "inexact": inex}
    if "%" in case["text"] or "mod" in case["text"].lower():
        sites = _sympy_mod_sites(case["text"])
        if sites:
            out["call_sites"] = sites
    return out


def _sympy_direct(e):
    """A sympy object built from an expression tree WITHOUT bartiq's parser (what code that assembles expressions itself, or
    an earlier version of the tool, may hand to the serializer); None when the tree uses something this builder does not."""
    import sympy
    k = e[0]
    if k == "n":
        return sympy.Rational(e[1], e[2])
    if k == "s":
        return sympy.Symbol(e[1])
    if k == "o":
        args = [_sympy_direct(a) for a in e[2]]
        if any(a is None for a in args):
            return None
        o = e[1]
        if o == "add":
            return sympy.Add(*args)
        if o == "mul":
            return sympy.Mul(*args)
        if o == "sub" and len(args) == 2:
            return args[0] - args[1]
        if o == "div" and len(args) == 2:
            return args[0] / args[1]
        if o == "pow" and len(args) == 2:
            return sympy.Pow(args[0], args[1])
        if o == "neg" and len(args) == 1:
            return -args[0]
        if o == "max":
            return sympy.Max(*args)
        if o == "min":
            return sympy.Min(*args)
        if o == "ceil" and len(args) == 1:
            return sympy.ceiling(args[0])
        if o == "floor" and len(args) == 1:
            return sympy.floor(args[0])
        return None
    if k == "f" and e[1] in ("f", "g", "lambda_of", "NumPort"):
        args = [_sympy_direct(a) for a in e[2]]
        return None if any(a is None for a in args) else sympy.Function(e[1])(*args)
    return None


def impl_roundtrip(case):
    """C12: build a sympy expression, write it out with bartiq's serializer, read the text back with bartiq's parser."""
    from bartiq import sympy_backend as B

    try:
        if "seq" in case:
            q = case["seq"]
            build = B.sequence_sum if q["kind"] == "sum" else B.sequence_prod
            e = build(B.as_expression(to_str(q["term"])), B.as_expression(q["it"]), B.as_expression(to_str(q["lo"])),
                      B.as_expression(to_str(q["hi"])))
            if case.get("plus"):
                e = e + B.as_expression(case["plus"])
        elif case.get("via_parser"):
            # built by the parser itself, not through the backend's reading of text: what the backend READS BACK must still be it
            from bartiq.symbolics.sympy_backend import parse_to_sympy
            e = parse_to_sympy(to_str(case["expr"]))
        else:
            e = _sympy_direct(case["expr"]) if case.get("direct") and "expr" in case else None
            if e is None:
                e = B.as_expression(to_str(case["expr"])) if "expr" in case else B.as_expression(case["text"])
        if case.get("assign"):
            # an expression as evaluation produces it: substitute some symbols (rationals / floats) first
            e = B.substitute(e, {k: B.as_expression(v) for k, v in case["assign"].items()})
    except (ZeroDivisionError, TypeError, ValueError) as ex:
        # the expression could not be built (a division by zero on the way): nothing to serialise
        return {"skip": type(ex).__name__}
    text = B.serialize(e)
    e2 = B.as_expression(text)
    a, inex1 = from_sympy(e)
    b, inex2 = from_sympy(e2)
    import sympy
    fs1 = sorted(str(s) for s in e.free_symbols) if isinstance(e, sympy.Basic) else []
    fs2 = sorted(str(s) for s in e2.free_symbols) if isinstance(e2, sympy.Basic) else []
    # the UNINTERPRETED calls (sympy's AppliedUndef): a built-in that comes back as a plain unknown function of the same
    # spelling has lost its meaning although both sides print alike
    from sympy.core.function import AppliedUndef
    un1 = sorted({str(f.func) for f in e.atoms(AppliedUndef)}) if isinstance(e, sympy.Basic) else []
    un2 = sorted({str(f.func) for f in e2.atoms(AppliedUndef)}) if isinstance(e2, sympy.Basic) else []
    return {"text": text, "a": a, "b": b, "inexact": inex1 or inex2, "fs_equal": fs1 == fs2, "structurally_equal": bool(e == e2),
            "undef_equal": un1 == un2}
