"""C15 — resource aggregation is a linear, loss-free rewrite."""
import itertools
from fractions import Fraction

import exprs as E
import hier as H
import lib

PROP = "C15"
LEVEL = "proof"
THEOREM_FILE = "properties/C15.v"
CASE_DEPS = ["theories/Aggregate.v"]
RULE = ("stream aggregate: aggregation dictionaries as weighted directed graphs over a pool of resource names -- quick: EVERY "
        "graph on 3 names (acyclic and cyclic) x a seeded subset of the resources present x both removal modes, plus seeded "
        "random graphs on up to 6 names with numeric, rational and symbolic multipliers, applied by the real "
        "add_aggregated_resources to a compiled two-level routine; inside Coq each node's result is compared with the model "
        "(tie) and with the path-sum specification (spec: new base value = old + sum of old decomposed value x total multiplier "
        "along all paths; untouched names; removal / type other; cyclic <=> rejected); non-trivial = at least 2 dictionary "
        "entries or a nested decomposition; distinct by canonical JSON hash")
TRUSTED_BASE = []
ASSUMPTIONS = ["graphlib.TopologicalSorter returns a topological order or raises CycleError"]

NAMES = ["A", "B", "C", "D", "T", "G"]
TYPES = ["additive", "multiplicative", "other", "qubits"]


def mult(rng):
    r = rng.random()
    if r < 0.5:
        return E.num(rng.randint(1, 4))
    if r < 0.7:
        return E.num(Fraction(rng.randint(1, 5), rng.choice([2, 3])))
    if r < 0.85:
        return E.op("mul", E.num(rng.randint(2, 3)), E.sym("eps"))
    return E.op("add", E.sym("eps"), E.num(1))


def value(rng):
    r = rng.random()
    if r < 0.08:
        return E.num(0)      # a resource that is there and costs nothing: decomposed (removed, or re-typed) like any other
    if r < 0.5:
        return E.num(rng.randint(1, 9))
    if r < 0.8:
        return E.op("add", E.sym("N"), E.num(rng.randint(0, 3)))
    return E.op("mul", E.num(2), E.sym("N"))


def mk_case(rng, names, edges, remove):
    d = {}
    for a, b in edges:
        d.setdefault(a, []).append([b, mult(rng)])
    dl = [[a, bs] for a, bs in d.items()]
    spare = [n for n in names if n not in d]
    if spare and rng.random() < 0.2:
        # an entry with NO components (a resource that costs nothing in the target gate set): decomposed all the same --
        # removed, or kept with type other -- and it contributes nothing to anything
        dl.append([rng.choice(spare), []])
    rng.shuffle(dl)
    nodes = []
    for k, nm in enumerate(["root", "a"]):
        present = [n for n in names if rng.random() < 0.6]
        types = ["additive", "multiplicative", "other"] if k == 0 else ["other", "qubits"]   # child types are not propagated upwards
        res = [[n, rng.choice(types), value(rng)] for n in present]
        if not res and k == 0:
            res = [[names[0], "additive", value(rng)]]
        nodes.append({"name": nm, "resources": res})
    # half of the cases ask for the rewrite as a post-processing stage of compile_routine instead of calling it directly
    return {"dict": dl, "remove": remove, "nodes": nodes, "names": list(names), "via_stage": rng.random() < 0.5, "twin": rng.random() < 0.3}


def all_graphs(names):
    pairs = [(a, b) for a in names for b in names if a != b]
    for mask in range(1, 2 ** len(pairs)):
        yield [p for i, p in enumerate(pairs) if mask >> i & 1]


def gen_cases(rng, tier):
    cases = []
    small = NAMES[:3]
    for edges in all_graphs(small):                 # exhaustive on 3 names: 63 graphs
        for remove in (True, False):
            cases.append(mk_case(rng, small, edges, remove))
    # an entry that mentions ITSELF among its components (a cycle of length 1), alone or next to up to two other edges
    others = [(a, b) for a in small for b in small if a != b]
    for x in small:
        extra = [[]] + [[p] for p in others] + [[p, q] for i, p in enumerate(others) for q in others[i + 1:]]
        for ex in extra:
            cases.append(mk_case(rng, small, [(x, x)] + ex, rng.random() < 0.5))
    if tier == "thorough":
        four = NAMES[:4]
        graphs = list(all_graphs(four))             # 4095 graphs
        for edges in graphs:
            cases.append(mk_case(rng, four, edges, rng.random() < 0.5))
    n_rand = 120 if tier == "quick" else 1500
    for _ in range(n_rand):
        k = rng.randint(3, 6)
        names = NAMES[:k]
        # mostly acyclic: edges go forward in a random order of the names
        order = rng.sample(names, k)
        edges = [(order[i], order[j]) for i in range(k) for j in range(i + 1, k) if rng.random() < 0.45]
        if rng.random() < 0.1 and len(edges) >= 1:
            a, b = rng.choice(edges)
            edges.append((b, a))                      # a cycle now and then
        if rng.random() < 0.05:
            x = rng.choice(names)
            edges.append((x, x))                      # ... or an entry that lists itself
        if not edges:
            edges = [(order[0], order[1])]
        cases.append(mk_case(rng, names, edges, rng.random() < 0.5))
    return cases


def res_to_coq(res):
    return E.coq_list([f"({E.coq_string(n)}, ({H.RTYPES[t]}, {E.to_coq(v)}))" for n, t, v in res])


def emit(pairs):
    lines = [lib.CASE_HEADER.format(imports="Routine Aggregate", gen_imports="")]
    items = []
    for case, imp in pairs:
        d = E.coq_list([f"({E.coq_string(a)}, {E.coq_list([f'({E.coq_string(b)}, {E.to_coq(m)})' for b, m in bs])})" for a, bs in case["dict"]])
        # qref sorts a routine's resources by name when the document is loaded; the type of a newly created base
        # resource is the type of the first decomposed resource (in that order) that contributes to it
        nodes = E.coq_list([res_to_coq(sorted(n["resources"], key=lambda r: r[0])) for n in case["nodes"]])
        if imp.get("ok"):
            got = "(Some " + E.coq_list([res_to_coq(n) for n in imp["nodes"]]) + ")"
            if not imp.get("dict_unchanged", True):
                got = "(Some [])"   # the caller's dictionary was modified: counts as a wrong result
        else:
            got = "None"
        rng = lib.Rng(f"pts-{lib.case_hash(case)}")
        pts = [{"N": [rng.randint(1, 9), 1], "eps": [rng.randint(1, 7), rng.choice([1, 2, 3])]} for _ in range(2)]
        names = E.coq_list([E.coq_string(n) for n in case["names"]])
        items.append(f"(check_agg_case {d} {'true' if case['remove'] else 'false'} {nodes} {got} {names} {H.points_to_coq(pts)})")
    lines.append("Definition results : list (list nat * list nat) :=\n " + E.coq_list(items) + ".\n")
    lines.append("Eval vm_compute in results.\n")
    return "\n".join(lines)


def nontrivial(case):
    keys = {a for a, _ in case["dict"]}
    nested = any(b in keys for _, bs in case["dict"] for b, _ in bs)
    return len(case["dict"]) >= 2 or nested


def distribution(cases):
    d = {"names": {}, "remove": 0, "keep": 0}
    for c in cases:
        k = str(len(c["names"]))
        d["names"][k] = d["names"].get(k, 0) + 1
        d["remove" if c["remove"] else "keep"] += 1
    return d


def mk_stream(cases):
    return {"name": "aggregate", "impl_stream": "aggregate", "cases": cases, "emit": emit, "shard_size": 40,
            "nontrivial": nontrivial, "distribution": distribution, "timeout": 60}


def streams(tier, seed):
    rng = lib.Rng(f"C15-{seed}")
    return [mk_stream(lib.load_corpus(PROP, "aggregate") + gen_cases(rng, tier))]


def replay_streams(payload):
    return [mk_stream([payload["case"]])]
