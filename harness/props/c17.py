"""C17 — well-formed input never crashes; ill-formed wiring is rejected up front."""
import exprs as E
import hier as H
import lib

PROP = "C17"
LEVEL = "proof"
THEOREM_FILE = "properties/C17.v"
CASE_DEPS = ["theories/Verify.v"]
RULE = ("stream robust: seeded random well-formed hierarchies (every sequence kind with symbolic parameters, deep links, through "
        "ports) compiled and then evaluated under a partial, a total and a total-with-zero-counts assignment by the real code: "
        "every outcome must be a result or bartiq's own compilation/preprocessing error (spec), and the compile outcome must be "
        "the model's (tie). stream faults: one wiring / repetition fault (dropped connection, doubly connected target or source, "
        "connection cycle, repeated routine with two children / no child / own resources) injected at a random position of a "
        "well-formed hierarchy: the real compile_routine must raise BartiqCompilationError (spec) and the model's "
        "verification must report a problem (tie); non-trivial = at least 2 routine nodes; distinct by canonical JSON hash")
TRUSTED_BASE = ["hand model of qref.verification.verify_topology (package outside the repository)", "GenVerification.v regenerated from verification.py"]
ASSUMPTIONS = ["termination and exceptions inside sympy are not modelled: per-case time limit, exception class observed"]


def float_sizes(rng, r):
    """A well-formed variation: the size flowing into a constant-sized child port is a FLOAT (0.5*N, or the literal 1.5) --
    neither equal to nor an integer away from the constant, so the comparison must come out undecided, not crash."""
    for n, _ in H._nodes(r):
        for c in n["connections"]:
            if "." not in c[1]:
                continue
            tgt_child = next((ch for ch in n["children"] if ch["name"] == c[1].split(".")[0]), None)
            if tgt_child is None:
                continue
            tp = next((p for p in tgt_child["ports"] if p["name"] == c[1].split(".")[1] and p["direction"] == "input"), None)
            if "." in c[0]:
                owner = next((ch for ch in n["children"] if ch["name"] == c[0].split(".")[0]), None)
                sp = next((p for p in (owner["ports"] if owner else []) if p["name"] == c[0].split(".")[1]), None)
                ok = owner is not None and not owner["children"] and sp is not None and sp["direction"] == "output"
            else:
                owner, sp = n, next((p for p in n["ports"] if p["name"] == c[0]), None)
                ok = n is r and sp is not None and sp["direction"] == "input"
            if tp is None or not ok or rng.random() < 0.5:
                continue
            tp["size"] = E.num(2)
            if owner["input_params"] and rng.random() < 0.7:
                sp["size"] = E.op("mul", ["n", 1, 2, "float"], E.sym(owner["input_params"][0]))
            else:
                sp["size"] = ["n", 3, 2, "float"]
            return True
    return False


def iterator_named_like_a_parameter():
    """A sum whose dummy bears the name of a parameter used FREE next to it: in a sibling's cost (added up in the parent), or
    in the very same expression.  A bound name is not the parameter; assigning the parameter must not touch the sum."""
    def node(name, params=(), links=(), kids=(), res=(), rep=None):
        return {"name": name, "type": None, "input_params": list(params), "local_variables": [], "linked_params": [list(l) for l in links],
                "ports": [], "resources": list(res), "connections": [], "repetition": rep, "children": list(kids)}
    out = []
    for it in ("k", "i", "N"):
        other = "N" if it != "N" else "M"
        summed = ["b", "sum", it, E.op("add", E.sym(it), E.num(1)), E.num(0), E.op("sub", E.sym(other), E.num(1))]
        ladder = node("ladder", params=[other], res=[{"name": "T", "type": "additive", "value": summed}])
        tail = node("tail", params=[it], res=[{"name": "T", "type": "additive", "value": E.op("mul", E.num(2), E.sym(it))}])
        out.append({"routine": node("root", params=[other, it], links=[[other, [["ladder", other]]], [it, [["tail", it]]]], kids=[ladder, tail]),
                    "faulted": False, "seed": 5})
        both = node("both", params=[other, it], res=[{"name": "T", "type": "additive", "value": E.op("add", summed, E.op("mul", E.num(2), E.sym(it)))}])
        out.append({"routine": node("root", params=[other, it], links=[[other, [["both", other]]], [it, [["both", it]]]], kids=[both]),
                    "faulted": False, "seed": 6})
        prod = ["b", "prod", it, E.op("add", E.sym(it), E.num(2)), E.num(1), E.sym(other)]
        out.append({"routine": node("root", params=[other, it],
                                    res=[{"name": "P", "type": "multiplicative", "value": E.op("mul", prod, E.op("add", E.sym(it), E.num(1)))}]),
                    "faulted": False, "seed": 7})
    return out


def degenerate_sequences():
    """Sequences at the edge of their family (an arithmetic progression with difference 0, initial term 0; a geometric one with
    ratio 0) over a child with an additive AND a multiplicative resource: finite values all the same."""
    def node(name, params=(), links=(), kids=(), res=(), rep=None):
        return {"name": name, "type": None, "input_params": list(params), "local_variables": [], "linked_params": [list(l) for l in links],
                "ports": [], "resources": list(res), "connections": [], "repetition": rep, "children": list(kids)}
    out = []
    seqs = [{"kind": "arithmetic", "initial_term": E.num(2), "difference": E.num(0)},
            {"kind": "arithmetic", "initial_term": E.sym("N"), "difference": E.num(0)},
            {"kind": "arithmetic", "initial_term": E.num(1), "difference": E.num(1)},
            {"kind": "constant", "multiplier": E.num(0)},
            {"kind": "geometric", "ratio": E.num(1)}]
    for seq in seqs:
        for count in (E.num(3), E.sym("K")):
            c = node("c", params=["N"], res=[{"name": "P", "type": "multiplicative", "value": E.op("add", E.sym("N"), E.num(1))},
                                            {"name": "T", "type": "additive", "value": E.sym("N")}])
            for native in (False, True):
                out.append({"routine": node("root", params=["N", "K"], links=[["N", [["c", "N"]]]], kids=[c], rep={"count": count, "sequence": seq}),
                            "faulted": False, "seed": 8, "native": native})
    return out


def local_names_inside_function_names():
    """Local variables whose names occur INSIDE the text of another local's definition without being mentioned by it (e in
    ceiling, a in max, N in N_total): dependencies are between names, not between pieces of text."""
    def node(name, params=(), links=(), kids=(), res=(), locs=()):
        return {"name": name, "type": None, "input_params": list(params), "local_variables": [list(l) for l in locs], "linked_params": [list(l) for l in links],
                "ports": [], "resources": list(res), "connections": [], "repetition": None, "children": list(kids)}
    out = []
    fams = [[["e", E.op("ceil", E.op("div", E.sym("N"), E.num(2)))], ["n", E.op("mul", E.num(2), E.sym("e"))]],
            [["a", E.op("add", E.sym("b"), E.num(1))], ["b", E.op("max", E.sym("N"), E.num(2))]],
            [["N_total", E.op("mul", E.num(3), E.sym("tot"))], ["tot", E.op("add", E.sym("N"), E.num(1))]],
            [["il", E.op("add", E.sym("q"), E.num(1))], ["q", E.op("ceil", E.op("div", E.sym("N"), E.num(3)))]]]
    for locs in fams:
        for order in (locs, locs[::-1]):
            leaf = node("a", params=["N"], locs=order, res=[{"name": "T", "type": "additive", "value": E.op("add", E.sym(order[0][0]), E.sym(order[1][0]))}])
            out.append({"routine": node("root", params=["N"], links=[["N", [["a", "N"]]]], kids=[leaf]), "faulted": False, "seed": 9})
            out.append({"routine": node("root", params=["N"], locs=order, res=[{"name": "T", "type": "additive", "value": E.op("add", E.sym(order[0][0]), E.sym(order[1][0]))}]),
                        "faulted": False, "seed": 10})
    return out


def builtins_in_custom_terms():
    """Custom sequences whose term applies a built-in that only works on NUMBERS (round, of the iterator or of a parameter still
    symbolic at compile time) over a child with an additive and a multiplicative resource, count symbolic, numeric and 0:
    compiled as they stand, never an internal error of the built-in."""
    def node(name, params=(), links=(), kids=(), res=(), rep=None):
        return {"name": name, "type": None, "input_params": list(params), "local_variables": [], "linked_params": [list(l) for l in links],
                "ports": [], "resources": list(res), "connections": [], "repetition": rep, "children": list(kids)}
    out = []
    terms = [E.op("add", E.fun("round", E.op("div", E.sym("i"), E.num(2))), E.sym("w")),
             E.op("mul", E.fun("round", E.sym("w")), E.op("add", E.sym("i"), E.num(1))),
             E.op("add", E.fun("round", E.op("div", E.sym("w"), E.num(3)), E.num(1)), E.sym("i"))]
    for t in terms:
        for count in (E.sym("c"), E.num(3), E.num(0), E.op("add", E.sym("c"), E.num(1))):
            body = node("body", params=["N"], res=[{"name": "T", "type": "additive", "value": E.op("mul", E.num(7), E.sym("N"))},
                                                  {"name": "P", "type": "multiplicative", "value": E.op("add", E.sym("N"), E.num(1))}])
            loop = node("loop", params=["N", "w", "c"], links=[["N", [["body", "N"]]]], kids=[body],
                        rep={"count": count, "sequence": {"kind": "custom", "term_expression": t, "iterator_symbol": "i"}})
            out.append({"routine": node("root", params=["N", "w", "c"], links=[[x, [["loop", x]]] for x in ("N", "w", "c")], kids=[loop]),
                        "faulted": False, "seed": 11})
            out.append({"routine": loop, "faulted": False, "seed": 12})
    return out


def gen_cases(rng, n_valid, n_fault):
    out = iterator_named_like_a_parameter() + degenerate_sequences() + local_names_inside_function_names() + builtins_in_custom_terms()
    while len(out) < n_valid:
        r = H.gen_hierarchy(rng, max_depth=rng.randint(1, 3), p_rep=0.35, p_through=0.2)
        if H.count_nodes(r) <= 10:
            if rng.random() < 0.3:
                float_sizes(rng, r)
            if rng.random() < 0.3:
                # built-in functions of several arguments whose arguments become numbers at different moments of a partial
                # evaluation: round(value, digits)
                cands = [n for n, _ in H._nodes(r) if len(n["input_params"]) >= 2 and not n["repetition"]]
                if cands:
                    nd = rng.choice(cands)
                    p, q = rng.sample(nd["input_params"], 2)
                    # (round: defined for every pair of finite arguments; log / mod / multiplicity have poles and domain errors
                    # of their own, which C17 does not cover)
                    nd["resources"].append({"name": "zr", "type": "other",
                                            "value": E.fun("round", E.op("div", E.sym(p), E.num(3)), E.sym(q))})
            out.append({"routine": r, "faulted": False, "seed": rng.randint(0, 10**9), "native": rng.random() < 0.5})
    k = 0
    tries = 0
    while k < n_fault:
        # every fault kind gets the same share; the hierarchy is drawn so that the kind can apply
        kind = H.FAULT_KINDS[k % len(H.FAULT_KINDS)] if tries < 40 else None
        r = H.gen_hierarchy(rng, max_depth=rng.randint(2, 4), p_rep=rng.choice([0.4, 0.7]),
                            p_through=0.6 if kind == "self-loop" else 0.2, max_children=rng.choice([2, 4]))
        if H.count_nodes(r) > 10:
            continue
        f = H.inject_fault(rng, r, kind)
        if f is None:
            tries += 1
            continue
        tries = 0
        out.append({"routine": f[0], "faulted": True, "fault": f[1], "seed": rng.randint(0, 10**9)})
        k += 1
    return out


def emit(pairs):
    lines = [lib.CASE_HEADER.format(imports="RepModel Routine Compile CompileTop Verify", gen_imports="")]
    items = []
    for k, (case, imp) in enumerate(pairs):
        if "compile" not in imp:
            items.append("([1%nat], [1%nat])")
            continue
        lines.append(f"Definition r{k} : routine := {H.routine_to_coq(case['routine'])}.")
        cls = imp["compile"] if not imp["compile"].startswith("internal") else "internal"
        evs = E.coq_list([E.coq_string(c if not c.startswith("internal") else "internal") for c in imp["evals"]])
        items.append(f"(check_robust_case r{k} {'true' if case['faulted'] else 'false'} {E.coq_string(cls)} {evs})")
    lines.append("Definition results : list (list nat * list nat) :=\n " + E.coq_list(items) + ".\n")
    lines.append("Eval vm_compute in results.\n")
    return "\n".join(lines)


def nontrivial(case):
    return H.count_nodes(case["routine"]) >= 2


def distribution(cases):
    d = {"valid": 0, "faults": {}}
    for c in cases:
        if c["faulted"]:
            d["faults"][c["fault"]] = d["faults"].get(c["fault"], 0) + 1
        else:
            d["valid"] += 1
    return d


def mk_stream(cases, name):
    return {"name": name, "impl_stream": "robust", "cases": cases, "emit": emit, "shard_size": 12,
            "nontrivial": nontrivial, "distribution": distribution, "timeout": 120}


def streams(tier, seed):
    rng = lib.Rng(f"C17-{seed}")
    nv, nf = (90, 110) if tier == "quick" else (1500, 2000)
    cases = gen_cases(rng, nv, nf)
    return [mk_stream(lib.load_corpus(PROP, "robust") + [c for c in cases if not c["faulted"]], "robust"),
            mk_stream(lib.load_corpus(PROP, "faults") + [c for c in cases if c["faulted"]], "faults")]


def replay_streams(payload):
    return [mk_stream([payload["case"]], payload.get("stream", "robust"))]
