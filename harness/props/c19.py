"""C19 — Big-O analysis returns the dominant power."""
import itertools

import exprs as E
import lib

PROP = "C19"
LEVEL = "proof"
THEOREM_FILE = "properties/C19.v"
CASE_DEPS = ["theories/BigOModel.v"]
RULE = ("stream bigo: every support pattern of a polynomial of degree 0..6 in x (all 127 non-empty subsets of the powers) with "
        "numeric coefficients, plus the same patterns with symbolic / mixed-sign / rational coefficients (seeded), written in "
        "expanded and in factored/nested forms; the real BigO(expr, x).expr must be O(x**deg) (spec, checked inside Coq at two points), "
        "and must be what the generated _get_leading_terms returns on the exponent tuples sympy's Poly lists (tie); "
        "non-trivial = at least two powers present; distinct by expression text")
TRUSTED_BASE = ["GenBigO.v regenerated from analysis.py on every run", "sympy Poly(expr, x).terms() lists exponent tuples with the highest power first"]
ASSUMPTIONS = ["the degree in x is the largest power whose coefficient is not identically zero"]


def poly_text(powers, coefs):
    parts = []
    for p, c in zip(powers, coefs):
        parts.append(f"({c})" if p == 0 else f"({c})*x" if p == 1 else f"({c})*x**{p}")
    return " + ".join(parts)


def gen_cases(rng, tier):
    cases = []
    for mask in range(1, 2 ** 7):                       # exhaustive supports, numeric coefficients
        powers = [p for p in range(7) if mask >> p & 1]
        coefs = [str(rng.randint(1, 9)) for _ in powers]
        cases.append({"expr": poly_text(powers, coefs), "var": "x", "deg": max(powers), "powers": powers})
    # coefficients that are not identically zero but vanish when their parameters are given equal values are included
    kinds = ["a", "b", "a*b", "2*a", "-3", "a/2", "(a + 1)", "-a", "log2(a)", "7/3", "(a - b)", "(a/b - 1)", "(a**2 - a*b)", "(2*a - 2*b)"]
    reps = 1 if tier == "quick" else 6
    for _ in range(reps):
        for mask in range(1, 2 ** 7):                   # the same supports, symbolic / signed / rational coefficients
            powers = [p for p in range(7) if mask >> p & 1]
            rng.shuffle(powers)                         # terms written in any order
            coefs = [rng.choice(kinds) for _ in powers]
            cases.append({"expr": poly_text(powers, coefs), "var": "x", "deg": max(powers), "powers": sorted(powers)})
            if rng.random() < 0.4:
                # the chosen variable carries assumptions (Symbol("x", positive=True, ...)): it is then a different
                # object from the plain symbol of the same name, and must still be recognised as the variable
                cases[-1]["assume"] = rng.choice([["positive"], ["integer"], ["nonnegative"], ["positive", "integer"], ["real"]])
    # nested / factored forms whose expanded degree is known
    for d1 in range(0, 4):
        for d2 in range(0, 4):
            cases.append({"expr": f"(x**{d1} + a)*(2*x**{d2} + 1) + x", "var": "x", "deg": max(d1 + d2, 1), "powers": [0, 1, d1, d2, d1 + d2]})
    for d in range(1, 6):                               # a leading power written as two terms with different parameters
        cases.append({"expr": f"a*x**{d} - b*x**{d} + a*x**{d - 1}", "var": "x", "deg": d, "powers": [d - 1, d]})
        cases.append({"expr": f"(a - b)*x**{d} + (b - a)", "var": "x", "deg": d, "powers": [0, d]})
    # highest powers that cancel BETWEEN summands written as unexpanded products / powers
    for d in range(1, 5):
        cases.append({"expr": f"(x + a)**{d + 1} - x**{d + 1}", "var": "x", "deg": d, "powers": [d, d + 1]})
        cases.append({"expr": f"x**{d}*(x + b) - x**{d + 1} + a", "var": "x", "deg": d, "powers": [0, d, d + 1]})
    cases += [{"expr": "x*(x + 1) - x**2 + 3", "var": "x", "deg": 1, "powers": [0, 1, 2]},
              {"expr": "(x**2 + 1)**3 - x**6 + b", "var": "x", "deg": 4, "powers": [0, 2, 4, 6]},
              {"expr": "a - x*(x + 2) + (x + 1)**2", "var": "x", "deg": 0, "powers": [0, 1, 2]},
              {"expr": "a*x - x**3/2 - 3*x**2/2 + (x + 1)**3/2", "var": "x", "deg": 1, "powers": [0, 1, 2, 3]}]
    # expressions that are NOT a sum at the top level (the bare variable, a power, a product, a power of a sum), single terms
    # with a negative, float or symbolic coefficient, written with and without parentheses
    for d in range(1, 6):
        for form, deg in ((f"x**{d}", d), (f"-x**{d}", d), (f"0.5*x**{d}", d), (f"-2.5*a*x**{d}", d), (f"a*b*x**{d}/3", d),
                          (f"x**{d}*(x + 1)", d + 1), (f"(x + a)**{d}", d), (f"(a*x**2 + b)**{d}", 2 * d), (f"x*(b*x + 1)*(x - 2)**{d}", d + 2)):
            cases.append({"expr": form, "var": "x", "deg": deg, "powers": [deg]})
    cases += [{"expr": "x", "var": "x", "deg": 1, "powers": [1]}, {"expr": "-x", "var": "x", "deg": 1, "powers": [1]},
              {"expr": "-a", "var": "x", "deg": 0, "powers": [0]}, {"expr": "0.25*a", "var": "x", "deg": 0, "powers": [0]},
              {"expr": "x*a", "var": "x", "deg": 1, "powers": [1]}, {"expr": "1.5*x + 0.5", "var": "x", "deg": 1, "powers": [0, 1]}]
    # coefficients that DIVIDE by other symbols (or carry a negative power of one): constants in x all the same
    cases += [{"expr": "x + x**2/a", "var": "x", "deg": 2, "powers": [1, 2]}, {"expr": "a*x + 7 + 3*x**4/(a*b)", "var": "x", "deg": 4, "powers": [0, 1, 4]},
              {"expr": "x**3 + x/a", "var": "x", "deg": 3, "powers": [1, 3]}, {"expr": "(x**2 + x)/(a + b)", "var": "x", "deg": 2, "powers": [1, 2]},
              {"expr": "b/a", "var": "x", "deg": 0, "powers": [0]}, {"expr": "x**2*a**(-2) + x/b", "var": "x", "deg": 2, "powers": [1, 2]}]
    # expressions with free symbols that are the ZERO polynomial once expanded (every power of x and the constant part cancel):
    # a constant in x all the same, O(1)
    cases += [{"expr": "a*(x + 1) - a*x - a", "var": "x", "deg": 0, "powers": [0, 1]},
              {"expr": "(x + a)**2 - x**2 - 2*a*x - a**2", "var": "x", "deg": 0, "powers": [0, 1, 2]},
              {"expr": "(a + b)*x - a*x - b*x", "var": "x", "deg": 0, "powers": [0, 1]},
              {"expr": "x*(x + 1) - x**2 - x + a - a", "var": "x", "deg": 0, "powers": [0, 1, 2]}]
    # variables with LONGER names, next to coefficient symbols whose names are part of the variable's name (n in n_max, N in N1,
    # a in lam): the variable is that one symbol, the others are coefficients
    for var, co in (("n_max", "n"), ("N1", "N"), ("lam", "a"), ("xx", "x")):
        cases += [{"expr": f"c*{var}**3 + {co}*{var} + 5", "var": var, "deg": 3, "powers": [0, 1, 3]},
                  {"expr": f"{co}*{var}**2 + {co}", "var": var, "deg": 2, "powers": [0, 2]},
                  {"expr": f"{co} + 1", "var": var, "deg": 0, "powers": [0]},
                  {"expr": f"({var} + {co})**2 - {var}**2", "var": var, "deg": 1, "powers": [0, 1, 2]}]
    for c in ("5", "a", "a*b + 2", "7/2"):              # constants in x
        cases.append({"expr": c, "var": "x", "deg": 0, "powers": [0]})
    return cases


def emit(pairs):
    lines = [lib.CASE_HEADER.format(imports="BigOModel", gen_imports="From BqGen Require Import GenBigO.")]
    items = []
    for case, imp in pairs:
        if not imp.get("ok"):
            items.append("([1%nat], [1%nat])")
            continue
        terms = E.coq_list([E.coq_list([f"{int(e)}%nat" for e in t]) for t in imp["terms"]]) if imp["terms"] else "[[0%nat]]"
        items.append(f"(check_bigo {E.coq_string(case['var'])} {terms} {case['deg']}%nat {E.to_coq(imp['result'])})")
    lines.append("Definition results : list (list nat * list nat) :=\n " + E.coq_list(items) + ".\n")
    lines.append("Eval vm_compute in results.\n")
    return "\n".join(lines)


def nontrivial(case):
    return len(set(case["powers"])) >= 2


def distribution(cases):
    d = {"degree": {}}
    for c in cases:
        k = str(c["deg"])
        d["degree"][k] = d["degree"].get(k, 0) + 1
    return d


def mk_stream(cases):
    return {"name": "bigo", "impl_stream": "bigo", "cases": cases, "emit": emit, "shard_size": 80,
            "nontrivial": nontrivial, "distribution": distribution, "timeout": 30}


def streams(tier, seed):
    rng = lib.Rng(f"C19-{seed}")
    return [mk_stream(lib.load_corpus(PROP, "bigo") + gen_cases(rng, tier))]


def replay_streams(payload):
    return [mk_stream([payload["case"]])]
