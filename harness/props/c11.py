"""C11 — the expression language means standard arithmetic."""
import itertools

import exprs as E
import hier as H
import lib

PROP = "C11"
LEVEL = "proof"
THEOREM_FILE = "properties/C11.v"
CASE_DEPS = ["theories/Parser.v"]
RULE = ("stream expr-strings: EVERY pair and EVERY triple of the binary operators + - * / // % ** ^ between operands drawn from an "
        "identifier pool (plain, namespaced a.b, ports #p and a.#p, the reserved words lambda and in, digits), with and without "
        "unary minus on each operand and with/without spaces; built-in function names in mixed case, unknown functions with "
        "several arguments, nested calls; plus seeded random trees printed with redundant parentheses; the real "
        "SympyBackend.as_expression result is compared inside Coq, at rational points, with the standard reading computed by the "
        "model parser (spec); non-trivial = at least two operators; distinct by text")
TRUSTED_BASE = ["GenParser.v (operator tables, SPECIAL_FUNCS, restricted names, regex sources) regenerated on every run",
                "CPython's ast.parse and re module, sympy's arithmetic: exercised by the stream, not modelled"]
ASSUMPTIONS = ["float literals with exponents and wildcard (~) expressions are outside the stream"]

OPS = ["+", "-", "*", "/", "//", "%", "**", "^"]
OPERANDS = ["x", "y", "2", "3", "a.b", "#p", "a.#q", "lambda", "in", "z1"]
NAMES = ["x", "y", "a.b", "#p", "a.#q", "lambda", "in", "z1"]


def gen_cases(rng, tier):
    texts = []
    # all pairs with three operands, spacing and unary-minus variants
    for o1, o2 in itertools.product(OPS, repeat=2):
        a, b, c = rng.sample(OPERANDS, 3)
        for sp in ("", " "):
            texts.append(f"{a}{sp}{o1}{sp}{b}{sp}{o2}{sp}{c}")
        texts.append(f"-{a} {o1} {b} {o2} -{c}")
        texts.append(f"{a} {o1} -{b} {o2} {c}")
    # all triples
    for o1, o2, o3 in itertools.product(OPS, repeat=3):
        a, b, c, d = rng.sample(OPERANDS, 4)
        sp = rng.choice(["", " "])
        texts.append(f"{a}{sp}{o1}{sp}{b}{sp}{o2}{sp}{c}{sp}{o3}{sp}{d}")
    # all pairs between integer literals only (folded at parse time by the number tower, not by symbolic rules), with a
    # unary minus on each operand in turn: 2 ** -2 % 7 is 1/4, a negative exponent under a modulus is not a modular inverse
    for o1, o2 in itertools.product(OPS, repeat=2):
        for signs in (("", "", ""), ("", "-", ""), ("-", "", ""), ("", "", "-"), ("", "-", "-")):
            a, b, c = rng.sample(["2", "3", "5", "7", "4", "9"], 3)
            if o1 in ("**", "^") and o2 in ("**", "^"):
                a, b, c = rng.sample(["2", "3", "2"], 3)       # a tower stays small
            texts.append(f"{signs[0]}{a} {o1} {signs[1]}{b} {o2} {signs[2]}{c}")
    # reserved words and ports next to every operator, without spaces
    for o in OPS:
        for w in ("lambda", "in", "#p", "a.#q", "a.b"):
            texts.append(f"{w}{o}{w}")
            texts.append(f"x{o}{w}")
            texts.append(f"({w}){o}2")
    texts += ["lambda_x + 1", "lambda1 * 2", "x_lambda + lambda", "in_ + in", "xin + in", "in1 * in", "inn - in", "a.in + a.lambda",
              "lambdas + 1", "-in", "-lambda ** 2", "(in)", "2 * in * lambda", "min(in, lambda)", "in/in", "in-in+in"]
    # reserved words in every position of port / namespaced identifiers
    for w in ("#in", "#lambda", "a.#in", "a.#lambda", "a.b.#lambda.x", "#in.lambda", "#lambda.in", "in.b", "lambda.b", "a.in.b",
              "#p.in", "#p.lambda", "in.#p", "lambda.#in", "a.lambda.#in"):
        texts += [w, f"{w} + 1", f"2*{w} - x", f"{w}/{w}", f"f({w})"]
    # namespaced function names whose last component spells a built-in: one name, NOT the built-in
    for f in ("max", "Min", "mod", "ceil", "floor", "sum", "prod", "log2", "sqrt", "abs", "round", "exp", "sin", "gamma", "multiplicity"):
        for pre in ("lib.", "a.b."):
            texts += [f"{pre}{f}(x, y)", f"{pre}{f}(x) + 1", f"2 * {pre}{f}(y, 3) - x"]
    # unknown functions whose names end in, begin with or contain the spelling of an internal marker of the parser (ports are
    # rewritten to calls of `Port`, wildcards to `wildcard`, reserved words to `__lambda__` / `__in__`): ordinary names
    for f in ("NumPort", "ViewPort", "Transport", "OutPort", "Portal", "Ports", "PortX", "teleport", "Port2", "myPort", "xwildcard",
              "wildcards", "lambda_f", "f_lambda", "in_f", "f_in"):
        for pre in ("", "lib.", "a.b."):
            texts += [f"{pre}{f}(x)", f"{pre}{f}(x + 1, y) * 2", f"1 + {pre}{f}(3)"]
    # identifiers spelled like mathematical constants in another case than the parser's own (PI, oo, Infinity are the constants;
    # e, E, pi, Pi, OO, infinity are ordinary names and stay symbols wherever the text is read)
    for w in ("e", "E", "pi", "Pi", "OO", "Oo", "infinity", "INFINITY"):
        texts += [w, f"{w} + 1", f"2 * {w} - x", f"x / {w}", f"f({w})", f"a.{w} + {w}"]
    # strings that are nothing but one integer literal, beyond what a double holds exactly
    texts += ["9007199254740993", "18446744073709551615", "1000000000000000000000001", "-9007199254740993", "(9007199254740993)",
              "9007199254740993 + 0", "123456789012345678901234567890", "4", "-7", "+5"]
    # functions
    fn = ["Max(x, y)", "MAX(x, 2)", "min(x, y) + 1", "CEIL(x / 2)", "ceiling(x / 3)", "Floor(x / 2)", "mod(x, 3)", "MOD(7, y)",
          "Log2(x)", "log2(x) * LOG2(y)", "foo(x, y)", "Foo(y, x)", "foo(x, y) - foo(y, x)", "g(f(x), f(f(y)))", "f(x + 1, y * 2, 3)",
          "sin(x) ** 2", "Sin(x) + COS(y)", "gamma(x)", "f(-x)", "f(x) ^ 2", "2 ^ f(x)", "f(a.b, #p)", "max(f(x), g(y, x))",
          "ceil(x / 2) // 2", "h()", "exp(x)", "Exp(y) * x",
          "atan2(x, y)", "atan2(2 * x, y + 1) - atan2(y + 1, 2 * x)", "ATAN2(y, x) / 2", "multiplicity(x, y)",
          "sgn(x - 3)", "sgn(-2) * x", "SGN(x) / 2", "sgn(3)/sgn(5)*3", "sgn(y - x) * sgn(x - y)", "2 ^ sgn(x)", "sgn(0) + sgn(1/3)"]
    texts += fn
    # a power of a parenthesised power with a FRACTIONAL outer exponent: (x ** 2) ** (1/2) is |x|, not x -- the two powers
    # are not merged into one (evaluated at negative points too)
    texts += ["(x ** 2) ** (1/2)", "(x ^ 2) ^ (1/2)", "(x ** 2) ** (3/2)", "((x - y) ** 2) ** (1/2)", "(a.#q ** 2) ** (1/2) + 1", "(x ** 4) ** (1/2)",
              "(x ** 2) ** (1/2) - x", "2 * (y ^ 2) ^ (1/2) / 3"]
    # multiplicity(p, n): the exponent of p in n, for negative n too (the sign carries no factor)
    texts += ["multiplicity(2, -8)", "multiplicity(3, -9)", "2 ** multiplicity(2, -8) * 3", "multiplicity(2, 40)", "Multiplicity(5, 0 - 50) + 1",
              "multiplicity(2, 7)", "multiplicity(3, 2)"]
    # runs of unary signs in front of something that is NOT a literal (a symbol, a port, a call, a bracket, a power): every sign counts
    texts += ["--x", "+-x", "-+x", "---x", "y - - -x", "y + - - x", "--x ** 2", "--a.#p", "+-f(x, 2)", "--(x + y) * 3", "2 ** --x", "-+-+x - +-y",
              "--max(x, y)", "x * - - y"]
    # sgn of an argument that is provably >= 0 (or <= 0) but may be ZERO: not folded to 1 (or -1)
    texts += ["sgn(x % 3)", "sgn(mod(x, 5))", "sgn(max(0, x - 5))", "sgn(-(x % 3))", "sgn((x % 3) * (y % 2))", "sgn(x % 3 + 1)", "sgn(max(0, x)) + 1"]
    # identifiers wrapped in underscores the way the parser's own placeholders (__lambda__, __in__) are: ordinary names, every
    # one of them distinct from the name between the underscores
    texts += ["__n__", "__n__ - n", "2*__n__ + n**2", "a.__n__.x", "a.#__n__ + a.#n", "__max__(2, 5)", "__f__(x) - f(x)", "_x_ + x", "__x + x__",
              "__lambda - lambda", "__in__x + in"]
    # (the two placeholders themselves, __lambda__ and __in__, are the parser's own: written by a user they read as lambda / in;
    # they are outside the stream)
    # round with one and with two arguments on exact numbers: to the nearest multiple of 10^(-n), ties to the even multiple,
    # a NEGATIVE number of digits included (tens, hundreds); on symbols the call stays as it is
    texts += ["round(12345, -2)", "ROUND(12350, -2)", "round(12450, -2) + x", "round(-12350, -2)", "round(1987, -3)", "round(2 ^ 10, -1)",
              "round(1234, -(1 + 1))", "round(7/2)", "round(5/2) * x", "Round(-7/2)", "round(25, -1)", "round(35, -1)", "round(7, 0) + y",
              "round(41, 1)", "round(x / 3, 1)", "round(x)", "round(x, -1) - round(y)", "round(7, y)", "round(10, -1) / round(4)"]
    # random trees printed with redundant parentheses
    n_rand = 150 if tier == "quick" else 4000
    for _ in range(n_rand):
        texts.append(rand_text(rng, rng.randint(2, 4)))
    cases, seen = [], set()
    for t in texts:
        if t not in seen:
            seen.add(t)
            cases.append({"text": t})
    # exactness probes: integer arithmetic beyond 2**53, each read after strings with integer-valued float literals were
    # parsed in the same process (what was parsed before must not change the reading)
    for pre, t in [(["10.0*x", "2.0*y"], "(10**16 + 1) % 10 + x"), (["2.0*x"], "2**64 + 1 - 2**64 + y"), (["3.0*y", "40.0"], "(3**40 + 1) % 3 * x"),
                   (["7.0 + x"], "(7**25 + 3) % 7 + z1"), ([], "(10**16 + 1) % 10 + y"), (["16.0"], "x * ((2**60 + 1) % 16)")]:
        cases.append({"text": t, "prelude": pre})
    return cases


def rand_text(rng, depth):
    if depth == 0 or rng.random() < 0.25:
        return rng.choice(OPERANDS)
    r = rng.random()
    if r < 0.12:
        return "-" + rand_text(rng, depth - 1) if rng.random() < 0.5 else "-(" + rand_text(rng, depth - 1) + ")"
    if r < 0.22:
        return "(" + rand_text(rng, depth - 1) + ")"
    if r < 0.3:
        return rng.choice(["f", "Max", "g"]) + "(" + rand_text(rng, depth - 1) + ", " + rand_text(rng, depth - 1) + ")"
    sp = rng.choice(["", " "])
    return rand_text(rng, depth - 1) + sp + rng.choice(OPS) + sp + rand_text(rng, depth - 1)


def points():
    # (the third point has negative values, a zero and multiples of 3: sgn(x % 3), (x ** 2) ** (1/2), max(0, x - 5) at their edges)
    vals = [[2, 3, 5, 7, 4, 6, 9, 8], [3, 2, 7, 5, 9, 4, 6, 10], [-3, 6, 0, -2, 9, 3, -6, 12]]
    return [{n: [v, 1] for n, v in zip(NAMES, vs)} for vs in vals]


def emit(pairs):
    lines = [lib.CASE_HEADER.format(imports="Parser", gen_imports="From BqGen Require Import GenParser.")]
    items = []
    pts = H.points_to_coq(points())
    lines.append(f"Definition pts := {pts}.")
    for case, imp in pairs:
        if imp.get("ok"):
            got, inex = f"(Some {E.to_coq(imp['expr'])})", ("true" if imp.get("inexact") else "false")
        else:
            got, inex = "None", "false"
        items.append(f"(check_parse gen_special_funcs {E.coq_string(case['text'])} {got} {inex} pts)")
    lines.append("Definition results : list (list nat * list nat) :=\n " + E.coq_list(items) + ".\n")
    lines.append("Eval vm_compute in results.\n")
    return "\n".join(lines)


def nontrivial(case):
    return sum(case["text"].count(o) for o in ["+", "-", "*", "/", "%", "^"]) >= 2


def distribution(cases):
    return {"with_reserved_word": sum(1 for c in cases if "lambda" in c["text"] or "in" in c["text"].replace("min", "")),
            "with_call": sum(1 for c in cases if "(" in c["text"] and any(ch.isalpha() for ch in c["text"].split("(")[0][-1:]))}


def mk_stream(cases):
    return {"name": "expr-strings", "impl_stream": "parse", "cases": cases, "emit": emit, "shard_size": 150,
            "nontrivial": nontrivial, "distribution": distribution, "timeout": 30}


def streams(tier, seed):
    rng = lib.Rng(f"C11-{seed}")
    return [mk_stream(lib.load_corpus(PROP, "expr-strings") + gen_cases(rng, tier))]


def replay_streams(payload):
    return [mk_stream([payload["case"]])]
