"""C18 — rendering is total and complete on every routine bartiq accepts."""
import itertools

import exprs as E
import hier as H
import lib

PROP = "C18"
LEVEL = "proof"
THEOREM_FILE = "properties/C18.v"
CASE_DEPS = ["theories/Latex.v"]
RULE = ("stream latex-names: EVERY identifier of the QREF name pattern up to length 3 over the alphabet {x, _, 1} (39 names, incl. "
        "x_, _x, _, __, x_1, _1_) plus Greek / reserved words, used in turn as input parameter, local variable, link source, "
        "resource, port and child name; stream latex-hier: seeded random hierarchies (through ports, repetitions, deep links) "
        "and their compiled forms; each is rendered by the real routine_to_latex with and without subroutine resources, paged "
        "and unpaged; spec = no exception, and the number of entries of the parameter, port and resource sections equals the "
        "number of input parameters, ports (input + output + through) and resources (root / all); tie = the model's prediction of "
        "whether rendering raises; non-trivial = the name contains an underscore or the routine has children; distinct by JSON hash")
TRUSTED_BASE = ["GenLatex.v regenerated from integrations/latex.py", "sympy latex() is total on the expressions met (oracle)"]
ASSUMPTIONS = ["an 'entry' is counted per section of the rendered text; its typography (sympy's latex of the name) is not modelled"]


def leaf(name, **kw):
    d = {"name": name, "type": None, "input_params": [], "local_variables": [], "linked_params": [], "ports": [], "resources": [],
         "connections": [], "repetition": None, "children": []}
    d.update(kw)
    return d


def name_cases():
    alphabet = ["x", "_", "1"]
    names = []
    for n in (1, 2, 3):
        for t in itertools.product(alphabet, repeat=n):
            s = "".join(t)
            if s[0] != "1":
                names.append(s)
    names += ["lambda", "in", "alpha_beta", "x_lambda", "N1", "a_b_c", "T_1_2", "__x__", "lambda_", "_in"]
    cases = []
    for nm in names:
        # as input parameter + used in a resource value and a local variable
        cases.append({"routine": leaf("root", input_params=[nm], local_variables=[["w", E.op("add", E.sym(nm), E.num(1))]],
                                      resources=[{"name": "T", "type": "additive", "value": E.op("mul", E.num(2), E.sym(nm))}]),
                      "role": "param", "name": nm})
        cases.append({"routine": leaf("root", input_params=["N"], resources=[{"name": nm, "type": "additive", "value": E.sym("N")}]),
                      "role": "resource", "name": nm})
        cases.append({"routine": leaf("root", input_params=["N"], local_variables=[[nm, E.sym("N")]],
                                      resources=[{"name": "T", "type": "additive", "value": E.sym(nm)}]),
                      "role": "local", "name": nm})
        cases.append({"routine": leaf("root", input_params=["N"], ports=[{"name": nm, "direction": "input", "size": E.sym("N")},
                                                                             {"name": "o", "direction": "output", "size": None}],
                                      connections=[[nm, "o"]]),
                      "role": "port", "name": nm})
        cases.append({"routine": leaf("root", input_params=["N"], ports=[{"name": nm, "direction": "through", "size": E.sym("N")},
                                                                             {"name": "i2", "direction": "input", "size": E.num(3)}],
                                      resources=[{"name": "T", "type": "additive", "value": E.sym("N")}]),
                      "role": "through-port", "name": nm})
        cases.append({"routine": leaf("root", input_params=[nm], linked_params=[[nm, [[nm, "y"]]]],
                                      children=[leaf(nm, input_params=["y"], resources=[{"name": nm, "type": "additive", "value": E.sym("y")}])]),
                      "role": "link+child", "name": nm, "compiled": True})
    # a repetition on the routine being rendered itself (only the top-level routine's repetition has a section): every
    # sequence kind, the count a symbol, a numeric string, or -- handed over natively -- a plain integer
    import hier as _H
    rr = lib.Rng("c18-root-repetition")
    for kind_seq in range(10):
        seq = _H.gen_sequence(rr, ["N"])
        for count, native in ((E.sym("K"), False), (E.num(5), False), (E.num(5), True), (E.num(0), True)):
            child = leaf("c", input_params=["N"], resources=[{"name": "T", "type": "additive", "value": E.sym("N")}])
            cases.append({"routine": leaf("root", input_params=["N", "K"], linked_params=[["N", [["c", "N"]]]], children=[child],
                                          repetition={"count": count, "sequence": seq}),
                          "role": "root-repetition", "name": seq["kind"], "native": native, "compiled": True})
    # every pattern of directions over four ports whose NAME order is fixed (qref keeps ports name-sorted):
    # ports of one direction separated by ports of another, in every arrangement
    for dirs in itertools.product(["input", "output", "through"], repeat=4):
        cases.append({"routine": leaf("root", input_params=["N"],
                                      ports=[{"name": nm, "direction": d, "size": E.sym("N")} for nm, d in zip("abcd", dirs)],
                                      resources=[{"name": "T", "type": "additive", "value": E.sym("N")}]),
                      "role": "port-orders", "name": "".join(d[0] for d in dirs)})
    # sections with MANY entries (10, 11, ... 25 input parameters / ports / resources / local variables, and a child linked
    # from each parameter): however long a section is, every item has its entry
    for n in (9, 10, 11, 12, 15, 19, 20, 21, 25):
        ps = [f"p_{chr(97 + i)}" for i in range(n)]
        cases.append({"routine": leaf("root", input_params=ps, resources=[{"name": "T", "type": "additive", "value": E.op("add", *[E.sym(q) for q in ps[:3]])}]),
                      "role": "wide", "name": f"params{n}"})
        cases.append({"routine": leaf("root", input_params=["N"],
                                      ports=[{"name": f"q_{chr(97 + i)}", "direction": ["input", "output", "through"][i % 3], "size": E.sym("N")} for i in range(n)],
                                      resources=[{"name": f"R{chr(97 + i)}", "type": "additive", "value": E.op("add", E.sym("N"), E.num(i))} for i in range(n)],
                                      local_variables=[[f"l_{chr(97 + i)}", E.op("add", E.sym("N"), E.num(i))] for i in range(n)]),
                      "role": "wide", "name": f"ports{n}"})
        child = leaf("sub", input_params=ps, resources=[{"name": "T", "type": "additive", "value": E.op("add", *[E.sym(q) for q in ps])}])
        cases.append({"routine": leaf("root", input_params=ps, linked_params=[[q, [["sub", q]]] for q in ps], children=[child]),
                      "role": "wide", "name": f"links{n}", "compiled": True})
    return cases


def hier_cases(rng, n):
    out = []
    while len(out) < n:
        r = H.gen_hierarchy(rng, max_depth=rng.randint(1, 3), p_through=0.35, p_rep=0.2, root_sized=True)
        if H.count_nodes(r) <= 8:
            out.append({"routine": r, "role": "hierarchy", "name": "", "compiled": True, "native": rng.random() < 0.5})
    return out


def emit(pairs):
    lines = [lib.CASE_HEADER.format(imports="RepModel Routine Latex", gen_imports="From BqGen Require Import GenLatex.")]
    items = []
    for k, (case, imp) in enumerate(pairs):
        tie, spec = [], []
        src = imp.get("src") or {}
        if src.get("expect"):
            # tie: the number of entries of each section of the real rendering of the SOURCE document is what the translated
            # traversal and assembly (GenLatex.gen_latex_walk / _resource_lines / _port_lines / _param_entries) give
            lines.append(f"Definition r{k} : routine := {H.routine_to_coq(case['routine'])}.")
            for key, flag in (("all_flat", "true"), ("all_paged", "true"), ("root_flat", "false"), ("root_paged", "false")):
                rr = src[key]
                if rr["ok"]:
                    c = rr["counts"]
                    real = [c.get("Input parameters", 0), c.get("Input ports", 0), c.get("Output ports", 0), c.get("Through ports", 0),
                            c.get("Resources", 0)]
                    tie.append(f"check_latex_counts r{k} {flag} {E.coq_list([str(x) + '%nat' for x in real])}")
        for tag in ("src", "cmp"):
            if tag not in imp:
                continue
            v = imp[tag]
            if not v.get("expect"):
                continue          # compile itself failed: not a rendering matter
            ex = v["expect"]
            for key in ("all_flat", "all_paged", "root_flat", "root_paged"):
                r = v[key]
                if not r["ok"]:
                    spec.append("1%nat")
                    continue
                c = r["counts"]
                want_res = ex["all_res"] if key.startswith("all") else ex["root_res"]
                ok = (c.get("Input parameters", 0) == ex["params"] and c.get("Input ports", 0) == ex["in"]
                      and c.get("Output ports", 0) == ex["out"] and c.get("Through ports", 0) == ex["through"]
                      and c.get("Resources", 0) == want_res)
                spec.append("0%nat" if ok else "1%nat")
            if tag == "src" and case["role"] in ("param", "resource", "local", "link+child"):
                raised = not v["all_flat"]["ok"]
                tie.append(f"(if Bool.eqb (name_raises {E.coq_string(case['name'])}) {'true' if raised else 'false'} then 0%nat else 1%nat)")
        items.append(f"({E.coq_list(tie)}, {E.coq_list(spec)})")
    lines.append("Definition results : list (list nat * list nat) :=\n " + E.coq_list(items) + ".\n")
    lines.append("Eval vm_compute in results.\n")
    return "\n".join(lines)


def nontrivial(case):
    return "_" in case["name"] or bool(case["routine"]["children"])


def distribution(cases):
    d = {}
    for c in cases:
        d[c["role"]] = d.get(c["role"], 0) + 1
    return {"roles": d}


def mk_stream(cases, name):
    return {"name": name, "impl_stream": "latex", "cases": cases, "emit": emit, "shard_size": 60,
            "nontrivial": nontrivial, "distribution": distribution, "timeout": 60}


def streams(tier, seed):
    rng = lib.Rng(f"C18-{seed}")
    n = 60 if tier == "quick" else 1200
    return [mk_stream(lib.load_corpus(PROP, "latex-names") + name_cases(), "latex-names"), mk_stream(hier_cases(rng, n), "latex-hier")]


def replay_streams(payload):
    return [mk_stream([payload["case"]], payload.get("stream", "latex-names"))]
