"""C07 — repetition arithmetic equals the unrolled sum."""
import json
from fractions import Fraction

import exprs as E
import lib

PROP = "C07"
LEVEL = "proof"
THEOREM_FILE = "properties/C07.v"
CASE_DEPS = ["theories/RepModel.v", "theories/CompileTop.v", "theories/DenSrc.v", "theories/Checks.v"]
RULE = ("stream rep-direct: seeded random repetition objects of all five sequence kinds (symbolic and numeric "
        "count/parameters), Repetition.sequence_sum/sequence_prod of the real code compared inside Coq (vm_compute, exact "
        "rationals) with the generated formula (tie) and with the unrolled sum over i<count (spec) at counts 0..12; "
        "non-trivial = count>=2 at some point and the child expression is not a constant; distinct by canonical JSON hash. "
        "stream hier-repeat: repetition-heavy random hierarchies (nested repetitions, counts and sequence parameters linked from "
        "parents under shared names) compiled by the real code and compared at every node with the compile model (tie) and the "
        "bottom-up denotation, whose repetition clause is the unrolled sum (spec); stream eval-repeat: repeated hierarchies compiled with "
        "symbolic counts and sequence parameters, then every input assigned by the real evaluate() (counts 0..5, zero included) "
        "and compared with the compiled tree at the assigned point")
TRUSTED_BASE = ["GenRepetitions.v is regenerated from src/bartiq/repetitions.py on every run; python operators on sympy objects are read as +,-,*,/,** (translator assumption)"]
ASSUMPTIONS = ["power with a natural-number exponent is repeated multiplication (Qpower)", "sympy arithmetic preserves value (exercised by the stream, not proved)"]

SYMS = ["x", "y", "N", "beta_", "a.T"]


def gen_expr(rng, depth, syms):
    if depth == 0 or rng.random() < 0.3:
        if rng.random() < 0.6:
            return E.sym(rng.choice(syms))
        return E.num(rng.choice([1, 2, 3, 5, Fraction(1, 2), Fraction(3, 2), 7]))
    o = rng.choice(["add", "mul", "add", "mul", "sub", "f", "div"])
    a, b = gen_expr(rng, depth - 1, syms), gen_expr(rng, depth - 1, syms)
    if o == "f":
        return E.fun(rng.choice(["f", "g"]), a)
    if o == "div":
        return E.op("div", a, E.num(rng.choice([2, 3, 4])))
    return E.op(o, a, b)


def gen_case(rng):
    kind = rng.choice(["constant", "arithmetic", "geometric", "closed_form", "custom"])
    symbolic_count = rng.random() < 0.6
    count = E.sym("K") if symbolic_count else E.num(rng.randint(0, 12))
    if symbolic_count and rng.random() < 0.3:
        count = E.op("add", E.sym("K"), E.num(rng.randint(1, 3)))
    child = gen_expr(rng, 2, SYMS)
    param = lambda: (E.sym(rng.choice(["p", "q", "x"])) if rng.random() < 0.5 else E.num(rng.choice([2, 3, Fraction(1, 2), 4, -1, Fraction(3, 2)])))  # noqa: E731
    want_prod = False
    if kind == "constant":
        m = E.sym("m") if rng.random() < 0.5 else E.num(rng.randint(1, 4))
        seq = {"kind": kind, "multiplier": m}
        want_prod = True
    elif kind == "arithmetic":
        seq = {"kind": kind, "initial_term": param(), "difference": param()}
    elif kind == "geometric":
        seq = {"kind": kind, "ratio": param()}
    elif kind == "closed_form":
        body = rng.choice([
            E.op("div", E.op("mul", E.sym("k"), E.op("add", E.sym("k"), E.num(1))), E.num(2)),
            E.op("mul", E.sym("k"), E.sym("p")),
            E.op("add", E.op("pow", E.sym("k"), E.num(2)), E.sym("x")),
            E.fun("f", E.sym("k")),
        ])
        seq = {"kind": kind, "sum": body, "prod": None, "num_terms_symbol": "k"}
        if symbolic_count and rng.random() < 0.4:
            # the placeholder bears the name of the count's own symbol (the usual `count: K`), the count being K itself or a
            # compound expression in K: the formula is taken at the COUNT (K + 1, 2*K), not at K
            seq["num_terms_symbol"] = "K"
            seq["sum"] = E.subst_sym(body, "k", "K") if hasattr(E, "subst_sym") else json.loads(json.dumps(body).replace('["s", "k"]', '["s", "K"]'))
            count = rng.choice([E.sym("K"), E.op("add", E.sym("K"), E.num(1)), E.op("mul", E.num(2), E.sym("K")), E.op("mul", E.sym("K"), E.sym("K"))])
    else:
        term = rng.choice([
            E.op("add", E.op("mul", E.sym("p"), E.sym("i")), E.num(1)),
            E.op("pow", E.num(2), E.sym("i")),
            E.fun("f", E.sym("i")),
            E.op("mul", E.sym("i"), E.sym("i")),
            E.sym("p"),
        ])
        seq = {"kind": kind, "term_expression": term, "iterator_symbol": "i"}
        want_prod = True      # the product over a custom sequence: prod_i (term(i) * child), the child's value once PER round
    points = []
    for _ in range(4):
        p = {"K": rng.randint(0, 12), "m": rng.randint(0, 4)}
        for s in SYMS + ["p", "q"]:
            p[s] = rng.choice([2, 3, 5, Fraction(1, 2), Fraction(7, 3), -2, Fraction(-3, 2)])
        points.append({k: [Fraction(v).numerator, Fraction(v).denominator] for k, v in p.items()})
    return {"seq": seq, "count": count, "expr": child, "want_prod": want_prod, "points": points}


def seq_to_coq(seq):
    k = seq["kind"]
    if k == "constant":
        return f"(SConst {E.to_coq(seq['multiplier'])})"
    if k == "arithmetic":
        return f"(SArith {E.to_coq(seq['initial_term'])} {E.to_coq(seq['difference'])})"
    if k == "geometric":
        return f"(SGeom {E.to_coq(seq['ratio'])})"
    if k == "closed_form":
        su = None if seq.get("sum") is None else E.to_coq(seq["sum"])
        pr = None if seq.get("prod") is None else E.to_coq(seq["prod"])
        return f"(SClosed {E.coq_opt(su)} {E.coq_opt(pr)} {E.coq_string(seq['num_terms_symbol'])})"
    return f"(SCustom {E.to_coq(seq['term_expression'])} {E.coq_string(seq['iterator_symbol'])})"


def points_to_coq(points):
    return E.coq_list([E.coq_list([f"({E.coq_string(k)}, {E.coq_q(v[0], v[1])})" for k, v in sorted(p.items())]) for p in points])


def emit(pairs):
    lines = [lib.CASE_HEADER.format(imports="RepModel", gen_imports="From BqGen Require Import GenRepetitions.")]
    items = []
    for case, imp in pairs:
        if imp.get("ok"):
            isum = E.coq_opt(E.to_coq(imp["sum"]))
            iprod = E.coq_opt(E.to_coq(imp["prod"])) if "prod" in imp else "None"
            inex = "true" if imp.get("inexact") else "false"
        else:
            # the implementation raised: only legitimate when the model says the formula is undefined
            isum, iprod, inex = "None", "None", "false"
        items.append(
            f"(check_rep_case {seq_to_coq(case['seq'])} {E.to_coq(case['expr'])} {E.to_coq(case['count'])} {inex} "
            f"{isum} {iprod} {'true' if case.get('want_prod') else 'false'} {points_to_coq(case['points'])})"
        )
    lines.append("Definition results : list (list nat * list nat) :=\n " + E.coq_list(items) + ".\n")
    lines.append("Eval vm_compute in results.\n")
    return "\n".join(lines)


def nontrivial(case):
    big = case["count"][0] != "n" or case["count"][1] >= 2
    return big and case["expr"][0] != "n"


def distribution(cases):
    d = {}
    for c in cases:
        k = c["seq"]["kind"] + ("/symbolic-count" if c["count"][0] != "n" else "/numeric-count")
        d[k] = d.get(k, 0) + 1
    return {"by_kind": d}


def has_rep(r):
    return r.get("repetition") is not None or any(has_rep(c) for c in r["children"])


def nested_iterator_cases():
    """A custom-sequence repetition around a custom-sequence repetition, the two iterators bearing the SAME name or different
    ones; and a custom-sequence repetition around a leaf whose cost is itself a sum over a dummy of that name: a bound name
    shadows, it is not a free symbol of the value."""
    def node(name, params, links, rep, kids, res=None):
        return {"name": name, "type": None, "input_params": params, "local_variables": [], "linked_params": links, "ports": [],
                "resources": res or [], "connections": [], "repetition": rep, "children": kids}

    def custom(count, it, term):
        return {"count": count, "sequence": {"kind": "custom", "term_expression": term, "iterator_symbol": it}}
    out = []
    for outer_it, inner_it in (("i", "i"), ("i", "j"), ("s", "s"), ("k", "k")):
        leaf = node("leaf", ["N"], [], None, [], [{"name": "T", "type": "additive", "value": E.op("add", E.sym("N"), E.num(1))}])
        inner = node("inner", ["N", "R"], [["N", [["leaf", "N"]]]],
                     custom(E.sym("R"), inner_it, E.op("add", E.op("mul", E.num(2), E.sym(inner_it)), E.num(1))), [leaf])
        root = node("root", ["N", "K", "R"], [["N", [["inner", "N"]]], ["R", [["inner", "R"]]]],
                    custom(E.sym("K"), outer_it, E.op("add", E.sym(outer_it), E.num(2))), [inner])
        out.append({"routine": root})
        # a leaf whose own cost is a sum over a dummy with the outer iterator's name
        leaf2 = node("leaf", ["N"], [], None, [],
                     [{"name": "T", "type": "additive", "value": ["b", "sum", outer_it, E.op("mul", E.sym(outer_it), E.sym("N")), E.num(0), E.num(3)]}])
        root2 = node("root", ["N", "K"], [["N", [["leaf", "N"]]]],
                     custom(E.sym("K"), outer_it, E.op("add", E.sym(outer_it), E.num(1))), [leaf2])
        out.append({"routine": root2})
    return out


def hier_repeat_stream(cases):
    from props import c01

    st = c01.mk_stream(cases)
    st["name"] = "hier-repeat"
    return st


def streams(tier, seed):
    from props import c01

    rng = lib.Rng(f"C07-{seed}")
    n = 240 if tier == "quick" else 4000
    cases = lib.load_corpus("C07", "rep-direct") + [gen_case(rng) for _ in range(n)]
    direct = {"name": "rep-direct", "impl_stream": "rep-direct", "cases": cases, "emit": emit, "shard_size": 60,
              "nontrivial": nontrivial, "distribution": distribution}
    # embedded at any level of a hierarchy: repetition-heavy hierarchies, compared with the bottom-up denotation
    m = 100 if tier == "quick" else 2000
    hier = []
    while len(hier) < m:
        c = c01.gen_cases(rng, 1, 3 if tier == "quick" else 4, p_rep=0.6)[0]
        if has_rep(c["routine"]):
            if rng.random() < 0.3:
                # an additive resource DERIVED on the leaves (compile_routine(..., derived_resources=...)): a repeated routine
                # whose child has it carries the sum over the repetitions, like any resource the child declares
                c["derived_leaf"] = {"name": "dgates", "type": "additive", "of": rng.choice(["T", "G", "T"]), "a": rng.randint(2, 3), "b": rng.randint(0, 5)}
            hier.append(c)
    # ... and with the counts and sequence parameters left symbolic by compilation and supplied by the real evaluate():
    # every count in 0..5 (zero included: the empty repetition), every parameter assigned, compared with the compiled tree
    # at the assigned point
    from props import c05
    ev = c05.build_cases(rng, 40 if tier == "quick" else 800, 3, p_rep=0.7, repeated_only=True)
    return [direct, hier_repeat_stream(lib.load_corpus("C07", "hier-repeat") + nested_iterator_cases() + hier),
            c05.mk_stream(lib.load_corpus("C07", "eval-repeat") + ev, name="eval-repeat")]


def replay_streams(payload):
    if payload.get("stream") == "eval-repeat":
        from props import c05
        return [c05.mk_stream([payload["case"]], name="eval-repeat")]
    if payload.get("stream") == "hier-repeat":
        return [hier_repeat_stream([payload["case"]])]
    return [{"name": "rep-direct", "impl_stream": "rep-direct", "cases": [payload["case"]], "emit": emit, "shard_size": 60,
             "nontrivial": nontrivial, "distribution": distribution}]
