"""C13 — routines survive QREF export and import."""
import exprs as E
import hier as H
import lib

PROP = "C13"
LEVEL = "translation_validation"
THEOREM_FILE = "properties/C13.v"
CASE_DEPS = ["theories/Checks.v", "theories/QrefModel.v"]
RULE = ("stream hier-qref: seeded random hierarchies with repetitions of every sequence kind (symbolic and numeric fields), deep "
        "parameter links, through ports; the real code (a) imports the document as a Routine, exports it, reloads the export through "
        "the pydantic schema and imports it again; (b) compiles, exports the CompiledRoutine, reloads and re-imports it; (c) "
        "compiles the re-exported uncompiled document; inside Coq each pair is compared for equal structure (names, nesting, "
        "types, ports, connections, links incl. multi-level targets, repetition kind) and mathematically equal expressions at 3 "
        "rational points (spec); any exception is a failure; non-trivial = at least 2 routine nodes; distinct by canonical JSON hash")
TRUSTED_BASE = ["pydantic / qref schema validation (the exported document is validated by constructing SchemaV1 and by reloading its dump)"]
ASSUMPTIONS = ["expression round trip through text is C12's subject; here expressions are compared by value"]


def gen_cases(rng, n, max_depth):
    out = []
    while len(out) < n:
        r = H.gen_hierarchy(rng, max_depth=rng.randint(1, max_depth), p_rep=0.4, p_through=0.2, root_sized=True)
        if H.count_nodes(r) <= 9:
            if rng.random() < 0.3:
                # a hand-written sum of a sum (sympy keeps it as ONE object with two limits, the inner one first), the inner
                # range mentioning the outer iterator: a resource of some leaf, over one of its parameters if it has any
                leaves = [n for n, _ in H._nodes(r) if not n["children"]]
                lf = rng.choice(leaves)
                # (the outer range ends at a small number: a parameter may be linked from a cube, and a triangular product over a
                # thousand terms is not what this stream is about)
                top = E.num(rng.randint(2, 4))
                kind = rng.choice(["sum", "sum", "prod"])
                inner = ["b", kind, "j", E.op("add", E.op("mul", E.num(2), E.sym("j")), E.sym("i")), E.num(0), E.sym("i")]
                lf["resources"].append({"name": "zs", "type": "other", "value": ["b", kind, "i", inner, E.num(1), top]})
            if rng.random() < 0.25:
                # error rates and huge constants: float coefficients that print in EXPONENT notation (1e-10*n, 3e-20*n**2, 1e+20*n),
                # next to a symbol (written out by the expression printer, not as a native number) -- read back digit for digit
                nd = rng.choice([n for n, _ in H._nodes(r)])
                if not nd["input_params"]:
                    nd["input_params"] = ["N"]
                sy = E.sym(rng.choice(nd["input_params"]))
                num, den = rng.choice([(1, 10 ** 10), (3, 10 ** 20), (15, 10 ** 11), (25, 10 ** 8), (10 ** 20, 1), (1, 10 ** 30)])
                nd["resources"].append({"name": "zerr", "type": "other",
                                        "value": E.op("add", E.op("mul", ["n", num, den, "float"], sy), E.op("mul", ["n", 3, 10 ** 20, "float"], E.op("pow", sy, E.num(2))))})
            if rng.random() < 0.2:
                # a built-in of two arguments whose order matters, over two names of some routine's scope (or a name and a number)
                nd = rng.choice([n for n, _ in H._nodes(r)])
                sc = list(nd["input_params"]) or ["N"]
                if not nd["input_params"]:
                    nd["input_params"] = ["N"]
                a, b = E.sym(rng.choice(sc)), (E.sym(rng.choice(sc)) if rng.random() < 0.5 else E.num(rng.randint(2, 5)))
                nd["resources"].append({"name": "za", "type": "other", "value": E.fun("atan2", E.op("add", a, E.num(1)), b)})
            if rng.random() < 0.2:
                # a repetition whose count is a number that is NOT whole (5/2: the expected rounds of a repeat-until-success
                # loop): it is exported as it is, not as an integer
                reps = [n for n, _ in H._nodes(r) if n.get("repetition") and n["repetition"]["sequence"]["kind"] in ("constant", "arithmetic", "geometric", "closed_form")]
                if reps:
                    from fractions import Fraction
                    rng.choice(reps)["repetition"]["count"] = E.num(rng.choice([Fraction(5, 2), Fraction(7, 2), Fraction(1, 2)]))
            out.append({"routine": r})
    return out


def wiring_to_coq(w):
    cs = E.coq_list([f"({E.coq_string(a)}, {E.coq_string(b)})" for a, b in w["connections"]])
    ls = E.coq_list([f"({E.coq_string(src)}, {E.coq_list([E.coq_string(t) for t in ts])})" for src, ts in w["links"]])
    ks = E.coq_list([wiring_to_coq(c) for c in w["children"]])
    return f"(W {E.coq_string(w['name'])} {cs} {ls} {ks})"


def emit(pairs):
    lines = [lib.CASE_HEADER.format(imports="RepModel Routine Compile CompileTop Checks QrefModel", gen_imports="")]
    items = []
    for k, (case, imp) in enumerate(pairs):
        if "uncompiled" not in imp:
            items.append("([], [1%nat])")
            continue
        inex = "true" if imp.get("inexact") else "false"
        spec = []
        names = set(H.scope_names(case["routine"]))
        for st in ("compiled", "recompiled"):
            if imp[st].get("ok"):
                names |= H.tree_input_params(imp[st]["a"]) | H.tree_input_params(imp[st]["b"])
        pts = H.points_to_coq(H.make_points(lib.Rng(f"pts-{lib.case_hash(case)}"), names, 3))
        u = imp["uncompiled"]
        tie = "[]"
        if u.get("ok") and "wiring" in u:
            # tie: the wiring strings of the real exported document are exactly those of the model's export of the SOURCE
            # routine (QrefModel.to_q), and the model's import (dec_conn / dec_link) reads every one of them
            lines.append(f"Definition src{k} : routine := {H.routine_to_coq(case['routine'])}.")
            lines.append(f"Definition w{k} : wiring := {wiring_to_coq(u['wiring'])}.")
            tie = f"check_wiring src{k} w{k}"
        if u.get("ok"):
            lines.append(f"Definition ua{k} : routine := {H.routine_to_coq(u['a'])}.")
            lines.append(f"Definition ub{k} : routine := {H.routine_to_coq(u['b'])}.")
            spec.append(f"routine_equiv (S (height ua{k})) {inex} (points_of {pts}) ua{k} ub{k}")

            def kid_orders(n):
                return [[c["name"] for c in n["children"]]] + [o for c in n["children"] for o in kid_orders(c)]
            # ... and the children of every routine come back in the order the routine holds them in
            spec.append("[0%nat]" if kid_orders(u["a"]) == kid_orders(u["b"]) else "[1%nat]")
        else:
            spec.append("[1%nat]")
        c = imp["compiled"]
        if c.get("ok"):
            lines.append(f"Definition ca{k} : ctree expr := {H.ctree_to_coq(c['a'])}.")
            lines.append(f"Definition cb{k} : ctree expr := {H.ctree_to_coq(c['b'])}.")
            spec.append(f"check_ctree_pair {inex} {pts} ca{k} cb{k}")
        elif c.get("exc") not in ("BartiqCompilationError", "BartiqPreprocessingError"):
            spec.append("[1%nat]")     # (a routine bartiq refuses to compile has no compiled form to export)
        rc = imp["recompiled"]
        if rc.get("ok"):
            lines.append(f"Definition ra{k} : ctree expr := {H.ctree_to_coq(rc['a'])}.")
            lines.append(f"Definition rb{k} : ctree expr := {H.ctree_to_coq(rc['b'])}.")
            spec.append(f"check_ctree_pair {inex} {pts} ra{k} rb{k}")
        elif rc.get("exc") != "skipped":
            spec.append("[1%nat]")
        items.append("(" + tie + ", (" + " ++ ".join(spec) + ")%list)")
    lines.append("Definition results : list (list nat * list nat) :=\n " + E.coq_list(items) + ".\n")
    lines.append("Eval vm_compute in results.\n")
    return "\n".join(lines)


def nontrivial(case):
    return H.count_nodes(case["routine"]) >= 2


def distribution(cases):
    d = {"sequence_kinds": {}, "with_deep_link": 0}
    for c in cases:
        def go(n):
            if n.get("repetition"):
                k = n["repetition"]["sequence"]["kind"]
                d["sequence_kinds"][k] = d["sequence_kinds"].get(k, 0) + 1
            for _, ts in n["linked_params"]:
                if any("." in t[0] for t in ts):
                    d["with_deep_link"] += 1
            for ch in n["children"]:
                go(ch)
        go(c["routine"])
    return d


def mk_stream(cases):
    return {"name": "hier-qref", "impl_stream": "qref", "cases": cases, "emit": emit, "shard_size": 8,
            "nontrivial": nontrivial, "distribution": distribution, "timeout": 120}


def streams(tier, seed):
    rng = lib.Rng(f"C13-{seed}")
    n = 120 if tier == "quick" else 2000
    return [mk_stream(lib.load_corpus(PROP, "hier-qref") + gen_cases(rng, n, 3))]


def replay_streams(payload):
    return [mk_stream([payload["case"]])]
