"""C08 — additive and multiplicative resources accumulate up the hierarchy."""
import hier as H
import lib
from props import c01

PROP = "C08"
LEVEL = "proof"
THEOREM_FILE = "properties/C08.v"
CASE_DEPS = c01.CASE_DEPS
RULE = ("stream hier-resources: seeded random hierarchies in which arbitrary subsets of nodes define / omit each resource "
        "(additive, multiplicative, other, qubits; explicit definitions over child.resource at intermediate levels; repetitions "
        "at random levels); the real compiled value of every resource of every node is compared inside Coq with the bottom-up "
        "denotation (sum/product over exactly the children having the resource, explicit definition first), and, for additive "
        "resources that only leaves define, the root value with the sum over all leaves weighted by the repetition sums of "
        "the repeated ancestors; tie = model vs real compile_routine; non-trivial = at least 3 routine nodes; distinct by "
        "canonical JSON hash")
TRUSTED_BASE = []
ASSUMPTIONS = ["siblings do not give one resource name two different types (the statement would demand two values for one name)"]


def nontrivial(case):
    return H.count_nodes(case["routine"]) >= 3


def strip_types_clash(r):
    """W8: a resource name is never additive in one place and multiplicative in another (the first of the two kinds seen
    wins in the whole tree).  Definitions of type other / qubits are left alone: they do not propagate, so a routine's
    own definition may well carry another type than its children's resource of the same name."""
    seen = {}

    def go(n):
        for c in n["children"]:
            go(c)
        for x in n["resources"]:
            if x["type"] in ("additive", "multiplicative"):
                x["type"] = seen.setdefault(x["name"], x["type"])
    go(r)
    return r


def streams(tier, seed):
    rng = lib.Rng(f"C08-{seed}")
    n = 160 if tier == "quick" else 3000
    # two thirds general hierarchies, one third wiring-heavy ones with the children listed in any order (fan-in from several
    # siblings, feeders listed after what they feed: every leaf's value still reaches the sums above it)
    md = 3 if tier == "quick" else 4
    cases = c01.gen_cases(rng, n - n // 3, md, p_rep=0.25, max_children=4) + c01.gen_cases(rng, n // 3, md, max_children=4, p_shuffle=1.0, p_rep=0.1, p_through=0.25)
    for c in cases:
        if rng.random() < 0.2:
            # fidelities / success probabilities: small exact decimals (1e-06, 2.5e-07, 0.0025) on several leaves, multiplied up the
            # hierarchy -- the parent's value is the product of the children's to 15 SIGNIFICANT digits, also far below one
            leaves = [nd for nd, _ in H._nodes(c["routine"]) if not nd["children"] and not any(x["name"] == "fid" for x in nd["resources"])]
            c["relative"] = bool(leaves)
            for nd in leaves[:3]:
                num, den = rng.choice([(1, 10 ** 6), (123456789, 10 ** 15), (987654321, 10 ** 14), (31415926535, 10 ** 16), (1, 400)])
                nd["resources"].append({"name": "fid", "type": rng.choice(["multiplicative", "multiplicative", "additive"]), "value": ["n", num, den, "float"]})
        strip_types_clash(c["routine"])
    st = c01.mk_stream(lib.load_corpus(PROP, "hier-resources") + cases, "check_accumulate")
    st["name"] = "hier-resources"
    return [st]


def replay_streams(payload):
    st = c01.mk_stream([payload["case"]], "check_accumulate")
    st["name"] = "hier-resources"
    return [st]
