"""C06 — size mismatches are always detected; consistent sizes are never rejected."""
import json

import exprs as E
import hier as H
import lib

PROP = "C06"
LEVEL = "proof"
THEOREM_FILE = "properties/C06.v"
CASE_DEPS = ["theories/CompileTop.v", "theories/DenSrc.v", "theories/Checks.v"]
RULE = ("stream size-mismatch: seeded random well-formed hierarchies in which one to three input/through ports of subroutines are "
        "re-declared with a constant, with a symbol already fixed by another port of the same subroutine, or with a compound "
        "expression over the subroutine's parameters and local variables; the real code compiles each and evaluates it under 4 "
        "total assignments of small naturals (values 1..3, so that both agreeing and contradicting assignments are common), each "
        "supplied in one evaluate call and in two successive calls in both orders; "
        "inside Coq the outcome class of compile and of each evaluate is compared with the model (tie) and with the bottom-up "
        "denotation's verdict 'incoming integer size == declared size at every port' (spec: mismatch <=> BartiqCompilationError); "
        "non-trivial = at least one assignment on each side of a constraint; distinct by canonical JSON hash")
TRUSTED_BASE = []
ASSUMPTIONS = ["both sizes integer-valued at the assignment (a declared M/2 at M=3 is outside the domain and skipped)"]


def redeclare(rng, r):
    """Re-declare the size of some non-root input/through ports; returns number of re-declarations."""
    nodes = []

    def collect(n, is_root):
        if not is_root:
            nodes.append(n)
        for c in n["children"]:
            collect(c, False)
    collect(r, True)
    cands = [(n, p) for n in nodes for p in n["ports"] if p["direction"] in ("input", "through")]
    if not cands:
        return 0
    k = 0
    # a constraint that is already SATISFIED at compile time (a constant declared on both ends of a wire) sitting, in
    # constraint order, before one that stays undecided: the first name-sorted port gets the matching constant, a later
    # port of the same subroutine a declaration over its parameters
    parents = {}

    def walk(n):
        for c in n["children"]:
            parents[id(c)] = n
            walk(c)
    walk(r)
    multi = [n for n in nodes if len([p for p in n["ports"] if p["direction"] in ("input", "through")]) >= 2]
    if multi and rng.random() < 0.35:
        n = rng.choice(multi)
        par = parents[id(n)]
        ps = sorted([p for p in n["ports"] if p["direction"] in ("input", "through")], key=lambda p: p["name"])
        first = ps[0]
        src = [c[0] for c in par["connections"] if c[1] == f"{n['name']}.{first['name']}"]
        if src:
            if "." in src[0]:
                owner = next((c for c in par["children"] if c["name"] == src[0].split(".")[0]), None)
                pname = src[0].split(".")[1]
            else:
                owner, pname = par, src[0]
            sp = next((p for p in (owner["ports"] if owner else []) if p["name"] == pname), None)
            # only a port whose size is declared right there (a leaf's output, or an input of the root)
            def still_used(own, port):
                # the port's present size symbol is read elsewhere in its owner's scope (a local variable, a link source, a
                # resource, another port): re-declaring the port would leave that symbol undeclared
                if not (port["size"] and port["size"][0] == "s"):
                    return False
                sym = port["size"][1]
                rest = dict(own, ports=[q for q in own["ports"] if q is not port], children=[])
                text = json.dumps(rest)
                return json.dumps(["s", sym]) in text or any(src == sym for src, _ in own["linked_params"])
            if sp is not None and not still_used(owner, sp) and ((owner is not par and not owner["children"]) or (owner is par and par is r)):
                cst = E.num(rng.randint(1, 3))
                sp["size"] = cst
                first["size"] = cst
                k += 1
                cands = [(m, p) for m, p in cands if m is n and p is not first] or cands
    # a symbol shared by two ports that are NOT neighbours in name order, another bare symbol in between
    wide = [n for n in nodes if len([p for p in n["ports"] if p["direction"] in ("input", "through")]) >= 3]
    if wide and rng.random() < 0.5:
        n = rng.choice(wide)
        ps = sorted([p for p in n["ports"] if p["direction"] in ("input", "through")], key=lambda p: p["name"])
        free = [x for x in H.SIZE_POOL if x not in n["input_params"] and x not in [l[0] for l in n["local_variables"]]]
        if len(free) >= 2:
            a, b = rng.sample(free, 2)
            i, j = sorted(rng.sample(range(len(ps)), 2))
            if j - i < 2:
                i, j = 0, len(ps) - 1
            for q, p in enumerate(ps):
                if q in (i, j):
                    p["size"] = E.sym(a)
                elif i < q < j:
                    p["size"] = E.sym(b)
            return 1
    for n, p in rng.sample(cands, min(len(cands), rng.randint(1, 3))):
        kind = rng.choice(["const", "repeat", "compound", "compound", "param"])
        scope = list(n["input_params"]) + [l[0] for l in n["local_variables"]]
        if kind == "param":
            # the declared size is one of the subroutine's own PARAMETERS, bare (input_params: [N], port size: N): the
            # simplest expression over its parameters there is
            ps_ = [q for q in n["input_params"] if q not in H.POW_EXPONENTS and q != "dq"] + [l[0] for l in n["local_variables"]]   # (or a declared LOCAL VARIABLE)
            if ps_:
                p["size"] = E.sym(rng.choice(ps_))
                k += 1
                continue
            kind = "compound"
        others = [q["size"][1] for q in n["ports"] if q is not p and q["direction"] != "output" and q["size"] is not None and q["size"][0] == "s"]
        if kind == "const":
            p["size"] = E.num(rng.randint(0, 3))       # a register declared empty is a declaration like any other
        elif kind == "repeat" and others:
            p["size"] = E.sym(rng.choice(others))
        elif scope:
            a = E.sym(rng.choice(scope))
            # prefer a parameter that the parent leaves UNLINKED while a sibling's parameter of the same name IS linked
            # (it must be promoted to a top-level input of its own, not read as the sibling's)
            par = parents.get(id(n))
            if par is not None:
                linked = {(t[0], t[1]) for _, ts in par["linked_params"] for t in ts}
                special = [q for q in n["input_params"] if (n["name"], q) not in linked
                           and any(sib is not n and q in sib["input_params"] and (sib["name"], q) in linked for sib in par["children"])]
                if special and rng.random() < 0.8:
                    a = E.sym(rng.choice(special))
            others = [x for x in scope if x != a[1]]
            two = E.op("add", E.op("mul", E.num(2), a), E.sym(rng.choice(others))) if others else E.op("mul", E.num(2), a)
            # (an asymmetric expression over two names of the scope: a mix-up of the two shows)
            p["size"] = rng.choice([E.op("add", a, E.num(1)), E.op("mul", E.num(2), a), two, two, E.op("sub", E.op("mul", E.num(2), a), E.num(1))])
        else:
            p["size"] = E.num(rng.randint(1, 3))
        k += 1
    return k


def shared_name_partial_link(rng, r):
    """Two sibling children share a parameter name; the parent links it for ONE of them only; the other one declares an
    input port with a compound size over its own (unlinked, so promoted) parameter of that name."""
    parents = [n for n, _ in H._nodes(r) if len(n["children"]) >= 2]
    rng.shuffle(parents)
    for par in parents:
        kids = [c for c in par["children"] if any(p["direction"] in ("input", "through") for p in c["ports"])]
        if not kids:
            continue
        c2 = rng.choice(kids)
        c1 = rng.choice([c for c in par["children"] if c is not c2])
        src_pool = list(par["input_params"]) + [l[0] for l in par["local_variables"]]
        if not src_pool:
            continue
        # (never a name that one of the two children already binds through a port of that bare size: a name that is both a
        # declared parameter and a port's size symbol has two binders, and which one a compound size means is not C06's business)
        bound = {p["size"][1] for c in (c1, c2) for p in c["ports"] if p["size"] is not None and p["size"][0] == "s"}
        qs = [x for x in ["x", "y", "N"] if x not in bound]
        if not qs:
            continue
        q = rng.choice(qs)
        for c in (c1, c2):
            if q not in c["input_params"]:
                c["input_params"] = list(c["input_params"]) + [q]
        # unlink c2.q (and every deeper link that targets it), link c1.q
        for l in par["linked_params"]:
            l[1] = [t for t in l[1] if not (t[0] == c2["name"] and t[1] == q)]
        par["linked_params"] = [l for l in par["linked_params"] if l[1]]
        if not any(t[0] == c1["name"] and t[1] == q for _, ts in par["linked_params"] for t in ts):
            par["linked_params"].append([rng.choice(src_pool), [[c1["name"], q]]])
        port = rng.choice([p for p in c2["ports"] if p["direction"] in ("input", "through")])
        port["size"] = rng.choice([E.op("mul", E.num(2), E.sym(q)), E.op("add", E.sym(q), E.num(1))])
        return True
    return False


def deep_link_compound(rng, r):
    """A parameter linked TWO OR MORE levels down (a: N -> b.c.M) whose target declares an input port with a compound size over
    it, below ancestors that have no parameter links of their own (the root, or a plain container)."""
    cands = []
    for y, path in H._nodes(r):
        for src, ts in y["linked_params"]:
            for t in ts:
                if "." in t[0]:
                    try:
                        tgt = H.node_at(y, t[0].split("."))
                    except IndexError:
                        continue
                    ports = [p for p in tgt["ports"] if p["direction"] in ("input", "through")]
                    if ports and t[1] in tgt["input_params"] and t[1] not in H.POW_EXPONENTS:
                        cands.append((path, tgt, t[1], ports))
    if not cands:
        return False
    path, tgt, q, ports = rng.choice(cands)
    # (never a name the target already binds through a port of that bare size)
    if any(p["size"] is not None and p["size"][0] == "s" and p["size"][1] == q for p in tgt["ports"]):
        return False
    port = rng.choice(ports)
    port["size"] = rng.choice([E.op("mul", E.num(2), E.sym(q)), E.op("add", E.sym(q), E.num(1))])
    # every routine above the one that holds the link loses its own links (their targets become inputs of their own)
    if not path:
        # the link is held by the root: put a plain container (no parameters, no links) above it
        if any(p["direction"] == "through" for p in r["ports"]):
            return True
        inner = dict(r)
        ins = [p["name"] for p in inner["ports"] if p["direction"] == "input"]
        outs = [p["name"] for p in inner["ports"] if p["direction"] == "output"]
        r.clear()
        r.update({"name": "top", "type": None, "input_params": [], "local_variables": [], "linked_params": [],
                  "ports": [{"name": f"in_{k}", "direction": "input", "size": None} for k in range(len(ins))]
                           + [{"name": f"out_{k}", "direction": "output", "size": None} for k in range(len(outs))],
                  "resources": [], "connections": [[f"in_{k}", f"{inner['name']}.{i}"] for k, i in enumerate(ins)]
                                                  + [[f"{inner['name']}.{o}", f"out_{k}"] for k, o in enumerate(outs)],
                  "repetition": None, "children": [inner]})
        return True
    node = r
    for name in [None] + list(path[:-1]):
        if name is not None:
            node = [c for c in node["children"] if c["name"] == name][0]
        node["linked_params"] = []
    return True


def deep_link_family():
    """root (port in_0: K, with or without a link of its own) -> a (parameter N, link N -> b.c.M or N -> b.c.d.M) -> b -> c
    (-> d): the routine at the end of the deep link declares an input port with a compound size over the linked parameter."""
    def node(name, params=(), links=(), ports=(), conns=(), kids=(), res=()):
        return {"name": name, "type": None, "input_params": list(params), "local_variables": [], "linked_params": [list(l) for l in links],
                "ports": list(ports), "resources": list(res), "connections": [list(c) for c in conns], "repetition": None, "children": list(kids)}

    def port(n, d, size):
        return {"name": n, "direction": d, "size": size}
    out = []
    for depth in (2, 3):
        for form in (lambda m: E.op("mul", E.num(2), m), lambda m: E.op("add", m, E.num(1))):
            for root_link in (False, True):
                leaf = node("d" if depth == 3 else "c", params=["M"], ports=[port("in_0", "input", form(E.sym("M")))],
                            res=[{"name": "T", "type": "additive", "value": E.sym("M")}])
                chain = leaf
                names = ["c", "b"] if depth == 3 else ["b"]
                for nm in names:
                    chain = node(nm, ports=[port("in_0", "input", None)], conns=[["in_0", f"{chain['name']}.in_0"]], kids=[chain])
                target = "b.c.d" if depth == 3 else "b.c"
                a = node("a", params=["N"], links=[["N", [[target, "M"]]]], ports=[port("in_0", "input", None)],
                         conns=[["in_0", "b.in_0"]], kids=[chain])
                root = node("root", params=["K", "J"] if root_link else ["K"], links=[["J", [["a", "N"]]]] if root_link else [],
                            ports=[port("in_0", "input", E.sym("K"))], conns=[["in_0", "a.in_0"]], kids=[a])
                out.append({"routine": root, "seed": 9 + depth, "n_assign": 6, "native": False, "lo": 0})
    return out


def fan_in_family():
    """A child fed by TWO different siblings, its two ports declared with one symbol (or a constant / a compound size), the
    children and the connections listed in every order: whatever the listing, the child is compiled after both feeders."""
    import itertools

    def node(name, params=(), ports=(), conns=(), kids=(), links=()):
        return {"name": name, "type": None, "input_params": list(params), "local_variables": [], "linked_params": [list(l) for l in links],
                "ports": list(ports), "resources": [], "connections": [list(c) for c in conns], "repetition": None, "children": list(kids)}

    def port(n, d, size):
        return {"name": n, "direction": d, "size": size}
    out = []
    decls = [(E.sym("N"), E.sym("N")), (E.sym("N"), E.op("mul", E.num(2), E.sym("N"))), (E.num(2), E.sym("N"))]
    for order in itertools.permutations(["a", "b", "c"]):
        for flip in (False, True):
            d0, d1 = decls[(len(out)) % len(decls)]
            kids = {"a": node("a", ports=[port("in_0", "input", None), port("out_0", "output", E.sym("#in_0"))]),
                    "b": node("b", ports=[port("in_0", "input", None), port("out_0", "output", E.sym("#in_0"))]),
                    "c": node("c", ports=[port("in_0", "input", d0), port("in_1", "input", d1)])}
            conns = [["in_0", "a.in_0"], ["in_1", "b.in_0"], ["a.out_0", "c.in_0"], ["b.out_0", "c.in_1"]]
            if flip:
                conns = [conns[0], conns[1], conns[3], conns[2]]
            root = node("root", params=["K", "M"], ports=[port("in_0", "input", E.sym("K")), port("in_1", "input", E.sym("M"))],
                        conns=conns, kids=[kids[k] for k in order])
            out.append({"routine": root, "seed": 31 + len(out), "n_assign": 6, "native": False, "lo": 1})
    return out


def local_chain_family():
    """A port declared over a local variable that is built on ANOTHER local variable, itself built on the symbol a port defines
    (P = Q + 1, Q = 2*N, in_0: N, in_1: P), the local variables declared in either order."""
    def node(name, params=(), ports=(), conns=(), kids=(), links=(), locs=()):
        return {"name": name, "type": None, "input_params": list(params), "local_variables": [list(l) for l in locs], "linked_params": [list(l) for l in links],
                "ports": list(ports), "resources": [], "connections": [list(c) for c in conns], "repetition": None, "children": list(kids)}

    def port(n, d, size):
        return {"name": n, "direction": d, "size": size}
    out = []
    chain = [["P", E.op("add", E.sym("Q"), E.num(1))], ["Q", E.op("mul", E.num(2), E.sym("N"))]]
    chain3 = [["R", E.op("add", E.sym("P"), E.sym("Q"))]] + chain
    for locs in (chain, chain[::-1], chain3, chain3[::-1]):
        top = locs[0][0] if locs[0][0] in ("P", "R") else locs[-1][0]
        for decl in (E.sym(top), E.op("add", E.sym(top), E.num(1))):
            a = node("a", locs=locs, ports=[port("in_0", "input", E.sym("N")), port("in_1", "input", decl)])
            root = node("root", params=["K", "M"], ports=[port("in_0", "input", E.sym("K")), port("in_1", "input", E.sym("M"))],
                        conns=[["in_0", "a.in_0"], ["in_1", "a.in_1"]], kids=[a])
            out.append({"routine": root, "seed": 51 + len(out), "n_assign": 8, "native": False, "lo": 1})
    return out


def gen_cases(rng, n, max_depth):
    out = []
    while len(out) < n:
        r = H.gen_hierarchy(rng, max_depth=rng.randint(1, max_depth), p_rep=0.0, qubits=True, p_through=0.2, p_constrain=0)   # no repetitions: their own compile errors are not about sizes
        if H.count_nodes(r) > 9 or H.count_nodes(r) < 2:
            continue
        if rng.random() < 0.12 and shared_name_partial_link(rng, r):
            pass
        elif rng.random() < 0.5 and deep_link_compound(rng, r):
            pass
        elif redeclare(rng, r) == 0:
            continue
        out.append({"routine": r, "seed": rng.randint(0, 10**9), "n_assign": 4, "native": rng.random() < 0.5,
                    "lo": rng.choice([0, 1, 1])})
    return out


def emit(pairs):
    lines = [lib.CASE_HEADER.format(imports="RepModel Routine Compile CompileTop DenSrc Checks", gen_imports="")]
    items = []
    for k, (case, imp) in enumerate(pairs):
        if "compile" not in imp:
            items.append("([1%nat], [])")
            continue
        lines.append(f"Definition r{k} : routine := {H.routine_to_coq(case['routine'])}.")
        lines.append(f"Definition i{k} : impl_result := {H.impl_to_coq(imp['compile'])}.")
        evals = imp["evals"]
        if not imp["compile"].get("ok"):
            # compile failed: sample assignments over the names the model would expose cannot be known; use the declared root inputs
            rng = lib.Rng(case["seed"])
            names = H.scope_names(case["routine"])
            evals = [[{nm: rng.randint(1, 3) for nm in sorted(names)}, "n/a", []] for _ in range(case["n_assign"])]
        norm = lambda c: c if c in ("ok", "BartiqCompilationError", "n/a") else "internal"   # noqa: E731
        flat = []
        for item in evals:
            asg, cls = item[0], item[1]
            flat.append((asg, norm(cls)))
            for sc in (item[2] if len(item) > 2 else []):
                flat.append((asg, norm(sc)))       # the stepwise outcomes are judged by the same specification
        ev = E.coq_list([f"({E.coq_list([f'({E.coq_string(a)}, {E.coq_q(int(v))})' for a, v in sorted(asg.items())])}, {E.coq_string(cls)})"
                         for asg, cls in flat])
        items.append(f"(check_mismatch_case r{k} i{k} {ev})")
    lines.append("Definition results : list (list nat * list nat) :=\n " + E.coq_list(items) + ".\n")
    lines.append("Eval vm_compute in results.\n")
    return "\n".join(lines)


def nontrivial(case):
    return True


def distribution(cases):
    d = {"declared": {"const": 0, "symbol": 0, "compound": 0}}
    for c in cases:
        def go(n, root):
            if not root:
                for p in n["ports"]:
                    if p["direction"] != "output" and p["size"] is not None:
                        k = "const" if p["size"][0] == "n" else "symbol" if p["size"][0] == "s" else "compound"
                        d["declared"][k] += 1
            for ch in n["children"]:
                go(ch, False)
        go(c["routine"], True)
    return d


def mk_stream(cases):
    return {"name": "size-mismatch", "impl_stream": "mismatch", "cases": cases, "emit": emit, "shard_size": 10,
            "nontrivial": nontrivial, "distribution": distribution, "timeout": 120}


def streams(tier, seed):
    rng = lib.Rng(f"C06-{seed}")
    n = 150 if tier == "quick" else 2500
    return [mk_stream(lib.load_corpus(PROP, "size-mismatch") + deep_link_family() + fan_in_family() + local_chain_family() + gen_cases(rng, n, 3))]


def replay_streams(payload):
    return [mk_stream([payload["case"]])]
