"""C10 — compilation preserves the structure."""
import lib
from props import c01

PROP = "C10"
LEVEL = "proof"
THEOREM_FILE = "properties/C10.v"
CASE_DEPS = c01.CASE_DEPS
RULE = ("stream hier-compile (same generator as C01: seeded random hierarchies, depth<=4, random wiring DAGs, pass-throughs, through "
        "ports, deep links, repetitions, names shared between scopes); spec = names, nesting, types, ports with directions, connections and children of the real compiled tree equal the source's; every source resource is present with its type; additions are only additive/multiplicative resources some child has; tie = model vs real compile_routine; "
        "non-trivial = at least 2 routine nodes; distinct by canonical JSON hash")
TRUSTED_BASE = []
ASSUMPTIONS = []
nontrivial = c01.nontrivial


def interleaved_port_cases():
    """A child whose ports, in NAME order (the order QREF keeps them in), interleave directions -- anc (input), ctrl (through),
    data (input): every pattern of directions over three ports a < b < c, fully wired to ports of the root."""
    import itertools

    import exprs as E
    cases = []
    for dirs in itertools.product(["input", "output", "through"], repeat=3):
        ports, rports, conns = [], [], []
        for nm, d in zip("abc", dirs):
            ports.append({"name": nm, "direction": d, "size": None if d == "input" else (E.sym("N") if d == "through" else E.op("add", E.sym("N"), E.num(1)))})
            if d in ("input", "through"):
                rports.append({"name": f"i_{nm}", "direction": "input", "size": E.sym("N")})
                conns.append([f"i_{nm}", f"k.{nm}"])
            if d in ("output", "through"):
                rports.append({"name": f"o_{nm}", "direction": "output", "size": None})
                conns.append([f"k.{nm}", f"o_{nm}"])
        kid = {"name": "k", "type": None, "input_params": ["N"], "local_variables": [], "linked_params": [], "ports": ports,
               "resources": [{"name": "T", "type": "additive", "value": E.sym("N")}], "connections": [], "repetition": None, "children": []}
        root = {"name": "root", "type": None, "input_params": ["N"], "local_variables": [], "linked_params": [["N", [["k", "N"]]]],
                "ports": rports, "resources": [], "connections": conns, "repetition": None, "children": [kid]}
        cases.append({"routine": root})
    return cases


def switched_off_cases():
    """A repetition over a child with a resource of type `other` (or `qubits` under a non-constant sequence), the switch
    BARTIQ_REPETITION_ALLOW_ARBITRARY_RESOURCES unset or spelled off (False, 0): the source is refused."""
    import exprs as E

    def node(name, params=(), links=(), kids=(), res=(), rep=None):
        return {"name": name, "type": None, "input_params": list(params), "local_variables": [], "linked_params": [list(l) for l in links],
                "ports": [], "resources": list(res), "connections": [], "repetition": rep, "children": list(kids)}
    out = []
    for env in (None, "False", "0"):
        for rtype, seq in (("other", {"kind": "constant", "multiplier": E.num(1)}),
                           ("qubits", {"kind": "arithmetic", "initial_term": E.num(1), "difference": E.num(1)})):
            body = node("body", params=["N"], res=[{"name": "T", "type": "additive", "value": E.sym("N")}, {"name": "layout", "type": rtype, "value": E.num(3)}])
            loop = node("loop", params=["N"], links=[["N", [["body", "N"]]]], kids=[body], rep={"count": E.num(4), "sequence": seq})
            c = {"routine": node("root", params=["N"], links=[["N", [["loop", "N"]]]], kids=[loop]), "expect_refusal": True}
            if env is not None:
                c["env"] = {"BARTIQ_REPETITION_ALLOW_ARBITRARY_RESOURCES": env}
            out.append(c)
    return out


def own_port_passthrough_cases():
    """A routine WITH children that also wires one of its own ports straight to another of its own ports (ctrl_in -> ctrl_out, no
    child on either side), looked at in memory and as the exported document read back: the connection is there both ways."""
    import exprs as E

    def node(name, params=(), ports=(), conns=(), kids=(), links=(), res=()):
        return {"name": name, "type": None, "input_params": list(params), "local_variables": [], "linked_params": [list(l) for l in links],
                "ports": list(ports), "resources": list(res), "connections": [list(c) for c in conns], "repetition": None, "children": list(kids)}

    def port(n, d, size):
        return {"name": n, "direction": d, "size": size}
    out = []
    for depth in (1, 2):
        for via in (False, True):
            core = node("core", ports=[port("in_0", "input", E.sym("W")), port("out_0", "output", E.op("add", E.sym("W"), E.num(1)))],
                        res=[{"name": "T", "type": "additive", "value": E.op("mul", E.num(2), E.sym("W"))}])
            wrap = node("wrap", ports=[port("data_in", "input", E.sym("D")), port("ctrl_in", "input", E.sym("C")), port("data_out", "output", None), port("ctrl_out", "output", None)],
                        conns=[["data_in", "core.in_0"], ["core.out_0", "data_out"], ["ctrl_in", "ctrl_out"]], kids=[core])
            top = wrap
            for _ in range(depth):
                inner = top
                top = node("root" if _ == depth - 1 else "mid", params=["N", "M"],
                           ports=[port("data_in", "input", E.sym("N")), port("ctrl_in", "input", E.sym("M")), port("data_out", "output", None), port("ctrl_out", "output", None)],
                           conns=[["data_in", inner["name"] + ".data_in"], ["ctrl_in", inner["name"] + ".ctrl_in"], [inner["name"] + ".data_out", "data_out"], [inner["name"] + ".ctrl_out", "ctrl_out"]],
                           kids=[inner], links=([["N", [["mid", "N"]]], ["M", [["mid", "M"]]]] if inner["name"] == "mid" else []))
            out.append({"routine": top, "expect_ok": True, "via_export": via})
    return out


def closed_form_zero_cases():
    """A closed-form sequence whose sum (or product) is the NUMBER 0, as text and as a native integer: a formula that is given,
    not one that is missing -- the repeated routine's resource is 0 and the hierarchy is compiled with its structure."""
    import exprs as E

    def node(name, params=(), links=(), kids=(), res=(), rep=None):
        return {"name": name, "type": None, "input_params": list(params), "local_variables": [], "linked_params": [list(l) for l in links],
                "ports": [], "resources": list(res), "connections": [], "repetition": rep, "children": list(kids)}
    out = []
    for sm, pr in ((E.num(0), E.sym("n")), (E.sym("n"), E.num(0)), (E.num(0), E.num(0)), (E.num(3), E.num(1))):
        for native in (False, True):
            step = node("step", params=["N"], res=[{"name": "T", "type": "additive", "value": E.op("mul", E.num(3), E.sym("N"))},
                                                   {"name": "P", "type": "multiplicative", "value": E.op("add", E.sym("N"), E.num(1))}])
            loop = node("loop", params=["N", "K"], links=[["N", [["step", "N"]]]], kids=[step],
                        rep={"count": E.sym("K"), "sequence": {"kind": "closed_form", "sum": sm, "prod": pr, "num_terms_symbol": "n"}})
            prep = node("prepare", params=["N"], res=[{"name": "T", "type": "additive", "value": E.sym("N")}])
            out.append({"routine": node("walk", params=["N", "K"], links=[["N", [["prepare", "N"], ["loop", "N"]]], ["K", [["loop", "K"]]]], kids=[prep, loop]),
                        "native": native, "expect_ok": True})
    return out


def streams(tier, seed):
    rng = lib.Rng(f"C10-{seed}")
    n = 160 if tier == "quick" else 3000
    cases = lib.load_corpus(PROP, "hier-compile") + interleaved_port_cases() + switched_off_cases() + closed_form_zero_cases() + own_port_passthrough_cases() + c01.gen_cases(rng, n, 3 if tier == "quick" else 4)
    # a third of the cases are compiled with derived resources named like resources of the hierarchy whose calculator
    # answers None ("not applicable") everywhere: the compiled hierarchy must be what it is without them
    import hier as H
    for c in cases:
        if "derived_none" not in c and rng.random() < 0.34:
            names = sorted({r["name"] for n, _ in H._nodes(c["routine"]) for r in n["resources"]})
            if names:
                c["derived_none"] = rng.sample(names, min(len(names), rng.randint(1, 2)))
    for c in cases:
        if rng.random() < 0.06 and not c.get("derived_leaf") and not c.get("expect_refusal") and not c.get("expect_ok"):
            withres = [(path, nd) for nd, path in H._nodes(c["routine"]) if nd["resources"]]
            if withres:
                path, nd = rng.choice(withres)
                c["null_resource"] = [list(path), rng.choice(nd["resources"])["name"]]
    return [c01.mk_stream(cases, "check_structure")]


def replay_streams(payload):
    return [c01.mk_stream([payload["case"]], "check_structure")]
