"""C04 — compiled routines are closed over the top-level inputs."""
import lib
from props import c01

PROP = "C04"
LEVEL = "proof"
THEOREM_FILE = "properties/C04.v"
CASE_DEPS = c01.CASE_DEPS
RULE = ("stream hier-compile (same generator as C01: seeded random hierarchies, depth<=4, random wiring DAGs, pass-throughs, through "
        "ports, deep links, repetitions, names shared between scopes); spec = every symbol in every resource, port size, repetition field and retained constraint of every node of the real compiled tree is among that node's input_params and among the root's input_params; tie = model vs real compile_routine; "
        "non-trivial = at least 2 routine nodes; distinct by canonical JSON hash")
TRUSTED_BASE = []
ASSUMPTIONS = []
nontrivial = c01.nontrivial


def streams(tier, seed):
    rng = lib.Rng(f"C04-{seed}")
    n = 160 if tier == "quick" else 3000
    cases = lib.load_corpus(PROP, "hier-compile") + c01.gen_cases(rng, n, 3 if tier == "quick" else 4)
    import hier as H
    for c in cases:
        if "derived_leaf" not in c and rng.random() < 0.15 and any(nd.get("repetition") for nd, _ in H._nodes(c["routine"])):
            # compiled with an additive resource DERIVED on the leaves (compile_routine(..., derived_resources=...)): it enters
            # every repetition above a leaf; the compiled hierarchy must still be closed over the inputs
            c["derived_leaf"] = {"name": "dgates", "type": "additive", "of": rng.choice(["T", "G", "Q"]), "a": rng.randint(2, 3), "b": rng.randint(0, 5)}
    return [c01.mk_stream(cases, "check_closed")]


def replay_streams(payload):
    return [c01.mk_stream([payload["case"]], "check_closed")]
