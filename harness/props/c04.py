"""C04 — compiled routines are closed over the top-level inputs."""
import lib
from props import c01

PROP = "C04"
LEVEL = "proof"
THEOREM_FILE = "properties/C04.v"
CASE_DEPS = c01.CASE_DEPS
RULE = ("stream hier-compile (same generator as C01: seeded random hierarchies, depth<=4, random wiring DAGs, pass-throughs, through "
        "ports, deep links, repetitions, names shared between scopes); spec = every symbol in every resource, port size, repetition field and retained constraint of every node of the real compiled tree is among that node's input_params and among the root's input_params; tie = model vs real compile_routine; "
        "non-trivial = at least 2 routine nodes; distinct by canonical JSON hash")
TRUSTED_BASE = []
ASSUMPTIONS = []
nontrivial = c01.nontrivial


def declared_outputs_over_child_resources():
    """A routine with children whose OUTPUT port is declared over a resource of one of its own children (size: N + alloc.width),
    wired from inside as qref wants it, feeding a sibling one level up: the child's resource is a value like any other by the
    time the size is worked out -- the name alloc.width does not survive, anywhere."""
    import exprs as E

    def node(name, params=(), ports=(), conns=(), kids=(), links=(), res=()):
        return {"name": name, "type": None, "input_params": list(params), "local_variables": [], "linked_params": [list(l) for l in links],
                "ports": list(ports), "resources": list(res), "connections": [list(c) for c in conns], "repetition": None, "children": list(kids)}

    def port(n, d, size):
        return {"name": n, "direction": d, "size": size}
    out = []
    for rtype in ("additive", "other", "multiplicative"):
        for size in (E.op("add", E.sym("N"), E.sym("alloc.width")), E.op("mul", E.num(2), E.sym("alloc.width")), E.sym("alloc.width"),
                     E.op("max", E.sym("alloc.width"), E.op("add", E.sym("N"), E.num(1)))):
            alloc = node("alloc", params=["N"], ports=[port("out_0", "output", E.sym("N"))],
                         res=[{"name": "width", "type": rtype, "value": E.op("add", E.op("mul", E.num(2), E.sym("N")), E.num(1))}])
            user = node("user", ports=[port("in_0", "input", E.sym("W"))], res=[{"name": "T", "type": "additive", "value": E.op("mul", E.num(3), E.sym("W"))}])
            mid = node("mid", params=["N"], links=[["N", [["alloc", "N"]]]], ports=[port("out_0", "output", size)], conns=[["alloc.out_0", "out_0"]], kids=[alloc])
            out.append({"routine": node("root", params=["N"], links=[["N", [["mid", "N"]]]], conns=[["mid.out_0", "user.in_0"]], kids=[mid, user])})
            # ... and with the declaring routine as the root itself
            out.append({"routine": node("root", params=["N"], links=[["N", [["alloc", "N"]]]], ports=[port("out_0", "output", size)],
                                        conns=[["alloc.out_0", "out_0"]], kids=[alloc])})
    return out


def streams(tier, seed):
    rng = lib.Rng(f"C04-{seed}")
    n = 160 if tier == "quick" else 3000
    cases = lib.load_corpus(PROP, "hier-compile") + declared_outputs_over_child_resources() + c01.gen_cases(rng, n, 3 if tier == "quick" else 4)
    import hier as H
    for c in cases:
        if "derived_leaf" not in c and rng.random() < 0.15 and any(nd.get("repetition") for nd, _ in H._nodes(c["routine"])):
            # compiled with an additive resource DERIVED on the leaves (compile_routine(..., derived_resources=...)): it enters
            # every repetition above a leaf; the compiled hierarchy must still be closed over the inputs
            c["derived_leaf"] = {"name": "dgates", "type": "additive", "of": rng.choice(["T", "G", "Q"]), "a": rng.randint(2, 3), "b": rng.randint(0, 5)}
    return [c01.mk_stream(cases, "check_closed")]


def replay_streams(payload):
    return [c01.mk_stream([payload["case"]], "check_closed")]
