"""C04 — compiled routines are closed over the top-level inputs."""
import lib
from props import c01

PROP = "C04"
LEVEL = "proof"
THEOREM_FILE = "properties/C04.v"
CASE_DEPS = c01.CASE_DEPS
RULE = ("stream hier-compile (same generator as C01: seeded random hierarchies, depth<=4, random wiring DAGs, pass-throughs, through "
        "ports, deep links, repetitions, names shared between scopes); spec = every symbol in every resource, port size, repetition field and retained constraint of every node of the real compiled tree is among that node's input_params and among the root's input_params; tie = model vs real compile_routine; "
        "non-trivial = at least 2 routine nodes; distinct by canonical JSON hash")
TRUSTED_BASE = []
ASSUMPTIONS = []
nontrivial = c01.nontrivial


def streams(tier, seed):
    rng = lib.Rng(f"C04-{seed}")
    n = 160 if tier == "quick" else 3000
    cases = lib.load_corpus(PROP, "hier-compile") + c01.gen_cases(rng, n, 3 if tier == "quick" else 4)
    return [c01.mk_stream(cases, "check_closed")]


def replay_streams(payload):
    return [c01.mk_stream([payload["case"]], "check_closed")]
